//! Every receiver / argument form of generate, map, zip, fold, Clone, Default and the
//! by-value iterator's clone / fold / rfold, run on the real crate with recording
//! closures and an injected panic at a chosen call index (shared by c04 and c08).
//!
//! Case: [op, form, elem, N, pan, f, b]
//!   op:   0 map, 1 zip, 2 fold, 3 generate, 4 GenericArray::clone, 5 Default,
//!         6 GenericArrayIter::clone, 7 iterator fold, 8 iterator rfold
//!   form: map/fold: 0 owned, 1 &, 2 &mut, 3 Box; zip: 3*self + rhs over {0 owned, 1 &, 2 &mut}, 9 Box x Box;
//!         generate: 0 stack, 1 boxed, 2 through &S, 3 through &mut S; Default: 0 stack, 1 default_boxed
//!   elem: 0 drop-tracked `Tr`, 1 plain u32 (selects the no-drop code paths), .., 11 `Sd` (plain, stateful Default)
//!   pan:  call index at which the caller's code panics, -1 = never
//!   f, b: for the iterator ops: elements already taken from the front / back
//! OBS: outcome (0 ok, 2 panicked); result (k, ids); calls (count, then the arguments of each call);
//!      handed to the caller's code (k, ids sorted); dropped by the crate (k, ids sorted)
use crate::track::{self, Tr};
use crate::*;
use generic_array::functional::FunctionalSequence;
use generic_array::sequence::GenericSequence;
use generic_array::{ArrayLength, GenericArray};
use std::cell::RefCell;

pub trait Elem: Sized + 'static {
    const TRACKED: bool;
    fn make(id: i64) -> Self;
    fn fresh() -> Self;
    fn id(&self) -> i64;
    fn release(self);
}
impl Elem for Tr {
    const TRACKED: bool = true;
    fn make(id: i64) -> Tr {
        Tr::new(id)
    }
    fn fresh() -> Tr {
        Tr::fresh()
    }
    fn id(&self) -> i64 {
        self.id
    }
    fn release(self) {
        std::mem::forget(self)
    }
}
impl Elem for u32 {
    const TRACKED: bool = false;
    fn make(id: i64) -> u32 {
        id as u32
    }
    fn fresh() -> u32 {
        let id = track::next_id();
        track::set_next_id(id + 1);
        id as u32
    }
    fn id(&self) -> i64 {
        *self as i64
    }
    fn release(self) {}
}

/// No drop glue, not `Copy`, and a hand-written `Clone` that is observable (adds 2^20 and
/// logs the call): a bitwise "no drop glue => copy the bits" shortcut would go unnoticed
/// with `u32`.
#[derive(Debug, Default)]
pub struct Cn(pub u32);
impl Clone for Cn {
    fn clone(&self) -> Cn {
        track::log_clone(self.0 as i64, self.0 as i64 + (1 << 20));
        Cn(self.0 + (1 << 20))
    }
}
impl Elem for Cn {
    const TRACKED: bool = false;
    fn make(id: i64) -> Cn {
        Cn(id as u32)
    }
    fn fresh() -> Cn {
        Cn(<u32 as Elem>::fresh())
    }
    fn id(&self) -> i64 {
        self.0 as i64
    }
    fn release(self) {}
}
impl Arg for Cn {
    const OWNED: bool = false;
    fn arg_id(&self) -> i64 {
        self.0 as i64
    }
    fn consume(self, _: bool) {}
}
impl Arg for &Cn {
    const OWNED: bool = false;
    fn arg_id(&self) -> i64 {
        self.0 as i64
    }
    fn consume(self, _: bool) {}
}
impl Arg for &mut Cn {
    const OWNED: bool = false;
    fn arg_id(&self) -> i64 {
        self.0 as i64
    }
    fn consume(self, _: bool) {}
}

/// A zero-sized element type (identity always 0): selects the `size_of::<T>() == 0` paths
/// (e.g. the dangling pointer in the boxed `generate`); only counts and call order are observable.
#[derive(Debug, Default, Clone)]
pub struct Zs;
impl Elem for Zs {
    const TRACKED: bool = false;
    fn make(_: i64) -> Zs {
        Zs
    }
    fn fresh() -> Zs {
        Zs
    }
    fn id(&self) -> i64 {
        0
    }
    fn release(self) {}
}
impl Arg for Zs {
    const OWNED: bool = false;
    fn arg_id(&self) -> i64 {
        0
    }
    fn consume(self, _: bool) {}
}
/// zero-sized and drop-counted (track::Tz): no identities, but every creation and every destructor run is
/// counted, so a leaked or doubly dropped zero-sized element shows as a non-zero live count
impl Elem for crate::track::Tz {
    const TRACKED: bool = false;
    fn make(_: i64) -> crate::track::Tz {
        crate::track::Tz::new()
    }
    fn fresh() -> crate::track::Tz {
        crate::track::Tz::new()
    }
    fn id(&self) -> i64 {
        0
    }
    fn release(self) {
        crate::track::zforget(self)
    }
}
impl Arg for crate::track::Tz {
    const OWNED: bool = false;
    fn arg_id(&self) -> i64 {
        0
    }
    /// the caller's function takes the value out of the accounting without running its destructor, so that every
    /// destructor run that IS logged is the crate's
    fn consume(self, _: bool) {
        crate::track::zforget(self)
    }
}
impl Arg for &crate::track::Tz {
    const OWNED: bool = false;
    fn arg_id(&self) -> i64 {
        0
    }
    fn consume(self, _: bool) {}
}
impl Arg for &mut crate::track::Tz {
    const OWNED: bool = false;
    fn arg_id(&self) -> i64 {
        0
    }
    fn consume(self, _: bool) {}
}
impl Arg for &Zs {
    const OWNED: bool = false;
    fn arg_id(&self) -> i64 {
        0
    }
    fn consume(self, _: bool) {}
}
impl Arg for &mut Zs {
    const OWNED: bool = false;
    fn arg_id(&self) -> i64 {
        0
    }
    fn consume(self, _: bool) {}
}

/// An argument handed to the caller's closure: by value (then the closure owns it: it is
/// recorded as handed over and either forgotten or dropped BY THE CLOSURE, which is then
/// subtracted from the drop log) or by reference.
pub trait Arg {
    const OWNED: bool;
    fn arg_id(&self) -> i64;
    /// mode 0: forget; mode 1: drop (the destructor may be armed to panic)
    fn consume(self, drop_it: bool);
}
impl Arg for Tr {
    const OWNED: bool = true;
    fn arg_id(&self) -> i64 {
        self.id
    }
    fn consume(self, drop_it: bool) {
        if drop_it {
            drop(self)
        } else {
            std::mem::forget(self)
        }
    }
}
impl Arg for &Tr {
    const OWNED: bool = false;
    fn arg_id(&self) -> i64 {
        self.id
    }
    fn consume(self, _: bool) {}
}
impl Arg for &mut Tr {
    const OWNED: bool = false;
    fn arg_id(&self) -> i64 {
        self.id
    }
    fn consume(self, _: bool) {}
}
impl Arg for u32 {
    const OWNED: bool = false;
    fn arg_id(&self) -> i64 {
        *self as i64
    }
    fn consume(self, _: bool) {}
}
impl Arg for &u32 {
    const OWNED: bool = false;
    fn arg_id(&self) -> i64 {
        **self as i64
    }
    fn consume(self, _: bool) {}
}
impl Arg for &mut u32 {
    const OWNED: bool = false;
    fn arg_id(&self) -> i64 {
        **self as i64
    }
    fn consume(self, _: bool) {}
}

/// Plain data whose SIZE (12) is not its ALIGNMENT (4): an index or offset derived from addresses with the wrong
/// unit is wrong for it and right for every primitive scalar.
#[derive(Debug, Default, Clone, Copy, PartialEq)]
pub struct P3 {
    pub a: u32,
    pub b: u32,
    pub c: u32,
}
/// Plain two-byte data: a zip of arrays whose element SIZES differ (2 x 4, 4 x 2, 12 x 4)
#[derive(Debug, Default, Clone, Copy, PartialEq)]
pub struct H2(pub u16);
macro_rules! plain_elem {
    ($T:ty, $mk:expr, $id:expr) => {
        impl Elem for $T {
            const TRACKED: bool = false;
            fn make(id: i64) -> $T {
                $mk(id)
            }
            fn fresh() -> $T {
                $mk(<u32 as Elem>::fresh() as i64)
            }
            fn id(&self) -> i64 {
                $id(self)
            }
            fn release(self) {}
        }
        impl Arg for $T {
            const OWNED: bool = false;
            fn arg_id(&self) -> i64 {
                $id(self)
            }
            fn consume(self, _: bool) {}
        }
        impl Arg for &$T {
            const OWNED: bool = false;
            fn arg_id(&self) -> i64 {
                $id(*self)
            }
            fn consume(self, _: bool) {}
        }
        impl Arg for &mut $T {
            const OWNED: bool = false;
            fn arg_id(&self) -> i64 {
                $id(&**self)
            }
            fn consume(self, _: bool) {}
        }
    };
}
plain_elem!(P3, |id: i64| P3 { a: id as u32, b: !(id as u32), c: 0xC0FFEE }, |p: &P3| if p.b == !p.a && p.c == 0xC0FFEE { p.a as i64 } else { -1 });
/// No drop glue, not zero-sized, and a STATEFUL `Default` (serial numbers) whose FIRST value is the all-zero bit
/// pattern: `default_boxed` / `Default` must still call it once per element, in order (identity = value + 1000).
#[derive(Debug, Clone, Copy, PartialEq)]
pub struct Sd(pub u32);
impl Default for Sd {
    fn default() -> Sd {
        track::default_call();
        Sd((<u32 as Elem>::fresh() as i64 - 1000) as u32)
    }
}
plain_elem!(Sd, |id: i64| Sd((id - 1000) as u32), |s: &Sd| s.0 as i64 + 1000);
plain_elem!(H2, |id: i64| H2(id as u16), |h: &H2| h.0 as i64);

#[derive(Default)]
pub struct Rec {
    pub calls: Vec<Vec<i64>>,
    pub handed: Vec<i64>,
    /// identities the closure itself dropped (mode 1): not the crate's drops
    pub closure_dropped: Vec<i64>,
    pub pan: Option<usize>,
    /// 0: the closure panics by itself at call `pan` (its arguments forgotten first);
    /// 1: the closure drops its arguments and at call `pan` the destructor of its first owned
    ///    argument panics (falls back to 0 when that call has no owned argument)
    pub mode: i128,
}
impl Rec {
    /// records a call; returns (is this the panicking call, do we drop the arguments)
    fn call(&mut self, args: Vec<i64>) -> bool {
        let k = self.calls.len();
        self.calls.push(args);
        self.pan == Some(k)
    }
}

/// the protocol of one closure invocation over its by-value / by-reference arguments
fn invoke1<X: Arg>(rec: &RefCell<Rec>, x: X) {
    let id = x.arg_id();
    let (hit, mode) = {
        let mut r = rec.borrow_mut();
        if X::OWNED {
            r.handed.push(id);
        }
        let hit = r.call(vec![id]);
        (hit, r.mode)
    };
    if mode == 1 && X::OWNED {
        rec.borrow_mut().closure_dropped.push(id);
        if hit {
            track::arm_drop(Some(id));
        }
        x.consume(true);
    } else {
        x.consume(false);
        if hit {
            panic!("injected closure panic");
        }
    }
}
fn invoke2<X: Arg, Y: Arg>(rec: &RefCell<Rec>, x: X, y: Y) {
    let (a, b) = (x.arg_id(), y.arg_id());
    let (hit, mode) = {
        let mut r = rec.borrow_mut();
        if X::OWNED {
            r.handed.push(a);
        }
        if Y::OWNED {
            r.handed.push(b);
        }
        let hit = r.call(vec![a, b]);
        (hit, r.mode)
    };
    if mode == 1 && (X::OWNED || Y::OWNED) {
        {
            let mut r = rec.borrow_mut();
            if X::OWNED {
                r.closure_dropped.push(a);
            }
            if Y::OWNED {
                r.closure_dropped.push(b);
            }
        }
        if hit {
            track::arm_drop(Some(if X::OWNED { a } else { b }));
        }
        // x is dropped first; if its destructor panics, y is dropped by the unwinding of this frame
        x.consume(true);
        y.consume(true);
    } else {
        x.consume(false);
        y.consume(false);
        if hit {
            panic!("injected closure panic");
        }
    }
}

pub const FOLD_INIT: i64 = 5;
pub fn fold_g(k: usize, acc: i64, x: i64) -> i64 {
    (acc * 7 + x + k as i64) % 1000003
}

fn ids<'a, E: Elem + 'a>(it: impl Iterator<Item = &'a E>) -> Vec<i64> {
    it.map(|e| e.id()).collect()
}

pub struct Outcome {
    pub ok: bool,
    pub result: Vec<i64>,
}

fn arr<E: Elem, N: ArrayLength>(base: i64) -> GenericArray<E, N> {
    GenericArray::generate(|i| E::make(base + i as i64))
}

fn finish_ga<E: Elem, N: ArrayLength>(r: Result<GenericArray<E, N>, String>) -> Outcome {
    match r {
        Ok(a) => {
            let result = ids(a.iter());
            for e in a {
                e.release()
            }
            Outcome { ok: true, result }
        }
        Err(_) => Outcome { ok: false, result: vec![] },
    }
}
fn finish_box<E: Elem, N: ArrayLength>(r: Result<Box<GenericArray<E, N>>, String>) -> Outcome {
    match r {
        Ok(a) => {
            let result = ids(a.iter());
            for e in a.into_iter() {
                e.release()
            }
            Outcome { ok: true, result }
        }
        Err(_) => Outcome { ok: false, result: vec![] },
    }
}

macro_rules! f1 {
    ($rec:ident, $E:ty) => {
        |x| {
            invoke1(&$rec, x);
            <$E as Elem>::fresh()
        }
    };
}
macro_rules! f2 {
    ($rec:ident, $E:ty) => {
        |x, y| {
            invoke2(&$rec, x, y);
            <$E as Elem>::fresh()
        }
    };
}
macro_rules! g1 {
    ($rec:ident) => {
        |acc: i64, x| {
            let k = $rec.borrow().calls.len();
            let id = Arg::arg_id(&x);
            invoke1(&$rec, x);
            fold_g(k, acc, id)
        }
    };
}

/// Runs one case; returns the observable line and direct-oracle messages.
pub fn run<E, B, U, N: ArrayLength>(case: &[i128]) -> (Vec<i128>, Vec<String>)
where
    for<'a> &'a E: Arg,
    for<'a> &'a mut E: Arg,
    E: Elem + Arg + Clone + Default,
    for<'a> &'a B: Arg,
    for<'a> &'a mut B: Arg,
    B: Elem + Arg,
    U: Elem,
{
    let (op, form, _elem, n, pan) = (case[0], case[1], case[2], case[3] as usize, case[4]);
    let (front, back) = (
        case.get(5).copied().unwrap_or(0) as usize,
        case.get(6).copied().unwrap_or(0) as usize,
    );
    track::reset(1000);
    let mode = case.get(7).copied().unwrap_or(0);
    let rec = RefCell::new(Rec { pan: if pan >= 0 { Some(pan as usize) } else { None }, mode, ..Default::default() });
    let mut sources: Vec<i64> = vec![]; // identities owned by BORROWED inputs (must survive)
    let mut extra_obs: Vec<i128> = vec![];
    let start;
    let out: Outcome = match op {
        0 => {
            let a: GenericArray<E, N> = arr(0);
            start = track::log_len();
            match form {
                0 => finish_ga(catch(|| a.map(f1!(rec, U)))),
                1 => {
                    let r = finish_ga(catch(|| (&a).map(f1!(rec, U))));
                    sources = ids(a.iter());
                    std::mem::forget(a);
                    r
                }
                2 => {
                    let mut a = a;
                    let r = finish_ga(catch(|| (&mut a).map(f1!(rec, U))));
                    sources = ids(a.iter());
                    std::mem::forget(a);
                    r
                }
                _ => {
                    let b = Box::new(a);
                    finish_box(catch(|| b.map(f1!(rec, U))))
                }
            }
        }
        1 => {
            let a: GenericArray<E, N> = arr(0);
            let b: GenericArray<B, N> = arr(100);
            start = track::log_len();
            if form == 9 {
                let (a, b) = (Box::new(a), Box::new(b));
                finish_box(catch(|| a.zip(b, f2!(rec, U))))
            } else {
                let (mut a, mut b) = (a, b);
                let r = match (form / 3, form % 3) {
                    (0, 0) => finish_ga(catch(|| a.zip(b, f2!(rec, U)))),
                    (0, 1) => {
                        let r = finish_ga(catch(|| a.zip(&b, f2!(rec, U))));
                        sources.extend(ids(b.iter()));
                        std::mem::forget(b);
                        r
                    }
                    (0, _) => {
                        let r = finish_ga(catch(|| a.zip(&mut b, f2!(rec, U))));
                        sources.extend(ids(b.iter()));
                        std::mem::forget(b);
                        r
                    }
                    (1, 0) => {
                        let r = finish_ga(catch(|| (&a).zip(b, f2!(rec, U))));
                        sources.extend(ids(a.iter()));
                        std::mem::forget(a);
                        r
                    }
                    (1, 1) => {
                        let r = finish_ga(catch(|| (&a).zip(&b, f2!(rec, U))));
                        sources.extend(ids(a.iter()));
                        sources.extend(ids(b.iter()));
                        std::mem::forget(a);
                        std::mem::forget(b);
                        r
                    }
                    (1, _) => {
                        let r = finish_ga(catch(|| (&a).zip(&mut b, f2!(rec, U))));
                        sources.extend(ids(a.iter()));
                        sources.extend(ids(b.iter()));
                        std::mem::forget(a);
                        std::mem::forget(b);
                        r
                    }
                    (_, 0) => {
                        let r = finish_ga(catch(|| (&mut a).zip(b, f2!(rec, U))));
                        sources.extend(ids(a.iter()));
                        std::mem::forget(a);
                        r
                    }
                    (_, 1) => {
                        let r = finish_ga(catch(|| (&mut a).zip(&b, f2!(rec, U))));
                        sources.extend(ids(a.iter()));
                        sources.extend(ids(b.iter()));
                        std::mem::forget(a);
                        std::mem::forget(b);
                        r
                    }
                    (_, _) => {
                        let r = finish_ga(catch(|| (&mut a).zip(&mut b, f2!(rec, U))));
                        sources.extend(ids(a.iter()));
                        sources.extend(ids(b.iter()));
                        std::mem::forget(a);
                        std::mem::forget(b);
                        r
                    }
                };
                r
            }
        }
        2 => {
            let a: GenericArray<E, N> = arr(0);
            start = track::log_len();
            let r: Result<i64, String> = match form {
                0 => catch(|| a.fold(FOLD_INIT, g1!(rec))),
                1 => {
                    let r = catch(|| (&a).fold(FOLD_INIT, g1!(rec)));
                    sources = ids(a.iter());
                    std::mem::forget(a);
                    r
                }
                2 => {
                    let mut a = a;
                    let r = catch(|| (&mut a).fold(FOLD_INIT, g1!(rec)));
                    sources = ids(a.iter());
                    std::mem::forget(a);
                    r
                }
                _ => {
                    let b = Box::new(a);
                    catch(|| b.fold(FOLD_INIT, g1!(rec)))
                }
            };
            match r {
                Ok(acc) => Outcome { ok: true, result: vec![acc] },
                Err(_) => Outcome { ok: false, result: vec![] },
            }
        }
        3 => {
            start = track::log_len();
            let gen = |i: usize| {
                let hit = rec.borrow_mut().call(vec![i as i64]);
                if hit {
                    panic!("injected closure panic");
                }
                E::fresh()
            };
            match form {
                0 => finish_ga(catch(|| GenericArray::<E, N>::generate(gen))),
                1 => finish_box(catch(|| Box::<GenericArray<E, N>>::generate(gen))),
                2 => finish_ga(catch(|| <&GenericArray<E, N> as GenericSequence<E>>::generate(gen))),
                _ => finish_ga(catch(|| <&mut GenericArray<E, N> as GenericSequence<E>>::generate(gen))),
            }
        }
        4 => {
            let a: GenericArray<E, N> = arr(0);
            start = track::log_len();
            track::arm_clone(if pan >= 0 { Some(pan as u64) } else { None });
            let r = finish_ga(catch(|| a.clone()));
            track::arm_clone(None);
            sources = ids(a.iter());
            std::mem::forget(a);
            r
        }
        9 => {
            // dst.clone_from(&src): the destination (identities 100..) is the caller's the whole time; when a
            // clone() panics it must still hold its old elements, all of them alive
            let a: GenericArray<E, N> = arr(0);
            let mut d: GenericArray<E, N> = arr(100);
            start = track::log_len();
            track::arm_clone(if pan >= 0 { Some(pan as u64) } else { None });
            let r = catch(std::panic::AssertUnwindSafe(|| d.clone_from(&a)));
            track::arm_clone(None);
            sources = ids(a.iter());
            std::mem::forget(a);
            match r {
                Ok(()) => {
                    let result = ids(d.iter());
                    for e in d {
                        e.release()
                    }
                    Outcome { ok: true, result }
                }
                Err(_) => {
                    // not read, not dropped: a destination emptied by the callee must not be touched here
                    sources.extend((100..100 + n as i64).collect::<Vec<i64>>());
                    std::mem::forget(d);
                    Outcome { ok: false, result: vec![] }
                }
            }
        }
        5 => {
            start = track::log_len();
            track::arm_clone(if pan >= 0 { Some(pan as u64) } else { None });
            let r = match form {
                1 => finish_box(catch(|| GenericArray::<E, N>::default_boxed())),
                _ => finish_ga(catch(|| GenericArray::<E, N>::default())),
            };
            let calls = track::clone_calls();
            track::arm_clone(None);
            for k in 0..calls {
                rec.borrow_mut().calls.push(vec![k as i64]);
            }
            r
        }
        6 | 7 | 8 => {
            let a: GenericArray<E, N> = arr(0);
            let mut it = a.into_iter();
            for _ in 0..front {
                if let Some(e) = it.next() {
                    e.release()
                }
            }
            for _ in 0..back {
                if let Some(e) = it.next_back() {
                    e.release()
                }
            }
            let live = ids(it.as_slice().iter());
            start = track::log_len();
            if op == 6 {
                track::arm_clone(if pan >= 0 { Some(pan as u64) } else { None });
                let r = catch(|| it.clone());
                track::arm_clone(None);
                let out = match r {
                    Ok(c) => {
                        let result = ids(c.as_slice().iter());
                        for e in c {
                            e.release()
                        }
                        Outcome { ok: true, result }
                    }
                    Err(_) => Outcome { ok: false, result: vec![] },
                };
                // the original must be undisturbed: same remaining elements, all still owned by it
                let after = ids(it.as_slice().iter());
                extra_obs.push(if after == live { 1 } else { 0 });
                sources = after;
                for e in it {
                    e.release()
                }
                out
            } else {
                let r = if op == 7 {
                    catch(|| it.fold(FOLD_INIT, g1!(rec)))
                } else {
                    catch(|| it.rfold(FOLD_INIT, g1!(rec)))
                };
                match r {
                    Ok(acc) => Outcome { ok: true, result: vec![acc] },
                    Err(_) => Outcome { ok: false, result: vec![] },
                }
            }
        }
        _ => panic!("bad op"),
    };
    track::arm_drop(None);
    let log = track::log_from(start);
    let mut rec = rec.into_inner();
    // drops performed by the closure itself (mode 1) are not the crate's
    let mut dropped = track::drops_sorted(&log);
    // zero-sized drop-counted elements: every destructor run shows as identity 0 (the caller's function forgets the
    // zero-sized arguments it is handed, so every logged run is the crate's)
    dropped.extend(log.iter().filter(|e| matches!(e, track::Ev::ZDrop)).map(|_| 0i64));
    for id in &rec.closure_dropped {
        if let Some(pos) = dropped.iter().position(|d| d == id) {
            dropped.remove(pos);
        } else {
            extra_obs.push(-5); // the closure's own drop of an argument is missing from the log
        }
    }
    if op == 4 || op == 6 || op == 9 {
        // the callback is Clone::clone: the call log is the sequence of clone attempts
        for e in &log {
            if let track::Ev::Clone(from, _) = e {
                rec.calls.push(vec![*from]);
            }
        }
    }
    let mut obs: Vec<i128> = vec![if out.ok { 0 } else { 2 }];
    obs.push(out.result.len() as i128);
    obs.extend(out.result.iter().map(|x| *x as i128));
    obs.push(rec.calls.len() as i128);
    for c in &rec.calls {
        obs.extend(c.iter().map(|x| *x as i128));
    }
    let mut handed = rec.handed.clone();
    handed.sort();
    obs.push(handed.len() as i128);
    obs.extend(handed.iter().map(|x| *x as i128));
    obs.push(dropped.len() as i128);
    obs.extend(dropped.iter().map(|x| *x as i128));
    obs.extend(extra_obs);

    // direct oracle (tracked elements): everything that existed is accounted for exactly once
    let mut oracle = vec![];
    if E::TRACKED || B::TRACKED {
        let mut created: Vec<i64> = vec![];
        for e in track::log_from(0) {
            match e {
                track::Ev::New(x) => created.push(x),
                track::Ev::Clone(_, to) if to >= 0 => created.push(to),
                _ => {}
            }
        }
        // elements released before the operation started (iterator prefix/suffix) are not its business
        let mut pre_released: Vec<i64> = vec![];
        if op >= 6 {
            for i in 0..front.min(n) {
                pre_released.push(i as i64);
            }
            for i in 0..back.min(n - front.min(n)) {
                pre_released.push((n - 1 - i) as i64);
            }
        }
        created.retain(|x| !pre_released.contains(x));
        created.sort();
        // plain (untracked) inputs have no identities to account for
        sources.retain(|x| created.contains(x));
        let mut accounted: Vec<i64> = dropped.clone();
        accounted.extend(&handed);
        accounted.extend(&out.result.iter().copied().filter(|_| U::TRACKED && op != 2 && op != 7 && op != 8).collect::<Vec<_>>());
        accounted.extend(&sources);
        accounted.sort();
        if created != accounted {
            // which way: an identity accounted for twice (released twice / released and still handed out), or one
            // that is nowhere (lost: leaked)
            let twice: Vec<i64> = accounted.windows(2).filter(|w| w[0] == w[1]).map(|w| w[0]).collect();
            let unknown: Vec<i64> = accounted.iter().copied().filter(|x| !created.contains(x)).collect();
            let lost: Vec<i64> = created.iter().copied().filter(|x| !accounted.contains(x)).collect();
            let kind = if !twice.is_empty() || !unknown.is_empty() { format!("released twice {:?} / unknown {:?}", twice, unknown) } else { format!("lost {:?}", lost) };
            oracle.push(format!(
                "ownership not conserved ({}): existed {:?}; dropped {:?} + handed to caller code {:?} + returned {:?} + still owned by borrowed inputs {:?}",
                kind, created, dropped, handed, out.result, sources
            ));
        }
        if !out.ok && pan < 0 {
            oracle.push("panicked without an injected panic".to_string());
        }
    }
    (obs, oracle)
}

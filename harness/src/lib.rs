//! Shared pieces of the correspondence harness.
//!
//! Protocol (stdout, one record per line, flushed line by line so an abort
//! leaves the case that was running identifiable):
//!   `CASE <ints>`            the encoded case, written BEFORE it runs
//!   `OBS <ints>`             the canonical observables of the implementation
//!   `ORACLE <text>`          a direct property oracle failed on the last CASE
//!   `DIST <key> <count>`     input distribution counters
//!   `NOTE <text>`            free text for the evidence file
use std::cell::RefCell;
use std::collections::BTreeMap;
use std::io::Write;

#[cfg(feature = "forms")]
pub mod forms;
pub mod probe;
pub mod track;

/// SplitMix64: every random choice of a run derives from one state.
pub struct Rng(pub u64);
impl Rng {
    pub fn new(seed: u64) -> Self {
        Rng(seed ^ 0x9E37_79B9_7F4A_7C15)
    }
    pub fn next(&mut self) -> u64 {
        self.0 = self.0.wrapping_add(0x9E37_79B9_7F4A_7C15);
        let mut z = self.0;
        z = (z ^ (z >> 30)).wrapping_mul(0xBF58_476D_1CE4_E5B9);
        z = (z ^ (z >> 27)).wrapping_mul(0x94D0_49BB_1331_11EB);
        z ^ (z >> 31)
    }
    pub fn below(&mut self, n: u64) -> u64 {
        if n == 0 {
            0
        } else {
            self.next() % n
        }
    }
    pub fn chance(&mut self, num: u64, den: u64) -> bool {
        self.below(den) < num
    }
}

pub struct Args {
    pub tier: String,
    pub seed: u64,
    pub replay: Option<Vec<i128>>,
    pub extra: Vec<String>,
}

pub fn args() -> Args {
    let mut tier = "quick".to_string();
    let mut seed = 0u64;
    let mut replay = None;
    let mut extra = vec![];
    let mut it = std::env::args().skip(1);
    while let Some(a) = it.next() {
        match a.as_str() {
            "--tier" => tier = it.next().unwrap(),
            "--seed" => seed = it.next().unwrap().parse().unwrap_or(0),
            "--replay" => {
                let s = it.next().unwrap();
                replay = Some(
                    s.split(|c: char| c == ',' || c.is_whitespace())
                        .filter(|t| !t.is_empty())
                        .map(|t| t.parse::<i128>().unwrap())
                        .collect(),
                )
            }
            other => extra.push(other.to_string()),
        }
    }
    Args { tier, seed, replay, extra }
}

thread_local! {
    static DIST: RefCell<BTreeMap<String, u64>> = RefCell::new(BTreeMap::new());
}

pub fn dist(key: &str) {
    DIST.with(|d| *d.borrow_mut().entry(key.to_string()).or_insert(0) += 1);
}

pub fn flush_dist() {
    DIST.with(|d| {
        for (k, v) in d.borrow().iter() {
            println!("DIST {} {}", k, v);
        }
    });
}

fn join(v: &[i128]) -> String {
    let mut s = String::with_capacity(v.len() * 3);
    for (i, x) in v.iter().enumerate() {
        if i > 0 {
            s.push(' ');
        }
        s.push_str(&x.to_string());
    }
    s
}

pub fn emit_case(case: &[i128]) {
    let out = std::io::stdout();
    let mut o = out.lock();
    let _ = writeln!(o, "CASE {}", join(case));
    let _ = o.flush();
}

pub fn emit_obs(obs: &[i128]) {
    let out = std::io::stdout();
    let mut o = out.lock();
    let _ = writeln!(o, "OBS {}", join(obs));
    let _ = o.flush();
}

pub fn emit_oracle(msg: &str) {
    println!("ORACLE {}", msg.replace('\n', " "));
}

pub fn note(msg: &str) {
    println!("NOTE {}", msg.replace('\n', " "));
}

/// Silence the default panic message (thousands of injected panics).
pub fn quiet_panics() {
    std::panic::set_hook(Box::new(|_| {}));
}

/// Run `f`, reporting whether it unwound, and with which message.
pub fn catch<R>(f: impl FnOnce() -> R) -> Result<R, String> {
    match std::panic::catch_unwind(std::panic::AssertUnwindSafe(f)) {
        Ok(r) => Ok(r),
        Err(e) => {
            let msg = if let Some(s) = e.downcast_ref::<&str>() {
                s.to_string()
            } else if let Some(s) = e.downcast_ref::<String>() {
                s.clone()
            } else {
                "<non-string panic>".to_string()
            };
            Err(msg)
        }
    }
}

/// Monomorphise a generic function over a list of typenum lengths, selected at
/// run time: `with_len!(n, [U0, U1, ...], f::<T>(args))` calls `f::<T, UK>(args)`
/// for the `UK` whose value is `n`.
#[macro_export]
macro_rules! dispatch_len {
    ($n:expr, [$($u:ty),* $(,)?], |$N:ident| $body:expr, $default:expr) => {{
        let __n: usize = $n;
        #[allow(unused_assignments)]
        let mut __done = false;
        let mut __res = None;
        $(
            if !__done && <$u as generic_array::typenum::Unsigned>::USIZE == __n {
                type $N = $u;
                __res = Some($body);
                __done = true;
            }
        )*
        match __res { Some(r) => r, None => $default }
    }};
}

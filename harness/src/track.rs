//! Drop-tracked element types.  `Tr` carries an identity; `Tz` is a tracked
//! zero-sized type (only counts are observable).  Both log into a thread-local
//! event log and can be armed to panic in `drop` (one chosen identity, once) or
//! in `clone` (the k-th call).
use std::cell::{Cell, RefCell};

#[derive(Debug, Clone, Copy, PartialEq, Eq)]
pub enum Ev {
    New(i64),
    Clone(i64, i64),
    Drop(i64),
    ZNew,
    ZDrop,
}

thread_local! {
    static LOG: RefCell<Vec<Ev>> = RefCell::new(Vec::new());
    static NEXT_ID: Cell<i64> = Cell::new(0);
    static BOMB_DROP: Cell<Option<i64>> = Cell::new(None);
    static CLONE_CALLS: Cell<u64> = Cell::new(0);
    static BOMB_CLONE: Cell<Option<u64>> = Cell::new(None);
    static ZLIVE: Cell<i64> = Cell::new(0);
}

pub fn reset(next_id: i64) {
    LOG.with(|l| l.borrow_mut().clear());
    NEXT_ID.with(|n| n.set(next_id));
    BOMB_DROP.with(|b| b.set(None));
    BOMB_CLONE.with(|b| b.set(None));
    CLONE_CALLS.with(|c| c.set(0));
    ZLIVE.with(|z| z.set(0));
}

pub fn set_next_id(id: i64) {
    NEXT_ID.with(|n| n.set(id));
}
pub fn next_id() -> i64 {
    NEXT_ID.with(|n| n.get())
}
pub fn arm_drop(id: Option<i64>) {
    BOMB_DROP.with(|b| b.set(id));
}
pub fn arm_clone(call: Option<u64>) {
    CLONE_CALLS.with(|c| c.set(0));
    BOMB_CLONE.with(|b| b.set(call));
}
pub fn clone_calls() -> u64 {
    CLONE_CALLS.with(|c| c.get())
}
pub fn log_len() -> usize {
    LOG.with(|l| l.borrow().len())
}
pub fn log_from(start: usize) -> Vec<Ev> {
    LOG.with(|l| l.borrow()[start..].to_vec())
}
pub fn take_log() -> Vec<Ev> {
    LOG.with(|l| std::mem::take(&mut *l.borrow_mut()))
}
pub fn log_clone(from: i64, to: i64) {
    push(Ev::Clone(from, to));
}
fn push(e: Ev) {
    LOG.with(|l| l.borrow_mut().push(e));
}
pub fn zlive() -> i64 {
    ZLIVE.with(|z| z.get())
}

/// Identities dropped in `evs`, sorted (drop ORDER is not part of any property).
pub fn drops_sorted(evs: &[Ev]) -> Vec<i64> {
    let mut v: Vec<i64> = evs
        .iter()
        .filter_map(|e| if let Ev::Drop(x) = e { Some(*x) } else { None })
        .collect();
    v.sort();
    v
}
pub fn drops_in_order(evs: &[Ev]) -> Vec<i64> {
    evs.iter()
        .filter_map(|e| if let Ev::Drop(x) = e { Some(*x) } else { None })
        .collect()
}

#[derive(Debug, PartialEq, Eq, PartialOrd, Ord)]
pub struct Tr {
    pub id: i64,
}

impl Tr {
    pub fn new(id: i64) -> Tr {
        push(Ev::New(id));
        Tr { id }
    }
    pub fn fresh() -> Tr {
        let id = NEXT_ID.with(|n| {
            let v = n.get();
            n.set(v + 1);
            v
        });
        Tr::new(id)
    }
}

impl Clone for Tr {
    fn clone(&self) -> Tr {
        let k = CLONE_CALLS.with(|c| {
            let v = c.get();
            c.set(v + 1);
            v
        });
        if BOMB_CLONE.with(|b| b.get()) == Some(k) {
            BOMB_CLONE.with(|b| b.set(None));
            push(Ev::Clone(self.id, -1));
            panic!("injected clone panic");
        }
        let id = NEXT_ID.with(|n| {
            let v = n.get();
            n.set(v + 1);
            v
        });
        push(Ev::Clone(self.id, id));
        Tr { id }
    }
}

/// One call of a `Default::default` that is a callback like `Tr`'s: counted by the clone/default call counter, the
/// armed call index panics.  For element types defined elsewhere (plain ones without drop glue).
pub fn default_call() {
    let k = CLONE_CALLS.with(|c| {
        let v = c.get();
        c.set(v + 1);
        v
    });
    if BOMB_CLONE.with(|b| b.get()) == Some(k) {
        BOMB_CLONE.with(|b| b.set(None));
        panic!("injected default panic");
    }
}

/// `Default` is a callback like `Clone`: the k-th call can be armed to panic
/// (same counter as `clone`); the new identity comes from the global counter.
impl Default for Tr {
    fn default() -> Tr {
        let k = CLONE_CALLS.with(|c| {
            let v = c.get();
            c.set(v + 1);
            v
        });
        if BOMB_CLONE.with(|b| b.get()) == Some(k) {
            BOMB_CLONE.with(|b| b.set(None));
            panic!("injected default panic");
        }
        Tr::fresh()
    }
}

impl Drop for Tr {
    fn drop(&mut self) {
        push(Ev::Drop(self.id));
        if BOMB_DROP.with(|b| b.get()) == Some(self.id) {
            BOMB_DROP.with(|b| b.set(None));
            panic!("injected destructor panic");
        }
    }
}

/// Tracked ONE-BYTE type (size 1, alignment 1, with a destructor): identities 0..=255, so they may repeat in a
/// long array; creations and destructor runs are logged like Tr's
#[derive(Debug)]
pub struct Tb(pub u8);
impl Tb {
    pub fn new(id: i64) -> Tb {
        push(Ev::New(id & 255));
        Tb(id as u8)
    }
}
impl Drop for Tb {
    fn drop(&mut self) {
        push(Ev::Drop(self.0 as i64));
    }
}

/// Tracked zero-sized type: identities do not exist, so only the number of
/// live values is observable.
#[derive(Debug)]
pub struct Tz;
impl Tz {
    pub fn new() -> Tz {
        ZLIVE.with(|z| z.set(z.get() + 1));
        push(Ev::ZNew);
        Tz
    }
}
/// take a zero-sized value out of the accounting without running its destructor (the harness's own
/// disposal of a result, which is not a drop by the crate)
pub fn zforget(t: Tz) {
    ZLIVE.with(|z| z.set(z.get() - 1));
    std::mem::forget(t);
}
impl Default for Tz {
    fn default() -> Tz {
        Tz::new()
    }
}
impl Clone for Tz {
    fn clone(&self) -> Tz {
        Tz::new()
    }
}
impl Drop for Tz {
    fn drop(&mut self) {
        ZLIVE.with(|z| z.set(z.get() - 1));
        push(Ev::ZDrop);
    }
}

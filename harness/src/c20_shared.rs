// Included by bin/c20.rs and bin/c20src.rs (C20).
/// Items shared, token for token, by this binary and by every generated program.
macro_rules! shared {
    ($($t:tt)*) => {
        $($t)*
        const PRELUDE: &str = stringify!($($t)*);
    };
}

shared! {
    use generic_array::typenum;
    use generic_array::{arr, box_arr, ArrayLength, GenericArray};
    use std::cell::RefCell;

    thread_local! { static LOG: RefCell<Vec<i128>> = RefCell::new(Vec::new()); }
    pub fn lg(i: i128) { LOG.with(|l| l.borrow_mut().push(i)); }
    pub fn take_log() -> Vec<i128> { LOG.with(|l| std::mem::take(&mut *l.borrow_mut())) }

    pub trait El { fn mk(i: i128) -> Self; fn rd(&self) -> i128; }
    impl El for u32 {
        fn mk(i: i128) -> u32 { (3 + 7 * i) as u32 }
        fn rd(&self) -> i128 { *self as i128 }
    }
    impl El for String {
        fn mk(i: i128) -> String { (3 + 7 * i).to_string() }
        fn rd(&self) -> i128 { self.parse().unwrap_or(-1) }
    }
    pub struct Ck(pub i64);
    impl Clone for Ck {
        fn clone(&self) -> Ck { lg(-1 - self.0 as i128); Ck(self.0) }
    }
    impl El for Ck {
        fn mk(i: i128) -> Ck { Ck((3 + 7 * i) as i64) }
        fn rd(&self) -> i128 { self.0 as i128 }
    }
    #[derive(Clone, Copy)]
    pub struct Zs;
    impl El for Zs {
        fn mk(_: i128) -> Zs { Zs }
        fn rd(&self) -> i128 { 0 }
    }
    /// fn pointers: the value is what the function returns (elements written as distinct fn items,
    /// which only coerce to this one type inside a single array literal / with an expected type)
    impl El for fn() -> u32 {
        fn mk(_: i128) -> fn() -> u32 { fn zero() -> u32 { 0 } zero }
        fn rd(&self) -> i128 { (*self)() as i128 }
    }
    /// a u32 behind a reference (elements that borrow from a temporary): never made by `e`
    impl<'a> El for &'a u32 {
        fn mk(_: i128) -> &'a u32 { &0 }
        fn rd(&self) -> i128 { **self as i128 }
    }
    /// the i-th element expression: a side effect, then a value
    pub fn e<T: El>(i: i128) -> T { lg(i); T::mk(i) }

    /// the type-level length, independent of the contents
    pub fn usize_of<T, N: ArrayLength>(_: &GenericArray<T, N>) -> usize {
        <N as typenum::Unsigned>::USIZE
    }
    pub fn observe<T: El, N: ArrayLength>(kind: i128, a: &GenericArray<T, N>) -> Vec<i128> {
        let log = take_log();
        let s: &[T] = a.as_slice();
        let mut o = vec![0, kind, usize_of(a) as i128, s.len() as i128];
        o.extend(s.iter().map(|x| x.rd()));
        o.push(log.len() as i128);
        o.extend(log);
        o
    }
    pub fn show(tag: &str, v: &[i128]) {
        let mut s = String::from(tag);
        for x in v { s.push(' '); s.push_str(&x.to_string()); }
        let out = std::io::stdout();
        let mut o = out.lock();
        let _ = std::io::Write::write_all(&mut o, s.as_bytes());
        let _ = std::io::Write::write_all(&mut o, b"\n");
        let _ = std::io::Write::flush(&mut o);
    }
    /// CASE line first, then the invocation (under catch_unwind), then OBS
    pub fn run_case(case: &[i128], f: fn() -> Vec<i128>) {
        show("CASE", case);
        let _ = take_log();
        match std::panic::catch_unwind(f) {
            Ok(o) => show("OBS", &o),
            Err(_) => show("OBS", &[2]),
        }
    }
}


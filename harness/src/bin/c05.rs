//! C05: a panicking element destructor never causes a second drop or a stale read.
//! Case: [N, bomb(-1 none), ops..., fin]; ops: 0 next, 1 next_back, 2 n nth, 3 n nth_back;
//! fin: 20 drop(iter), 21 count, 22 last, 27 `it.clone_from(&other)` (the old contents are released while the
//! iterator stays the caller's: observed like the drop of the old contents, then the iterator is dropped).
//! OBS per op: result (0 | 1 id | 6 panicked) then k id1..idk = identities dropped during the op (sorted).
use generic_array::sequence::GenericSequence;
use generic_array::typenum::*;
use generic_array::{ArrayLength, GenericArray};
use harness::track::{self, Tr};
use harness::*;
use std::collections::BTreeMap;

fn res(out: &mut Vec<i128>, r: Result<Option<Tr>, String>, moved: &mut Vec<i64>) {
    match r {
        Ok(None) => out.push(0),
        Ok(Some(t)) => {
            out.push(1);
            out.push(t.id as i128);
            moved.push(t.id);
            std::mem::forget(t); // the caller owns it now; its later drop is not the crate's business
        }
        Err(_) => out.push(6),
    }
}

fn drops(out: &mut Vec<i128>, start: usize, all: &mut Vec<i64>) {
    let d = track::drops_sorted(&track::log_from(start));
    out.push(d.len() as i128);
    out.extend(d.iter().map(|x| *x as i128));
    all.extend(d);
}

/// [N, bomb, 28, L] `GenericArray::try_from_iter` over a source that yields L items and hides that from its
/// size_hint ((0, None)): the rejected partial / complete array is torn down inside the call;
/// [N, bomb, 23] drop the array itself; [N, bomb, 24|26, p] ArrayBuilder / IntrusiveArrayBuilder
/// with p slots written; [N, bomb, 25, p] ArrayConsumer with p elements consumed
fn teardown<N: ArrayLength>(case: &[i128]) -> (Vec<i128>, Vec<String>) {
    use generic_array::internals::{ArrayBuilder, ArrayConsumer, IntrusiveArrayBuilder};
    let n = case[0] as usize;
    let bomb = case[1] as i64;
    let p = case.get(3).copied().unwrap_or(0) as usize;
    track::reset(1000);
    let mut out = vec![];
    let mut all = vec![];
    let start;
    if case[2] == 28 {
        let l = p;
        let mut i = 0usize;
        let src = std::iter::from_fn(move || {
            if i < l {
                i += 1;
                Some(Tr::new(i as i64 - 1))
            } else {
                None
            }
        });
        track::arm_drop(if bomb >= 0 { Some(bomb) } else { None });
        let start = track::log_len();
        let r = catch(move || GenericArray::<Tr, N>::try_from_iter(src));
        match r {
            Ok(Ok(arr)) => {
                out.push(7);
                for e in arr {
                    all.push(e.id);
                    std::mem::forget(e);
                }
            }
            Ok(Err(_)) => out.push(5),
            Err(_) => out.push(6),
        }
        let d = track::drops_sorted(&track::log_from(start));
        out.push(d.len() as i128);
        out.extend(d.iter().map(|x| *x as i128));
        all.extend(d);
        track::arm_drop(None);
        let mut oracle = vec![];
        let mut sorted = all.clone();
        sorted.sort();
        for w in sorted.windows(2) {
            if w[0] == w[1] {
                oracle.push(format!("element {} released twice (destructor runs + moves to the caller)", w[0]));
            }
        }
        let delivered = if l == n { n } else { l.min(n + 1) };
        if sorted.len() > delivered {
            oracle.push(format!("{} items were delivered, {} were released or returned", delivered, sorted.len()));
        }
        return (out, oracle);
    }
    let r = match case[2] {
        23 => {
            let arr: GenericArray<Tr, N> = GenericArray::generate(|i| Tr::new(i as i64));
            track::arm_drop(if bomb >= 0 { Some(bomb) } else { None });
            start = track::log_len();
            catch(move || drop(arr))
        }
        24 => unsafe {
            let mut b = ArrayBuilder::<Tr, N>::new();
            {
                let (it, position) = b.iter_position();
                for (i, dst) in it.enumerate().take(p.min(n)) {
                    dst.write(Tr::new(i as i64));
                    *position += 1;
                }
            }
            track::arm_drop(if bomb >= 0 { Some(bomb) } else { None });
            start = track::log_len();
            catch(move || drop(b))
        },
        26 => unsafe {
            let mut storage = GenericArray::<Tr, N>::uninit();
            let mut b = IntrusiveArrayBuilder::new(&mut storage);
            {
                let (it, position) = b.iter_position();
                for (i, dst) in it.enumerate().take(p.min(n)) {
                    dst.write(Tr::new(i as i64));
                    *position += 1;
                }
            }
            track::arm_drop(if bomb >= 0 { Some(bomb) } else { None });
            start = track::log_len();
            catch(move || drop(b))
        },
        _ => unsafe {
            let arr: GenericArray<Tr, N> = GenericArray::generate(|i| Tr::new(i as i64));
            let mut c = ArrayConsumer::new(arr);
            {
                let (it, position) = c.iter_position();
                for src in it.take(p.min(n)) {
                    std::mem::forget(std::ptr::read(src));
                    *position += 1;
                }
            }
            track::arm_drop(if bomb >= 0 { Some(bomb) } else { None });
            start = track::log_len();
            catch(move || drop(c))
        },
    };
    out.push(if r.is_ok() { 5 } else { 6 });
    drops(&mut out, start, &mut all);
    track::arm_drop(None);
    let mut oracle = vec![];
    let mut sorted = all.clone();
    sorted.sort();
    for w in sorted.windows(2) {
        if w[0] == w[1] {
            oracle.push(format!("element {} dropped twice", w[0]));
        }
    }
    (out, oracle)
}

fn run<N: ArrayLength>(case: &[i128]) -> (Vec<i128>, Vec<String>) {
    if case.len() >= 3 && ((23..=26).contains(&case[2]) || case[2] == 28) {
        return teardown::<N>(case);
    }
    let n = case[0] as i64;
    let bomb = case[1] as i64;
    track::reset(1000);
    let arr: GenericArray<Tr, N> = GenericArray::generate(|i| Tr::new(i as i64));
    let mut it = arr.into_iter();
    track::arm_drop(if bomb >= 0 { Some(bomb) } else { None });
    let mut out = vec![];
    let mut moved = vec![];
    let mut dropped = vec![];
    let ops = &case[2..];
    let mut i = 0;
    let mut fin = 20;
    while i < ops.len() {
        let code = ops[i];
        i += 1;
        let start = track::log_len();
        match code {
            0 => res(&mut out, catch(|| it.next()), &mut moved),
            1 => res(&mut out, catch(|| it.next_back()), &mut moved),
            2 => {
                let k = ops[i] as usize;
                i += 1;
                res(&mut out, catch(|| it.nth(k)), &mut moved)
            }
            3 => {
                let k = ops[i] as usize;
                i += 1;
                res(&mut out, catch(|| it.nth_back(k)), &mut moved)
            }
            _ => {
                fin = code;
                break;
            }
        }
        drops(&mut out, start, &mut dropped);
    }
    let start = track::log_len();
    let mut fin27_done = false;
    match fin {
        21 => match catch(move || it.count()) {
            Ok(k) => {
                out.push(2);
                out.push(k as i128)
            }
            Err(_) => out.push(6),
        },
        22 => res(&mut out, catch(move || it.last()), &mut moved),
        27 => {
            track::arm_drop(None);
            let src = GenericArray::<Tr, N>::generate(|i| Tr::new(500 + i as i64)).into_iter();
            track::arm_drop(if bomb >= 0 { Some(bomb) } else { None });
            let start27 = track::log_len();
            match catch(std::panic::AssertUnwindSafe(|| it.clone_from(&src))) {
                Ok(()) => out.push(5),
                Err(_) => out.push(6),
            }
            drops(&mut out, start27, &mut dropped);
            track::arm_drop(None);
            // whatever the iterator holds now is released by its owner: none of the OLD elements may be among it
            let after = track::log_len();
            let _ = catch(move || drop(it));
            dropped.extend(track::drops_sorted(&track::log_from(after)).into_iter().filter(|id| *id < n));
            for e in src {
                std::mem::forget(e);
            }
            fin27_done = true;
        }
        _ => match catch(move || drop(it)) {
            Ok(()) => out.push(5),
            Err(_) => out.push(6),
        },
    }
    if !fin27_done {
        drops(&mut out, start, &mut dropped);
    }
    track::arm_drop(None);
    // direct oracle: nothing released twice, nothing handed out after its destructor ran
    let mut oracle = vec![];
    let mut cnt: BTreeMap<i64, u32> = BTreeMap::new();
    for d in dropped.iter().chain(moved.iter()) {
        *cnt.entry(*d).or_insert(0) += 1;
    }
    for (id, c) in cnt {
        if c > 1 {
            oracle.push(format!("element {} released {} times (destructor runs + moves to the caller)", id, c));
        }
        if id < 0 || id >= n {
            oracle.push(format!("unknown identity {} released", id));
        }
    }
    (out, oracle)
}

fn do_case(case: Vec<i128>) {
    emit_case(&case);
    let n = case[0] as usize;
    let r = catch(|| {
        dispatch_len!(
            n,
            [U0, U1, U2, U3, U4, U5, U6, U7, U8, U16, U33],
            |N| run::<N>(&case),
            panic!("length {} not monomorphised", n)
        )
    });
    match r {
        Ok((obs, oracle)) => {
            emit_obs(&obs);
            for o in oracle {
                emit_oracle(&o);
            }
        }
        Err(m) => {
            emit_obs(&[-99]);
            emit_oracle(&format!("unexpected panic outside catch: {}", m));
        }
    }
}

/// `--provided`: std's PROVIDED iterator methods (built on next / next_back / nth / fold by default) on the by-value
/// iterator while one element's destructor panics: find, position, any, all, skip_while, filter, max, min, rev().find,
/// step_by, for_each(drop).  Whatever the crate overrides or not, no identity may be released twice and nothing that
/// was released may be handed out.  Direct oracles.   CASE [-4, method, N, bomb, arg]   OBS [outcome, drops]
fn provided_cases(max_n: usize) {
    use harness::track::Ev;
    fn run<N: ArrayLength>(m: i128, n: usize, bomb: i64, arg: i64) {
        emit_case(&[-4, m, n as i128, bomb as i128, arg as i128]);
        track::reset(1000);
        let arr: GenericArray<Tr, N> = GenericArray::generate(|i| Tr::new(i as i64));
        let mut it = arr.into_iter();
        track::arm_drop(if bomb >= 0 { Some(bomb) } else { None });
        let mut handed: Vec<i64> = vec![];
        let r = catch(std::panic::AssertUnwindSafe(|| {
            let keep = |t: Tr, handed: &mut Vec<i64>| {
                handed.push(t.id);
                std::mem::forget(t);
            };
            match m {
                0 => { if let Some(t) = it.find(|t| t.id == arg) { keep(t, &mut handed) } }
                1 => { let _ = it.position(|t| t.id == arg); }
                2 => { let _ = it.any(|t| t.id == arg); }
                3 => { let _ = it.all(|t| t.id != arg); }
                4 => { if let Some(t) = it.by_ref().skip_while(|t| t.id < arg).next() { keep(t, &mut handed) } }
                5 => { for t in it.by_ref().filter(|t| t.id % 2 == arg % 2) { keep(t, &mut handed) } }
                6 => { if let Some(t) = it.by_ref().max() { keep(t, &mut handed) } }
                7 => { if let Some(t) = it.by_ref().min_by_key(|t| (t.id - arg).abs()) { keep(t, &mut handed) } }
                8 => { if let Some(t) = it.by_ref().rev().find(|t| t.id == arg) { keep(t, &mut handed) } }
                9 => { for t in it.by_ref().step_by(2) { keep(t, &mut handed) } }
                _ => it.by_ref().for_each(drop),
            }
        }));
        // the caller goes on using the iterator, then drops it
        let r2 = catch(std::panic::AssertUnwindSafe(|| {
            if let Some(t) = it.next() {
                handed.push(t.id);
                std::mem::forget(t);
            }
        }));
        let r3 = catch(std::panic::AssertUnwindSafe(move || drop(it)));
        track::arm_drop(None);
        let mut drops: Vec<i64> = vec![];
        for e in track::log_from(0) {
            if let Ev::Drop(x) = e {
                drops.push(x);
            }
        }
        let code = |r: &Result<(), String>| if r.is_ok() { 0 } else { 6 };
        emit_obs(&[code(&r), code(&r2), code(&r3), drops.len() as i128, handed.len() as i128]);
        let mut sorted = drops.clone();
        sorted.sort();
        for w in sorted.windows(2) {
            if w[0] == w[1] {
                emit_oracle(&format!("provided method {} (N = {}, destructor of {} panics, argument {}): element {} released twice", m, n, bomb, arg, w[0]));
                break;
            }
        }
        if bomb < 0 {
            // nothing panics: every element is handed out or released, exactly once
            let mut all: Vec<i64> = sorted.clone();
            all.extend(&handed);
            all.sort();
            let want: Vec<i64> = (0..n as i64).collect();
            if all != want {
                emit_oracle(&format!("provided method {} (N = {}, no panic, argument {}): released {:?} + handed out {:?} is not every element exactly once", m, n, arg, sorted, handed));
            }
        }
        for h in &handed {
            if drops.contains(h) {
                emit_oracle(&format!("provided method {} (N = {}, destructor of {} panics, argument {}): element {} was handed out and released by the crate", m, n, bomb, arg, h));
                break;
            }
        }
    }
    for n in 0..=max_n {
        for m in 0..11i128 {
            for bomb in -1..(n as i64) {
                for arg in 0..=(n as i64) {
                    dist("provided");
                    dispatch_len!(n, [U0, U1, U2, U3, U4, U5, U6], |N| run::<N>(m, n, bomb, arg), panic!("length"));
                }
            }
        }
    }
    flush_dist();
}

fn main() {
    let a = args();
    quiet_panics();
    if a.extra.iter().any(|x| x == "--provided") {
        provided_cases(if a.tier == "thorough" { 6 } else { 4 });
        return;
    }
    if let Some(c) = a.replay {
        do_case(c);
        return;
    }
    let max_n = if a.tier == "thorough" { 8 } else { 6 };
    // exhaustive: every position (front, back), every operation with every skip count,
    // every choice of the panicking element, every way to finish
    for n in 0..=max_n {
        for f in 0..=n {
            for b in 0..=(n - f) {
                let len = n - f - b;
                let mut ops: Vec<Vec<i128>> = vec![vec![], vec![0], vec![1]];
                for k in 0..=(len + 2) {
                    ops.push(vec![2, k as i128]);
                    ops.push(vec![3, k as i128]);
                }
                for op in &ops {
                    for bomb in -1..(n as i128) {
                        for fin in [20, 21, 22, 27] {
                            let mut case = vec![n as i128, bomb];
                            for _ in 0..f {
                                case.push(0);
                            }
                            for _ in 0..b {
                                case.push(1);
                            }
                            case.extend(op);
                            // after a caught panic the iterator is used again
                            if !op.is_empty() && op[0] >= 2 {
                                case.extend([0, 1]);
                            }
                            case.push(fin);
                            dist(&format!("fin{}", fin));
                            dist(if bomb < 0 { "nobomb" } else { "bomb" });
                            do_case(case);
                        }
                    }
                }
            }
        }
    }
    // teardown of the array itself and of the builder / consumer types at every position,
    // with every choice of the panicking element
    for n in 0..=max_n {
        for bomb in -1..(n as i128) {
            dist("teardown");
            do_case(vec![n as i128, bomb, 23]);
            for p in 0..=n {
                for kind in [24i128, 25, 26] {
                    dist("teardown");
                    do_case(vec![n as i128, bomb, kind, p as i128]);
                }
            }
        }
    }
    // the array torn down inside try_from_iter (too few / too many items, hidden from the size hint), every
    // choice of the panicking element among the items that can be delivered
    for n in (0..=max_n).chain([16usize, 33]) {
        for l in 0..=(n + 2) {
            for bomb in -1..=(n as i128) {
                dist("teardown_collect");
                do_case(vec![n as i128, bomb, 28, l as i128]);
            }
        }
    }
    // seeded histories
    let mut rng = Rng::new(a.seed);
    let count = if a.tier == "thorough" { 20000 } else { 1500 };
    let lens = [1usize, 2, 3, 5, 8, 16, 33];
    for s in 0..count {
        let n = lens[s % lens.len()];
        let bomb = if rng.chance(1, 8) { -1 } else { rng.below(n as u64) as i128 };
        let mut case = vec![n as i128, bomb];
        let steps = 1 + rng.below(6);
        for _ in 0..steps {
            match rng.below(6) {
                0 => case.push(0),
                1 => case.push(1),
                2 | 3 => {
                    case.push(2);
                    case.push(rng.below(n as u64 + 2) as i128)
                }
                _ => {
                    case.push(3);
                    case.push(rng.below(n as u64 + 2) as i128)
                }
            }
        }
        case.push(20 + rng.below(3) as i128);
        dist(&format!("N{}", n));
        do_case(case);
    }
    flush_dist();
}

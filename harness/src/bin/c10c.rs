//! C10, compile-time half: the calls of harness/src/bin/c10.rs inside `const` items.
//! An out-of-bounds slice, a pointer into another allocation, an overflow or a failed
//! assert inside the const evaluator is a hard compiler error (this bin then fails to
//! build, which the driver reports); a wrong but in-bounds result shows as an OBS
//! mismatch against the model and as an ORACLE line against the run-time result.
//! Case / observables: see c10.rs (form + 10).
#![allow(unused_comparisons)]
use generic_array::typenum::*;
use generic_array::GenericArray;
use harness::*;
use std::mem::size_of;

#[path = "c10.rs"]
mod rt;
use rt::{mk_tup, mk_u32, mk_u8, mk_unit, newc, newr, orig, val_tup, val_u32, val_u8, val_unit};


const CAP: usize = 320;

/// the calls of form 0 inside a const item
macro_rules! const_chunks {
    ($name:ident, $t:ty, $mk:path, $val:path, $N:ty, $p:expr, $l:expr, $g:expr) => {
        const $name: ([i128; CAP], usize) = {
            const M: usize = $p + $l + $g;
            let mut buf: [$t; M] = [$mk(0); M];
            let mut i = 0;
            while i < M {
                buf[i] = $mk(orig(i));
                i += 1;
            }
            let zst = size_of::<$t>() == 0;
            let mut out = [0i128; CAP];
            let mut n = 0;
            let s: &[$t] = buf.split_at($p).1.split_at($l).0;
            let (c, r) = GenericArray::<$t, $N>::chunks_from_slice(s);
            out[n] = 0;
            // offset_from is a compile error unless both pointers are in the same allocation
            out[n + 1] = if zst { 0 } else { unsafe { (c.as_ptr() as *const $t).offset_from(buf.as_ptr()) as i128 } };
            out[n + 2] = c.len() as i128;
            out[n + 3] = if zst { 0 } else { unsafe { r.as_ptr().offset_from(buf.as_ptr()) as i128 } };
            out[n + 4] = r.len() as i128;
            n += 5;
            let at = n;
            n += 1;
            let mut j = 0;
            while j < c.len() {
                let a = c[j].as_slice();
                let mut k = 0;
                while k < a.len() {
                    out[n] = $val(&a[k]);
                    n += 1;
                    k += 1;
                }
                j += 1;
            }
            out[at] = (n - at - 1) as i128;
            out[n] = r.len() as i128;
            n += 1;
            let mut k = 0;
            while k < r.len() {
                out[n] = $val(&r[k]);
                n += 1;
                k += 1;
            }
            let f = GenericArray::<$t, $N>::slice_from_chunks(c);
            out[n] = if zst { 0 } else { unsafe { f.as_ptr().offset_from(buf.as_ptr()) as i128 } };
            out[n + 1] = f.len() as i128;
            out[n + 2] = f.len() as i128;
            n += 3;
            let mut k = 0;
            while k < f.len() {
                out[n] = $val(&f[k]);
                n += 1;
                k += 1;
            }
            (out, n)
        };
    };
}

/// the calls of form 1 inside a const item
macro_rules! const_chunks_mut {
    ($name:ident, $t:ty, $mk:path, $val:path, $N:ty, $nn:expr, $p:expr, $l:expr, $g:expr) => {
        const $name: ([i128; CAP], usize) = {
            const M: usize = $p + $l + $g;
            let mut buf: [$t; M] = [$mk(0); M];
            let mut i = 0;
            while i < M {
                buf[i] = $mk(orig(i));
                i += 1;
            }
            let zst = size_of::<$t>() == 0;
            let mut out = [0i128; CAP];
            let mut n = 0;
            let base = buf.as_mut_ptr() as *const $t;
            {
                let s: &mut [$t] = buf.split_at_mut($p).1.split_at_mut($l).0;
                let (c, r) = GenericArray::<$t, $N>::chunks_from_slice_mut(s);
                out[n] = 0;
                out[n + 1] = if zst { 0 } else { unsafe { (c.as_ptr() as *const $t).offset_from(base) as i128 } };
                out[n + 2] = c.len() as i128;
                out[n + 3] = if zst { 0 } else { unsafe { r.as_ptr().offset_from(base) as i128 } };
                out[n + 4] = r.len() as i128;
                n += 5;
                let at = n;
                n += 1;
                let mut j = 0;
                while j < c.len() {
                    let a = c[j].as_slice();
                    let mut k = 0;
                    while k < a.len() {
                        out[n] = $val(&a[k]);
                        n += 1;
                        k += 1;
                    }
                    j += 1;
                }
                out[at] = (n - at - 1) as i128;
                out[n] = r.len() as i128;
                n += 1;
                let mut k = 0;
                while k < r.len() {
                    out[n] = $val(&r[k]);
                    n += 1;
                    k += 1;
                }
                let mut j = 0;
                while j < c.len() {
                    let a = c[j].as_mut_slice();
                    let mut k = 0;
                    while k < a.len() {
                        a[k] = $mk(newc(j * $nn + k));
                        k += 1;
                    }
                    j += 1;
                }
                let mut k = 0;
                while k < r.len() {
                    r[k] = $mk(newr(k));
                    k += 1;
                }
                let f = GenericArray::<$t, $N>::slice_from_chunks_mut(c);
                out[n] = if zst { 0 } else { unsafe { f.as_ptr().offset_from(base) as i128 } };
                out[n + 1] = f.len() as i128;
                out[n + 2] = f.len() as i128;
                n += 3;
                let mut k = 0;
                while k < f.len() {
                    out[n] = $val(&f[k]);
                    n += 1;
                    k += 1;
                }
                // the flattened view is a mutable one: write through it as well (the values already there, so the
                // observable is that of the run-time case; a view derived from a shared reborrow is rejected here)
                let mut k = 0;
                while k < f.len() {
                    f[k] = $mk(newc(k));
                    k += 1;
                }
            }
            out[n] = M as i128;
            n += 1;
            let mut i = 0;
            while i < M {
                out[n] = $val(&buf[i]);
                n += 1;
                i += 1;
            }
            (out, n)
        };
    };
}

/// the calls of form 6 inside a const item
macro_rules! const_native {
    ($name:ident, $t:ty, $mk:path, $val:path, $N:ty, $u:expr, $a:expr, $c:expr, $g:expr) => {
        const $name: ([i128; CAP], usize) = {
            const K: usize = $a + $c + $g;
            let mut buf: [[$t; $u]; K] = [[$mk(0); $u]; K];
            let mut j = 0;
            while j < K {
                let mut k = 0;
                while k < $u {
                    buf[j][k] = $mk(orig(j * $u + k));
                    k += 1;
                }
                j += 1;
            }
            let flat = size_of::<[$t; $u]>() == 0;
            let base = buf.as_ptr() as *const $t;
            let mut out = [0i128; CAP];
            let mut n = 0;
            let s: &[[$t; $u]] = buf.split_at($a).1.split_at($c).0;
            let gv: &[GenericArray<$t, $N>] = GenericArray::<$t, $N>::from_chunks(s);
            out[n] = if flat { 0 } else { unsafe { (gv.as_ptr() as *const $t).offset_from(base) as i128 } };
            out[n + 1] = gv.len() as i128;
            out[n + 2] = (gv.len() * $u) as i128;
            n += 3;
            let mut j = 0;
            while j < gv.len() {
                let a = gv[j].as_slice();
                let mut k = 0;
                while k < a.len() {
                    out[n] = $val(&a[k]);
                    n += 1;
                    k += 1;
                }
                j += 1;
            }
            let h: &[[$t; $u]] = GenericArray::<$t, $N>::into_chunks(gv);
            out[n] = if flat { 0 } else { unsafe { (h.as_ptr() as *const $t).offset_from(base) as i128 } };
            out[n + 1] = h.len() as i128;
            out[n + 2] = (h.len() * $u) as i128;
            n += 3;
            let mut j = 0;
            while j < h.len() {
                let mut k = 0;
                while k < $u {
                    out[n] = $val(&h[j][k]);
                    n += 1;
                    k += 1;
                }
                j += 1;
            }
            (out, n)
        };
    };
}

// shared form: (N, p, L, G) = (3,2,11,2) (8,0,16,1) (1,1,5,1) (7,3,6,1) (16,1,67,1) (2,0,0,1)
const_chunks!(CS_U8_A, u8, mk_u8, val_u8, U3, 2, 11, 2);
const_chunks!(CS_U8_B, u8, mk_u8, val_u8, U8, 0, 16, 1);
const_chunks!(CS_U8_C, u8, mk_u8, val_u8, U1, 1, 5, 1);
const_chunks!(CS_U8_D, u8, mk_u8, val_u8, U7, 3, 6, 1);
const_chunks!(CS_U8_E, u8, mk_u8, val_u8, U16, 1, 67, 1);
const_chunks!(CS_U8_F, u8, mk_u8, val_u8, U2, 0, 0, 1);
const_chunks!(CS_U32_A, u32, mk_u32, val_u32, U3, 2, 11, 2);
const_chunks!(CS_U32_B, u32, mk_u32, val_u32, U8, 0, 16, 1);
const_chunks!(CS_U32_D, u32, mk_u32, val_u32, U7, 3, 6, 1);
const_chunks!(CS_U32_E, u32, mk_u32, val_u32, U16, 1, 67, 1);
const_chunks!(CS_UNIT_A, (), mk_unit, val_unit, U3, 2, 11, 2);
const_chunks!(CS_UNIT_D, (), mk_unit, val_unit, U7, 3, 6, 1);
const_chunks!(CS_UNIT_E, (), mk_unit, val_unit, U16, 1, 67, 1);
const_chunks!(CS_TUP_A, (u8, u16), mk_tup, val_tup, U3, 2, 11, 2);
const_chunks!(CS_TUP_B, (u8, u16), mk_tup, val_tup, U8, 0, 16, 1);
const_chunks!(CS_TUP_E, (u8, u16), mk_tup, val_tup, U16, 1, 67, 1);
// the slice is the WHOLE allocation (nothing before, nothing after) and leaves a remainder: pointer arithmetic that
// steps outside the slice on its way to the remainder is an error for the const evaluator only
const_chunks!(CS_U8_G, u8, mk_u8, val_u8, U3, 0, 8, 0);
const_chunks!(CS_U32_G, u32, mk_u32, val_u32, U3, 0, 8, 0);
const_chunks!(CS_U32_H, u32, mk_u32, val_u32, U8, 0, 5, 0);
const_chunks!(CS_TUP_G, (u8, u16), mk_tup, val_tup, U7, 0, 16, 0);
// mutable form
const_chunks_mut!(CM_U8_A, u8, mk_u8, val_u8, U3, 3, 2, 11, 2);
const_chunks_mut!(CM_U8_B, u8, mk_u8, val_u8, U2, 2, 0, 9, 1);
const_chunks_mut!(CM_U8_C, u8, mk_u8, val_u8, U8, 8, 1, 35, 1);
const_chunks_mut!(CM_U32_A, u32, mk_u32, val_u32, U3, 3, 2, 11, 2);
const_chunks_mut!(CM_UNIT_A, (), mk_unit, val_unit, U3, 3, 2, 11, 2);
const_chunks_mut!(CM_TUP_A, (u8, u16), mk_tup, val_tup, U3, 3, 2, 11, 2);
const_chunks_mut!(CM_TUP_C, (u8, u16), mk_tup, val_tup, U8, 8, 1, 35, 1);
const_chunks_mut!(CM_U32_G, u32, mk_u32, val_u32, U3, 3, 0, 8, 0);
const_chunks_mut!(CM_U8_G, u8, mk_u8, val_u8, U8, 8, 0, 5, 0);
// native arrays <-> GenericArray: (N, a, C, G)
const_native!(CN_U8_A, u8, mk_u8, val_u8, U3, 3, 1, 3, 1);
const_native!(CN_U32_A, u32, mk_u32, val_u32, U8, 8, 0, 2, 1);
const_native!(CN_TUP_A, (u8, u16), mk_tup, val_tup, U7, 7, 2, 2, 0);
const_native!(CN_UNIT_A, (), mk_unit, val_unit, U3, 3, 1, 3, 1);
const_native!(CN_U8_Z, u8, mk_u8, val_u8, U0, 0, 1, 3, 1);

// N = 0 inside the const evaluator: the empty slice gives two empty results
// (a non-empty one is a compile error there, so it cannot be part of this program)
const C_N0: (usize, usize, usize) = {
    let e: [u32; 0] = [];
    let (c, r) = GenericArray::<u32, U0>::chunks_from_slice(&e);
    let f = GenericArray::<u32, U0>::slice_from_chunks(c);
    (c.len(), r.len(), f.len())
};
const C_N0_MUT: (usize, usize) = {
    let mut e: [u32; 0] = [];
    let (c, r) = GenericArray::<u32, U0>::chunks_from_slice_mut(&mut e);
    (c.len(), r.len())
};

// zero-sized elements: a slice longer than isize::MAX ELEMENTS is a valid slice (0 bytes); chunk count L / N,
// remainder L mod N, at compile time too.   huge-item rows (for the driver): NAME => N L mutable
// huge-item: C_HUGE_A => 3 9223372036854775813 0
// huge-item: C_HUGE_B => 1 18446744073709551615 0
// huge-item: C_HUGE_M => 3 9223372036854775813 1
const C_HUGE_A: (usize, usize) = {
    let s: &[()] = &[(); isize::MAX as usize + 6];
    let (c, r) = GenericArray::<(), U3>::chunks_from_slice(s);
    (c.len(), r.len())
};
const C_HUGE_B: (usize, usize) = {
    let s: &[()] = &[(); usize::MAX];
    let (c, r) = GenericArray::<(), U1>::chunks_from_slice(s);
    (c.len(), r.len())
};
const C_HUGE_M: (usize, usize) = {
    let mut a = [(); isize::MAX as usize + 6];
    let (c, r) = GenericArray::<(), U3>::chunks_from_slice_mut(&mut a);
    (c.len(), r.len())
};

fn const_cases() -> Vec<(Vec<i128>, Vec<i128>)> {
    let mut v = vec![];
    macro_rules! cc {
        ($c:ident, $form:expr, $ty:expr, $n:expr, $p:expr, $l:expr, $g:expr) => {
            v.push((vec![$form, $ty, $n, $p, $l, $g, 0], $c.0[..$c.1].to_vec()))
        };
    }
    cc!(CS_U8_A, 10, 0, 3, 2, 11, 2);
    cc!(CS_U8_B, 10, 0, 8, 0, 16, 1);
    cc!(CS_U8_C, 10, 0, 1, 1, 5, 1);
    cc!(CS_U8_D, 10, 0, 7, 3, 6, 1);
    cc!(CS_U8_E, 10, 0, 16, 1, 67, 1);
    cc!(CS_U8_F, 10, 0, 2, 0, 0, 1);
    cc!(CS_U32_A, 10, 1, 3, 2, 11, 2);
    cc!(CS_U32_B, 10, 1, 8, 0, 16, 1);
    cc!(CS_U32_D, 10, 1, 7, 3, 6, 1);
    cc!(CS_U32_E, 10, 1, 16, 1, 67, 1);
    cc!(CS_UNIT_A, 10, 2, 3, 2, 11, 2);
    cc!(CS_UNIT_D, 10, 2, 7, 3, 6, 1);
    cc!(CS_UNIT_E, 10, 2, 16, 1, 67, 1);
    cc!(CS_TUP_A, 10, 3, 3, 2, 11, 2);
    cc!(CS_TUP_B, 10, 3, 8, 0, 16, 1);
    cc!(CS_TUP_E, 10, 3, 16, 1, 67, 1);
    cc!(CS_U8_G, 10, 0, 3, 0, 8, 0);
    cc!(CS_U32_G, 10, 1, 3, 0, 8, 0);
    cc!(CS_U32_H, 10, 1, 8, 0, 5, 0);
    cc!(CS_TUP_G, 10, 3, 7, 0, 16, 0);
    cc!(CM_U8_A, 11, 0, 3, 2, 11, 2);
    cc!(CM_U8_B, 11, 0, 2, 0, 9, 1);
    cc!(CM_U8_C, 11, 0, 8, 1, 35, 1);
    cc!(CM_U32_A, 11, 1, 3, 2, 11, 2);
    cc!(CM_UNIT_A, 11, 2, 3, 2, 11, 2);
    cc!(CM_TUP_A, 11, 3, 3, 2, 11, 2);
    cc!(CM_TUP_C, 11, 3, 8, 1, 35, 1);
    cc!(CM_U32_G, 11, 1, 3, 0, 8, 0);
    cc!(CM_U8_G, 11, 0, 8, 0, 5, 0);
    cc!(CN_U8_A, 16, 0, 3, 1, 3, 1);
    cc!(CN_U32_A, 16, 1, 8, 0, 2, 1);
    cc!(CN_TUP_A, 16, 3, 7, 2, 2, 0);
    cc!(CN_UNIT_A, 16, 2, 3, 1, 3, 1);
    cc!(CN_U8_Z, 16, 0, 0, 1, 3, 1);
    v
}


fn do_case(case: Vec<i128>) {
    emit_case(&case);
    let found = const_cases().into_iter().find(|(c, _)| *c == case);
    let cobs = match found {
        Some((_, o)) => o,
        None => {
            emit_obs(&[-99]);
            emit_oracle("no such const item in this harness");
            return;
        }
    };
    let mut rtc = case.clone();
    rtc[0] -= 10;
    match catch(|| rt::run_case(&rtc)) {
        Ok(r) if r == cobs => {}
        Ok(r) => rt::oracle(format!("const evaluation {:?} differs from run time {:?}", cobs, r)),
        Err(m) => rt::oracle(format!("run-time evaluation panicked: {}", m)),
    }
    rt::finish(&cobs);
}

fn main() {
    let a = args();
    quiet_panics();
    if let Some(c) = a.replay {
        do_case(c);
        return;
    }
    assert_eq!(C_N0, (0, 0, 0));
    assert_eq!(C_N0_MUT, (0, 0));
    note("const items: chunks_from_slice(_mut) on the empty slice with N = 0 evaluated to empty results at compile time");
    const L6: usize = isize::MAX as usize + 6;
    assert_eq!(C_HUGE_A, (L6 / 3, L6 % 3));
    assert_eq!(C_HUGE_B, (usize::MAX, 0));
    assert_eq!(C_HUGE_M, (L6 / 3, L6 % 3));
    note("const items: chunks_from_slice(_mut) on zero-sized slices of isize::MAX + 6 and usize::MAX elements evaluated to L / N chunks and L mod N elements at compile time");
    for (case, _) in const_cases() {
        dist(&format!("form{}", case[0]));
        dist(&format!("ty{}", case[1]));
        do_case(case);
    }
    flush_dist();
}

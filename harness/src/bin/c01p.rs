//! C01 (compile probes): every large length typenum names, EACH IN ITS OWN CRATE.
//!
//! The main C01 binary mentions all lengths in one crate, where rustc's trait solver proves
//! `N: ArrayLength` for 2^61 before 2^62 and reuses the cached result: the depth of the type-level
//! recursion a length needs on its own (one level per binary digit, rustc's default recursion_limit
//! is 128) is invisible there.  Here every program names ONE length: it is compiled by rustc, with
//! default settings, against the generic_array rlib cargo built for this harness from the current
//! tree, and prints size_of / align_of of GenericArray<T, N> and of [T; N].
//!
//! CASE  [0, s, a, nd, d_0..d_{nd-1}, 2, 0]   (the main binary's encoding, mode 2 = size and alignment)
//! OBS   [size_of, align_of]   |   [-1] the program was rejected by rustc
//! ORACLE: rejected; size / alignment differ from those of the native array.
use harness::*;
use std::path::PathBuf;
use std::process::Command;
use std::sync::atomic::{AtomicUsize, Ordering};
use std::sync::Mutex;

struct Elem {
    name: &'static str,
    decl: &'static str,
    size: u128,
    align: u128,
    max_len: u128,
}

const ELEMS: &[Elem] = &[
    Elem { name: "()", decl: "", size: 0, align: 1, max_len: u128::MAX },
    Elem { name: "Z64", decl: "#[repr(align(64))] pub struct Z64;", size: 0, align: 64, max_len: u128::MAX },
    Elem { name: "[u16; 0]", decl: "", size: 0, align: 2, max_len: u128::MAX },
    Elem { name: "u8", decl: "", size: 1, align: 1, max_len: 1 << 56 },
    Elem { name: "u32", decl: "", size: 4, align: 4, max_len: 1 << 54 },
];

fn lengths(_thorough: bool) -> Vec<u128> {
    let mut v = vec![];
    let ks: Vec<u32> = (13..=62).collect();
    for k in ks {
        v.push((1u128 << k) - 1);
        v.push(1u128 << k);
    }
    let ts: Vec<u32> = (5..=18).collect();
    for k in ts {
        v.push(10u128.pow(k));
    }
    v.sort();
    v.dedup();
    v
}

fn digits(mut n: u128) -> Vec<i128> {
    let mut d = vec![];
    while n > 0 {
        d.push((n & 1) as i128);
        n >>= 1;
    }
    d
}

fn find_rlib() -> (PathBuf, PathBuf) {
    let exe = std::env::current_exe().expect("current_exe");
    let deps = exe.parent().unwrap().join("deps");
    let mut best: Option<(std::time::SystemTime, PathBuf)> = None;
    for e in std::fs::read_dir(&deps).expect("deps dir") {
        let p = e.unwrap().path();
        let name = p.file_name().unwrap().to_string_lossy().to_string();
        if name.starts_with("libgeneric_array-") && name.ends_with(".rlib") {
            let t = std::fs::metadata(&p).and_then(|m| m.modified()).unwrap_or(std::time::UNIX_EPOCH);
            if best.as_ref().map(|b| t > b.0).unwrap_or(true) {
                best = Some((t, p));
            }
        }
    }
    (best.expect("libgeneric_array rlib next to the harness binary").1, deps)
}

#[derive(Clone, Default)]
struct Res {
    ok: bool,
    msg: String,
    vals: Vec<(u128, u128, u128, u128)>, // per element: size, align, native size, native align
}

fn main() {
    let a = args();
    let thorough = a.tier == "thorough";
    let lens: Vec<u128> = match &a.replay {
        Some(c) => {
            // the length of the replayed case
            let nd = c[3] as usize;
            let mut n = 0u128;
            for (i, d) in c[4..4 + nd].iter().enumerate() {
                n |= (*d as u128) << i;
            }
            vec![n]
        }
        None => lengths(thorough),
    };
    let (rlib, deps) = find_rlib();
    note(&format!("rlib {}", rlib.display()));
    let out = std::env::var("VERIF_OUT").map(PathBuf::from).unwrap_or_else(|_| std::env::temp_dir());
    let dir = out.join(format!("c01p-gen-{}", std::process::id()));
    let _ = std::fs::remove_dir_all(&dir);
    std::fs::create_dir_all(&dir).expect("temp dir");

    let results: Mutex<Vec<Res>> = Mutex::new(vec![Res::default(); lens.len()]);
    let next = AtomicUsize::new(0);
    std::thread::scope(|sc| {
        for _ in 0..16 {
            sc.spawn(|| loop {
                let i = next.fetch_add(1, Ordering::SeqCst);
                if i >= lens.len() {
                    break;
                }
                let n = lens[i];
                let mut src = String::from("#![allow(warnings)]\nuse generic_array::typenum::*;\nuse generic_array::GenericArray;\nuse std::mem::{align_of, size_of};\n");
                for e in ELEMS {
                    src.push_str(e.decl);
                    src.push('\n');
                }
                src.push_str("fn main() {\n");
                for e in ELEMS {
                    if n > e.max_len {
                        src.push_str("    println!(\"skip\");\n");
                    } else {
                        src.push_str(&format!(
                            "    println!(\"{{}} {{}} {{}} {{}}\", size_of::<GenericArray<{t}, U{n}>>(), align_of::<GenericArray<{t}, U{n}>>(), size_of::<[{t}; {n}]>(), align_of::<[{t}; {n}]>());\n",
                            t = e.name,
                            n = n
                        ));
                    }
                }
                src.push_str("}\n");
                let f = dir.join(format!("p{}.rs", i));
                let bin = dir.join(format!("p{}", i));
                std::fs::write(&f, src).unwrap();
                let o = Command::new("rustc")
                    .arg("--edition=2021")
                    .arg("--crate-type=bin")
                    .arg("-C")
                    .arg("debuginfo=0")
                    .arg("--extern")
                    .arg(format!("generic_array={}", rlib.display()))
                    .arg("-L")
                    .arg(format!("dependency={}", deps.display()))
                    .arg("-o")
                    .arg(&bin)
                    .arg(&f)
                    .output()
                    .expect("rustc");
                let mut r = Res::default();
                if !o.status.success() {
                    let e = String::from_utf8_lossy(&o.stderr).to_string();
                    r.msg = e.lines().filter(|l| l.starts_with("error")).take(2).collect::<Vec<_>>().join(" / ");
                    if r.msg.is_empty() {
                        r.msg = e.chars().take(300).collect();
                    }
                } else {
                    let run = Command::new(&bin).output().expect("run probe");
                    r.ok = run.status.success();
                    for l in String::from_utf8_lossy(&run.stdout).lines() {
                        let v: Vec<u128> = l.split_whitespace().filter_map(|x| x.parse().ok()).collect();
                        if v.len() == 4 {
                            r.vals.push((v[0], v[1], v[2], v[3]));
                        } else {
                            r.vals.push((u128::MAX, 0, 0, 0));
                        }
                    }
                    if !r.ok || r.vals.len() != ELEMS.len() {
                        r.ok = false;
                        r.msg = "the probe did not run to the end".to_string();
                    }
                }
                let _ = std::fs::remove_file(&f);
                let _ = std::fs::remove_file(&bin);
                results.lock().unwrap()[i] = r;
            });
        }
    });
    let results = results.into_inner().unwrap();
    for (i, n) in lens.iter().enumerate() {
        let r = &results[i];
        let d = digits(*n);
        for (j, e) in ELEMS.iter().enumerate() {
            if *n > e.max_len {
                continue;
            }
            let mut case: Vec<i128> = vec![0, e.size as i128, e.align as i128, d.len() as i128];
            case.extend(&d);
            case.extend([2, 0]);
            emit_case(&case);
            dist(&format!("type:{}", e.name));
            dist(&format!("digits:{}", d.len()));
            if !r.ok {
                emit_obs(&[-1]);
                emit_oracle(&format!(
                    "a crate that names only GenericArray<{}, U{}> is rejected by rustc (default recursion_limit): {}",
                    e.name,
                    n,
                    r.msg.chars().take(300).collect::<String>()
                ));
                continue;
            }
            let (s, al, ns, na) = r.vals[j];
            emit_obs(&[s as i128, al as i128]);
            if s != ns || al != na {
                emit_oracle(&format!("GenericArray<{}, U{}>: size {} align {} but [T; N] has size {} align {}", e.name, n, s, al, ns, na));
            }
        }
    }
    let _ = std::fs::remove_dir_all(&dir);
    flush_dist();
}

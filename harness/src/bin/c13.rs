//! C13: ==, partial_cmp, cmp, Hash, Debug, Borrow/AsRef of GenericArray agree with
//! the slice of the same elements.
//!
//! Element codes: ty 0 u8 / 1 i32: the value; ty 2 f64: 1000 NaN, 1001 -0.0, else c/2;
//! ty 3 String: bytes as base-256 digits after a leading 1; ty 4 GenericArray<u8,U2>: 256x+y;
//! ty 5 Kv {k, v}: 256k+v -- == compares both fields, the ordering only the key;
//! ty 6 i8: the value (a ONE-BYTE type whose order is not the order of its bytes).
//! ty 8 To(i32): the value; `Ord::cmp` is TOTAL (by value) while `partial_cmp` treats the value 77 like a NaN
//! (unordered with everything, itself included): an array `cmp` routed through `partial_cmp` shows.
//! ty 9 Zn: ZERO-SIZED with a non-reflexive `==` (always false) and `partial_cmp` (always None): "a zero-sized type
//! has one value, so two arrays of it are equal" is wrong for it (comparison part only, like f64).
//! ty 7 Wb(u8): the value; one byte, no padding, no drop glue -- and a hand-written Hash that is NOT "my own
//! bytes" (write_u8(x); write_u8(0xAA)): hashing the array's memory instead of its elements shows.
//!
//! pair case    0 ty n a.. b..
//!   OBS eq ne pcmp lt le gt ge F1  cmp hmA hmB hmShort hmLong btA btB btShort btLong F2
//! single case  1 ty n k (leaf r0..r5)*k a..      r = len chars.. (Debug of the leaf alone)
//!   OBS borrow_len as_ref_len borrow_mut_len as_mut_len FB  ncalls (kind nbytes bytes..)* FH
//!       (len chars..)*6 FD
//! The reference slice is the Vec the array was built from (independent of the
//! crate's as_slice); the array's own as_slice() is checked as well.  F* = 1 iff every
//! impl-versus-slice comparison of that group agreed (0 also raises ORACLE).
use generic_array::typenum::{U0, U1, U15, U16, U17, U2, U3, U31, U32, U33, U4, U5, U64, U65, U8};
use generic_array::{ArrayLength, GenericArray};
use harness::*;
type U1025 = generic_array::typenum::Sum<generic_array::typenum::U1024, U1>;
use std::borrow::{Borrow, BorrowMut};
use std::cmp::Ordering;
use std::collections::hash_map::DefaultHasher;
use std::collections::{BTreeMap, HashMap};
use std::fmt::Debug;
use std::hash::{Hash, Hasher};

// ---------------------------------------------------------------- recording hasher
#[derive(Default, PartialEq, Eq, Debug, Clone)]
struct Rec {
    calls: Vec<(u8, Vec<u8>)>,
}
impl Hasher for Rec {
    fn finish(&self) -> u64 {
        0
    }
    fn write(&mut self, bytes: &[u8]) {
        self.calls.push((0, bytes.to_vec()));
    }
    fn write_u8(&mut self, i: u8) {
        self.calls.push((1, i.to_le_bytes().to_vec()));
    }
    fn write_u16(&mut self, i: u16) {
        self.calls.push((2, i.to_le_bytes().to_vec()));
    }
    fn write_u32(&mut self, i: u32) {
        self.calls.push((3, i.to_le_bytes().to_vec()));
    }
    fn write_u64(&mut self, i: u64) {
        self.calls.push((4, i.to_le_bytes().to_vec()));
    }
    fn write_u128(&mut self, i: u128) {
        self.calls.push((5, i.to_le_bytes().to_vec()));
    }
    fn write_usize(&mut self, i: usize) {
        self.calls.push((6, (i as u64).to_le_bytes().to_vec()));
    }
    fn write_i8(&mut self, i: i8) {
        self.calls.push((7, i.to_le_bytes().to_vec()));
    }
    fn write_i16(&mut self, i: i16) {
        self.calls.push((8, i.to_le_bytes().to_vec()));
    }
    fn write_i32(&mut self, i: i32) {
        self.calls.push((9, i.to_le_bytes().to_vec()));
    }
    fn write_i64(&mut self, i: i64) {
        self.calls.push((10, i.to_le_bytes().to_vec()));
    }
    fn write_i128(&mut self, i: i128) {
        self.calls.push((11, i.to_le_bytes().to_vec()));
    }
    fn write_isize(&mut self, i: isize) {
        self.calls.push((12, (i as i64).to_le_bytes().to_vec()));
    }
}
fn rec<H: Hash + ?Sized>(x: &H) -> Rec {
    let mut r = Rec::default();
    x.hash(&mut r);
    r
}
fn sip<H: Hash + ?Sized>(x: &H) -> u64 {
    let mut r = DefaultHasher::new();
    x.hash(&mut r);
    r.finish()
}

// ---------------------------------------------------------------- element types
const NF: usize = 6;
fn renders<D: Debug>(x: &D) -> [String; NF] {
    [
        format!("{:?}", x),
        format!("{:#?}", x),
        format!("{:5?}", x),
        format!("{:.2?}", x),
        format!("{:08.3?}", x),
        format!("{:#7.1?}", x),
    ]
}

thread_local! {
    /// element comparisons made so far by a counting element type (Kv): == and the orderings
    static CMP_CALLS: std::cell::Cell<usize> = std::cell::Cell::new(0);
}
fn cmp_calls_take() -> usize {
    CMP_CALLS.with(|c| c.replace(0))
}
fn cmp_call() {
    CMP_CALLS.with(|c| c.set(c.get() + 1));
}

trait Elem: Clone + PartialOrd + Debug {
    /// does this element type count its comparisons (CMP_CALLS)?
    const COUNTS: bool = false;
    fn dec(code: i128) -> Self;
    /// same value (bit pattern for floats: NaN is itself, -0.0 is not 0.0)
    fn same(&self, o: &Self) -> bool;
    /// the leaves of this element, as (leaf code, Debug renderings of the leaf alone)
    fn leaves(code: i128) -> Vec<(i128, [String; NF])> {
        vec![(code, renders(&Self::dec(code)))]
    }
}
impl Elem for u8 {
    fn dec(c: i128) -> Self {
        c as u8
    }
    fn same(&self, o: &Self) -> bool {
        self == o
    }
}
impl Elem for i32 {
    fn dec(c: i128) -> Self {
        c as i32
    }
    fn same(&self, o: &Self) -> bool {
        self == o
    }
}
impl Elem for i8 {
    fn dec(c: i128) -> Self {
        c as i8
    }
    fn same(&self, o: &Self) -> bool {
        self == o
    }
}
impl Elem for f64 {
    fn dec(c: i128) -> Self {
        match c {
            1000 => f64::NAN,
            1001 => -0.0,
            _ => c as f64 / 2.0,
        }
    }
    fn same(&self, o: &Self) -> bool {
        self.to_bits() == o.to_bits()
    }
}
impl Elem for String {
    fn dec(mut c: i128) -> Self {
        let mut bytes = vec![];
        while c > 1 {
            bytes.push((c % 256) as u8);
            c /= 256;
        }
        bytes.reverse();
        String::from_utf8(bytes).unwrap()
    }
    fn same(&self, o: &Self) -> bool {
        self == o
    }
}
/// equality finer than the ordering: == looks at both fields, partial_cmp / cmp at the key only
#[derive(Clone, Debug, Eq, Hash)]
struct Kv {
    k: u8,
    v: u8,
}
/// hand-written and COUNTED: the array's == / orderings must consult the elements exactly as often as the
/// slice's do (they stop at the first element that decides)
impl PartialEq for Kv {
    fn eq(&self, o: &Kv) -> bool {
        cmp_call();
        self.k == o.k && self.v == o.v
    }
}
impl PartialOrd for Kv {
    fn partial_cmp(&self, o: &Kv) -> Option<Ordering> {
        cmp_call();
        Some(self.k.cmp(&o.k))
    }
}
impl Ord for Kv {
    fn cmp(&self, o: &Kv) -> Ordering {
        cmp_call();
        self.k.cmp(&o.k)
    }
}
impl Elem for Kv {
    const COUNTS: bool = true;
    fn dec(c: i128) -> Self {
        Kv { k: (c / 256) as u8, v: (c % 256) as u8 }
    }
    fn same(&self, o: &Self) -> bool {
        self.k == o.k && self.v == o.v
    }
}
/// "scalar-like" (size 1, alignment 1, no drop glue) with a hand-written Hash that feeds two calls per value
#[derive(Clone, Copy, Debug, PartialEq, Eq, PartialOrd, Ord)]
struct Wb(u8);
impl Hash for Wb {
    fn hash<H: Hasher>(&self, state: &mut H) {
        state.write_u8(self.0);
        state.write_u8(0xAA);
    }
}
impl Elem for Wb {
    fn dec(c: i128) -> Self {
        Wb(c as u8)
    }
    fn same(&self, o: &Self) -> bool {
        self == o
    }
}
/// total `Ord`, partial `PartialOrd` / `PartialEq` (the pattern of a float wrapper ordered by total_cmp)
#[derive(Clone, Copy, Debug, Hash)]
struct To(i32);
impl PartialEq for To {
    fn eq(&self, o: &To) -> bool {
        self.0 == o.0
    }
}
impl Eq for To {}
impl PartialOrd for To {
    fn partial_cmp(&self, o: &To) -> Option<Ordering> {
        if self.0 == 77 || o.0 == 77 {
            None
        } else {
            Some(self.0.cmp(&o.0))
        }
    }
}
impl Ord for To {
    fn cmp(&self, o: &To) -> Ordering {
        self.0.cmp(&o.0)
    }
}
impl Elem for To {
    fn dec(c: i128) -> Self {
        To(c as i32)
    }
    fn same(&self, o: &Self) -> bool {
        self.0 == o.0
    }
}
/// zero-sized, never equal to anything (itself included), never ordered
#[derive(Clone, Copy, Debug)]
struct Zn;
impl PartialEq for Zn {
    fn eq(&self, _: &Zn) -> bool {
        false
    }
}
impl PartialOrd for Zn {
    fn partial_cmp(&self, _: &Zn) -> Option<Ordering> {
        None
    }
}
impl Elem for Zn {
    fn dec(_: i128) -> Self {
        Zn
    }
    fn same(&self, _: &Self) -> bool {
        true
    }
}
type Nest = GenericArray<u8, U2>;
impl Elem for Nest {
    fn dec(c: i128) -> Self {
        GenericArray::from_array([(c / 256) as u8, (c % 256) as u8])
    }
    fn same(&self, o: &Self) -> bool {
        self[0] == o[0] && self[1] == o[1]
    }
    fn leaves(code: i128) -> Vec<(i128, [String; NF])> {
        vec![(code / 256, renders(&((code / 256) as u8))), (code % 256, renders(&((code % 256) as u8)))]
    }
}

fn oc(o: Option<Ordering>) -> i128 {
    match o {
        None => 0,
        Some(Ordering::Less) => 1,
        Some(Ordering::Equal) => 2,
        Some(Ordering::Greater) => 3,
    }
}

struct Chk {
    ok: bool,
    msgs: Vec<String>,
}
impl Chk {
    fn new() -> Self {
        Chk { ok: true, msgs: vec![] }
    }
    fn that(&mut self, what: &str, cond: bool) {
        if !cond {
            self.ok = false;
            self.msgs.push(what.to_string());
        }
    }
    fn flag(&mut self, out: &mut Vec<i128>, orc: &mut Vec<String>) {
        out.push(self.ok as i128);
        orc.append(&mut self.msgs);
        self.ok = true;
    }
}

fn build<T: Elem, N: ArrayLength>(v: &[T]) -> GenericArray<T, N> {
    GenericArray::from_iter(v.iter().cloned())
}

// ---------------------------------------------------------------- pair cases
fn pair_common<T: Elem, N: ArrayLength>(va: &[T], vb: &[T], out: &mut Vec<i128>, orc: &mut Vec<String>) {
    let a: GenericArray<T, N> = build(va);
    let b: GenericArray<T, N> = build(vb);
    let (sa, sb) = (va, vb);
    let eq = a == b;
    let ne = a != b;
    let pc = a.partial_cmp(&b);
    let (lt, le, gt, ge) = (a < b, a <= b, a > b, a >= b);
    out.extend([eq as i128, ne as i128, oc(pc), lt as i128, le as i128, gt as i128, ge as i128]);
    let mut c = Chk::new();
    c.that("== differs from the slices'", eq == (sa == sb));
    c.that("== differs from as_slice()'s", eq == (a.as_slice() == b.as_slice()));
    c.that("!= differs from the slices'", ne == (sa != sb));
    c.that("partial_cmp differs from the slices'", pc == sa.partial_cmp(sb));
    c.that("partial_cmp differs from as_slice()'s", pc == a.as_slice().partial_cmp(b.as_slice()));
    c.that("< differs from the slices'", lt == (sa < sb));
    c.that("<= differs from the slices'", le == (sa <= sb));
    c.that("> differs from the slices'", gt == (sa > sb));
    c.that(">= differs from the slices'", ge == (sa >= sb));
    if T::COUNTS {
        // how often the elements are consulted: the array's operators stop where the slice's stop
        let count = |f: &dyn Fn()| {
            let _ = cmp_calls_take();
            f();
            cmp_calls_take()
        };
        c.that("== consults the elements more or less often than the slices' ==", count(&|| { let _ = a == b; }) == count(&|| { let _ = sa == sb; }));
        c.that("!= consults the elements more or less often than the slices' !=", count(&|| { let _ = a != b; }) == count(&|| { let _ = sa != sb; }));
        c.that("partial_cmp consults the elements more or less often than the slices'", count(&|| { let _ = a.partial_cmp(&b); }) == count(&|| { let _ = sa.partial_cmp(sb); }));
        c.that("< consults the elements more or less often than the slices' <", count(&|| { let _ = a < b; }) == count(&|| { let _ = sa < sb; }));
    }
    // one-byte elements: the same two arrays as VIEWS at eight different relative alignments inside one buffer
    if std::mem::size_of::<T>() == 1 && N::USIZE > 0 {
        let n = N::USIZE;
        let mut buf: Vec<T> = Vec::with_capacity(2 * n + 80);
        for _ in 0..(2 * n + 80) {
            buf.push(va[0].clone());
        }
        for k in 0..8usize {
            let (o1, o2) = (k % 3, n + 64 + k);
            for i in 0..n {
                buf[o1 + i] = va[i].clone();
                buf[o2 + i] = vb[i].clone();
            }
            let x = GenericArray::<T, N>::from_slice(&buf[o1..o1 + n]);
            let y = GenericArray::<T, N>::from_slice(&buf[o2..o2 + n]);
            c.that("== of two views at different alignments differs from the values'", (x == y) == eq);
            c.that("partial_cmp of two views at different alignments differs from the values'", x.partial_cmp(y) == pc);
        }
    }
    // mixed: the array against itself is what the slice says about itself
    c.that("a == a differs from the slice's", (a == a) == (sa == sa));
    c.that("a.partial_cmp(a) differs from the slice's", a.partial_cmp(&a) == sa.partial_cmp(sa));
    c.flag(out, orc);
}

fn get<V: Copy + Into<i128>>(o: Option<&V>) -> i128 {
    match o {
        None => 0,
        Some(v) => (*v).into(),
    }
}

fn pair_full<T: Elem + Ord + Hash, N: ArrayLength>(va: &[T], vb: &[T], out: &mut Vec<i128>, orc: &mut Vec<String>) {
    let a: GenericArray<T, N> = build(va);
    let b: GenericArray<T, N> = build(vb);
    let n = va.len();
    let mut c = Chk::new();
    let cm = a.cmp(&b);
    out.push(oc(Some(cm)));
    c.that("cmp differs from the slices'", cm == va.cmp(vb));
    c.that("cmp differs from as_slice()'s", cm == a.as_slice().cmp(b.as_slice()));
    c.that("a.cmp(a) differs from the slice's", a.cmp(&a) == va.cmp(va));
    if T::COUNTS {
        let _ = cmp_calls_take();
        let _ = a.cmp(&b);
        let na = cmp_calls_take();
        let _ = va.cmp(vb);
        let ns = cmp_calls_take();
        c.that("cmp consults the elements more or less often than the slices' cmp", na == ns);
    }
    c.that("max/min differ from the slices'", {
        let mx = a.clone().max(b.clone());
        let sm: &[T] = va.max(vb);
        mx.as_slice() == sm
    });

    let short: Vec<T> = if n > 0 { va[..n - 1].to_vec() } else { vec![] };
    let long: Vec<T> = va.iter().chain(vb.iter()).cloned().collect();

    let mut hm: HashMap<GenericArray<T, N>, i32> = HashMap::new();
    hm.insert(a.clone(), 1);
    hm.insert(b.clone(), 2);
    let mut hr: HashMap<Vec<T>, i32> = HashMap::new();
    hr.insert(va.to_vec(), 1);
    hr.insert(vb.to_vec(), 2);
    let mut bt: BTreeMap<GenericArray<T, N>, i32> = BTreeMap::new();
    bt.insert(a.clone(), 1);
    bt.insert(b.clone(), 2);
    let mut br: BTreeMap<Vec<T>, i32> = BTreeMap::new();
    br.insert(va.to_vec(), 1);
    br.insert(vb.to_vec(), 2);
    c.that("HashMap sizes differ", hm.len() == hr.len());
    c.that("BTreeMap sizes differ", bt.len() == br.len());

    let mut queries: Vec<Option<&[T]>> = vec![Some(va), Some(vb)];
    queries.push(if n > 0 { Some(&short[..]) } else { None });
    queries.push(Some(&long[..]));
    for (qi, q) in queries.iter().enumerate() {
        match q {
            None => out.push(-1),
            Some(q) => {
                let r = hm.get::<[T]>(q);
                out.push(get(r));
                c.that(&format!("HashMap lookup {} by &[T] differs from HashMap<Vec<T>>", qi), r == hr.get::<[T]>(q));
            }
        }
    }
    for (qi, q) in queries.iter().enumerate() {
        match q {
            None => out.push(-1),
            Some(q) => {
                let r = bt.get::<[T]>(q);
                out.push(get(r));
                c.that(&format!("BTreeMap lookup {} by &[T] differs from BTreeMap<Vec<T>>", qi), r == br.get::<[T]>(q));
            }
        }
    }
    // by the key itself and by the key's own borrow
    c.that("HashMap lookup by key != by its borrow", hm.get(&a) == hm.get::<[T]>(Borrow::<[T]>::borrow(&a)));
    c.that("BTreeMap lookup by key != by its borrow", bt.get(&b) == bt.get::<[T]>(Borrow::<[T]>::borrow(&b)));
    c.that("HashMap: inserted key not found by slice", hm.get::<[T]>(va).is_some() && hm.get::<[T]>(vb).is_some());
    c.that("BTreeMap: inserted key not found by slice", bt.get::<[T]>(va).is_some() && bt.get::<[T]>(vb).is_some());
    c.flag(out, orc);
}

// ---------------------------------------------------------------- single cases
fn chars(out: &mut Vec<i128>, s: &str) {
    out.push(s.chars().count() as i128);
    out.extend(s.chars().map(|c| c as i128));
}

fn single_views<T: Elem, N: ArrayLength>(va: &[T], out: &mut Vec<i128>, orc: &mut Vec<String>) {
    let mut a: GenericArray<T, N> = build(va);
    let base = &a as *const GenericArray<T, N> as *const T;
    let mut c = Chk::new();
    let same_as = |s: &[T], v: &[T]| s.len() == v.len() && s.iter().zip(v.iter()).all(|(x, y)| x.same(y));
    {
        let b: &[T] = Borrow::<[T]>::borrow(&a);
        out.push(b.len() as i128);
        c.that("borrow() is not the array's storage", b.as_ptr() == base && b.as_ptr() == a.as_slice().as_ptr());
        c.that("borrow() has other elements", same_as(b, va));
        let r: &[T] = AsRef::<[T]>::as_ref(&a);
        out.push(r.len() as i128);
        c.that("as_ref() is not the array's storage", r.as_ptr() == base);
        c.that("as_ref() has other elements", same_as(r, va));
        c.that("as_slice() has other elements", same_as(a.as_slice(), va));
        c.that("deref has other elements", same_as(&a, va));
    }
    {
        let b: &mut [T] = BorrowMut::<[T]>::borrow_mut(&mut a);
        out.push(b.len() as i128);
        c.that("borrow_mut() is not the array's storage", b.as_ptr() == base);
        c.that("borrow_mut() has other elements", same_as(b, va));
    }
    {
        let r: &mut [T] = AsMut::<[T]>::as_mut(&mut a);
        out.push(r.len() as i128);
        c.that("as_mut() is not the array's storage", r.as_ptr() == base);
        c.that("as_mut() has other elements", same_as(r, va));
    }
    c.flag(out, orc);
}

fn single_hash<T: Elem + Hash, N: ArrayLength>(va: &[T], out: &mut Vec<i128>, orc: &mut Vec<String>) {
    let a: GenericArray<T, N> = build(va);
    let mut c = Chk::new();
    let ra = rec(&a);
    out.push(ra.calls.len() as i128);
    for (k, bytes) in &ra.calls {
        out.push(*k as i128);
        out.push(bytes.len() as i128);
        out.extend(bytes.iter().map(|b| *b as i128));
    }
    c.that("hasher feed differs from the slice's", ra == rec::<[T]>(va));
    c.that("hasher feed differs from as_slice()'s", ra == rec::<[T]>(a.as_slice()));
    c.that("hasher feed differs from borrow()'s", ra == rec::<[T]>(Borrow::<[T]>::borrow(&a)));
    c.that("SipHash differs from the slice's", sip(&a) == sip::<[T]>(va));
    c.that("hash of &array differs", ra == rec(&&a));
    c.flag(out, orc);
}

fn single_debug<T: Elem, N: ArrayLength>(va: &[T], out: &mut Vec<i128>, orc: &mut Vec<String>) {
    let a: GenericArray<T, N> = build(va);
    let mut c = Chk::new();
    macro_rules! one {
        ($f:literal) => {{
            let s = format!($f, a);
            chars(out, &s);
            c.that(concat!("Debug ", $f, " differs from the slice's"), s == format!($f, va));
            c.that(concat!("Debug ", $f, " differs from as_slice()'s"), s == format!($f, a.as_slice()));
        }};
    }
    one!("{:?}");
    one!("{:#?}");
    one!("{:5?}");
    one!("{:.2?}");
    one!("{:08.3?}");
    one!("{:#7.1?}");
    c.flag(out, orc);
}

// ---------------------------------------------------------------- dispatch
macro_rules! with_n {
    ($n:expr, |$N:ident| $body:expr) => {
        dispatch_len!(
            $n,
            [U0, U1, U2, U3, U4, U5, U8, U15, U16, U17, U31, U32, U33, U64, U65, U1025],
            |$N| $body,
            panic!("length {} not monomorphised", $n)
        )
    };
}

fn pair_partial_only<T: Elem>(a: &[i128], b: &[i128], out: &mut Vec<i128>, orc: &mut Vec<String>) {
    let va: Vec<T> = a.iter().map(|c| T::dec(*c)).collect();
    let vb: Vec<T> = b.iter().map(|c| T::dec(*c)).collect();
    with_n!(va.len(), |N| pair_common::<T, N>(&va, &vb, out, orc));
    out.extend([-1i128; 9]);
    out.push(1);
}
fn pair_all<T: Elem + Ord + Hash>(a: &[i128], b: &[i128], out: &mut Vec<i128>, orc: &mut Vec<String>) {
    let va: Vec<T> = a.iter().map(|c| T::dec(*c)).collect();
    let vb: Vec<T> = b.iter().map(|c| T::dec(*c)).collect();
    with_n!(va.len(), |N| {
        pair_common::<T, N>(&va, &vb, out, orc);
        pair_full::<T, N>(&va, &vb, out, orc)
    });
}
fn single_nohash<T: Elem>(a: &[i128], out: &mut Vec<i128>, orc: &mut Vec<String>) {
    let va: Vec<T> = a.iter().map(|c| T::dec(*c)).collect();
    with_n!(va.len(), |N| {
        single_views::<T, N>(&va, out, orc);
        out.extend([-1, 1]);
        single_debug::<T, N>(&va, out, orc)
    });
}
fn single_all<T: Elem + Hash>(a: &[i128], out: &mut Vec<i128>, orc: &mut Vec<String>) {
    let va: Vec<T> = a.iter().map(|c| T::dec(*c)).collect();
    with_n!(va.len(), |N| {
        single_views::<T, N>(&va, out, orc);
        single_hash::<T, N>(&va, out, orc);
        single_debug::<T, N>(&va, out, orc)
    });
}

fn run_case(case: &[i128]) -> (Vec<i128>, Vec<String>) {
    let mut out = vec![];
    let mut orc = vec![];
    let (kind, ty, n) = (case[0], case[1], case[2] as usize);
    if kind == 0 {
        let a = &case[3..3 + n];
        let b = &case[3 + n..3 + 2 * n];
        match ty {
            0 => pair_all::<u8>(a, b, &mut out, &mut orc),
            1 => pair_all::<i32>(a, b, &mut out, &mut orc),
            2 => pair_partial_only::<f64>(a, b, &mut out, &mut orc),
            3 => pair_all::<String>(a, b, &mut out, &mut orc),
            4 => pair_all::<Nest>(a, b, &mut out, &mut orc),
            5 => pair_all::<Kv>(a, b, &mut out, &mut orc),
            6 => pair_all::<i8>(a, b, &mut out, &mut orc),
            7 => pair_all::<Wb>(a, b, &mut out, &mut orc),
            8 => pair_all::<To>(a, b, &mut out, &mut orc),
            9 => pair_partial_only::<Zn>(a, b, &mut out, &mut orc),
            _ => panic!("bad type {}", ty),
        }
    } else {
        // skip the rendering table (an input of the model only)
        let k = case[3] as usize;
        let mut i = 4;
        for _ in 0..k {
            i += 1;
            for _ in 0..NF {
                i += 1 + case[i] as usize;
            }
        }
        let a = &case[i..i + n];
        match ty {
            0 => single_all::<u8>(a, &mut out, &mut orc),
            1 => single_all::<i32>(a, &mut out, &mut orc),
            2 => single_nohash::<f64>(a, &mut out, &mut orc),
            3 => single_all::<String>(a, &mut out, &mut orc),
            4 => single_all::<Nest>(a, &mut out, &mut orc),
            5 => single_all::<Kv>(a, &mut out, &mut orc),
            6 => single_all::<i8>(a, &mut out, &mut orc),
            7 => single_all::<Wb>(a, &mut out, &mut orc),
            8 => single_all::<To>(a, &mut out, &mut orc),
            9 => single_nohash::<Zn>(a, &mut out, &mut orc),
            _ => panic!("bad type {}", ty),
        }
    }
    (out, orc)
}

fn do_case(case: Vec<i128>) {
    emit_case(&case);
    match catch(|| run_case(&case)) {
        Ok((obs, orc)) => {
            emit_obs(&obs);
            for m in orc {
                emit_oracle(&m);
            }
        }
        Err(m) => {
            emit_obs(&[-99]);
            emit_oracle(&format!("unexpected panic: {}", m));
        }
    }
}

// ---------------------------------------------------------------- case generation
fn leaves_of(ty: i128, code: i128) -> Vec<(i128, [String; NF])> {
    match ty {
        0 => <u8 as Elem>::leaves(code),
        1 => <i32 as Elem>::leaves(code),
        2 => <f64 as Elem>::leaves(code),
        3 => <String as Elem>::leaves(code),
        4 => <Nest as Elem>::leaves(code),
        6 => <i8 as Elem>::leaves(code),
        7 => <Wb as Elem>::leaves(code),
        8 => <To as Elem>::leaves(code),
        9 => <Zn as Elem>::leaves(code),
        _ => <Kv as Elem>::leaves(code),
    }
}

fn single_case(ty: i128, a: &[i128]) -> Vec<i128> {
    let mut table: Vec<(i128, [String; NF])> = vec![];
    for code in a {
        for (lc, r) in leaves_of(ty, *code) {
            if !table.iter().any(|(c, _)| *c == lc) {
                table.push((lc, r));
            }
        }
    }
    let mut case = vec![1, ty, a.len() as i128, table.len() as i128];
    for (lc, rs) in &table {
        case.push(*lc);
        for r in rs {
            chars(&mut case, r);
        }
    }
    case.extend(a);
    case
}

fn pair_case(ty: i128, a: &[i128], b: &[i128]) -> Vec<i128> {
    let mut case = vec![0, ty, a.len() as i128];
    case.extend(a);
    case.extend(b);
    case
}

fn alphabet(ty: i128) -> Vec<i128> {
    match ty {
        0 => vec![0, 7, 255, 128, 1],
        1 => vec![-1, 0, 70000, i32::MIN as i128, i32::MAX as i128],
        // NaN, 0.0, 1.5, -0.0, -2.5, +inf is not encodable: 1e300
        2 => vec![1000, 0, 3, 1001, -5],
        // "", "a", "ab", "b", "a\"" (needs escaping in Debug)
        3 => vec![1, 256 + 97, (256 + 97) * 256 + 98, 256 + 98, (256 + 97) * 256 + 34],
        // [0,0] [0,1] [1,0] [255,255] [7,0]
        4 => vec![0, 1, 256, 255 * 256 + 255, 7 * 256],
        // i8: mixed signs (as bytes: 0xFF 0x00 0x01 0x80 0x7F)
        6 => vec![-1, 0, 1, -128, 127],
        7 => vec![0, 7, 255, 170, 1],
        8 => vec![0, 77, 5, -3, 9],
        9 => vec![0, 0, 0, 0, 0],
        // Kv: {0,0} {0,1} {1,0} {1,5} {7,0}: same key with different values, different keys
        _ => vec![0, 1, 256, 256 + 5, 7 * 256],
    }
}

/// all arrays of length n over the first k letters, in counting order
fn all_arrays(alpha: &[i128], k: usize, n: usize) -> Vec<Vec<i128>> {
    let mut res = vec![vec![]];
    for _ in 0..n {
        let mut next = vec![];
        for r in &res {
            for l in &alpha[..k] {
                let mut x: Vec<i128> = r.clone();
                x.push(*l);
                next.push(x);
            }
        }
        res = next;
    }
    res
}

fn main() {
    let a = args();
    quiet_panics();
    if let Some(c) = a.replay {
        do_case(c);
        return;
    }
    let thorough = a.tier == "thorough";
    for ty in 0..10i128 {
        let alpha = alphabet(ty);
        // exhaustive pairs: (length, letters)
        let mut scopes: Vec<(usize, usize)> = vec![];
        for n in 0..=4usize {
            let k = if thorough {
                4
            } else if ty == 2 && n <= 3 {
                4 // f64: NaN, 0.0, 1.5 and -0.0
            } else {
                3
            };
            scopes.push((n, k));
        }
        if thorough {
            scopes.push((5, 3));
        }
        for (n, k) in scopes {
            let arrs = all_arrays(&alpha, k, n);
            for x in &arrs {
                for y in &arrs {
                    dist(&format!("pair.ty{}.N{}", ty, n));
                    do_case(pair_case(ty, x, y));
                }
            }
        }
        // exhaustive singles over four letters (five for N <= 3)
        for n in 0..=4usize {
            let k = if n <= 3 { 5 } else { 4 };
            for x in all_arrays(&alpha, k, n) {
                dist(&format!("single.ty{}.N{}", ty, n));
                do_case(single_case(ty, &x));
            }
        }
    }
    // seeded larger lengths
    let mut rng = Rng::new(a.seed);
    let (npairs, nsingles) = if thorough { (2000, 200) } else { (60, 16) };
    for ty in 0..10i128 {
        let alpha = alphabet(ty);
        for n in [5usize, 8, 15, 16, 17, 31, 32, 33, 64, 65] {
            for _ in 0..npairs {
                let x: Vec<i128> = (0..n).map(|_| alpha[rng.below(alpha.len() as u64) as usize]).collect();
                let mut y = x.clone();
                match rng.below(10) {
                    0 | 1 => {} // equal arrays
                    8 | 9 => {
                        // differ exactly at the last (or first) position
                        let i = if rng.chance(3, 4) { n - 1 } else { 0 };
                        let j = alpha.iter().position(|l| *l == x[i]).unwrap();
                        y[i] = alpha[(j + 1 + rng.below(alpha.len() as u64 - 1) as usize) % alpha.len()];
                    }
                    2..=5 => {
                        // differ at one or two positions, so that the decision falls deep inside
                        for _ in 0..(1 + rng.below(2)) {
                            let i = rng.below(n as u64) as usize;
                            y[i] = alpha[rng.below(alpha.len() as u64) as usize];
                        }
                    }
                    _ => {
                        y = (0..n).map(|_| alpha[rng.below(alpha.len() as u64) as usize]).collect();
                    }
                }
                dist(&format!("pair.ty{}.N{}", ty, n));
                do_case(pair_case(ty, &x, &y));
            }
            for _ in 0..nsingles {
                let x: Vec<i128> = if (ty <= 1 || ty == 6) && rng.chance(1, 2) {
                    // integers: any value of the type
                    (0..n)
                        .map(|_| match ty {
                            0 => rng.below(256) as i128,
                            6 => rng.below(256) as i128 - 128,
                            _ => (rng.next() as u32 as i32) as i128,
                        })
                        .collect()
                } else {
                    (0..n).map(|_| alpha[rng.below(alpha.len() as u64) as usize]).collect()
                };
                dist(&format!("single.ty{}.N{}", ty, n));
                do_case(single_case(ty, &x));
            }
        }
    }
    // more than 1024 elements: every one of them is compared, hashed and shown
    for ty in [0i128, 3, 7] {
        let alpha = alphabet(ty);
        let n = 1025usize;
        let x: Vec<i128> = (0..n).map(|_| alpha[rng.below(alpha.len() as u64) as usize]).collect();
        dist(&format!("single.ty{}.N{}", ty, n));
        do_case(single_case(ty, &x));
        let mut y = x.clone();
        y[n - 1] = alpha[(alpha.iter().position(|l| *l == x[n - 1]).unwrap() + 1) % alpha.len()];
        dist(&format!("pair.ty{}.N{}", ty, n));
        do_case(pair_case(ty, &x, &y));
        do_case(pair_case(ty, &x, &x));
        // many mismatching positions: every one, exactly 512 (a multiple of 256), exactly 256 at the end
        let next = |v: i128| alpha[(alpha.iter().position(|l| *l == v).unwrap() + 1) % alpha.len()];
        let all: Vec<i128> = x.iter().map(|v| next(*v)).collect();
        let first512: Vec<i128> = x.iter().enumerate().map(|(i, v)| if i < 512 { next(*v) } else { *v }).collect();
        let last256: Vec<i128> = x.iter().enumerate().map(|(i, v)| if i >= n - 256 { next(*v) } else { *v }).collect();
        for z in [all, first512, last256] {
            do_case(pair_case(ty, &x, &z));
        }
    }
    flush_dist();
}

//! C19 (probes): the constant default for element types that are ConstDefault but NOT Copy (one with drop
//! glue), each length in its own separately compiled program (harness::probe), as a `const` item.
//! The main binary also uses non-Copy element types, so a change that makes ConstDefault of some storage
//! shape depend on `Copy` keeps it from building; here every (length) is a program of its own and the
//! lengths whose storage tree has the affected shape are named.
//!
//! CASE [4, ty, nd, b_0..]   (op 4 = const item; the main binary's encoding; ty 4 Fd {7, 9}, ty 6 one
//!                            byte 0x5A -- here a type with a destructor, ty 12 a zero-sized type: codes 0)
//! OBS  [N, element codes...] | [-1] rejected by rustc
use harness::probe::Probe;
use harness::*;
use std::sync::atomic::{AtomicUsize, Ordering};
use std::sync::Mutex;

fn program(n: usize) -> String {
    format!(
        r#"#![allow(warnings)]
use const_default::ConstDefault;
use generic_array::typenum::*;
use generic_array::GenericArray;
pub struct Fd {{ a: u16, b: u16 }}
impl ConstDefault for Fd {{ const DEFAULT: Fd = Fd {{ a: 7, b: 9 }}; }}
pub struct Dr(u8);
impl Drop for Dr {{ fn drop(&mut self) {{}} }}
impl ConstDefault for Dr {{ const DEFAULT: Dr = Dr(0x5A); }}
pub struct Zc;
impl ConstDefault for Zc {{ const DEFAULT: Zc = Zc; }}
const A: GenericArray<Fd, U{n}> = GenericArray::const_default();
const B: GenericArray<Dr, U{n}> = GenericArray::const_default();
const Z: GenericArray<Zc, U{n}> = GenericArray::const_default();
const ZD: GenericArray<Zc, U{n}> = <GenericArray<Zc, U{n}> as ConstDefault>::DEFAULT;
static S: GenericArray<Fd, U{n}> = <GenericArray<Fd, U{n}> as ConstDefault>::DEFAULT;
fn main() {{
    let a = A; let b = B;
    let mut o: Vec<String> = vec![format!("{{}}", a.len())];
    for e in a.iter() {{ o.push(format!("{{}}", e.a as u64 + 65536 * e.b as u64)); }}
    println!("A {{}}", o.join(" "));
    let mut o: Vec<String> = vec![format!("{{}}", b.len())];
    for e in b.iter() {{ o.push(format!("{{}}", e.0)); }}
    println!("B {{}}", o.join(" "));
    let same = S.iter().zip(a.iter()).all(|(x, y)| x.a == y.a && x.b == y.b) && S.len() == a.len();
    println!("S {{}}", same as u8);
    let z = Z; let zd = ZD;
    let mut o: Vec<String> = vec![format!("{{}}", z.len())];
    for _ in z.iter() {{ o.push("0".to_string()); }}
    println!("Z {{}}", o.join(" "));
    println!("ZD {{}}", (zd.len() == z.len()) as u8);
}}
"#
    )
}

/// a length of 2^19 / 2^20: a static (no stack copy), looked at in four places without a loop -- the
/// constant default must stay within the const evaluator's step budget for every length
fn big_program(n: usize) -> String {
    format!(
        r#"#![allow(warnings)]
use const_default::ConstDefault;
use generic_array::typenum::*;
use generic_array::GenericArray;
pub struct B1(u8);
impl ConstDefault for B1 {{ const DEFAULT: B1 = B1(0x5A); }}
static S: GenericArray<B1, U{n}> = GenericArray::const_default();
static D: GenericArray<B1, U{n}> = <GenericArray<B1, U{n}> as ConstDefault>::DEFAULT;
const OK: bool = S.as_slice().len() == {n} && S.as_slice()[0].0 == 0x5A && S.as_slice()[{h}].0 == 0x5A && S.as_slice()[{l}].0 == 0x5A;
fn main() {{
    let s = S.as_slice(); let d = D.as_slice();
    println!("A {{}} {{}} {{}} {{}} {{}}", s.len(), s[0].0, s[{h}].0, s[{l}].0, OK as u8);
    println!("D {{}} {{}} {{}} {{}}", d.len(), d[0].0, d[{h}].0, d[{l}].0);
}}
"#,
        n = n,
        h = n / 2,
        l = n - 1
    )
}

fn big(p: &Probe, thorough: bool) {
    for n in if thorough { vec![65536usize, 524288, 1048576] } else { vec![524288usize, 1048576] } {
        let d = digits(n);
        let mut case = vec![4, 6, d.len() as i128];
        case.extend(&d);
        emit_case(&case);
        dist("big");
        match p.compile_and_run_with(&format!("c19big_{}", n), &big_program(n), &["const_default"]) {
            Ok(out) => {
                let a: Vec<i128> = out.lines().find(|l| l.starts_with("A ")).unwrap_or("A").split_whitespace().skip(1).filter_map(|x| x.parse().ok()).collect();
                let dd: Vec<i128> = out.lines().find(|l| l.starts_with("D ")).unwrap_or("D").split_whitespace().skip(1).filter_map(|x| x.parse().ok()).collect();
                emit_obs(&a);
                if a != vec![n as i128, 90, 90, 90, 1] {
                    emit_oracle(&format!("static of {} elements from const_default(): len / first / middle / last / const comparison = {:?}", n, a));
                }
                if dd != vec![n as i128, 90, 90, 90] {
                    emit_oracle(&format!("static of {} elements from DEFAULT: len / first / middle / last = {:?}", n, dd));
                }
            }
            Err(e) => {
                emit_obs(&[-1]);
                emit_oracle(&format!("a static GenericArray<T, U{}> initialised with const_default() / DEFAULT is rejected by rustc: {}", n, e.chars().take(400).collect::<String>()));
            }
        }
    }
    flush_dist();
}

fn digits(mut n: usize) -> Vec<i128> {
    let mut d = vec![];
    while n > 0 {
        d.push((n & 1) as i128);
        n >>= 1;
    }
    d
}

fn main() {
    let a = args();
    let lens: Vec<usize> = if let Some(c) = &a.replay {
        // the length of the replayed case: [4, ty, nd, digits..]
        let nd = c[2] as usize;
        vec![c[3..3 + nd].iter().enumerate().map(|(i, d)| (*d as usize) << i).sum()]
    } else if a.tier == "thorough" {
        (0..=40).chain([63, 64, 65, 100, 127, 128, 255, 256, 1000, 1023, 1024]).collect()
    } else {
        vec![0, 1, 2, 3, 4, 5, 6, 7, 8, 10, 15, 16, 33, 64, 1000, 1024]
    };
    let p = Probe::new("c19p");
    note(&format!("rlib {}", p.rlib.display()));
    if a.extra.iter().any(|x| x == "--big") {
        big(&p, a.tier == "thorough");
        return;
    }
    let results: Mutex<Vec<Option<Result<String, String>>>> = Mutex::new(vec![None; lens.len()]);
    let next = AtomicUsize::new(0);
    std::thread::scope(|sc| {
        for _ in 0..16 {
            sc.spawn(|| loop {
                let i = next.fetch_add(1, Ordering::SeqCst);
                if i >= lens.len() {
                    break;
                }
                let r = p.compile_and_run_with(&format!("c19p_{}", i), &program(lens[i]), &["const_default"]);
                results.lock().unwrap()[i] = Some(r);
            });
        }
    });
    let results = results.into_inner().unwrap();
    for (i, n) in lens.iter().enumerate() {
        let d = digits(*n);
        let r = results[i].clone().unwrap();
        for (ty, tag, name) in [
            (4i128, "A ", "a ConstDefault struct that is not Copy"),
            (6, "B ", "a ConstDefault type with a destructor"),
            (12, "Z ", "a ZERO-SIZED ConstDefault type"),
        ] {
            let mut case = vec![4, ty, d.len() as i128];
            case.extend(&d);
            emit_case(&case);
            dist(&format!("ty{}", ty));
            match &r {
                Ok(out) => {
                    let l = out.lines().find(|l| l.starts_with(tag)).unwrap_or("");
                    let v: Vec<i128> = l[tag.len().min(l.len())..].split_whitespace().filter_map(|x| x.parse().ok()).collect();
                    emit_obs(&v);
                    if ty == 12 && !out.lines().any(|l| l == "ZD 1") {
                        emit_oracle("the zero-sized array from DEFAULT has another length than the one from const_default()");
                    }
                    if !out.lines().any(|l| l == "S 1") {
                        emit_oracle("the static initialised with <GenericArray<T, N> as ConstDefault>::DEFAULT differs from the const item");
                    }
                }
                Err(e) => {
                    emit_obs(&[-1]);
                    emit_oracle(&format!(
                        "GenericArray<T, U{}>::const_default() in a const item, T = {}: rejected by rustc: {}",
                        n,
                        name,
                        e.chars().take(400).collect::<String>()
                    ));
                }
            }
        }
    }
    flush_dist();
}

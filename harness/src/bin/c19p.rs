//! C19 (probes): the constant default for element types that are ConstDefault but NOT Copy (one with drop
//! glue), each length in its own separately compiled program (harness::probe), as a `const` item.
//! The main binary also uses non-Copy element types, so a change that makes ConstDefault of some storage
//! shape depend on `Copy` keeps it from building; here every (length) is a program of its own and the
//! lengths whose storage tree has the affected shape are named.
//!
//! CASE [4, ty, nd, b_0..]   (op 4 = const item; the main binary's encoding; ty 4 Fd {7, 9}, ty 6 one
//!                            byte 0x5A -- here a type with a destructor)
//! OBS  [N, element codes...] | [-1] rejected by rustc
use harness::probe::Probe;
use harness::*;
use std::sync::atomic::{AtomicUsize, Ordering};
use std::sync::Mutex;

fn program(n: usize) -> String {
    format!(
        r#"#![allow(warnings)]
use const_default::ConstDefault;
use generic_array::typenum::*;
use generic_array::GenericArray;
pub struct Fd {{ a: u16, b: u16 }}
impl ConstDefault for Fd {{ const DEFAULT: Fd = Fd {{ a: 7, b: 9 }}; }}
pub struct Dr(u8);
impl Drop for Dr {{ fn drop(&mut self) {{}} }}
impl ConstDefault for Dr {{ const DEFAULT: Dr = Dr(0x5A); }}
const A: GenericArray<Fd, U{n}> = GenericArray::const_default();
const B: GenericArray<Dr, U{n}> = GenericArray::const_default();
static S: GenericArray<Fd, U{n}> = <GenericArray<Fd, U{n}> as ConstDefault>::DEFAULT;
fn main() {{
    let a = A; let b = B;
    let mut o: Vec<String> = vec![format!("{{}}", a.len())];
    for e in a.iter() {{ o.push(format!("{{}}", e.a as u64 + 65536 * e.b as u64)); }}
    println!("A {{}}", o.join(" "));
    let mut o: Vec<String> = vec![format!("{{}}", b.len())];
    for e in b.iter() {{ o.push(format!("{{}}", e.0)); }}
    println!("B {{}}", o.join(" "));
    let same = S.iter().zip(a.iter()).all(|(x, y)| x.a == y.a && x.b == y.b) && S.len() == a.len();
    println!("S {{}}", same as u8);
}}
"#
    )
}

fn digits(mut n: usize) -> Vec<i128> {
    let mut d = vec![];
    while n > 0 {
        d.push((n & 1) as i128);
        n >>= 1;
    }
    d
}

fn main() {
    let a = args();
    let lens: Vec<usize> = if let Some(c) = &a.replay {
        // the length of the replayed case: [4, ty, nd, digits..]
        let nd = c[2] as usize;
        vec![c[3..3 + nd].iter().enumerate().map(|(i, d)| (*d as usize) << i).sum()]
    } else if a.tier == "thorough" {
        (0..=40).chain([63, 64, 65, 100, 127, 128, 255, 256, 1000, 1023, 1024]).collect()
    } else {
        vec![0, 1, 2, 3, 4, 5, 6, 7, 8, 10, 15, 16, 33, 64, 1000, 1024]
    };
    let p = Probe::new("c19p");
    note(&format!("rlib {}", p.rlib.display()));
    let results: Mutex<Vec<Option<Result<String, String>>>> = Mutex::new(vec![None; lens.len()]);
    let next = AtomicUsize::new(0);
    std::thread::scope(|sc| {
        for _ in 0..16 {
            sc.spawn(|| loop {
                let i = next.fetch_add(1, Ordering::SeqCst);
                if i >= lens.len() {
                    break;
                }
                let r = p.compile_and_run_with(&format!("c19p_{}", i), &program(lens[i]), &["const_default"]);
                results.lock().unwrap()[i] = Some(r);
            });
        }
    });
    let results = results.into_inner().unwrap();
    for (i, n) in lens.iter().enumerate() {
        let d = digits(*n);
        let r = results[i].clone().unwrap();
        for (ty, tag, name) in [(4i128, "A ", "a ConstDefault struct that is not Copy"), (6, "B ", "a ConstDefault type with a destructor")] {
            let mut case = vec![4, ty, d.len() as i128];
            case.extend(&d);
            emit_case(&case);
            dist(&format!("ty{}", ty));
            match &r {
                Ok(out) => {
                    let l = out.lines().find(|l| l.starts_with(tag)).unwrap_or("");
                    let v: Vec<i128> = l[tag.len().min(l.len())..].split_whitespace().filter_map(|x| x.parse().ok()).collect();
                    emit_obs(&v);
                    if !out.lines().any(|l| l == "S 1") {
                        emit_oracle("the static initialised with <GenericArray<T, N> as ConstDefault>::DEFAULT differs from the const item");
                    }
                }
                Err(e) => {
                    emit_obs(&[-1]);
                    emit_oracle(&format!(
                        "GenericArray<T, U{}>::const_default() in a const item, T = {}: rejected by rustc: {}",
                        n,
                        name,
                        e.chars().take(400).collect::<String>()
                    ));
                }
            }
        }
    }
    flush_dist();
}

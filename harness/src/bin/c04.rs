//! C04: a panic in caller-supplied code never loses or double-drops an element.
//! Every operation x receiver/argument form x N x every call index gets one injected panic
//! (see harness/src/forms.rs for the case and observable encodings).
use generic_array::typenum::*;
use harness::forms;
use harness::track::Tr;
use harness::*;

fn do_case(case: Vec<i128>) {
    emit_case(&case);
    let n = case[3] as usize;
    let elem = case[2];
    let r = catch(|| {
        dispatch_len!(
            n,
            [U0, U1, U2, U3, U4, U5, U6, U7, U8, U16, U33],
            |N| match elem {
                0 => forms::run::<Tr, Tr, Tr, N>(&case),
                1 => forms::run::<u32, u32, u32, N>(&case),
                2 => forms::run::<Tr, u32, Tr, N>(&case),
                3 => forms::run::<u32, Tr, Tr, N>(&case),
                4 => forms::run::<forms::Cn, forms::Cn, forms::Cn, N>(&case),
                8 => forms::run::<forms::P3, forms::P3, forms::P3, N>(&case),
                9 => forms::run::<forms::H2, u32, u32, N>(&case),
                10 => forms::run::<u32, forms::H2, forms::P3, N>(&case),
                6 => forms::run::<harness::track::Tz, harness::track::Tz, harness::track::Tz, N>(&case),
                7 => forms::run::<Tr, Tr, u32, N>(&case),
                _ => forms::run::<forms::Zs, forms::Zs, forms::Zs, N>(&case),
            },
            panic!("length {} not monomorphised", n)
        )
    });
    match r {
        Ok((obs, oracle)) => {
            emit_obs(&obs);
            for o in oracle {
                emit_oracle(&o);
            }
            if elem == 6 && harness::track::zlive() != 0 {
                let z = harness::track::zlive();
                if z < 0 {
                    emit_oracle(&format!("zero-sized drop-counted elements released twice: {} more destructor runs than values were created", -z));
                } else {
                    emit_oracle(&format!("zero-sized drop-counted elements lost: created minus dropped = {} after everything is gone", z));
                }
            }
        }
        Err(m) => {
            emit_obs(&[-99]);
            emit_oracle(&format!("unexpected panic outside catch: {}", m));
        }
    }
}

/// `--macros`: the repeat forms of the macros with an element whose `Clone::clone` panics at call k (and never):
/// `box_arr![x; N]` (feature alloc) and `GenericArray::generate(|_| x.clone())`-free forms do their cloning in the
/// crate's / std's code while the caller's value and the clones already made are owned by the expansion.  Direct
/// oracle: every identity created (x and every clone made) is released exactly once -- during the unwind, or when
/// the returned box is dropped.   CASE [-3, form, N, k]   OBS [outcome 0 ok / 2 panicked, created, released]
fn macro_cases() {
    use generic_array::typenum::*;
    use generic_array::{box_arr, GenericArray};
    use harness::track::{self, Ev, Tr};
    fn one<F: FnOnce() -> usize>(form: i128, n: usize, k: i128, f: F) {
        emit_case(&[-3, form, n as i128, k]);
        track::reset(1000);
        track::arm_clone(if k >= 0 { Some(k as u64) } else { None });
        let r = catch(std::panic::AssertUnwindSafe(f));
        track::arm_clone(None);
        let mut created: Vec<i64> = vec![];
        let mut dropped: Vec<i64> = vec![];
        for e in track::log_from(0) {
            match e {
                Ev::New(x) => created.push(x),
                Ev::Clone(_, to) if to >= 0 => created.push(to),
                Ev::Drop(x) => dropped.push(x),
                _ => {}
            }
        }
        created.sort();
        dropped.sort();
        emit_obs(&[if r.is_ok() { 0 } else { 2 }, created.len() as i128, dropped.len() as i128]);
        if created != dropped {
            emit_oracle(&format!("repeat form {} with N = {} and a clone panic at call {}: created {:?}, released {:?}", form, n, k, created, dropped));
        }
        if let Ok(len) = r {
            if len != n {
                emit_oracle(&format!("repeat form {}: the result has {} elements, N = {}", form, len, n));
            }
        }
    }
    macro_rules! forms {
        ($N:ty, $n:expr) => {
            for k in -1..($n as i128) {
                dist("macro_repeat");
                one(0, $n, k, || { let x = Tr::new(0); let b: Box<GenericArray<Tr, $N>> = box_arr![x; $N]; b.len() });
                one(1, $n, k, || { let x = Tr::new(0); let b: Box<GenericArray<Tr, _>> = box_arr![x; $n]; b.len() });
            }
        };
    }
    forms!(U0, 0);
    forms!(U1, 1);
    forms!(U2, 2);
    forms!(U3, 3);
    forms!(U8, 8);
    forms!(U33, 33);
    flush_dist();
}

fn main() {
    let a = args();
    quiet_panics();
    if a.extra.iter().any(|x| x == "--macros") {
        macro_cases();
        return;
    }
    if let Some(c) = a.replay {
        do_case(c);
        return;
    }
    // --mode 1: the caller's closure drops its arguments and the DESTRUCTOR of an argument
    // panics (instead of the closure panicking by itself)
    let mode: i128 = if a.extra.iter().any(|x| x == "1") { 1 } else { 0 };
    let ns: Vec<usize> = if a.tier == "thorough" { vec![0, 1, 2, 3, 4, 5, 6, 7, 8, 16, 33] } else { vec![0, 1, 2, 3, 4, 5, 33] };
    for &n in &ns {
        // (op, number of forms)
        for (op, nforms) in [(0i128, 4i128), (1, 10), (2, 4), (3, 4), (4, 1), (5, 2), (9, 1)] {
            if mode == 1 && op >= 3 {
                continue;
            }
            for form in 0..nforms {
                for pan in -1..(n as i128) {
                    dist(&format!("op{}", op));
                    do_case(vec![op, form, 0, n as i128, pan, 0, 0, mode]);
                    // zero-sized drop-counted elements (no identities: the number of destructor runs is what shows)
                    // (map / zip / fold: the owned receiver form only -- borrowed sources stay with the harness)
                    if op == 3 || (op <= 2 && form == 0) {
                        dist("zst_counted");
                        do_case(vec![op, form, 6, n as i128, pan, 0, 0, mode]);
                    }
                    // Clone of elements WITHOUT drop glue whose hand-written clone is observable (it has no panic switch)
                    if op == 4 && pan == -1 {
                        dist("clone_no_drop_glue");
                        do_case(vec![op, form, 4, n as i128, pan, 0, 0, mode]);
                    }
                    // map of drop-tracked inputs to plain outputs (an output type without drop glue)
                    if op == 0 {
                        dist("map_to_plain");
                        do_case(vec![op, form, 7, n as i128, pan, 0, 0, mode]);
                    }
                    // zip of a drop-tracked with a plain array and vice versa
                    if op == 1 {
                        dist("zip_mixed");
                        do_case(vec![op, form, 2, n as i128, pan, 0, 0, mode]);
                        do_case(vec![op, form, 3, n as i128, pan, 0, 0, mode]);
                    }
                }
            }
        }
        // by-value iterator: clone / fold / rfold from every (front, back) position
        for op in [6i128, 7, 8] {
            if mode == 1 && op == 6 {
                continue;
            }
            for f in 0..=n {
                for b in 0..=(n - f) {
                    let len = (n - f - b) as i128;
                    for pan in -1..len {
                        dist(&format!("op{}", op));
                        do_case(vec![op, 0, 0, n as i128, pan, f as i128, b as i128, mode]);
                    }
                }
            }
        }
    }
    flush_dist();
}

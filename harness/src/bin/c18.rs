//! C18: the const API evaluates at compile time without UB and agrees with run time.
//!
//! This bin GENERATES Rust programs: for every case one module with a `const fn obs()`
//! that builds the input object, calls the crate's const fn and records what can be seen
//! through the result (offsets relative to the source object, lengths, every element; the
//! mutable forms then write through the result and re-read the source natively), a
//! `const C: [i64; K] = obs();` (the const evaluator runs the program; it rejects
//! out-of-bounds / dangling pointers and uninitialised reads with error E0080), for the
//! shared forms a `const REF` holding the returned reference itself (final-value
//! validation of the reference), and an `assert!` of C against the natively computed
//! expectation.  `main` prints C and the result of calling the SAME `obs` at run time.
//! The programs are compiled by rustc against the generic_array rlib cargo built for this
//! harness from the current crate tree, 16 rustc processes in parallel.
//!
//! Additional passes: (thorough) the same programs built with -C opt-level=2, run-time
//! values must still equal the const values; (both tiers, when `cargo +nightly miri` exists)
//! the small-N programs under Miri, whose driver evaluates consts with the extra UB checks
//! (every reference validated when created, not only the final value) and interprets the
//! run-time half with bounds / dangling / uninitialised / validity checking.  The aliasing
//! model is switched off there: it is not among the checks C18 names.  (With Stacked Borrows
//! on, Miri flags chunks_from_slice_mut on the unchanged crate, e.g. case [4,1,1,0,1]: the
//! second `slice.as_mut_ptr()` reborrows the whole slice and invalidates the chunk slice
//! created from the first; Tree Borrows accepts it.  Reported, not part of this property.)
//!
//! CASE [fn, N, L, ty, form]  (see coq/theories/CorrC18.v for the codes)
//!   fn 11 form 1: the source is the BYTE image [u8; N * size_of T] (alignment 1) of the same values,
//!        form 2: the target is GenericArray<u8, U{L * size_of T}> and the bytes are observed
//!        (const_transmute "is transmute": only the sizes have to agree, not the alignments)
//!   fn 12 form 3 / 4: the repeat forms with a path to a const item of a NON-Copy type as operand;
//!        form 5: `arr![x; {K}]` inside a const fn generic over `const K: usize`
//!   fn 13 form 1: const_default for a length of 2^19 / 2^20, observed at four places without a
//!        loop (run `c18big`, `--big`: direct oracles only)
//! OBS  [1, const values...] compiled and evaluated | [2] const evaluation panicked
//!      | [0] rejected as UB (any other E0080) | [-1] any other compile error
//! ORACLE: run-time values differ from the const values; const values differ from the
//!      natively computed expectation; a const-time panic that does not panic at run time.
use harness::*;
use std::collections::BTreeMap;
use std::fmt::Write as _;
use std::path::{Path, PathBuf};
use std::process::Command;
use std::sync::atomic::{AtomicUsize, Ordering};
use std::sync::Mutex;

#[derive(Clone, Copy, Debug)]
struct Case {
    f: usize,
    n: usize,
    l: usize,
    ty: usize,
    form: usize,
}
impl Case {
    fn enc(&self) -> Vec<i128> {
        vec![self.f as i128, self.n as i128, self.l as i128, self.ty as i128, self.form as i128]
    }
}

#[derive(Clone, Debug, PartialEq)]
enum Exp {
    Vals(Vec<i64>),
    Panic,
    Ub,
}

// ------------------------------------------------------------------ element values
fn val(ty: usize, i: usize) -> i64 {
    let i = i as i128;
    (match ty {
        0 => (i * 7 + 3) % 251,
        1 => (i * 2654435761 + 12345) % 4294967296,
        2 => ((i * 5 + 1) % 256) * 65536 + (i * 9 + 2) % 65536,
        _ => 0,
    }) as i64
}
fn esz(ty: usize) -> usize {
    match ty {
        0 => 1,
        3 => 0,
        _ => 4,
    }
}
fn lit(ty: usize, v: i64) -> String {
    match ty {
        0 | 1 => format!("{}", v),
        2 => format!("({}, {})", v / 65536, v % 65536),
        _ => "()".to_string(),
    }
}
fn ty_name(ty: usize) -> &'static str {
    match ty {
        0 => "u8",
        1 => "u32",
        2 => "(u8, u16)",
        _ => "()",
    }
}
fn lits(ty: usize, a: usize, n: usize, shift: usize) -> String {
    let mut s = String::new();
    for i in a..a + n {
        if i > a {
            s.push_str(", ");
        }
        s.push_str(&lit(ty, val(ty, i + shift)));
    }
    s
}

// ------------------------------------------------------------------ natively computed expectation
fn expect(c: &Case) -> Exp {
    let (n, l, ty) = (c.n, c.l, c.ty);
    let v = |a: usize, k: usize| (a..a + k).map(|i| val(ty, i)).collect::<Vec<i64>>();
    let w = |a: usize, k: usize| (a..a + k).map(|i| val(ty, i + 1000)).collect::<Vec<i64>>();
    let off = |x: usize| if ty == 3 { 0 } else { x as i64 };
    let mutf = c.form == 1;
    let mut o: Vec<i64> = vec![];
    match c.f {
        0 => o.push(n as i64),
        1 => {
            o.extend([off(0), n as i64]);
            o.extend(v(0, n));
            if mutf {
                o.extend(w(0, n))
            }
        }
        2 | 3 => {
            if l != n {
                if c.f == 2 {
                    return Exp::Panic;
                }
                o.push(0);
            } else {
                if c.f == 3 {
                    o.push(1)
                }
                o.extend([off(0), n as i64]);
                o.extend(v(0, n));
                if mutf {
                    o.extend(w(0, l))
                }
            }
        }
        4 if c.form >= 2 => {
            // forms 2 / 3: a zero-sized slice of l elements built in place (l may exceed isize::MAX): counts only
            o.extend([(l / n) as i64, (l % n) as i64]);
        }
        4 => {
            if n == 0 {
                if l > 0 {
                    return Exp::Panic;
                }
                o.extend([0, -1, -1, 0]);
            } else {
                let (q, r) = (l / n, l % n);
                o.extend([q as i64, off(0), off(q * n), r as i64]);
                o.extend(v(0, l));
                if mutf {
                    o.extend(w(0, l))
                }
            }
        }
        5 => {
            o.extend([off(0), (l * n) as i64]);
            o.extend(v(0, l * n));
            if mutf {
                o.extend(w(0, l * n))
            }
        }
        6 | 7 => {
            o.extend([off(0), l as i64]);
            o.extend(v(0, l * n));
            if mutf {
                o.extend(w(0, l * n))
            }
        }
        8 | 9 => o.extend(v(0, n)),
        10 => {
            if c.form == 2 && ty != 3 {
                return Exp::Ub;
            }
            o.extend(v(0, n))
        }
        11 => {
            let bytes = |o: &mut Vec<i64>| {
                for x in v(0, n) {
                    for b in 0..esz(ty) {
                        o.push((x >> (8 * b)) & 255)
                    }
                }
            };
            if ty == 3 {
                if c.form != 2 {
                    o.extend(std::iter::repeat(0).take(l))
                }
            } else if l != n {
                return Exp::Panic;
            } else if c.form == 2 {
                bytes(&mut o)
            } else {
                o.extend(v(0, n))
            }
        }
        12 => {
            if c.form == 0 {
                o.extend(v(0, n))
            } else {
                o.extend(std::iter::repeat(val(ty, 0)).take(n))
            }
        }
        13 => {
            if c.form == 1 {
                o.extend([n as i64, 0, 0, 0])
            } else {
                o.extend(std::iter::repeat(0).take(n))
            }
        }
        14 | 15 => {
            o.push((n == 0) as i64);
            if n == 0 {
                o.push(0)
            }
        }
        16 => o.push(n as i64),
        _ => panic!("bad fn code"),
    }
    Exp::Vals(o)
}

// ------------------------------------------------------------------ program generation
const PRELUDE: &str = r#"#![allow(warnings)]
use core::mem::MaybeUninit;
use generic_array::internals::{ArrayBuilder, ArrayConsumer, IntrusiveArrayBuilder};
use generic_array::typenum::*;
use generic_array::{arr, GenericArray, LengthError};
const fn e0(x: u8) -> i64 { x as i64 }
const fn e1(x: u32) -> i64 { x as i64 }
const fn e2(x: (u8, u16)) -> i64 { (x.0 as i64) * 65536 + x.1 as i64 }
const fn e3(_x: ()) -> i64 { 0 }
const fn eq(a: &[i64], b: &[i64]) -> bool {
    if a.len() != b.len() { return false; }
    let mut i = 0; while i < a.len() { if a[i] != b[i] { return false; } i += 1; } true
}
macro_rules! put { ($o:ident, $k:ident, $v:expr) => { $o[$k] = ($v) as i64; $k += 1; } }
fn pr(tag: &str, id: usize, v: &[i64]) {
    let mut s = format!("{} {}", tag, id);
    for x in v { s.push(' '); s.push_str(&x.to_string()); }
    println!("{}", s);
}
"#;

/// Source of the module of one case.  `with_const`: include the const items (otherwise
/// only the run-time half: used for the cases whose const half is expected to be rejected).
fn gen_module(id: usize, c: &Case, exp: &Exp, with_const: bool) -> String {
    let (n, l, ty) = (c.n, c.l, c.ty);
    let mutf = c.form == 1;
    let k = match exp {
        Exp::Vals(v) => v.len(),
        _ => 1,
    };
    let mut s = String::new();
    let _ = writeln!(s, "mod c{} {{", id);
    let _ = writeln!(s, "    use super::*;");
    let _ = writeln!(s, "    type T = {}; type N = U{};", ty_name(ty), n);
    let _ = writeln!(s, "    const fn enc(x: T) -> i64 {{ e{}(x) }}", ty);
    if ty == 3 {
        let _ = writeln!(s, "    const fn off(_p: *const T, _b: *const T) -> i64 {{ 0 }}");
    } else {
        let _ = writeln!(s, "    const fn off(p: *const T, b: *const T) -> i64 {{ unsafe {{ p.offset_from(b) as i64 }} }}");
    }
    // sources
    let chunked = matches!(c.f, 5 | 6 | 7);
    let total = match c.f {
        4 if c.form >= 2 => 0,
        2 | 3 | 4 => l,
        5 | 6 | 7 => l * n,
        _ => n,
    };
    if chunked {
        let mut rows = String::new();
        for ch in 0..l {
            let _ = write!(rows, "[{}], ", lits(ty, ch * n, n, 0));
        }
        let _ = writeln!(s, "    const SRC2: [[T; {}]; {}] = [{}];", n, l, rows);
        let mut gs = String::new();
        for ch in 0..l {
            let _ = write!(gs, "GenericArray::from_array(SRC2[{}]), ", ch);
        }
        let _ = writeln!(s, "    const GS: [GenericArray<T, N>; {}] = [{}];", l, gs);
    } else {
        let _ = writeln!(s, "    const SRC: [T; {}] = [{}];", total, lits(ty, 0, total, 0));
    }
    let _ = writeln!(s, "    const W: [T; {}] = [{}];", total, lits(ty, 0, total, 1000));
    let read_s = "{ let mut j = 0; while j < s.len() { put!(o, k, enc(s[j])); j += 1; } }";
    let write_s = "{ let mut j = 0; while j < s.len() { s[j] = W[j]; j += 1; } }";
    let mut body = String::new();
    let mut refitem = String::new();
    let mut items = String::new();
    let m = if mutf { "_mut" } else { "" };
    let amp = if mutf { "&mut " } else { "&" };
    match c.f {
        0 => {
            body.push_str("put!(o, k, GenericArray::<T, N>::len());");
        }
        1 => {
            if mutf {
                let _ = write!(
                    body,
                    "let mut g = GenericArray::<T, N>::from_array(SRC);
        let base = &g as *const GenericArray<T, N> as *const T;
        {{ let s = g.as_mut_slice(); put!(o, k, off(s.as_ptr(), base)); put!(o, k, s.len()); {read_s} {write_s} }}
        let a: [T; {n}] = g.into_array();
        {{ let mut j = 0; while j < {n} {{ put!(o, k, enc(a[j])); j += 1; }} }}"
                );
            } else {
                let _ = write!(
                    body,
                    "let g = GenericArray::<T, N>::from_array(SRC);
        let base = &g as *const GenericArray<T, N> as *const T;
        let s = g.as_slice(); put!(o, k, off(s.as_ptr(), base)); put!(o, k, s.len()); {read_s}"
                );
                refitem = "const G: GenericArray<T, N> = GenericArray::from_array(SRC);
    pub const REF: &[T] = GenericArray::as_slice(&G);"
                    .to_string();
            }
        }
        2 | 3 => {
            let name = match (c.f, mutf) {
                (2, false) => "from_slice",
                (2, true) => "from_mut_slice",
                (3, false) => "try_from_slice",
                _ => "try_from_mut_slice",
            };
            let inner = format!(
                "put!(o, k, off(&*r as *const GenericArray<T, N> as *const T, base));
            let s = r.as{m}_slice(); put!(o, k, s.len()); {read_s} {w}",
                w = if mutf { write_s } else { "" }
            );
            let _ = write!(body, "let mut src = SRC; let base = src.as_ptr();\n        ");
            if c.f == 2 {
                let _ = write!(body, "{{ let r = GenericArray::<T, N>::{name}({amp}src); {inner} }}");
                if !mutf && *exp != Exp::Panic {
                    refitem = format!("pub const REF: &GenericArray<T, N> = GenericArray::<T, N>::{name}(&SRC);");
                }
            } else {
                let _ = write!(
                    body,
                    "match GenericArray::<T, N>::{name}({amp}src) {{ Err(_) => {{ put!(o, k, 0); }} Ok(r) => {{ put!(o, k, 1); {inner} {back} }} }}",
                    back = if mutf {
                        format!("{{ let mut i = 0; while i < {l} {{ put!(o, k, enc(src[i])); i += 1; }} }}")
                    } else {
                        String::new()
                    }
                );
                if !mutf {
                    refitem = format!("pub const REF: Result<&GenericArray<T, N>, LengthError> = GenericArray::<T, N>::{name}(&SRC);");
                }
            }
            if mutf && c.f == 2 {
                let _ = write!(body, "\n        {{ let mut i = 0; while i < {l} {{ put!(o, k, enc(src[i])); i += 1; }} }}");
            }
        }
        4 if c.form >= 2 => {
            let (m, amp) = if c.form == 3 { ("_mut", "&mut ") } else { ("", "&") };
            let _ = write!(
                body,
                "let mut a = [(); {l}]; {{ let (ch, rem) = GenericArray::<T, N>::chunks_from_slice{m}({amp}a); put!(o, k, ch.len()); put!(o, k, rem.len()); }}"
            );
        }
        4 => {
            let (o1, o2) = if n == 0 {
                ("-1".to_string(), "-1".to_string())
            } else {
                ("off(ch.as_ptr() as *const T, base)".to_string(), "off(rem.as_ptr(), base)".to_string())
            };
            let _ = write!(
                body,
                "let mut src = SRC; let base = src.as_ptr();
        {{ let (ch, rem) = GenericArray::<T, N>::chunks_from_slice{m}({amp}src);
          put!(o, k, ch.len()); put!(o, k, {o1}); put!(o, k, {o2}); put!(o, k, rem.len());
          let mut c = 0; while c < ch.len() {{ let s = ch[c].as_slice(); {read_s} c += 1; }}
          {{ let s = &*rem; {read_s} }}"
            );
            if mutf {
                let _ = write!(
                    body,
                    "
          let mut idx = 0;
          let mut c = 0; while c < ch.len() {{ let s = ch[c].as_mut_slice(); let mut j = 0; while j < s.len() {{ s[j] = W[idx]; idx += 1; j += 1; }} c += 1; }}
          let mut j = 0; while j < rem.len() {{ rem[j] = W[idx]; idx += 1; j += 1; }}
        }}
        {{ let mut i = 0; while i < {l} {{ put!(o, k, enc(src[i])); i += 1; }} }}"
                );
            } else {
                body.push_str(" }");
                if *exp != Exp::Panic {
                    refitem = "pub const REF: (&[GenericArray<T, N>], &[T]) = GenericArray::<T, N>::chunks_from_slice(&SRC);".to_string();
                }
            }
        }
        5 => {
            let _ = write!(
                body,
                "let mut gs = GS; let base = gs.as_ptr() as *const T;
        {{ let s = GenericArray::<T, N>::slice_from_chunks{m}({amp}gs); put!(o, k, off(s.as_ptr(), base)); put!(o, k, s.len()); {read_s} {w} }}",
                w = if mutf { write_s } else { "" }
            );
            if mutf {
                let _ = write!(body, "\n        {{ let mut c = 0; while c < {l} {{ let s = gs[c].as_slice(); {read_s} c += 1; }} }}");
            } else {
                refitem = "pub const REF: &[T] = GenericArray::<T, N>::slice_from_chunks(&GS);".to_string();
            }
        }
        6 => {
            let _ = write!(
                body,
                "let mut src = SRC2; let base = src.as_ptr() as *const T;
        {{ let r = GenericArray::<T, N>::from_chunks{m}({amp}src); put!(o, k, off(r.as_ptr() as *const T, base)); put!(o, k, r.len());
          let mut c = 0; while c < r.len() {{ let s = r[c].as_slice(); {read_s} c += 1; }}"
            );
            if mutf {
                let _ = write!(
                    body,
                    "
          let mut c = 0; while c < r.len() {{ let s = r[c].as_mut_slice(); let mut j = 0; while j < s.len() {{ s[j] = W[c * {n} + j]; j += 1; }} c += 1; }} }}
        {{ let mut c = 0; while c < {l} {{ let mut j = 0; while j < {n} {{ put!(o, k, enc(src[c][j])); j += 1; }} c += 1; }} }}"
                );
            } else {
                body.push_str(" }");
                refitem = "pub const REF: &[GenericArray<T, N>] = GenericArray::<T, N>::from_chunks(&SRC2);".to_string();
            }
        }
        7 => {
            let _ = write!(
                body,
                "let mut gs = GS; let base = gs.as_ptr() as *const T;
        {{ let r: {amp}[[T; {n}]] = GenericArray::<T, N>::into_chunks{m}({amp}gs); put!(o, k, off(r.as_ptr() as *const T, base)); put!(o, k, r.len());
          let mut c = 0; while c < r.len() {{ let mut j = 0; while j < {n} {{ put!(o, k, enc(r[c][j])); j += 1; }} c += 1; }}"
            );
            if mutf {
                let _ = write!(
                    body,
                    "
          let mut c = 0; while c < r.len() {{ let mut j = 0; while j < {n} {{ r[c][j] = W[c * {n} + j]; j += 1; }} c += 1; }} }}
        {{ let mut c = 0; while c < {l} {{ let s = gs[c].as_slice(); {read_s} c += 1; }} }}"
                );
            } else {
                body.push_str(" }");
                refitem = format!("pub const REF: &[[T; {n}]] = GenericArray::<T, N>::into_chunks(&GS);");
            }
        }
        8 => {
            let _ = write!(body, "let g = GenericArray::<T, N>::from_array(SRC); let s = g.as_slice(); {read_s}");
            refitem = "pub const REF: GenericArray<T, N> = GenericArray::from_array(SRC);".to_string();
        }
        9 => {
            let _ = write!(
                body,
                "let a: [T; {n}] = GenericArray::<T, N>::from_array(SRC).into_array();
        {{ let mut j = 0; while j < {n} {{ put!(o, k, enc(a[j])); j += 1; }} }}"
            );
            refitem = format!("pub const REF: [T; {n}] = GenericArray::<T, N>::from_array(SRC).into_array();");
        }
        10 => {
            let skip = if c.form == 2 { format!("{}", l) } else { "usize::MAX".to_string() };
            let _ = write!(
                body,
                "let mut a = GenericArray::<T, N>::uninit();
        {{ let s = a.as_mut_slice(); let mut j = 0; while j < s.len() {{ if j != {skip} {{ s[j] = MaybeUninit::new(SRC[j]); }} j += 1; }} }}
        let g = unsafe {{ GenericArray::<T, N>::assume_init(a) }};
        let s = g.as_slice(); {read_s}"
            );
        }
        11 if c.form == 1 => {
            // from the byte image (alignment 1) of the same values
            let mut bl = String::new();
            for i in 0..n {
                let x = val(ty, i);
                for b in 0..esz(ty) {
                    let _ = write!(bl, "{}, ", (x >> (8 * b)) & 255);
                }
            }
            let nb = n * esz(ty);
            let _ = write!(
                body,
                "const BYTES: [u8; {nb}] = [{bl}];
        let g: GenericArray<T, U{l}> = unsafe {{ generic_array::const_transmute::<[u8; {nb}], GenericArray<T, U{l}>>(BYTES) }};
        let s = g.as_slice(); {read_s}"
            );
        }
        11 if c.form == 2 => {
            let lb = l * esz(ty);
            let _ = write!(
                body,
                "let g: GenericArray<u8, U{lb}> = unsafe {{ generic_array::const_transmute::<[T; {n}], GenericArray<u8, U{lb}>>(SRC) }};
        let s = g.as_slice(); {{ let mut j = 0; while j < s.len() {{ put!(o, k, s[j]); j += 1; }} }}"
            );
        }
        11 => {
            let _ = write!(
                body,
                "let g: GenericArray<T, U{l}> = unsafe {{ generic_array::const_transmute::<[T; {n}], GenericArray<T, U{l}>>(SRC) }};
        let s = g.as_slice(); {read_s}"
            );
        }
        12 if c.form == 3 || c.form == 4 => {
            // the operand is a path to a const item of a non-Copy type: accepted by both repeat forms
            // exactly as by the native [CK; n]
            let e = if c.form == 3 { format!("arr![CK; U{}]", n) } else { format!("arr![CK; {}]", n) };
            let _ = write!(
                body,
                "let g: GenericArray<NoCopy, N> = {e}; let s = g.as_slice(); {{ let mut j = 0; while j < s.len() {{ put!(o, k, enc(s[j].0)); j += 1; }} }} core::mem::forget(g);"
            );
            items = format!("pub struct NoCopy(pub T); const CK: NoCopy = NoCopy({});", lit(ty, val(ty, 0)));
            refitem = format!("pub const REF: GenericArray<NoCopy, N> = {e};");
        }
        12 if c.form == 5 => {
            // the expression-length repeat form inside an item generic over `const K: usize` (braced K), used
            // from a const item: the expansion must not introduce an item that cannot see K
            items = format!(
                "pub const fn gk<const K: usize>() -> GenericArray<T, generic_array::ConstArrayLength<K>> where generic_array::typenum::Const<K>: generic_array::IntoArrayLength {{ arr![{}; {{K}}] }}",
                lit(ty, val(ty, 0))
            );
            let _ = write!(body, "let g: GenericArray<T, N> = gk::<{n}>(); let s = g.as_slice(); {read_s}");
            refitem = format!("pub const REF: GenericArray<T, N> = gk::<{n}>();");
        }
        12 => {
            let e = match c.form {
                0 => format!("arr![{}]", lits(ty, 0, n, 0)),
                1 => format!("arr![{}; U{}]", lit(ty, val(ty, 0)), n),
                _ => format!("arr![{}; {}]", lit(ty, val(ty, 0)), n),
            };
            let _ = write!(body, "let g: GenericArray<T, N> = {e}; let s = g.as_slice(); {read_s}");
            refitem = format!("pub const REF: GenericArray<T, N> = {e};");
        }
        13 if c.form == 1 => {
            let _ = write!(
                body,
                "let g = GenericArray::<T, N>::const_default(); let s = g.as_slice(); put!(o, k, s.len()); put!(o, k, enc(s[0])); put!(o, k, enc(s[{}])); put!(o, k, enc(s[{}]));",
                n / 2,
                n - 1
            );
            refitem = "pub static REF: GenericArray<T, N> = GenericArray::<T, N>::const_default();".to_string();
        }
        13 => {
            let _ = write!(body, "let g = GenericArray::<T, N>::const_default(); let s = g.as_slice(); {read_s}");
            refitem = "pub const REF: GenericArray<T, N> = GenericArray::<T, N>::const_default();".to_string();
        }
        14 => {
            body.push_str("let b = ArrayBuilder::<T, N>::new(); put!(o, k, b.is_full());\n        ");
            if n == 0 {
                body.push_str("let g = unsafe { b.assume_init() }; put!(o, k, g.as_slice().len());");
            } else {
                body.push_str("core::mem::forget(b);");
            }
        }
        15 => {
            body.push_str("let mut a = GenericArray::<T, N>::uninit();\n        let ib = IntrusiveArrayBuilder::new(&mut a); put!(o, k, ib.is_full());\n        ");
            if n == 0 {
                body.push_str("unsafe { ib.finish() }; put!(o, k, 0);");
            } else {
                body.push_str("core::mem::forget(ib);");
            }
        }
        16 => {
            let _ = write!(
                body,
                "let g = GenericArray::<T, N>::from_array(SRC); let c = ArrayConsumer::new(g); core::mem::forget(c); put!(o, k, {n});"
            );
        }
        _ => panic!("bad fn code"),
    }
    if !items.is_empty() {
        let _ = writeln!(s, "    {}", items);
    }
    let _ = writeln!(s, "    pub const fn obs() -> [i64; {}] {{", k);
    let _ = writeln!(s, "        let mut o = [0i64; {}]; let mut k = 0usize;", k);
    let _ = writeln!(s, "        {}", body);
    let _ = writeln!(s, "        assert!(k == {});", k);
    let _ = writeln!(s, "        o\n    }}");
    if with_const {
        let _ = writeln!(s, "    pub const C: [i64; {}] = obs();", k);
        if !refitem.is_empty() {
            let _ = writeln!(s, "    {}", refitem);
        }
        if let Exp::Vals(v) = exp {
            let e: Vec<String> = v.iter().map(|x| x.to_string()).collect();
            let _ = writeln!(s, "    const EXP: [i64; {}] = [{}];", k, e.join(", "));
            let _ = writeln!(s, "    const _: () = assert!(eq(&C, &EXP), \"const value differs from the native expectation\");");
        }
    }
    let _ = writeln!(s, "    pub fn run() {{");
    let _ = writeln!(s, "        println!(\"B {}\");", id);
    if with_const {
        let _ = writeln!(s, "        pr(\"C\", {}, &C);", id);
    }
    let _ = writeln!(s, "        let f: fn() -> [i64; {}] = std::hint::black_box(obs);", k);
    let _ = writeln!(
        s,
        "        match std::panic::catch_unwind(move || f()) {{ Ok(r) => pr(\"R\", {}, &r), Err(_) => println!(\"RP {}\") }}",
        id, id
    );
    let _ = writeln!(s, "    }}\n}}");
    s
}

// ------------------------------------------------------------------ compiling
struct Tool {
    dir: PathBuf,
    rlib: PathBuf,
    deps: PathBuf,
}

fn find_tool() -> Tool {
    let exe = std::env::current_exe().expect("current_exe");
    let debug = exe.parent().unwrap().to_path_buf();
    let deps = debug.join("deps");
    let mut best: Option<(std::time::SystemTime, PathBuf)> = None;
    for e in std::fs::read_dir(&deps).expect("deps dir") {
        let p = e.unwrap().path();
        let name = p.file_name().unwrap().to_string_lossy().to_string();
        if name.starts_with("libgeneric_array-") && name.ends_with(".rlib") {
            let t = std::fs::metadata(&p).and_then(|m| m.modified()).unwrap_or(std::time::UNIX_EPOCH);
            if best.as_ref().map(|b| t > b.0).unwrap_or(true) {
                best = Some((t, p));
            }
        }
    }
    let rlib = best.expect("libgeneric_array rlib next to the harness binary").1;
    let out = std::env::var("VERIF_OUT").map(PathBuf::from).unwrap_or_else(|_| std::env::temp_dir());
    let dir = out.join(format!("c18-gen-{}", std::process::id()));
    let _ = std::fs::remove_dir_all(&dir);
    std::fs::create_dir_all(&dir).expect("temp dir");
    Tool { dir, rlib, deps }
}

/// One generated file: the cases it holds and the line range of each module.
struct Unit {
    name: String,
    ids: Vec<usize>,
    with_const: bool, // const items present
    run: bool,        // link and run (otherwise --emit=metadata only)
    opt: bool,        // second build with -C opt-level=2: only the run-time values are recorded
}

#[derive(Default, Clone, Debug)]
struct Outcome {
    compile: Option<(i64, String)>, // (status, message) for the const half
    cvals: Option<Vec<i64>>,
    rvals: Option<Vec<i64>>,
    rpanic: bool,
    ovals: Option<Option<Vec<i64>>>, // optimised build: Some(None) = panicked / no output
}

fn build_source(ids: &[usize], cases: &[Case], exps: &[Exp], with_const: bool, run: bool) -> (String, Vec<(usize, usize, usize)>) {
    let mut src = String::from(PRELUDE);
    let mut ranges = vec![];
    let mut line = src.matches('\n').count() + 1;
    for &id in ids {
        let m = gen_module(id, &cases[id], &exps[id], with_const);
        let nl = m.matches('\n').count();
        ranges.push((id, line, line + nl - 1));
        line += nl;
        src.push_str(&m);
    }
    src.push_str("fn main() {\n    std::panic::set_hook(Box::new(|_| {}));\n");
    if run {
        for &id in ids {
            let _ = writeln!(src, "    c{}::run();", id);
        }
    }
    src.push_str("}\n");
    (src, ranges)
}

/// rustc on one file; returns (success, per-line errors [(line, code, message)], raw stderr)
fn rustc(tool: &Tool, file: &Path, out: &Path, metadata_only: bool, opt: bool) -> (bool, Vec<(usize, String, String)>, String) {
    let mut cmd = Command::new("rustc");
    cmd.arg("--edition").arg("2021").arg("--crate-type").arg("bin");
    cmd.arg("-C").arg(if opt { "opt-level=2" } else { "opt-level=0" }).arg("-C").arg("debuginfo=0").arg("-C").arg("codegen-units=4");
    cmd.arg("--error-format=short");
    cmd.arg("-L").arg(format!("dependency={}", tool.deps.display()));
    cmd.arg("--extern").arg(format!("generic_array={}", tool.rlib.display()));
    if metadata_only {
        cmd.arg("--emit=metadata");
    }
    cmd.arg("-o").arg(out).arg(file);
    let outp = cmd.output().expect("running rustc");
    let stderr = String::from_utf8_lossy(&outp.stderr).to_string();
    let fname = file.to_string_lossy().to_string();
    let mut errs = vec![];
    for l in stderr.lines() {
        // <file>:<line>:<col>: error[E0080]: message
        if let Some(rest) = l.strip_prefix(&format!("{}:", fname)) {
            let mut it = rest.splitn(3, ':');
            let ln = it.next().and_then(|x| x.trim().parse::<usize>().ok());
            let _col = it.next();
            let msg = it.next().unwrap_or("").trim().to_string();
            if let (Some(ln), true) = (ln, msg.starts_with("error")) {
                let code = if let (Some(a), Some(b)) = (msg.find('['), msg.find(']')) { msg[a + 1..b].to_string() } else { String::new() };
                errs.push((ln, code, msg));
            }
        } else if l.starts_with("error") && !l.starts_with("error: aborting") {
            errs.push((0, String::new(), l.to_string()));
        }
    }
    (outp.status.success(), errs, stderr)
}

fn classify(code: &str, msg: &str) -> i64 {
    if code == "E0080" {
        if msg.contains("evaluation panicked") {
            2
        } else {
            0
        }
    } else {
        -1
    }
}

fn process_unit(tool: &Tool, u: &Unit, cases: &[Case], exps: &[Exp], results: &Mutex<BTreeMap<usize, Outcome>>) {
    let mut ids = u.ids.clone();
    let mut round = 0;
    loop {
        round += 1;
        let (src, ranges) = build_source(&ids, cases, exps, u.with_const, u.run);
        let file = tool.dir.join(format!("{}_{}.rs", u.name, round));
        std::fs::write(&file, src).expect("write source");
        let out = tool.dir.join(format!("{}_{}.out", u.name, round));
        let (ok, errs, stderr) = rustc(tool, &file, &out, !u.run, u.opt);
        if ok && u.opt {
            let o = Command::new(&out).output().expect("running generated program");
            let text = String::from_utf8_lossy(&o.stdout).to_string();
            let mut r = results.lock().unwrap();
            for &id in &ids {
                r.entry(id).or_default().ovals = Some(None);
            }
            for l in text.lines() {
                let t: Vec<&str> = l.split_whitespace().collect();
                if t.len() >= 2 && t[0] == "R" {
                    if let Ok(id) = t[1].parse::<usize>() {
                        r.entry(id).or_default().ovals = Some(Some(t[2..].iter().filter_map(|x| x.parse().ok()).collect()));
                    }
                }
            }
            let _ = std::fs::remove_file(&out);
            let _ = std::fs::remove_file(&file);
            return;
        }
        if u.opt {
            // the unoptimised build of the same unit reports compile errors
            return;
        }
        if ok {
            if u.with_const {
                let mut r = results.lock().unwrap();
                for &id in &ids {
                    r.entry(id).or_default().compile = Some((1, String::new()));
                }
            }
            if u.run {
                let o = Command::new(&out).output().expect("running generated program");
                let text = String::from_utf8_lossy(&o.stdout).to_string();
                let mut r = results.lock().unwrap();
                for l in text.lines() {
                    let t: Vec<&str> = l.split_whitespace().collect();
                    if t.len() < 2 {
                        continue;
                    }
                    let id: usize = match t[1].parse() {
                        Ok(x) => x,
                        Err(_) => continue,
                    };
                    let vals: Vec<i64> = t[2..].iter().filter_map(|x| x.parse().ok()).collect();
                    let e = r.entry(id).or_default();
                    match t[0] {
                        "C" => e.cvals = Some(vals),
                        "R" => e.rvals = Some(vals),
                        "RP" => e.rpanic = true,
                        _ => {}
                    }
                }
                if !o.status.success() {
                    note(&format!("generated program {} exited with {:?}", u.name, o.status.code()));
                }
            }
            let _ = std::fs::remove_file(&out);
            let _ = std::fs::remove_file(&file);
            return;
        }
        // attribute the errors to cases
        let mut bad: BTreeMap<usize, (i64, String)> = BTreeMap::new();
        let mut unattributed = vec![];
        for (ln, code, msg) in &errs {
            match ranges.iter().find(|(_, a, b)| ln >= a && ln <= b) {
                Some((id, _, _)) => {
                    let st = classify(code, msg);
                    let e = bad.entry(*id).or_insert((st, msg.clone()));
                    // a UB rejection dominates a panic, any other error dominates both
                    if st < e.0 {
                        *e = (st, msg.clone());
                    }
                }
                None => unattributed.push(msg.clone()),
            }
        }
        {
            let mut r = results.lock().unwrap();
            for (id, st) in &bad {
                r.entry(*id).or_default().compile = Some(st.clone());
            }
        }
        if !u.run {
            // metadata-only unit: cases without an error were accepted by the evaluator
            let mut r = results.lock().unwrap();
            for &id in &ids {
                if !bad.contains_key(&id) {
                    r.entry(id).or_default().compile =
                        Some(if unattributed.is_empty() { (1, String::new()) } else { (-1, unattributed[0].clone()) });
                }
            }
            let _ = std::fs::remove_file(&file);
            return;
        }
        if bad.is_empty() || round >= 6 {
            let mut r = results.lock().unwrap();
            let msg = unattributed.get(0).cloned().unwrap_or_else(|| stderr.lines().next().unwrap_or("rustc failed").to_string());
            for &id in &ids {
                r.entry(id).or_default().compile = Some((-1, msg.clone()));
            }
            return;
        }
        ids.retain(|id| !bad.contains_key(id));
        if ids.is_empty() {
            return;
        }
    }
}

// ------------------------------------------------------------------ Miri pass
/// The stable const evaluator checks pointer arithmetic, memory accesses and the FINAL value
/// of a const; a reference that is invalid only transiently inside a const fn is not
/// validated.  Miri's driver evaluates consts with the extra UB checks (every reference is
/// validated when it is created) and interprets the run-time half with full UB detection.
/// Runs `cargo +nightly miri run` on one generated program in a cargo project that depends
/// on the crate tree by path.  Returns None when Miri is not available.
fn miri_pass(tool: &Tool, ids: &[usize], cases: &[Case], exps: &[Exp]) -> Option<BTreeMap<usize, String>> {
    let probe = Command::new("cargo").args(["+nightly", "miri", "--version"]).output().ok()?;
    if !probe.status.success() {
        return None;
    }
    let repo = std::env::var("VERIF_REPO").unwrap_or_else(|_| "/repo".to_string());
    let proj = tool.dir.parent().unwrap().join("c18-miri");
    let _ = std::fs::remove_dir_all(proj.join("src"));
    std::fs::create_dir_all(proj.join("src/bin")).ok()?;
    let toml = format!(
        "[package]\nname = \"c18miri\"\nversion = \"0.0.0\"\nedition = \"2021\"\npublish = false\n[workspace]\n[dependencies]\ngeneric-array = {{ path = \"{}\", features = [\"const-default\", \"internals\"] }}\n[profile.dev]\ndebug = false\n",
        repo
    );
    let tp = proj.join("Cargo.toml");
    if std::fs::read_to_string(&tp).ok().as_deref() != Some(&toml) {
        std::fs::write(&tp, &toml).ok()?;
        let _ = std::fs::remove_file(proj.join("Cargo.lock"));
    }
    if !proj.join("Cargo.lock").exists() {
        if let Ok(lock) = std::fs::read_to_string(concat!(env!("CARGO_MANIFEST_DIR"), "/Cargo.lock")) {
            let _ = std::fs::write(proj.join("Cargo.lock"), lock);
        }
    }
    // split into parallel bins, balanced by the number of observed values
    let parts = std::cmp::min(14, std::cmp::max(1, ids.len() / 8));
    let mut chunks: Vec<Vec<usize>> = vec![vec![]; parts];
    let mut load = vec![0usize; parts];
    for &id in ids {
        let w = 20 + match &exps[id] { Exp::Vals(v) => v.len(), _ => 0 };
        let k = (0..parts).min_by_key(|k| load[*k]).unwrap();
        chunks[k].push(id);
        load[k] += w;
    }
    let mut ranges_all = vec![];
    for (k, ch) in chunks.iter().enumerate() {
        let (src, ranges) = build_source(ch, cases, exps, true, true);
        std::fs::write(proj.join(format!("src/bin/m{}.rs", k)), src).ok()?;
        ranges_all.push(ranges);
    }
    let bad_all: Mutex<BTreeMap<usize, String>> = Mutex::new(BTreeMap::new());
    std::thread::scope(|sc| {
        for k in 0..parts {
            let (proj, chunks, ranges_all, bad_all) = (&proj, &chunks, &ranges_all, &bad_all);
            sc.spawn(move || {
                let b = miri_one(proj, k, &chunks[k], &ranges_all[k], exps);
                bad_all.lock().unwrap().extend(b);
            });
        }
    });
    Some(bad_all.into_inner().unwrap())
}

fn miri_one(proj: &Path, k: usize, ids: &[usize], ranges: &[(usize, usize, usize)], exps: &[Exp]) -> BTreeMap<usize, String> {
    let mut bad: BTreeMap<usize, String> = BTreeMap::new();
    let binname = format!("m{}", k);
    let srcname = format!("src/bin/m{}.rs:", k);
    // The aliasing model is switched off: C18 is about the checks the const evaluator makes
    // (bounds, dangling, uninitialised, invalid values), all of which Miri still performs.
    let o = match Command::new("cargo")
        .args(["+nightly", "miri", "run", "--offline", "--quiet", "--bin", &binname])
        .current_dir(proj)
        .env("CARGO_TARGET_DIR", proj.join("target"))
        .env("MIRIFLAGS", "-Zmiri-disable-stacked-borrows")
        .env_remove("RUSTFLAGS")
        .output()
    {
        Ok(o) => o,
        Err(e) => {
            if let Some(&id) = ids.first() {
                bad.insert(id, format!("cannot run cargo miri: {}", e));
            }
            return bad;
        }
    };
    let stdout = String::from_utf8_lossy(&o.stdout).to_string();
    let stderr = String::from_utf8_lossy(&o.stderr).to_string();
    let last_b: Option<usize> = stdout.lines().rev().find_map(|l| l.strip_prefix("B ").and_then(|x| x.trim().parse().ok()));
    let mut cur: Option<String> = None;
    let mut unattributed: Vec<String> = vec![];
    for l in stderr.lines() {
        if l.starts_with("error") && !l.starts_with("error: aborting") && !l.starts_with("error: could not compile") {
            if let Some(m) = cur.take() {
                unattributed.push(m);
            }
            cur = Some(l.to_string());
        } else if let (Some(pos), true) = (l.find("--> "), cur.is_some()) {
            let msg = cur.take().unwrap();
            let loc = &l[pos + 4..];
            let mut done = false;
            if let Some(rest) = loc.strip_prefix(srcname.as_str()) {
                if let Some(ln) = rest.split(':').next().and_then(|x| x.parse::<usize>().ok()) {
                    if let Some((id, _, _)) = ranges.iter().find(|(_, a, b)| ln >= *a && ln <= *b) {
                        bad.entry(*id).or_insert(msg.clone());
                        done = true;
                    }
                }
            }
            if !done {
                match last_b {
                    Some(id) => {
                        bad.entry(id).or_insert(format!("{} at {}", msg, loc));
                    }
                    None => unattributed.push(format!("{} at {}", msg, loc)),
                }
            }
        }
    }
    if let Some(m) = cur.take() {
        unattributed.push(m);
    }
    if !o.status.success() && bad.is_empty() {
        let m = unattributed.get(0).cloned().unwrap_or_else(|| stderr.lines().rev().find(|l| !l.trim().is_empty()).unwrap_or("miri failed").to_string());
        if let Some(&id) = ids.first() {
            bad.insert(id, format!("unattributed Miri failure: {}", m));
        }
    }
    // values printed under Miri must be the expected values as well
    let mut seen = std::collections::BTreeSet::new();
    for l in stdout.lines() {
        let t: Vec<&str> = l.split_whitespace().collect();
        if t.len() >= 2 && (t[0] == "C" || t[0] == "R") {
            if let Ok(id) = t[1].parse::<usize>() {
                let vals: Vec<i64> = t[2..].iter().filter_map(|x| x.parse().ok()).collect();
                if let Some(Exp::Vals(v)) = exps.get(id) {
                    if &vals != v {
                        bad.entry(id).or_insert(format!("under Miri the {} value is {:?}", if t[0] == "C" { "const" } else { "run-time" }, vals));
                    }
                }
                if t[0] == "R" {
                    seen.insert(id);
                }
            }
        }
    }
    if o.status.success() {
        for &id in ids {
            if !seen.contains(&id) {
                bad.entry(id).or_insert("no run-time output under Miri".to_string());
            }
        }
    }
    bad
}

// ------------------------------------------------------------------ case enumeration
fn boundary_ls(n: usize) -> Vec<usize> {
    let mut v: Vec<usize> = vec![0, 1, n.saturating_sub(1), n, n + 1, 2 * n, 2 * n + 1, 3 * n, 3 * n + 1, 3 * n + 2];
    if n > 0 {
        v.extend([2 * n - 1, 3 * n - 1]);
    }
    v.retain(|x| *x <= 3 * n + 2);
    v.sort();
    v.dedup();
    v
}

fn enumerate(tier: &str, big: bool) -> Vec<Case> {
    let thorough = tier == "thorough";
    if big {
        // lengths whose construction must stay logarithmic in the evaluator's step budget
        let mut cs = vec![];
        for n in if thorough { vec![65536, 262144, 524288, 1048576] } else { vec![524288, 1048576] } {
            for ty in [0, 3] {
                cs.push(Case { f: 13, n, l: 0, ty, form: 1 });
            }
        }
        // zero-sized slices longer than isize::MAX elements (0 bytes): chunk count and remainder at compile time
        for l in [isize::MAX as usize + 6, usize::MAX - 7] {
            for n in [3usize, 8] {
                for form in [2, 3] {
                    cs.push(Case { f: 4, n, l, ty: 3, form });
                }
            }
        }
        return cs;
    }
    let ns: Vec<usize> =
        if thorough { vec![0, 1, 2, 3, 4, 5, 6, 7, 8, 15, 16, 17, 31, 32, 33, 63, 64, 65, 100, 127, 128, 255, 256, 1024] } else { vec![0, 1, 2, 3, 7, 8, 16, 31, 32, 33] };
    let full_l_upto = if thorough { 33 } else { 8 };
    let mut cs = vec![];
    for &n in &ns {
        let ls: Vec<usize> = if n <= full_l_upto { (0..=3 * n + 2).collect() } else { boundary_ls(n) };
        for ty in 0..4 {
            if n > 256 && (ty == 1 || ty == 2) {
                continue;
            }
            // slice <-> array reference, chunks: every slice length
            for &l in &ls {
                for form in 0..2 {
                    for f in [2, 3, 4] {
                        cs.push(Case { f, n, l, ty, form });
                    }
                }
            }
            // regrouping of whole chunks: C chunks, C * N <= 3N + 2
            let cmax = if n == 0 { 2 } else { 3 };
            for l in 0..=cmax {
                for form in 0..2 {
                    for f in [5, 6, 7] {
                        cs.push(Case { f, n, l, ty, form });
                    }
                }
            }
            cs.push(Case { f: 0, n, l: 0, ty, form: 0 });
            cs.push(Case { f: 1, n, l: 0, ty, form: 0 });
            cs.push(Case { f: 1, n, l: 0, ty, form: 1 });
            for f in [8, 9, 13, 14, 15, 16] {
                cs.push(Case { f, n, l: 0, ty, form: 0 });
            }
            cs.push(Case { f: 10, n, l: 0, ty, form: 0 });
            // negative control: one element left unwritten before assume_init
            if n > 0 {
                for l in [0, n / 2, n - 1] {
                    cs.push(Case { f: 10, n, l, ty, form: 2 });
                }
            }
            // const_transmute to every length of the lattice nearby
            for &mm in &ns {
                if mm == n || mm + 1 == n || mm == n + 1 || (mm == 0 && n <= 8) || (thorough && n <= 8 && mm <= 8) {
                    cs.push(Case { f: 11, n, l: mm, ty, form: 0 });
                }
            }
            for form in 0..6 {
                cs.push(Case { f: 12, n, l: 0, ty, form });
            }
            // const_transmute across alignments: from the byte image, and to bytes (sizes agree or not)
            if ty != 2 && n <= 256 {
                for form in [1, 2] {
                    cs.push(Case { f: 11, n, l: n, ty, form });
                    if n + 1 <= 256 && (n <= 8 || thorough) {
                        cs.push(Case { f: 11, n, l: n + 1, ty, form });
                    }
                }
            }
        }
    }
    let mut seen = std::collections::BTreeSet::new();
    cs.retain(|c| seen.insert((c.f, c.n, c.l, c.ty, c.form)));
    cs
}

fn main() {
    let a = args();
    let cases: Vec<Case> = match &a.replay {
        Some(c) => {
            assert!(c.len() == 5, "a C18 case has 5 integers");
            vec![Case { f: c[0] as usize, n: c[1] as usize, l: c[2] as usize, ty: c[3] as usize, form: c[4] as usize }]
        }
        None => enumerate(&a.tier, a.extra.iter().any(|x| x == "--big")),
    };
    let exps: Vec<Exp> = cases.iter().map(expect).collect();
    let tool = find_tool();
    note(&format!("rlib {}", tool.rlib.display()));

    // placement: cases whose const half is expected to be rejected go to metadata-only files
    // (their run-time half, unless it would be UB, goes to a linked file without const items)
    let ok_ids: Vec<usize> = (0..cases.len()).filter(|i| matches!(exps[*i], Exp::Vals(_))).collect();
    let rej_ids: Vec<usize> = (0..cases.len()).filter(|i| !matches!(exps[*i], Exp::Vals(_))).collect();
    let rt_ids: Vec<usize> = (0..cases.len()).filter(|i| exps[*i] == Exp::Panic).collect();
    let threads = 16usize;
    let mut units: Vec<Unit> = vec![];
    // balance by estimated size (number of observed values)
    let weight = |i: usize| match &exps[i] {
        Exp::Vals(v) => 20 + v.len(),
        _ => 20,
    };
    let mut add_units = |ids: &[usize], prefix: &str, with_const: bool, run: bool, opt: bool, per: usize| {
        let mut cur: Vec<usize> = vec![];
        let mut wsum = 0usize;
        let mut k = 0;
        for &i in ids {
            cur.push(i);
            wsum += weight(i);
            if wsum >= per {
                units.push(Unit { name: format!("{}{}", prefix, k), ids: std::mem::take(&mut cur), with_const, run, opt });
                k += 1;
                wsum = 0;
            }
        }
        if !cur.is_empty() {
            units.push(Unit { name: format!("{}{}", prefix, k), ids: cur, with_const, run, opt });
        }
    };
    let total_w: usize = ok_ids.iter().map(|i| weight(*i)).sum();
    let per = std::cmp::max(2000, total_w / (threads * 3) + 1);
    add_units(&ok_ids, "ok", true, true, false, per);
    add_units(&rej_ids, "rej", true, false, false, 20 * 400);
    add_units(&rt_ids, "rt", false, true, false, 20 * 400);
    let with_opt = a.tier == "thorough" || a.replay.is_some();
    if with_opt {
        // the same programs through the optimiser: run time must still agree with the const
        add_units(&ok_ids, "opt", true, true, true, per);
    }
    note(&format!("{} cases in {} generated programs", cases.len(), units.len()));

    let results: Mutex<BTreeMap<usize, Outcome>> = Mutex::new(BTreeMap::new());
    let next = AtomicUsize::new(0);
    std::thread::scope(|sc| {
        for _ in 0..threads {
            sc.spawn(|| loop {
                let i = next.fetch_add(1, Ordering::SeqCst);
                if i >= units.len() {
                    break;
                }
                process_unit(&tool, &units[i], &cases, &exps, &results);
            });
        }
    });
    let results = results.into_inner().unwrap();

    // Miri pass over the small-N cases whose const half is expected to evaluate
    let miri_max_n = if a.tier == "thorough" { 8 } else { 3 };
    let miri_ids: Vec<usize> = ok_ids
        .iter()
        .cloned()
        .filter(|i| a.replay.is_some() || cases[*i].n <= miri_max_n || (a.tier == "thorough" && matches!(cases[*i].n, 16 | 33) && cases[*i].ty != 1))
        .collect();
    let t_miri = std::time::Instant::now();
    let miri_bad = if std::env::var("C18_NO_MIRI").is_ok() || miri_ids.is_empty() { None } else { miri_pass(&tool, &miri_ids, &cases, &exps) };
    match &miri_bad {
        Some(b) => note(&format!("Miri pass (extra const UB checks + run-time UB detection): {} cases, {} flagged, {:.1}s", miri_ids.len(), b.len(), t_miri.elapsed().as_secs_f64())),
        None => note("Miri pass skipped (cargo +nightly miri not available or disabled): transient invalid references inside const fns are not sampled"),
    }
    let miri_set: std::collections::BTreeSet<usize> = miri_ids.iter().cloned().collect();

    for (i, c) in cases.iter().enumerate() {
        emit_case(&c.enc());
        dist(&format!("fn{}", c.f));
        dist(&format!("N{}", c.n));
        dist(&format!("ty{}", c.ty));
        let r = results.get(&i).cloned().unwrap_or_default();
        let (st, msg) = r.compile.clone().unwrap_or((-1, "not compiled".to_string()));
        let mut obs: Vec<i128> = vec![st as i128];
        if st == 1 {
            match &r.cvals {
                Some(v) => obs.extend(v.iter().map(|x| *x as i128)),
                None => obs.push(-77),
            }
        }
        emit_obs(&obs);
        dist(&format!("status{}", st));
        if st != 1 && !msg.is_empty() {
            note(&format!("case {:?}: {}", c.enc(), msg.chars().take(200).collect::<String>()));
        }
        // direct oracles
        if let Some(b) = &miri_bad {
            if let Some(m) = b.get(&i) {
                emit_oracle(&format!("Miri: {}", m.chars().take(400).collect::<String>()));
            }
            if miri_set.contains(&i) {
                dist("miri");
            }
        }
        match &exps[i] {
            Exp::Vals(v) => {
                if st != 1 {
                    emit_oracle(&format!("the const evaluator rejected a program over valid inputs: {}", msg.chars().take(300).collect::<String>()));
                } else {
                    if r.cvals.as_ref() != Some(v) {
                        emit_oracle(&format!("const value {:?} differs from the native expectation {:?}", r.cvals, v));
                    }
                    if r.rpanic || r.rvals != r.cvals {
                        emit_oracle(&format!("run time {:?} (panicked: {}) differs from the const value {:?}", r.rvals, r.rpanic, r.cvals));
                    }
                    if with_opt && r.ovals.clone().flatten() != r.cvals {
                        emit_oracle(&format!("optimised run time {:?} differs from the const value {:?}", r.ovals, r.cvals));
                    }
                }
            }
            Exp::Panic => {
                if st != 2 {
                    emit_oracle(&format!("expected a const-evaluation panic, got status {} {}", st, msg.chars().take(200).collect::<String>()));
                }
                if !r.rpanic {
                    emit_oracle(&format!("const evaluation panics but run time returned {:?}", r.rvals));
                }
            }
            Exp::Ub => {
                if st != 0 {
                    emit_oracle(&format!("negative control: the const evaluator did not reject an uninitialised read (status {})", st));
                }
            }
        }
    }
    let _ = std::fs::remove_dir_all(&tool.dir);
    flush_dist();
}

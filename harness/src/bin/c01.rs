//! C01: GenericArray<T, N> has exactly the memory layout of [T; N].
//!
//! Case encodings (first integer = kind):
//!   0  zeroed-memory view   [0, s, a, nd, d_0..d_{nd-1}, mode, nidx, i_0..]
//!   2  ConstDefault-built   [2, s, a, nd, d_0..d_{nd-1}, mode, nidx, i_0..]
//!        s, a = size_of / align_of of the element type; d = binary digits of the
//!        length type, least significant first, exactly as the UInt<..> nesting
//!        (leading B0 digits of non-normalised lengths come last);
//!        mode 0: offsets of the listed element indices, mode 1: offsets of all
//!        elements, mode 2: size and alignment only (object too big to allocate)
//!      OBS [size_of, align_of, as_slice().len(), offset...]   (mode 2: [size_of, align_of])
//!        offset = address of as_slice()[i] minus address of the array, -1 = no such element
//!   1  nested GenericArray<GenericArray<E, M>, N>
//!      [1, s, a, nd1, inner digits.., nd2, outer digits.., mode, nidx, i_0..]
//!      OBS [size_of, align_of, outer len, total inner elements, offset of flat element i ...]
//!   3  const_transmute::<[u8; A], [u8; B]>   [3, A, B]   OBS [1 if it panicked else 0]
//! Direct oracles (independent of the model): size/align equal those of the native
//! [T; N]; len == N; element i at i * size_of::<T>() and inside the object; a
//! ConstDefault-built array consists of N default elements and nothing else.
//!
//! The length lists below are mechanical (typenum names and their values).
#![allow(clippy::all)]
// Compile-time tie for the `repr` attributes (they cannot be observed at run time:
// rustc happens to lay out the repr(Rust) versions of these structs identically):
// rustc's own improper_ctypes analysis rejects the declaration below ("this struct has
// unspecified layout") as soon as GenericArrayImplEven, GenericArrayImplOdd or
// GenericArray loses its repr(C) / repr(transparent).  The harness then does not
// build and the check reports a violation without a failing input, which is right:
// the layout is then no longer guaranteed, although no (T, N) shows a difference.
#![deny(improper_ctypes)]
use const_default::ConstDefault;
use generic_array::typenum::*;
use generic_array::{const_transmute, ArrayLength, GenericArray};
use harness::*;
use std::alloc::{alloc_zeroed, dealloc, Layout};
use std::mem::{align_of, size_of, size_of_val};

// The `repr` tie and the non-normalised lengths are compiled only with the harness feature
// `c01x` (second run of the check), so that a change which removes those structs or the
// ArrayLength impls for non-normalised digit patterns cannot keep the MAIN run from building
// and from finding a concrete failing (T, N).
#[cfg(feature = "c01x")]
#[allow(dead_code)]
extern "C" {
    // never called, never linked: only type-checked.  U5 = odd(even(odd)), U6 = even(odd(odd))
    fn c01_declared_layout_probe(
        a: *const GenericArray<u8, U5>,
        b: *const GenericArray<u32, U6>,
        c: *const GenericArray<u64, U0>,
        d: *const GenericArray<GenericArray<u16, U3>, U2>,
    );
}

// ------------------------------------------------------------------ digits of a length type

trait Digits {
    fn digits(out: &mut Vec<i128>);
}
impl Digits for UTerm {
    fn digits(_: &mut Vec<i128>) {}
}
impl<N: Digits> Digits for UInt<N, B0> {
    fn digits(out: &mut Vec<i128>) {
        out.push(0);
        N::digits(out)
    }
}
impl<N: Digits> Digits for UInt<N, B1> {
    fn digits(out: &mut Vec<i128>) {
        out.push(1);
        N::digits(out)
    }
}

// ------------------------------------------------------------------ element types

#[allow(dead_code)]
#[repr(packed)]
struct Packed5 {
    a: u8,
    b: u32,
}
#[allow(dead_code)]
#[repr(packed(2))]
struct Packed6 {
    a: u16,
    b: u32,
}
#[allow(dead_code)]
#[repr(C)]
struct C12 {
    a: u8,
    b: u32,
    c: u8,
}
#[allow(dead_code)]
#[repr(align(2))]
struct A2(u8);
#[allow(dead_code)]
#[repr(align(4))]
struct A4(u8);
#[allow(dead_code)]
#[repr(align(8))]
struct A8([u8; 9]);
#[allow(dead_code)]
#[repr(align(16))]
struct A16(u8);
#[allow(dead_code)]
#[repr(align(32))]
struct A32([u8; 33]);
#[allow(dead_code)]
#[repr(align(64))]
struct A64(u8);
#[repr(align(64))]
struct Z64;
#[repr(align(4096))]
struct Z4096;

// ------------------------------------------------------------------ probes

/// Everything the check needs to know about one (T, N), collected without
/// constructing a value.
#[derive(Clone)]
struct Probe {
    n: u64,      // the value the length name denotes (literal next to the name)
    n_type: u64, // <N as Unsigned>::U64
    size: usize,
    align: usize,
    nat_size: usize, // size_of::<[T; n]>()
    nat_align: usize,
    digits: fn(&mut Vec<i128>),
    /// (address of as_slice()[0] .. as pointer, as_slice().len()) of the array at p
    view: unsafe fn(*const u8) -> (*const u8, usize),
}

unsafe fn view<T, N: ArrayLength>(p: *const u8) -> (*const u8, usize) {
    let r: &GenericArray<T, N> = &*(p as *const GenericArray<T, N>);
    let s: &[T] = r.as_slice();
    (s.as_ptr() as *const u8, s.len())
}

fn mk<T, N: ArrayLength + Digits>(n: u64, nat_size: usize, nat_align: usize) -> Probe {
    Probe {
        n,
        n_type: N::U64,
        size: size_of::<GenericArray<T, N>>(),
        align: align_of::<GenericArray<T, N>>(),
        nat_size,
        nat_align,
        digits: N::digits,
        view: view::<T, N>,
    }
}

/// addresses of the listed elements of the slice (ptr, len), relative to base
unsafe fn addrs<T>(ptr: *const u8, len: usize, idx: &[u64], full: bool, base: usize, out: &mut Vec<i128>) {
    let s: &[T] = std::slice::from_raw_parts(ptr as *const T, len);
    if full {
        for e in s.iter() {
            out.push((e as *const T as usize).wrapping_sub(base) as i128);
        }
    } else {
        for &i in idx {
            match s.get(i as usize) {
                Some(e) => out.push((e as *const T as usize).wrapping_sub(base) as i128),
                None => out.push(-1),
            }
        }
    }
}

macro_rules! mk_table {
    ($t:ty; $($u:ty = $n:literal),* $(,)?) => {
        vec![ $( mk::<$t, $u>($n, size_of::<[$t; $n]>(), align_of::<[$t; $n]>()) ),* ]
    };
}

/// every length 0..=1024 by its typenum name: `with_small_lens!(m; args)` expands to
/// `m!(args; U0 = 0, U1 = 1, ...)`
macro_rules! with_small_lens {
    ($cb:ident; $($pre:tt)*) => {
        $cb!($($pre)*; U0 = 0, U1 = 1, U2 = 2, U3 = 3, U4 = 4, U5 = 5, U6 = 6, U7 = 7, U8 = 8, U9 = 9, U10 = 10, U11 = 11,
            U12 = 12, U13 = 13, U14 = 14, U15 = 15, U16 = 16, U17 = 17, U18 = 18, U19 = 19, U20 = 20, U21 = 21,
            U22 = 22, U23 = 23, U24 = 24, U25 = 25, U26 = 26, U27 = 27, U28 = 28, U29 = 29, U30 = 30, U31 = 31,
            U32 = 32, U33 = 33, U34 = 34, U35 = 35, U36 = 36, U37 = 37, U38 = 38, U39 = 39, U40 = 40, U41 = 41,
            U42 = 42, U43 = 43, U44 = 44, U45 = 45, U46 = 46, U47 = 47, U48 = 48, U49 = 49, U50 = 50, U51 = 51,
            U52 = 52, U53 = 53, U54 = 54, U55 = 55, U56 = 56, U57 = 57, U58 = 58, U59 = 59, U60 = 60, U61 = 61,
            U62 = 62, U63 = 63, U64 = 64, U65 = 65, U66 = 66, U67 = 67, U68 = 68, U69 = 69, U70 = 70, U71 = 71,
            U72 = 72, U73 = 73, U74 = 74, U75 = 75, U76 = 76, U77 = 77, U78 = 78, U79 = 79, U80 = 80, U81 = 81,
            U82 = 82, U83 = 83, U84 = 84, U85 = 85, U86 = 86, U87 = 87, U88 = 88, U89 = 89, U90 = 90, U91 = 91,
            U92 = 92, U93 = 93, U94 = 94, U95 = 95, U96 = 96, U97 = 97, U98 = 98, U99 = 99, U100 = 100, U101 =
            101, U102 = 102, U103 = 103, U104 = 104, U105 = 105, U106 = 106, U107 = 107, U108 = 108, U109 = 109,
            U110 = 110, U111 = 111, U112 = 112, U113 = 113, U114 = 114, U115 = 115, U116 = 116, U117 = 117, U118
            = 118, U119 = 119, U120 = 120, U121 = 121, U122 = 122, U123 = 123, U124 = 124, U125 = 125, U126 =
            126, U127 = 127, U128 = 128, U129 = 129, U130 = 130, U131 = 131, U132 = 132, U133 = 133, U134 = 134,
            U135 = 135, U136 = 136, U137 = 137, U138 = 138, U139 = 139, U140 = 140, U141 = 141, U142 = 142, U143
            = 143, U144 = 144, U145 = 145, U146 = 146, U147 = 147, U148 = 148, U149 = 149, U150 = 150, U151 =
            151, U152 = 152, U153 = 153, U154 = 154, U155 = 155, U156 = 156, U157 = 157, U158 = 158, U159 = 159,
            U160 = 160, U161 = 161, U162 = 162, U163 = 163, U164 = 164, U165 = 165, U166 = 166, U167 = 167, U168
            = 168, U169 = 169, U170 = 170, U171 = 171, U172 = 172, U173 = 173, U174 = 174, U175 = 175, U176 =
            176, U177 = 177, U178 = 178, U179 = 179, U180 = 180, U181 = 181, U182 = 182, U183 = 183, U184 = 184,
            U185 = 185, U186 = 186, U187 = 187, U188 = 188, U189 = 189, U190 = 190, U191 = 191, U192 = 192, U193
            = 193, U194 = 194, U195 = 195, U196 = 196, U197 = 197, U198 = 198, U199 = 199, U200 = 200, U201 =
            201, U202 = 202, U203 = 203, U204 = 204, U205 = 205, U206 = 206, U207 = 207, U208 = 208, U209 = 209,
            U210 = 210, U211 = 211, U212 = 212, U213 = 213, U214 = 214, U215 = 215, U216 = 216, U217 = 217, U218
            = 218, U219 = 219, U220 = 220, U221 = 221, U222 = 222, U223 = 223, U224 = 224, U225 = 225, U226 =
            226, U227 = 227, U228 = 228, U229 = 229, U230 = 230, U231 = 231, U232 = 232, U233 = 233, U234 = 234,
            U235 = 235, U236 = 236, U237 = 237, U238 = 238, U239 = 239, U240 = 240, U241 = 241, U242 = 242, U243
            = 243, U244 = 244, U245 = 245, U246 = 246, U247 = 247, U248 = 248, U249 = 249, U250 = 250, U251 =
            251, U252 = 252, U253 = 253, U254 = 254, U255 = 255, U256 = 256, U257 = 257, U258 = 258, U259 = 259,
            U260 = 260, U261 = 261, U262 = 262, U263 = 263, U264 = 264, U265 = 265, U266 = 266, U267 = 267, U268
            = 268, U269 = 269, U270 = 270, U271 = 271, U272 = 272, U273 = 273, U274 = 274, U275 = 275, U276 =
            276, U277 = 277, U278 = 278, U279 = 279, U280 = 280, U281 = 281, U282 = 282, U283 = 283, U284 = 284,
            U285 = 285, U286 = 286, U287 = 287, U288 = 288, U289 = 289, U290 = 290, U291 = 291, U292 = 292, U293
            = 293, U294 = 294, U295 = 295, U296 = 296, U297 = 297, U298 = 298, U299 = 299, U300 = 300, U301 =
            301, U302 = 302, U303 = 303, U304 = 304, U305 = 305, U306 = 306, U307 = 307, U308 = 308, U309 = 309,
            U310 = 310, U311 = 311, U312 = 312, U313 = 313, U314 = 314, U315 = 315, U316 = 316, U317 = 317, U318
            = 318, U319 = 319, U320 = 320, U321 = 321, U322 = 322, U323 = 323, U324 = 324, U325 = 325, U326 =
            326, U327 = 327, U328 = 328, U329 = 329, U330 = 330, U331 = 331, U332 = 332, U333 = 333, U334 = 334,
            U335 = 335, U336 = 336, U337 = 337, U338 = 338, U339 = 339, U340 = 340, U341 = 341, U342 = 342, U343
            = 343, U344 = 344, U345 = 345, U346 = 346, U347 = 347, U348 = 348, U349 = 349, U350 = 350, U351 =
            351, U352 = 352, U353 = 353, U354 = 354, U355 = 355, U356 = 356, U357 = 357, U358 = 358, U359 = 359,
            U360 = 360, U361 = 361, U362 = 362, U363 = 363, U364 = 364, U365 = 365, U366 = 366, U367 = 367, U368
            = 368, U369 = 369, U370 = 370, U371 = 371, U372 = 372, U373 = 373, U374 = 374, U375 = 375, U376 =
            376, U377 = 377, U378 = 378, U379 = 379, U380 = 380, U381 = 381, U382 = 382, U383 = 383, U384 = 384,
            U385 = 385, U386 = 386, U387 = 387, U388 = 388, U389 = 389, U390 = 390, U391 = 391, U392 = 392, U393
            = 393, U394 = 394, U395 = 395, U396 = 396, U397 = 397, U398 = 398, U399 = 399, U400 = 400, U401 =
            401, U402 = 402, U403 = 403, U404 = 404, U405 = 405, U406 = 406, U407 = 407, U408 = 408, U409 = 409,
            U410 = 410, U411 = 411, U412 = 412, U413 = 413, U414 = 414, U415 = 415, U416 = 416, U417 = 417, U418
            = 418, U419 = 419, U420 = 420, U421 = 421, U422 = 422, U423 = 423, U424 = 424, U425 = 425, U426 =
            426, U427 = 427, U428 = 428, U429 = 429, U430 = 430, U431 = 431, U432 = 432, U433 = 433, U434 = 434,
            U435 = 435, U436 = 436, U437 = 437, U438 = 438, U439 = 439, U440 = 440, U441 = 441, U442 = 442, U443
            = 443, U444 = 444, U445 = 445, U446 = 446, U447 = 447, U448 = 448, U449 = 449, U450 = 450, U451 =
            451, U452 = 452, U453 = 453, U454 = 454, U455 = 455, U456 = 456, U457 = 457, U458 = 458, U459 = 459,
            U460 = 460, U461 = 461, U462 = 462, U463 = 463, U464 = 464, U465 = 465, U466 = 466, U467 = 467, U468
            = 468, U469 = 469, U470 = 470, U471 = 471, U472 = 472, U473 = 473, U474 = 474, U475 = 475, U476 =
            476, U477 = 477, U478 = 478, U479 = 479, U480 = 480, U481 = 481, U482 = 482, U483 = 483, U484 = 484,
            U485 = 485, U486 = 486, U487 = 487, U488 = 488, U489 = 489, U490 = 490, U491 = 491, U492 = 492, U493
            = 493, U494 = 494, U495 = 495, U496 = 496, U497 = 497, U498 = 498, U499 = 499, U500 = 500, U501 =
            501, U502 = 502, U503 = 503, U504 = 504, U505 = 505, U506 = 506, U507 = 507, U508 = 508, U509 = 509,
            U510 = 510, U511 = 511, U512 = 512, U513 = 513, U514 = 514, U515 = 515, U516 = 516, U517 = 517, U518
            = 518, U519 = 519, U520 = 520, U521 = 521, U522 = 522, U523 = 523, U524 = 524, U525 = 525, U526 =
            526, U527 = 527, U528 = 528, U529 = 529, U530 = 530, U531 = 531, U532 = 532, U533 = 533, U534 = 534,
            U535 = 535, U536 = 536, U537 = 537, U538 = 538, U539 = 539, U540 = 540, U541 = 541, U542 = 542, U543
            = 543, U544 = 544, U545 = 545, U546 = 546, U547 = 547, U548 = 548, U549 = 549, U550 = 550, U551 =
            551, U552 = 552, U553 = 553, U554 = 554, U555 = 555, U556 = 556, U557 = 557, U558 = 558, U559 = 559,
            U560 = 560, U561 = 561, U562 = 562, U563 = 563, U564 = 564, U565 = 565, U566 = 566, U567 = 567, U568
            = 568, U569 = 569, U570 = 570, U571 = 571, U572 = 572, U573 = 573, U574 = 574, U575 = 575, U576 =
            576, U577 = 577, U578 = 578, U579 = 579, U580 = 580, U581 = 581, U582 = 582, U583 = 583, U584 = 584,
            U585 = 585, U586 = 586, U587 = 587, U588 = 588, U589 = 589, U590 = 590, U591 = 591, U592 = 592, U593
            = 593, U594 = 594, U595 = 595, U596 = 596, U597 = 597, U598 = 598, U599 = 599, U600 = 600, U601 =
            601, U602 = 602, U603 = 603, U604 = 604, U605 = 605, U606 = 606, U607 = 607, U608 = 608, U609 = 609,
            U610 = 610, U611 = 611, U612 = 612, U613 = 613, U614 = 614, U615 = 615, U616 = 616, U617 = 617, U618
            = 618, U619 = 619, U620 = 620, U621 = 621, U622 = 622, U623 = 623, U624 = 624, U625 = 625, U626 =
            626, U627 = 627, U628 = 628, U629 = 629, U630 = 630, U631 = 631, U632 = 632, U633 = 633, U634 = 634,
            U635 = 635, U636 = 636, U637 = 637, U638 = 638, U639 = 639, U640 = 640, U641 = 641, U642 = 642, U643
            = 643, U644 = 644, U645 = 645, U646 = 646, U647 = 647, U648 = 648, U649 = 649, U650 = 650, U651 =
            651, U652 = 652, U653 = 653, U654 = 654, U655 = 655, U656 = 656, U657 = 657, U658 = 658, U659 = 659,
            U660 = 660, U661 = 661, U662 = 662, U663 = 663, U664 = 664, U665 = 665, U666 = 666, U667 = 667, U668
            = 668, U669 = 669, U670 = 670, U671 = 671, U672 = 672, U673 = 673, U674 = 674, U675 = 675, U676 =
            676, U677 = 677, U678 = 678, U679 = 679, U680 = 680, U681 = 681, U682 = 682, U683 = 683, U684 = 684,
            U685 = 685, U686 = 686, U687 = 687, U688 = 688, U689 = 689, U690 = 690, U691 = 691, U692 = 692, U693
            = 693, U694 = 694, U695 = 695, U696 = 696, U697 = 697, U698 = 698, U699 = 699, U700 = 700, U701 =
            701, U702 = 702, U703 = 703, U704 = 704, U705 = 705, U706 = 706, U707 = 707, U708 = 708, U709 = 709,
            U710 = 710, U711 = 711, U712 = 712, U713 = 713, U714 = 714, U715 = 715, U716 = 716, U717 = 717, U718
            = 718, U719 = 719, U720 = 720, U721 = 721, U722 = 722, U723 = 723, U724 = 724, U725 = 725, U726 =
            726, U727 = 727, U728 = 728, U729 = 729, U730 = 730, U731 = 731, U732 = 732, U733 = 733, U734 = 734,
            U735 = 735, U736 = 736, U737 = 737, U738 = 738, U739 = 739, U740 = 740, U741 = 741, U742 = 742, U743
            = 743, U744 = 744, U745 = 745, U746 = 746, U747 = 747, U748 = 748, U749 = 749, U750 = 750, U751 =
            751, U752 = 752, U753 = 753, U754 = 754, U755 = 755, U756 = 756, U757 = 757, U758 = 758, U759 = 759,
            U760 = 760, U761 = 761, U762 = 762, U763 = 763, U764 = 764, U765 = 765, U766 = 766, U767 = 767, U768
            = 768, U769 = 769, U770 = 770, U771 = 771, U772 = 772, U773 = 773, U774 = 774, U775 = 775, U776 =
            776, U777 = 777, U778 = 778, U779 = 779, U780 = 780, U781 = 781, U782 = 782, U783 = 783, U784 = 784,
            U785 = 785, U786 = 786, U787 = 787, U788 = 788, U789 = 789, U790 = 790, U791 = 791, U792 = 792, U793
            = 793, U794 = 794, U795 = 795, U796 = 796, U797 = 797, U798 = 798, U799 = 799, U800 = 800, U801 =
            801, U802 = 802, U803 = 803, U804 = 804, U805 = 805, U806 = 806, U807 = 807, U808 = 808, U809 = 809,
            U810 = 810, U811 = 811, U812 = 812, U813 = 813, U814 = 814, U815 = 815, U816 = 816, U817 = 817, U818
            = 818, U819 = 819, U820 = 820, U821 = 821, U822 = 822, U823 = 823, U824 = 824, U825 = 825, U826 =
            826, U827 = 827, U828 = 828, U829 = 829, U830 = 830, U831 = 831, U832 = 832, U833 = 833, U834 = 834,
            U835 = 835, U836 = 836, U837 = 837, U838 = 838, U839 = 839, U840 = 840, U841 = 841, U842 = 842, U843
            = 843, U844 = 844, U845 = 845, U846 = 846, U847 = 847, U848 = 848, U849 = 849, U850 = 850, U851 =
            851, U852 = 852, U853 = 853, U854 = 854, U855 = 855, U856 = 856, U857 = 857, U858 = 858, U859 = 859,
            U860 = 860, U861 = 861, U862 = 862, U863 = 863, U864 = 864, U865 = 865, U866 = 866, U867 = 867, U868
            = 868, U869 = 869, U870 = 870, U871 = 871, U872 = 872, U873 = 873, U874 = 874, U875 = 875, U876 =
            876, U877 = 877, U878 = 878, U879 = 879, U880 = 880, U881 = 881, U882 = 882, U883 = 883, U884 = 884,
            U885 = 885, U886 = 886, U887 = 887, U888 = 888, U889 = 889, U890 = 890, U891 = 891, U892 = 892, U893
            = 893, U894 = 894, U895 = 895, U896 = 896, U897 = 897, U898 = 898, U899 = 899, U900 = 900, U901 =
            901, U902 = 902, U903 = 903, U904 = 904, U905 = 905, U906 = 906, U907 = 907, U908 = 908, U909 = 909,
            U910 = 910, U911 = 911, U912 = 912, U913 = 913, U914 = 914, U915 = 915, U916 = 916, U917 = 917, U918
            = 918, U919 = 919, U920 = 920, U921 = 921, U922 = 922, U923 = 923, U924 = 924, U925 = 925, U926 =
            926, U927 = 927, U928 = 928, U929 = 929, U930 = 930, U931 = 931, U932 = 932, U933 = 933, U934 = 934,
            U935 = 935, U936 = 936, U937 = 937, U938 = 938, U939 = 939, U940 = 940, U941 = 941, U942 = 942, U943
            = 943, U944 = 944, U945 = 945, U946 = 946, U947 = 947, U948 = 948, U949 = 949, U950 = 950, U951 =
            951, U952 = 952, U953 = 953, U954 = 954, U955 = 955, U956 = 956, U957 = 957, U958 = 958, U959 = 959,
            U960 = 960, U961 = 961, U962 = 962, U963 = 963, U964 = 964, U965 = 965, U966 = 966, U967 = 967, U968
            = 968, U969 = 969, U970 = 970, U971 = 971, U972 = 972, U973 = 973, U974 = 974, U975 = 975, U976 =
            976, U977 = 977, U978 = 978, U979 = 979, U980 = 980, U981 = 981, U982 = 982, U983 = 983, U984 = 984,
            U985 = 985, U986 = 986, U987 = 987, U988 = 988, U989 = 989, U990 = 990, U991 = 991, U992 = 992, U993
            = 993, U994 = 994, U995 = 995, U996 = 996, U997 = 997, U998 = 998, U999 = 999, U1000 = 1000, U1001 =
            1001, U1002 = 1002, U1003 = 1003, U1004 = 1004, U1005 = 1005, U1006 = 1006, U1007 = 1007, U1008 =
            1008, U1009 = 1009, U1010 = 1010, U1011 = 1011, U1012 = 1012, U1013 = 1013, U1014 = 1014, U1015 =
            1015, U1016 = 1016, U1017 = 1017, U1018 = 1018, U1019 = 1019, U1020 = 1020, U1021 = 1021, U1022 =
            1022, U1023 = 1023, U1024 = 1024)
    };
}
fn table_small<T>() -> Vec<Probe> {
    with_small_lens!(mk_table; T)
}
/// the quick length set only (for the additional element layouts)
fn table_q<T>() -> Vec<Probe> {
    mk_table!(T; U0 = 0, U1 = 1, U2 = 2, U3 = 3, U4 = 4, U5 = 5, U6 = 6, U7 = 7, U8 = 8, U9 = 9, U10 = 10,
        U11 = 11, U12 = 12, U13 = 13, U14 = 14, U15 = 15, U16 = 16, U17 = 17, U18 = 18, U19 = 19, U20 = 20,
        U21 = 21, U22 = 22, U23 = 23, U24 = 24, U25 = 25, U26 = 26, U27 = 27, U28 = 28, U29 = 29, U30 = 30,
        U31 = 31, U32 = 32, U33 = 33, U34 = 34, U35 = 35, U36 = 36, U37 = 37, U38 = 38, U39 = 39, U40 = 40,
        U41 = 41, U42 = 42, U43 = 43, U44 = 44, U45 = 45, U46 = 46, U47 = 47, U48 = 48, U49 = 49, U50 = 50,
        U51 = 51, U52 = 52, U53 = 53, U54 = 54, U55 = 55, U56 = 56, U57 = 57, U58 = 58, U59 = 59, U60 = 60,
        U61 = 61, U62 = 62, U63 = 63, U64 = 64, U97 = 97, U127 = 127, U128 = 128, U255 = 255, U256 = 256,
        U1023 = 1023, U1024 = 1024, Sum<U1024, U1> = 1025)
}
fn table_medium<T>() -> Vec<Probe> {
    mk_table!(T; Sum<U1024, U1> = 1025, U2047 = 2047, U2048 = 2048, Sum<U2048, U1> = 2049, Prod<U3, U1000> = 3000,
        U4095 = 4095, U4096 = 4096, U10000 = 10000)
}
fn table_big_zst<T>() -> Vec<Probe> {
    mk_table!(T; U8191 = 8191, U8192 = 8192, U16383 = 16383, U16384 = 16384, U32767 = 32767, U32768 = 32768, U65535 =
        65535, U65536 = 65536, U100000 = 100000, U131071 = 131071, U131072 = 131072, U262143 = 262143,
        U262144 = 262144, U524287 = 524287, U524288 = 524288, U1000000 = 1000000, U1048575 = 1048575,
        U1048576 = 1048576, U2097151 = 2097151, U2097152 = 2097152, U4194303 = 4194303, U4194304 = 4194304,
        U8388607 = 8388607, U8388608 = 8388608, U10000000 = 10000000, U16777215 = 16777215, U16777216 =
        16777216, U33554431 = 33554431, U33554432 = 33554432, U67108863 = 67108863, U67108864 = 67108864,
        U100000000 = 100000000, U134217727 = 134217727, U134217728 = 134217728, U268435455 = 268435455,
        U268435456 = 268435456, U536870911 = 536870911, U536870912 = 536870912, U1000000000 = 1000000000,
        U1073741823 = 1073741823, U1073741824 = 1073741824, U2147483647 = 2147483647, U2147483648 =
        2147483648, U4294967295 = 4294967295, U4294967296 = 4294967296, U8589934591 = 8589934591,
        U8589934592 = 8589934592, U10000000000 = 10000000000, U17179869183 = 17179869183, U17179869184 =
        17179869184, U34359738367 = 34359738367, U34359738368 = 34359738368, U68719476735 = 68719476735,
        U68719476736 = 68719476736, U100000000000 = 100000000000, U137438953471 = 137438953471,
        U137438953472 = 137438953472, U274877906943 = 274877906943, U274877906944 = 274877906944,
        U549755813887 = 549755813887, U549755813888 = 549755813888, U1000000000000 = 1000000000000,
        U1099511627775 = 1099511627775, U1099511627776 = 1099511627776, U2199023255551 = 2199023255551,
        U2199023255552 = 2199023255552, U4398046511103 = 4398046511103, U4398046511104 = 4398046511104,
        U8796093022207 = 8796093022207, U8796093022208 = 8796093022208, U10000000000000 = 10000000000000,
        U17592186044415 = 17592186044415, U17592186044416 = 17592186044416, U35184372088831 =
        35184372088831, U35184372088832 = 35184372088832, U70368744177663 = 70368744177663, U70368744177664
        = 70368744177664, U100000000000000 = 100000000000000, U140737488355327 = 140737488355327,
        U140737488355328 = 140737488355328, U281474976710655 = 281474976710655, U281474976710656 =
        281474976710656, U562949953421311 = 562949953421311, U562949953421312 = 562949953421312,
        U1000000000000000 = 1000000000000000, U1125899906842623 = 1125899906842623, U1125899906842624 =
        1125899906842624, U2251799813685247 = 2251799813685247, U2251799813685248 = 2251799813685248,
        U4503599627370495 = 4503599627370495, U4503599627370496 = 4503599627370496, U9007199254740991 =
        9007199254740991, U9007199254740992 = 9007199254740992, U10000000000000000 = 10000000000000000,
        U18014398509481983 = 18014398509481983, U18014398509481984 = 18014398509481984, U36028797018963967 =
        36028797018963967, U36028797018963968 = 36028797018963968, U72057594037927935 = 72057594037927935,
        U72057594037927936 = 72057594037927936, U100000000000000000 = 100000000000000000,
        U144115188075855871 = 144115188075855871, U144115188075855872 = 144115188075855872,
        U288230376151711743 = 288230376151711743, U288230376151711744 = 288230376151711744,
        U576460752303423487 = 576460752303423487, U576460752303423488 = 576460752303423488,
        U1000000000000000000 = 1000000000000000000, U1152921504606846975 = 1152921504606846975,
        U1152921504606846976 = 1152921504606846976, U2305843009213693951 = 2305843009213693951,
        U2305843009213693952 = 2305843009213693952, U4611686018427387903 = 4611686018427387903,
        U4611686018427387904 = 4611686018427387904)
}
fn table_big_u8() -> Vec<Probe> {
    mk_table!(u8; U8191 = 8191, U8192 = 8192, U16383 = 16383, U16384 = 16384, U32767 = 32767, U32768 = 32768, U65535 =
        65535, U65536 = 65536, U100000 = 100000, U131071 = 131071, U131072 = 131072, U262143 = 262143,
        U262144 = 262144, U524287 = 524287, U524288 = 524288, U1000000 = 1000000, U1048575 = 1048575,
        U1048576 = 1048576, U2097151 = 2097151, U2097152 = 2097152, U4194303 = 4194303, U4194304 = 4194304,
        U8388607 = 8388607, U8388608 = 8388608, U10000000 = 10000000, U16777215 = 16777215, U16777216 =
        16777216, U33554431 = 33554431, U33554432 = 33554432, U67108863 = 67108863, U67108864 = 67108864,
        U100000000 = 100000000, U134217727 = 134217727, U134217728 = 134217728, U268435455 = 268435455,
        U268435456 = 268435456, U536870911 = 536870911, U536870912 = 536870912, U1000000000 = 1000000000,
        U1073741823 = 1073741823, U1073741824 = 1073741824, U2147483647 = 2147483647, U2147483648 =
        2147483648, U4294967295 = 4294967295, U4294967296 = 4294967296, U8589934591 = 8589934591,
        U8589934592 = 8589934592, U10000000000 = 10000000000, U17179869183 = 17179869183, U17179869184 =
        17179869184, U34359738367 = 34359738367, U34359738368 = 34359738368, U68719476735 = 68719476735,
        U68719476736 = 68719476736, U100000000000 = 100000000000, U137438953471 = 137438953471,
        U137438953472 = 137438953472, U274877906943 = 274877906943, U274877906944 = 274877906944,
        U549755813887 = 549755813887, U549755813888 = 549755813888, U1000000000000 = 1000000000000,
        U1099511627775 = 1099511627775, U1099511627776 = 1099511627776, U2199023255551 = 2199023255551,
        U2199023255552 = 2199023255552, U4398046511103 = 4398046511103, U4398046511104 = 4398046511104,
        U8796093022207 = 8796093022207, U8796093022208 = 8796093022208, U10000000000000 = 10000000000000,
        U17592186044415 = 17592186044415, U17592186044416 = 17592186044416, U35184372088831 =
        35184372088831, U35184372088832 = 35184372088832, U70368744177663 = 70368744177663, U70368744177664
        = 70368744177664, U100000000000000 = 100000000000000, U140737488355327 = 140737488355327,
        U140737488355328 = 140737488355328, U281474976710655 = 281474976710655, U281474976710656 =
        281474976710656, U562949953421311 = 562949953421311, U562949953421312 = 562949953421312,
        U1000000000000000 = 1000000000000000, U1125899906842623 = 1125899906842623, U1125899906842624 =
        1125899906842624, U2251799813685247 = 2251799813685247, U2251799813685248 = 2251799813685248,
        U4503599627370495 = 4503599627370495, U4503599627370496 = 4503599627370496, U9007199254740991 =
        9007199254740991, U9007199254740992 = 9007199254740992, U10000000000000000 = 10000000000000000,
        U18014398509481983 = 18014398509481983, U18014398509481984 = 18014398509481984, U36028797018963967 =
        36028797018963967, U36028797018963968 = 36028797018963968, U72057594037927935 = 72057594037927935,
        U72057594037927936 = 72057594037927936)
}
fn table_big_u32() -> Vec<Probe> {
    mk_table!(u32; U8191 = 8191, U8192 = 8192, U16383 = 16383, U16384 = 16384, U32767 = 32767, U32768 = 32768, U65535 =
        65535, U65536 = 65536, U100000 = 100000, U131071 = 131071, U131072 = 131072, U262143 = 262143,
        U262144 = 262144, U524287 = 524287, U524288 = 524288, U1000000 = 1000000, U1048575 = 1048575,
        U1048576 = 1048576, U2097151 = 2097151, U2097152 = 2097152, U4194303 = 4194303, U4194304 = 4194304,
        U8388607 = 8388607, U8388608 = 8388608, U10000000 = 10000000, U16777215 = 16777215, U16777216 =
        16777216, U33554431 = 33554431, U33554432 = 33554432, U67108863 = 67108863, U67108864 = 67108864,
        U100000000 = 100000000, U134217727 = 134217727, U134217728 = 134217728, U268435455 = 268435455,
        U268435456 = 268435456, U536870911 = 536870911, U536870912 = 536870912, U1000000000 = 1000000000,
        U1073741823 = 1073741823, U1073741824 = 1073741824, U2147483647 = 2147483647, U2147483648 =
        2147483648, U4294967295 = 4294967295, U4294967296 = 4294967296, U8589934591 = 8589934591,
        U8589934592 = 8589934592, U10000000000 = 10000000000, U17179869183 = 17179869183, U17179869184 =
        17179869184, U34359738367 = 34359738367, U34359738368 = 34359738368, U68719476735 = 68719476735,
        U68719476736 = 68719476736, U100000000000 = 100000000000, U137438953471 = 137438953471,
        U137438953472 = 137438953472, U274877906943 = 274877906943, U274877906944 = 274877906944,
        U549755813887 = 549755813887, U549755813888 = 549755813888, U1000000000000 = 1000000000000,
        U1099511627775 = 1099511627775, U1099511627776 = 1099511627776, U2199023255551 = 2199023255551,
        U2199023255552 = 2199023255552, U4398046511103 = 4398046511103, U4398046511104 = 4398046511104,
        U8796093022207 = 8796093022207, U8796093022208 = 8796093022208, U10000000000000 = 10000000000000,
        U17592186044415 = 17592186044415, U17592186044416 = 17592186044416, U35184372088831 =
        35184372088831, U35184372088832 = 35184372088832, U70368744177663 = 70368744177663, U70368744177664
        = 70368744177664, U100000000000000 = 100000000000000, U140737488355327 = 140737488355327,
        U140737488355328 = 140737488355328, U281474976710655 = 281474976710655, U281474976710656 =
        281474976710656, U562949953421311 = 562949953421311, U562949953421312 = 562949953421312,
        U1000000000000000 = 1000000000000000, U1125899906842623 = 1125899906842623, U1125899906842624 =
        1125899906842624, U2251799813685247 = 2251799813685247, U2251799813685248 = 2251799813685248,
        U4503599627370495 = 4503599627370495, U4503599627370496 = 4503599627370496, U9007199254740991 =
        9007199254740991, U9007199254740992 = 9007199254740992, U10000000000000000 = 10000000000000000,
        U18014398509481983 = 18014398509481983, U18014398509481984 = 18014398509481984)
}

// non-normalised lengths: leading (most significant) B0 digits
type L1 = UInt<UTerm, B0>;
type L2 = UInt<L1, B0>;
type L3 = UInt<L2, B0>;
type L7 = UInt<UInt<UInt<UInt<L3, B0>, B0>, B0>, B0>;
#[cfg(not(feature = "c01x"))]
fn table_nonnorm<T>() -> Vec<Probe> {
    vec![]
}
#[cfg(feature = "c01x")]
fn table_nonnorm<T>() -> Vec<Probe> {
    mk_table!(T;
        L1 = 0, L2 = 0, L3 = 0, L7 = 0,
        UInt<L1, B1> = 1, UInt<L2, B1> = 1, UInt<L7, B1> = 1,
        UInt<UInt<L1, B1>, B0> = 2, UInt<UInt<L3, B1>, B0> = 2,
        UInt<UInt<L1, B1>, B1> = 3, UInt<UInt<L2, B1>, B1> = 3,
        UInt<UInt<UInt<L1, B1>, B0>, B0> = 4,
        UInt<UInt<UInt<L2, B1>, B0>, B1> = 5,
        UInt<UInt<UInt<L1, B1>, B1>, B0> = 6,
        UInt<UInt<UInt<L7, B1>, B1>, B1> = 7,
        UInt<UInt<UInt<UInt<L1, B1>, B0>, B0>, B0> = 8,
        UInt<UInt<UInt<UInt<UInt<UInt<UInt<L2, B1>, B1>, B0>, B0>, B0>, B0>, B1> = 97)
}

struct Ty {
    name: &'static str,
    size: usize,
    align: usize,
    addrs: unsafe fn(*const u8, usize, &[u64], bool, usize, &mut Vec<i128>),
    small: fn() -> Vec<Probe>,
    q: fn() -> Vec<Probe>,
    medium: fn() -> Vec<Probe>,
    nonnorm: fn() -> Vec<Probe>,
    big: Option<fn() -> Vec<Probe>>,
}

fn ty<T>(name: &'static str, big: Option<fn() -> Vec<Probe>>) -> Ty {
    Ty {
        name,
        size: size_of::<T>(),
        align: align_of::<T>(),
        addrs: addrs::<T>,
        small: table_small::<T>,
        q: table_q::<T>,
        medium: table_medium::<T>,
        nonnorm: table_nonnorm::<T>,
        big,
    }
}
/// additional element layouts: quick length set only (keeps the number of
/// monomorphised instances bounded)
fn ty_q<T>(name: &'static str) -> Ty {
    Ty {
        name,
        size: size_of::<T>(),
        align: align_of::<T>(),
        addrs: addrs::<T>,
        small: table_q::<T>,
        q: table_q::<T>,
        medium: Vec::new,
        nonnorm: table_nonnorm::<T>,
        big: None,
    }
}

// ------------------------------------------------------------------ jobs

struct Job {
    case: Vec<i128>,
    key: String,
    run: Box<dyn Fn() -> (Vec<i128>, Vec<String>)>,
}

const QUICK_LENS: [u64; 8] = [97, 127, 128, 255, 256, 1023, 1024, 1025];
fn in_quick(n: u64) -> bool {
    n <= 64 || QUICK_LENS.contains(&n)
}

const FULL_MAX: u64 = 128; // every offset is listed up to this length
const ALLOC_MAX: usize = 1 << 24; // objects above this size: size and alignment only

fn index_set(n: u64) -> Vec<u64> {
    let mut v = vec![0, 1, n / 2, n.saturating_sub(1), n];
    v.sort();
    v.dedup();
    v
}

fn header(kind: i128, s: usize, a: usize, p: &Probe) -> Vec<i128> {
    let mut d = vec![];
    (p.digits)(&mut d);
    let mut c = vec![kind, s as i128, a as i128, d.len() as i128];
    c.extend(d);
    c
}

const MODEL_MAX: u64 = 4096; // above this length the case asks the model for size/alignment only

/// (mode written into the case, indices listed in the case)
fn mode_of(p: &Probe) -> (i128, Vec<u64>) {
    if p.size > ALLOC_MAX || p.n > MODEL_MAX {
        (2, vec![])
    } else if p.n <= FULL_MAX {
        (1, vec![])
    } else {
        (0, index_set(p.n))
    }
}

/// property oracles on what was observed, independent of the model
fn oracles(t_size: usize, p: &Probe, mode: i128, idx: &[u64], len: u64, offs: &[i128], out: &mut Vec<String>) {
    if p.size != p.nat_size {
        out.push(format!("size_of GenericArray = {} but size_of [T; {}] = {}", p.size, p.n, p.nat_size));
    }
    if p.align != p.nat_align {
        out.push(format!("align_of GenericArray = {} but align_of [T; {}] = {}", p.align, p.n, p.nat_align));
    }
    if p.n_type != p.n {
        out.push(format!("length type denotes {} instead of {}", p.n_type, p.n));
    }
    if mode == 2 {
        return;
    }
    if len != p.n {
        out.push(format!("as_slice().len() = {} for N = {}", len, p.n));
    }
    let listed: Vec<u64> = if mode == 1 { (0..len).collect() } else { idx.to_vec() };
    for (k, &i) in listed.iter().enumerate() {
        let o = offs.get(k).copied().unwrap_or(-2);
        if i < p.n {
            let want = i as i128 * t_size as i128;
            if o != want {
                out.push(format!("element {} at offset {} instead of {}", i, o, want));
            } else if o + t_size as i128 > p.size as i128 {
                out.push(format!("element {} at {}..{} outside the object of {} bytes", i, o, o + t_size as i128, p.size));
            }
        } else if o != -1 {
            out.push(format!("element {} exists (offset {}) in an array of {}", i, o, p.n));
        }
    }
}

fn with_zeroed<R>(size: usize, align: usize, f: impl FnOnce(*const u8) -> R) -> R {
    if size == 0 {
        // a dangling, well-aligned pointer is a valid address for a zero-sized object
        return f(align as *const u8);
    }
    let l = Layout::from_size_align(size, align).unwrap();
    let p = unsafe { alloc_zeroed(l) };
    assert!(!p.is_null());
    let r = f(p);
    unsafe { dealloc(p, l) };
    r
}

fn flat_job(t: &Ty, p: &Probe) -> Job {
    let (mode, idx) = mode_of(p);
    let mut case = header(0, t.size, t.align, p);
    case.push(mode);
    case.push(idx.len() as i128);
    case.extend(idx.iter().map(|i| *i as i128));
    let (p, t_size, t_addrs) = (p.clone(), t.size, t.addrs);
    let key = format!("{}", t.name);
    Job {
        case,
        key,
        run: Box::new(move || {
            let mut obs = vec![p.size as i128, p.align as i128];
            let mut bad = vec![];
            if p.size != p.nat_size || p.align != p.nat_align {
                // viewing such an object as a slice would be out of bounds or misaligned:
                // report, do not execute the undefined behaviour
                oracles(t_size, &p, 2, &[], 0, &[], &mut bad);
                if mode != 2 {
                    obs.push(-7);
                }
                return (obs, bad);
            }
            if mode == 2 {
                if p.size <= ALLOC_MAX {
                    // not compared with the model, but still checked directly
                    let ix = index_set(p.n);
                    let mut offs = vec![];
                    let len = with_zeroed(p.size, p.align.max(1), |ptr| unsafe {
                        let (sp, len) = (p.view)(ptr);
                        t_addrs(sp, len, &ix, false, ptr as usize, &mut offs);
                        len as u64
                    });
                    oracles(t_size, &p, 0, &ix, len, &offs, &mut bad);
                } else {
                    oracles(t_size, &p, mode, &idx, 0, &[], &mut bad);
                }
                return (obs, bad);
            }
            let mut offs = vec![];
            let len = with_zeroed(p.size, p.align.max(1), |ptr| unsafe {
                let (sp, len) = (p.view)(ptr);
                t_addrs(sp, len, &idx, mode == 1, ptr as usize, &mut offs);
                len as u64
            });
            obs.push(len as i128);
            obs.extend(&offs);
            oracles(t_size, &p, mode, &idx, len, &offs, &mut bad);
            (obs, bad)
        }),
    }
}

// ------------------------------------------------------------------ ConstDefault-built arrays

trait Pat: ConstDefault + Sized {
    fn bytes() -> Vec<u8>;
}
#[derive(PartialEq, Clone, Copy)]
#[repr(transparent)]
struct P4(u32);
impl ConstDefault for P4 {
    const DEFAULT: Self = P4(0xA5C3_0F1E);
}
impl Pat for P4 {
    fn bytes() -> Vec<u8> {
        0xA5C3_0F1Eu32.to_ne_bytes().to_vec()
    }
}
#[derive(PartialEq, Clone, Copy)]
#[repr(transparent)]
struct P3([u8; 3]);
impl ConstDefault for P3 {
    const DEFAULT: Self = P3([0xA1, 0xB2, 0xC3]);
}
impl Pat for P3 {
    fn bytes() -> Vec<u8> {
        vec![0xA1, 0xB2, 0xC3]
    }
}
#[derive(PartialEq, Clone, Copy)]
#[repr(transparent)]
struct P16(u128);
impl ConstDefault for P16 {
    const DEFAULT: Self = P16(0x0102_0304_0506_0708_090A_0B0C_0D0E_0F10);
}
impl Pat for P16 {
    fn bytes() -> Vec<u8> {
        0x0102_0304_0506_0708_090A_0B0C_0D0E_0F10u128.to_ne_bytes().to_vec()
    }
}
#[derive(PartialEq, Clone, Copy)]
struct P0;
impl ConstDefault for P0 {
    const DEFAULT: Self = P0;
}
impl Pat for P0 {
    fn bytes() -> Vec<u8> {
        vec![]
    }
}

struct CdProbe {
    p: Probe,
    /// builds the array field by field through ConstDefault, reads it back through the
    /// slice view: (len, offsets, size_of_val, every byte of the object belongs to a default element)
    build: fn(&[u64], bool, &mut Vec<i128>) -> (u64, usize, Option<String>),
}

fn cd_build<T: Pat, N: ArrayLength>(idx: &[u64], full: bool, out: &mut Vec<i128>) -> (u64, usize, Option<String>)
where
    GenericArray<T, N>: ConstDefault,
{
    let arr: GenericArray<T, N> = GenericArray::<T, N>::const_default();
    let base = &arr as *const GenericArray<T, N> as usize;
    if size_of::<GenericArray<T, N>>() != N::USIZE * size_of::<T>() || align_of::<GenericArray<T, N>>() != align_of::<T>() {
        out.push(-7);
        return (0, size_of_val(&arr), Some("layout differs from [T; N]: slice view not taken".to_string()));
    }
    let s = arr.as_slice();
    unsafe { addrs::<T>(s.as_ptr() as *const u8, s.len(), idx, full, base, out) };
    let total = size_of_val(&arr);
    let pat = T::bytes();
    let mut why = None;
    let bytes: &[u8] = unsafe { std::slice::from_raw_parts(base as *const u8, total) };
    if pat.is_empty() {
        if total != 0 {
            why = Some(format!("array of zero-sized elements occupies {} bytes", total));
        }
    } else {
        if total != s.len() * pat.len() {
            why = Some(format!("object of {} bytes for {} elements of {} bytes", total, s.len(), pat.len()));
        }
        for (k, ch) in bytes.chunks(pat.len()).enumerate() {
            if ch != &pat[..] {
                why = Some(format!("bytes {}.. of the ConstDefault-built array are not a default element", k * pat.len()));
                break;
            }
        }
    }
    (s.len() as u64, total, why)
}

macro_rules! mk_cd_table {
    ($t:ty; $($u:ty = $n:literal),* $(,)?) => {
        vec![ $( CdProbe { p: mk::<$t, $u>($n, size_of::<[$t; $n]>(), align_of::<[$t; $n]>()), build: cd_build::<$t, $u> } ),* ]
    };
}
fn cd_table_small<T: Pat>() -> Vec<CdProbe> {
    with_small_lens!(mk_cd_table; T)
}

fn cd_job(name: &'static str, t_size: usize, t_align: usize, c: &CdProbe) -> Job {
    let p = c.p.clone();
    let (mode, idx) = if p.n <= FULL_MAX { (1, vec![]) } else { (0, index_set(p.n)) };
    let mut case = header(2, t_size, t_align, &p);
    case.push(mode);
    case.push(idx.len() as i128);
    case.extend(idx.iter().map(|i| *i as i128));
    let build = c.build;
    Job {
        case,
        key: format!("constdefault-{}", name),
        run: Box::new(move || {
            let mut offs = vec![];
            let (len, total, why) = build(&idx, mode == 1, &mut offs);
            let mut obs = vec![p.size as i128, p.align as i128, len as i128];
            obs.extend(&offs);
            let mut bad = vec![];
            if total != p.size {
                bad.push(format!("size_of_val = {} but size_of = {}", total, p.size));
            }
            if let Some(w) = why {
                bad.push(w);
            }
            oracles(t_size, &p, mode, &idx, len, &offs, &mut bad);
            (obs, bad)
        }),
    }
}

// ------------------------------------------------------------------ nested arrays

struct NestProbe {
    p: Probe, // of the outer array, element = inner array
    e_size: usize,
    e_align: usize,
    inner_digits: fn(&mut Vec<i128>),
    inner_n: u64,
    /// (outer len, flat len, offsets of the listed flat elements)
    view: unsafe fn(*const u8, &[u64], bool, &mut Vec<i128>) -> (u64, u64),
}

unsafe fn nest_view<E, M: ArrayLength, N: ArrayLength>(p: *const u8, idx: &[u64], full: bool, out: &mut Vec<i128>) -> (u64, u64) {
    let r: &GenericArray<GenericArray<E, M>, N> = &*(p as *const GenericArray<GenericArray<E, M>, N>);
    let outer = r.as_slice();
    let m = M::USIZE;
    let flat = outer.len() * m;
    let addr = |j: usize| -> i128 {
        if m == 0 || j >= flat {
            return -1;
        }
        let e: &E = &outer[j / m].as_slice()[j % m];
        (e as *const E as usize).wrapping_sub(p as usize) as i128
    };
    if full {
        for j in 0..flat {
            out.push(addr(j));
        }
    } else {
        for &j in idx {
            out.push(addr(j as usize));
        }
    }
    (outer.len() as u64, flat as u64)
}

macro_rules! mk_nest_table {
    ($e:ty, $m:ty, $mn:literal; $($u:ty = $n:literal),* $(,)?) => {
        vec![ $( NestProbe {
            p: mk::<GenericArray<$e, $m>, $u>($n, size_of::<[[$e; $mn]; $n]>(), align_of::<[[$e; $mn]; $n]>()),
            e_size: size_of::<$e>(), e_align: align_of::<$e>(),
            inner_digits: <$m as Digits>::digits, inner_n: $mn,
            view: nest_view::<$e, $m, $u>,
        } ),* ]
    };
}
macro_rules! nest_q {
    ($e:ty, $m:ty, $mn:literal) => {
        mk_nest_table!($e, $m, $mn; U0 = 0, U1 = 1, U2 = 2, U3 = 3, U4 = 4, U5 = 5, U6 = 6, U7 = 7, U8 = 8,
            U9 = 9, U10 = 10, U11 = 11, U12 = 12, U13 = 13, U14 = 14, U15 = 15, U16 = 16, U17 = 17,
            U31 = 31, U32 = 32, U33 = 33, U63 = 63, U64 = 64, U97 = 97, U127 = 127, U128 = 128,
            U255 = 255, U256 = 256, U1023 = 1023, U1024 = 1024, Sum<U1024, U1> = 1025)
    };
}

fn nest_job(c: &NestProbe) -> Job {
    let p = c.p.clone();
    let flat_n = p.n * c.inner_n;
    let (mode, idx) = if flat_n <= 2 * FULL_MAX { (1, vec![]) } else { (0, index_set(flat_n)) };
    let mut inner = vec![];
    (c.inner_digits)(&mut inner);
    let mut outer = vec![];
    (p.digits)(&mut outer);
    let mut case = vec![1, c.e_size as i128, c.e_align as i128, inner.len() as i128];
    case.extend(inner);
    case.push(outer.len() as i128);
    case.extend(outer);
    case.push(mode);
    case.push(idx.len() as i128);
    case.extend(idx.iter().map(|i| *i as i128));
    let (view, e_size, inner_n) = (c.view, c.e_size, c.inner_n);
    Job {
        case,
        key: "nested".to_string(),
        run: Box::new(move || {
            if p.size != p.nat_size || p.align != p.nat_align {
                return (
                    vec![p.size as i128, p.align as i128, -7],
                    vec![format!("nested array: size {} align {} but [[E; {}]; {}] has size {} align {}", p.size, p.align, inner_n, p.n, p.nat_size, p.nat_align)],
                );
            }
            let mut offs = vec![];
            let (olen, flen) = with_zeroed(p.size, p.align.max(1), |ptr| unsafe { view(ptr, &idx, mode == 1, &mut offs) });
            let mut obs = vec![p.size as i128, p.align as i128, olen as i128, flen as i128];
            obs.extend(&offs);
            let mut bad = vec![];
            if p.size != p.nat_size || p.align != p.nat_align {
                bad.push(format!("nested array: size {} align {} but [[E; {}]; {}] has size {} align {}", p.size, p.align, inner_n, p.n, p.nat_size, p.nat_align));
            }
            if olen != p.n || flen != flat_n {
                bad.push(format!("nested array: {} x {} elements seen as {} and {}", p.n, inner_n, olen, flen));
            }
            let listed: Vec<u64> = if mode == 1 { (0..flen).collect() } else { idx.clone() };
            for (k, &j) in listed.iter().enumerate() {
                let o = offs.get(k).copied().unwrap_or(-2);
                let want = if j < flat_n { j as i128 * e_size as i128 } else { -1 };
                if o != want {
                    bad.push(format!("flat element {} at offset {} instead of {}", j, o, want));
                }
            }
            (obs, bad)
        }),
    }
}

// ------------------------------------------------------------------ const_transmute

macro_rules! transmute_jobs {
    ($jobs:ident; $( ($a:literal, $b:literal) ),* $(,)?) => {
        $(
            $jobs.push(Job {
                case: vec![3, $a, $b],
                key: "const_transmute".to_string(),
                run: Box::new(|| {
                    let r = catch(|| unsafe {
                        let x: [u8; $b] = const_transmute::<[u8; $a], [u8; $b]>([7u8; $a]);
                        std::hint::black_box(&x);
                    });
                    let panicked = r.is_err();
                    let mut bad = vec![];
                    if panicked != ($a != $b) {
                        bad.push(format!("const_transmute from {} to {} bytes: panicked = {}", $a, $b, panicked));
                    }
                    (vec![panicked as i128], bad)
                }),
            });
        )*
    };
}

// ------------------------------------------------------------------ main

fn all_jobs(thorough: bool) -> Vec<Job> {
    let mut jobs: Vec<Job> = vec![];
    let main_types: Vec<Ty> = vec![
        ty::<u8>("u8", Some(table_big_u8)),
        ty::<u16>("u16", None),
        ty::<u32>("u32", Some(table_big_u32)),
        ty::<u64>("u64", None),
        ty::<u128>("u128", None),
        ty::<()>("unit", Some(table_big_zst::<()>)),
        ty::<[u8; 3]>("[u8;3]", None),
        ty::<(u8, u16)>("(u8,u16)", None),
        ty::<(u8, u32)>("(u8,u32)", None),
        ty::<Packed5>("packed5", None),
        ty::<A16>("align16(u8)", None),
        ty::<Z64>("align64-zst", Some(table_big_zst::<Z64>)),
        ty::<[u16; 0]>("[u16;0]", Some(table_big_zst::<[u16; 0]>)),
        ty::<GenericArray<u8, U3>>("GenericArray<u8,U3>", None),
        ty::<GenericArray<u32, U2>>("GenericArray<u32,U2>", None),
    ];
    let extra_types: Vec<Ty> = vec![
        ty_q::<[u8; 2]>("[u8;2]"),
        ty_q::<[u8; 5]>("[u8;5]"),
        ty_q::<[u8; 7]>("[u8;7]"),
        ty_q::<[u8; 24]>("[u8;24]"),
        ty_q::<[u8; 63]>("[u8;63]"),
        ty_q::<[u8; 64]>("[u8;64]"),
        ty_q::<[u16; 3]>("[u16;3]"),
        ty_q::<[u32; 3]>("[u32;3]"),
        ty_q::<[u64; 5]>("[u64;5]"),
        ty_q::<[u128; 4]>("[u128;4]"),
        ty_q::<(u16, u64)>("(u16,u64)"),
        ty_q::<(u8, u128)>("(u8,u128)"),
        ty_q::<(u32, u8, u16)>("(u32,u8,u16)"),
        ty_q::<f64>("f64"),
        ty_q::<usize>("usize"),
        ty_q::<Packed6>("packed6"),
        ty_q::<C12>("reprC12"),
        ty_q::<A2>("align2(u8)"),
        ty_q::<A4>("align4(u8)"),
        ty_q::<A8>("align8([u8;9])"),
        ty_q::<A32>("align32([u8;33])"),
        ty_q::<A64>("align64(u8)"),
        ty_q::<Z4096>("align4096-zst"),
        ty_q::<[u64; 0]>("[u64;0]"),
        ty_q::<[A16; 0]>("[align16;0]"),
        ty_q::<GenericArray<u16, U0>>("GenericArray<u16,U0>"),
        ty_q::<GenericArray<(u8, u32), U5>>("GenericArray<(u8,u32),U5>"),
        ty_q::<GenericArray<GenericArray<u8, U3>, U2>>("GenericArray<GenericArray<u8,U3>,U2>"),
    ];
    for t in main_types.iter() {
        for p in (t.small)().iter() {
            if thorough || in_quick(p.n) {
                jobs.push(flat_job(t, p));
            }
        }
        for p in (t.medium)().iter() {
            if thorough || in_quick(p.n) {
                jobs.push(flat_job(t, p));
            }
        }
        for p in (t.nonnorm)().iter() {
            let mut j = flat_job(t, p);
            j.key = format!("{}-nonnormalised", j.key);
            jobs.push(j);
        }
        if let Some(big) = t.big {
            for p in big().iter() {
                jobs.push(flat_job(t, p));
            }
        }
    }
    if thorough {
        for t in extra_types.iter() {
            for p in (t.q)().iter() {
                jobs.push(flat_job(t, p));
            }
            for p in (t.nonnorm)().iter() {
                let mut j = flat_job(t, p);
                j.key = format!("{}-nonnormalised", j.key);
                jobs.push(j);
            }
        }
    }
    // ConstDefault-built arrays
    for c in cd_table_small::<P4>().iter() {
        if thorough || in_quick(c.p.n) {
            jobs.push(cd_job("u32pattern", size_of::<P4>(), align_of::<P4>(), c));
        }
    }
    for c in cd_table_small::<P3>().iter() {
        if thorough || in_quick(c.p.n) {
            jobs.push(cd_job("3bytepattern", size_of::<P3>(), align_of::<P3>(), c));
        }
    }
    for c in cd_table_small::<P16>().iter() {
        if in_quick(c.p.n) {
            jobs.push(cd_job("u128pattern", size_of::<P16>(), align_of::<P16>(), c));
        }
    }
    for c in cd_table_small::<P0>().iter() {
        if in_quick(c.p.n) {
            jobs.push(cd_job("zst", size_of::<P0>(), align_of::<P0>(), c));
        }
    }
    // nested arrays
    let mut nests: Vec<NestProbe> = vec![];
    nests.extend(nest_q!(u8, U3, 3));
    nests.extend(nest_q!(u32, U2, 2));
    nests.extend(nest_q!(u16, U0, 0));
    nests.extend(nest_q!((u8, u32), U4, 4));
    nests.extend(nest_q!((), U5, 5));
    nests.extend(nest_q!(u64, UInt<UInt<UInt<L1, B1>, B0>, B1>, 5));
    for c in nests.iter() {
        jobs.push(nest_job(c));
    }
    // const_transmute size guard
    transmute_jobs!(jobs;
        (0, 0), (0, 1), (1, 0), (1, 1), (1, 2), (2, 1), (2, 2), (2, 3), (3, 2), (3, 3), (3, 4), (4, 3),
        (4, 4), (4, 8), (8, 4), (8, 8), (7, 8), (8, 7), (8, 9), (9, 8), (16, 16), (15, 16), (16, 15),
        (16, 17), (17, 16), (0, 16), (16, 0), (64, 64), (63, 64), (64, 63), (64, 65), (65, 64));
    jobs
}

fn bucket(n: i128) -> &'static str {
    match n {
        0 => "N=0",
        1..=8 => "N=1..8",
        9..=64 => "N=9..64",
        65..=1024 => "N=65..1024",
        1025..=1048576 => "N=1025..2^20",
        _ => "N>2^20",
    }
}

fn main() {
    let a = args();
    quiet_panics();
    let thorough = a.tier == "thorough" || a.replay.is_some();
    #[allow(unused_mut)]
    let mut jobs = all_jobs(thorough);
    #[cfg(feature = "c01x")]
    jobs.retain(|j| j.key.ends_with("-nonnormalised"));
    if let Some(c) = a.replay {
        let mut found = false;
        for j in jobs.iter() {
            if j.case == c {
                found = true;
                emit_case(&j.case);
                let (obs, bad) = (j.run)();
                emit_obs(&obs);
                for b in bad {
                    emit_oracle(&format!("[{}] {}", j.key, b));
                }
                break;
            }
        }
        if !found {
            note("replay: no (element type, length) of the harness matrix has this encoding");
        }
        return;
    }
    for j in jobs.iter() {
        emit_case(&j.case);
        let (obs, bad) = (j.run)();
        emit_obs(&obs);
        for b in bad {
            emit_oracle(&format!("[{}] {}", j.key, b));
        }
        dist(&format!("type:{}", j.key));
        dist(&format!("kind{}", j.case[0]));
        if j.case[0] != 3 {
            dist(&format!("mode{}", mode_of_case(&j.case)));
            dist(bucket(len_of_case(&j.case)));
        }
    }
    flush_dist();
}

/// value of the (outer) digit list of a case
fn len_of_case(c: &[i128]) -> i128 {
    let mut pos = 3;
    if c[0] == 1 {
        pos += 1 + c[3] as usize;
    }
    let nd = c[pos] as usize;
    let mut v: i128 = 0;
    for k in (0..nd).rev() {
        v = v * 2 + c[pos + 1 + k];
    }
    v
}
fn mode_of_case(c: &[i128]) -> i128 {
    let mut pos = 3;
    if c[0] == 1 {
        pos += 1 + c[3] as usize;
    }
    let nd = c[pos] as usize;
    c[pos + 1 + nd]
}

//! C11: flatten / unflatten regroup elements in row-major order over the same storage.
//! Encodings: see coq/theories/CorrC11.v.
//!
//! case = op, ety, sz, A, B, wi, wv    (ety 0 u32, 1 Tr, 2 Tz, 3 Tb: one byte with a destructor, identities mod 256, 4 Tri: 12 plain bytes with alignment 4 (a size that is not a power of two); sz = size_of::<T>())
//! op 0/1/2 flatten owned / & / &mut with (N, M) = (A, B), leaf (i, j) has id 1000*i + j
//! op 3/4/5 unflatten owned / & / &mut with (NM, N) = (A, B), element k has id 7*k + 3
use generic_array::sequence::{Flatten, GenericSequence, Unflatten};
use generic_array::typenum::*;
use generic_array::{ArrayLength, GenericArray};
use harness::track::{self, Ev, Tb, Tr, Tz};
use harness::*;
use std::mem::{size_of, size_of_val};
use std::ops::{Div, Mul};

trait Elem: Sized + 'static {
    fn mk(id: i64) -> Self;
    fn id(&self) -> i64;
    fn set(&mut self, id: i64);
}
impl Elem for u32 {
    fn mk(id: i64) -> u32 {
        id as u32
    }
    fn id(&self) -> i64 {
        *self as i64
    }
    fn set(&mut self, id: i64) {
        *self = id as u32
    }
}
impl Elem for Tr {
    fn mk(id: i64) -> Tr {
        Tr::new(id)
    }
    fn id(&self) -> i64 {
        self.id
    }
    fn set(&mut self, id: i64) {
        self.id = id
    }
}
impl Elem for Tb {
    fn mk(id: i64) -> Tb {
        Tb::new(id)
    }
    fn id(&self) -> i64 {
        self.0 as i64
    }
    fn set(&mut self, id: i64) {
        self.0 = id as u8
    }
}
/// plain data whose size (12) is not a power of two and not its alignment (4)
#[derive(Clone, Copy)]
struct Tri {
    a: u32,
    b: u32,
    c: u32,
}
impl Elem for Tri {
    fn mk(id: i64) -> Tri {
        Tri { a: id as u32, b: !(id as u32), c: 0xC0FFEE }
    }
    fn id(&self) -> i64 {
        if self.b != !self.a || self.c != 0xC0FFEE {
            return -1;
        }
        self.a as i64
    }
    fn set(&mut self, id: i64) {
        *self = Tri::mk(id)
    }
}
impl Elem for Tz {
    fn mk(_: i64) -> Tz {
        Tz::new()
    }
    fn id(&self) -> i64 {
        0
    }
    fn set(&mut self, _: i64) {}
}

fn events_since(start: usize) -> usize {
    track::log_from(start)
        .iter()
        .filter(|e| matches!(e, Ev::Drop(_) | Ev::Clone(_, _) | Ev::ZDrop | Ev::ZNew | Ev::New(_)))
        .count()
}

type Res = (Vec<i128>, Vec<String>);

fn nested<T: Elem, N: ArrayLength, M: ArrayLength>() -> GenericArray<GenericArray<T, N>, M> {
    GenericArray::generate(|i| GenericArray::generate(|j| T::mk(1000 * i as i64 + j as i64)))
}
fn flat<T: Elem, NM: ArrayLength>() -> GenericArray<T, NM> {
    GenericArray::generate(|k| T::mk(7 * k as i64 + 3))
}

fn panic_code(m: &str) -> i128 {
    if m.contains("Size mismatch") {
        2
    } else {
        3
    }
}

/// ids of a nested array read through its own type, row by row, without going through
/// any regrouping code
fn nested_ids<T: Elem, N: ArrayLength, M: ArrayLength>(a: &GenericArray<GenericArray<T, N>, M>) -> Vec<i128> {
    let mut v = vec![];
    for i in 0..M::USIZE {
        for j in 0..N::USIZE {
            v.push(a[i][j].id() as i128);
        }
    }
    v
}

/// direct oracle: leaf (i, j) of the nested view and element i*N + j of the flat view are the
/// same object, and both views cover the same number of bytes
fn same_storage<T: Elem, N: ArrayLength, M: ArrayLength, K: ArrayLength>(
    nested: &GenericArray<GenericArray<T, N>, M>,
    flat: &GenericArray<T, K>,
    oracle: &mut Vec<String>,
) {
    if size_of_val(nested) != size_of_val(flat) {
        oracle.push(format!("regrouped view covers {} bytes, the source {} bytes", size_of_val(flat), size_of_val(nested)));
    }
    if K::USIZE != N::USIZE * M::USIZE {
        oracle.push(format!("flat length {} is not N*M = {}", K::USIZE, N::USIZE * M::USIZE));
        return;
    }
    for i in 0..M::USIZE {
        for j in 0..N::USIZE {
            if &nested[i][j] as *const T != &flat[i * N::USIZE + j] as *const T {
                oracle.push(format!("leaf ({}, {}) and flat element {} are at different addresses", i, j, i * N::USIZE + j));
                return;
            }
        }
    }
}

/// observables of a flat reference: offset, byte extent, length, ids (ids only when the extent
/// is the source's: reading through an over-long view would be out of bounds)
fn flat_obs<T: Elem, K: ArrayLength>(r: &GenericArray<T, K>, base: isize, src_bytes: usize, out: &mut Vec<i128>, oracle: &mut Vec<String>) -> bool {
    out.push(0);
    out.push((r as *const GenericArray<T, K> as isize - base) as i128);
    out.push(size_of_val(r) as i128);
    out.push(r.as_slice().len() as i128);
    if size_of_val(r) != src_bytes {
        oracle.push(format!("regrouped view covers {} bytes, the source {} bytes", size_of_val(r), src_bytes));
        return false;
    }
    out.extend(r.as_slice().iter().map(|e| e.id() as i128));
    true
}

fn nested_obs<T: Elem, N: ArrayLength, Q: ArrayLength>(
    r: &GenericArray<GenericArray<T, N>, Q>,
    base: isize,
    src_bytes: usize,
    out: &mut Vec<i128>,
    oracle: &mut Vec<String>,
) -> bool {
    out.push(0);
    out.push((r as *const GenericArray<GenericArray<T, N>, Q> as isize - base) as i128);
    out.push(size_of_val(r) as i128);
    out.push(r.as_slice().len() as i128);
    out.push(N::USIZE as i128);
    if size_of_val(r) != src_bytes {
        oracle.push(format!("regrouped view covers {} bytes, the source {} bytes", size_of_val(r), src_bytes));
        return false;
    }
    out.extend(nested_ids(r));
    true
}

fn owned_flat_obs<T: Elem, K: ArrayLength>(f: GenericArray<T, K>, start: usize) -> Vec<i128> {
    let ev = events_since(start);
    let mut o = vec![f.as_slice().len() as i128];
    o.extend(f.as_slice().iter().map(|e| e.id() as i128));
    o.push(ev as i128);
    o
}

fn owned_nested_obs<T: Elem, N: ArrayLength, Q: ArrayLength>(u: GenericArray<GenericArray<T, N>, Q>, start: usize) -> Vec<i128> {
    let ev = events_since(start);
    let mut o = vec![u.as_slice().len() as i128];
    for row in u.as_slice() {
        o.push(row.as_slice().len() as i128);
        o.extend(row.as_slice().iter().map(|e| e.id() as i128));
    }
    o.push(ev as i128);
    o
}

fn write_flat<T: Elem, K: ArrayLength>(r: &mut GenericArray<T, K>, wi: usize, wv: i64) {
    if wi < r.as_slice().len() {
        r.as_mut_slice()[wi].set(wv);
    }
}
fn write_nested<T: Elem, N: ArrayLength, Q: ArrayLength>(r: &mut GenericArray<GenericArray<T, N>, Q>, wi: usize, wv: i64) {
    if wi < r.as_slice().len() * N::USIZE {
        r.as_mut_slice()[wi / N::USIZE].as_mut_slice()[wi % N::USIZE].set(wv);
    }
}

// The result types below are deliberately NOT annotated: they are whatever the impl's `Output`
// says, so a wrong length expression in an impl shows up in the observables (length, byte
// extent) instead of as a type error here.
fn fl<T: Elem, N, M>(case: &[i128]) -> Res
where
    N: ArrayLength + Mul<M>,
    M: ArrayLength,
    Prod<N, M>: ArrayLength,
{
    let (op, wi, wv) = (case[0], case[5] as usize, case[6] as i64);
    let mut oracle = vec![];
    let mut out = vec![];
    let mut src = nested::<T, N, M>();
    let src_bytes = size_of_val(&src);
    let base = &src as *const GenericArray<GenericArray<T, N>, M> as isize;
    match op {
        0 => {
            let start = track::log_len();
            match catch(move || {
                let f = <GenericArray<GenericArray<T, N>, M> as Flatten<T, N, M>>::flatten(src);
                owned_flat_obs(f, start)
            }) {
                Ok(o) => {
                    out.push(0);
                    out.extend(o);
                }
                Err(m) => out.push(panic_code(&m)),
            }
        }
        1 => {
            let r = <&GenericArray<GenericArray<T, N>, M> as Flatten<T, N, M>>::flatten(&src);
            if flat_obs(r, base, src_bytes, &mut out, &mut oracle) {
                same_storage(&src, r, &mut oracle);
            }
        }
        _ => {
            let ok;
            {
                let r = <&mut GenericArray<GenericArray<T, N>, M> as Flatten<T, N, M>>::flatten(&mut src);
                ok = flat_obs(r, base, src_bytes, &mut out, &mut oracle);
                if ok {
                    write_flat(r, wi, wv);
                }
            }
            if ok {
                out.extend(nested_ids(&src));
            }
        }
    }
    (out, oracle)
}

fn unfl<T: Elem, NM, N>(case: &[i128]) -> Res
where
    NM: ArrayLength + Div<N>,
    N: ArrayLength,
    Quot<NM, N>: ArrayLength,
{
    let (op, wi, wv) = (case[0], case[5] as usize, case[6] as i64);
    let mut oracle = vec![];
    let mut out = vec![];
    let mut src = flat::<T, NM>();
    let src_bytes = size_of_val(&src);
    let base = &src as *const GenericArray<T, NM> as isize;
    match op {
        3 => {
            let start = track::log_len();
            match catch(move || {
                let u = <GenericArray<T, NM> as Unflatten<T, NM, N>>::unflatten(src);
                owned_nested_obs(u, start)
            }) {
                Ok(o) => {
                    out.push(0);
                    out.extend(o);
                }
                Err(m) => out.push(panic_code(&m)),
            }
        }
        4 => {
            let r = <&GenericArray<T, NM> as Unflatten<T, NM, N>>::unflatten(&src);
            if nested_obs(r, base, src_bytes, &mut out, &mut oracle) {
                same_storage(r, &src, &mut oracle);
            }
        }
        _ => {
            let ok;
            {
                let r = <&mut GenericArray<T, NM> as Unflatten<T, NM, N>>::unflatten(&mut src);
                ok = nested_obs(r, base, src_bytes, &mut out, &mut oracle);
                if ok {
                    write_nested(r, wi, wv);
                }
            }
            if ok {
                out.extend(src.as_slice().iter().map(|e| e.id() as i128));
            }
        }
    }
    (out, oracle)
}

macro_rules! pairs {
    ($a:expr, $b:expr, $ety:expr, $f:ident, $case:expr, [$(($x:ty, $y:ty)),* $(,)?]) => {{
        let mut r: Option<Res> = None;
        $(
            if r.is_none() && $a == <$x as Unsigned>::USIZE && $b == <$y as Unsigned>::USIZE {
                r = Some(match $ety {
                    0 => $f::<u32, $x, $y>($case),
                    1 => $f::<Tr, $x, $y>($case),
                    3 => $f::<Tb, $x, $y>($case),
                    4 => $f::<Tri, $x, $y>($case),
                    _ => $f::<Tz, $x, $y>($case),
                });
            }
        )*
        r.unwrap_or_else(|| panic!("pair ({}, {}) not monomorphised", $a, $b))
    }};
}

fn run_fl(a: usize, b: usize, ety: i128, case: &[i128]) -> Res {
    pairs!(a, b, ety, fl, case, [
        (U0, U0), (U0, U1), (U0, U2), (U0, U3), (U0, U4), (U0, U5), (U0, U6), (U1, U0), (U1, U1), (U1, U2),
        (U1, U3), (U1, U4), (U1, U5), (U1, U6), (U2, U0), (U2, U1), (U2, U2), (U2, U3), (U2, U4), (U2, U5),
        (U2, U6), (U3, U0), (U3, U1), (U3, U2), (U3, U3), (U3, U4), (U3, U5), (U3, U6), (U4, U0), (U4, U1),
        (U4, U2), (U4, U3), (U4, U4), (U4, U5), (U4, U6), (U5, U0), (U5, U1), (U5, U2), (U5, U3), (U5, U4),
        (U5, U5), (U5, U6), (U6, U0), (U6, U1), (U6, U2), (U6, U3), (U6, U4), (U6, U5), (U6, U6),
        (U1, U1024), (U1024, U1), (U16, U64)
    ])
}

fn run_unfl(a: usize, b: usize, ety: i128, case: &[i128]) -> Res {
    pairs!(a, b, ety, unfl, case, [
        (U0, U1), (U0, U2), (U0, U3), (U0, U4), (U0, U5), (U0, U6), (U0, U7), (U0, U8), (U0, U9), (U0, U10),
        (U0, U11), (U0, U12), (U0, U13), (U0, U14), (U0, U15), (U0, U16), (U0, U17), (U0, U18), (U0, U19),
        (U0, U20), (U0, U21), (U0, U22), (U0, U23), (U0, U24), (U0, U25), (U0, U26), (U0, U27), (U0, U28),
        (U0, U29), (U0, U30), (U0, U31), (U0, U32), (U0, U33), (U0, U34), (U0, U35), (U0, U36), (U1, U1),
        (U2, U1), (U2, U2), (U3, U1), (U3, U3), (U4, U1), (U4, U2), (U4, U4), (U5, U1), (U5, U5), (U6, U1),
        (U6, U2), (U6, U3), (U6, U6), (U7, U1), (U7, U7), (U8, U1), (U8, U2), (U8, U4), (U8, U8), (U9, U1),
        (U9, U3), (U9, U9), (U10, U1), (U10, U2), (U10, U5), (U10, U10), (U11, U1), (U11, U11), (U12, U1),
        (U12, U2), (U12, U3), (U12, U4), (U12, U6), (U12, U12), (U13, U1), (U13, U13), (U14, U1), (U14, U2),
        (U14, U7), (U14, U14), (U15, U1), (U15, U3), (U15, U5), (U15, U15), (U16, U1), (U16, U2), (U16, U4),
        (U16, U8), (U16, U16), (U17, U1), (U17, U17), (U18, U1), (U18, U2), (U18, U3), (U18, U6), (U18, U9),
        (U18, U18), (U19, U1), (U19, U19), (U20, U1), (U20, U2), (U20, U4), (U20, U5), (U20, U10),
        (U20, U20), (U21, U1), (U21, U3), (U21, U7), (U21, U21), (U22, U1), (U22, U2), (U22, U11),
        (U22, U22), (U23, U1), (U23, U23), (U24, U1), (U24, U2), (U24, U3), (U24, U4), (U24, U6), (U24, U8),
        (U24, U12), (U24, U24), (U25, U1), (U25, U5), (U25, U25), (U26, U1), (U26, U2), (U26, U13),
        (U26, U26), (U27, U1), (U27, U3), (U27, U9), (U27, U27), (U28, U1), (U28, U2), (U28, U4), (U28, U7),
        (U28, U14), (U28, U28), (U29, U1), (U29, U29), (U30, U1), (U30, U2), (U30, U3), (U30, U5), (U30, U6),
        (U30, U10), (U30, U15), (U30, U30), (U31, U1), (U31, U31), (U32, U1), (U32, U2), (U32, U4),
        (U32, U8), (U32, U16), (U32, U32), (U33, U1), (U33, U3), (U33, U11), (U33, U33), (U34, U1),
        (U34, U2), (U34, U17), (U34, U34), (U35, U1), (U35, U5), (U35, U7), (U35, U35), (U36, U1), (U36, U2),
        (U36, U3), (U36, U4), (U36, U6), (U36, U9), (U36, U12), (U36, U18), (U36, U36), (U1024, U1),
        (U1024, U1024), (U1024, U16), (U1024, U64)
    ])
}

fn size_of_ety(ety: i128) -> i128 {
    (match ety {
        0 => size_of::<u32>(),
        1 => size_of::<Tr>(),
        3 => size_of::<Tb>(),
        4 => size_of::<Tri>(),
        _ => size_of::<Tz>(),
    }) as i128
}

fn do_case(case: Vec<i128>) {
    emit_case(&case);
    track::reset(1_000_000);
    let (op, ety, a, b) = (case[0], case[1], case[3] as usize, case[4] as usize);
    match catch(|| if op < 3 { run_fl(a, b, ety, &case) } else { run_unfl(a, b, ety, &case) }) {
        Ok((obs, mut oracle)) => {
            let log = track::take_log();
            let made = log.iter().filter(|e| matches!(e, Ev::New(_) | Ev::Clone(_, _))).count();
            let dropped = log.iter().filter(|e| matches!(e, Ev::Drop(_))).count();
            if made != dropped {
                oracle.push(format!("{} tracked values created but {} dropped", made, dropped));
            }
            if track::zlive() != 0 {
                oracle.push(format!("{} zero-sized tracked values alive after the case (created minus dropped)", track::zlive()));
            }
            if case[2] != size_of_ety(ety) {
                oracle.push("case carries the wrong element size".to_string());
            }
            emit_obs(&obs);
            for o in oracle {
                emit_oracle(&o);
            }
        }
        Err(m) => {
            emit_obs(&[-99]);
            emit_oracle(&format!("unexpected panic outside catch: {}", m));
        }
    }
}

fn main() {
    let a = args();
    quiet_panics();
    if let Some(c) = a.replay {
        do_case(c);
        return;
    }
    let thorough = a.tier == "thorough";
    let mut rng = Rng::new(a.seed);
    let mut fl_pairs: Vec<(usize, usize)> = vec![];
    for n in 0..=6 {
        for m in 0..=6 {
            fl_pairs.push((n, m));
        }
    }
    fl_pairs.extend([(1, 1024), (1024, 1), (16, 64)]);
    let mut un_pairs: Vec<(usize, usize)> = vec![];
    for nm in 0..=36usize {
        for n in 1..=36usize {
            if nm % n == 0 {
                un_pairs.push((nm, n));
            }
        }
    }
    un_pairs.extend([(1024, 1), (1024, 1024), (1024, 16), (1024, 64)]);
    for ety in 0..5i128 {
        let sz = size_of_ety(ety);
        for &(n, m) in &fl_pairs {
            let len = n * m;
            for op in 0..3i128 {
                // &mut: every flat index for small arrays (thorough), first / last / random otherwise
                let wis: Vec<usize> = if op != 2 || len == 0 {
                    vec![0]
                } else if thorough && len <= 36 {
                    (0..len).collect()
                } else {
                    let mut v = vec![0, len - 1, rng.below(len as u64) as usize];
                    v.sort();
                    v.dedup();
                    v
                };
                for wi in wis {
                    dist(["flatten.owned", "flatten.ref", "flatten.mut"][op as usize]);
                    do_case(vec![op, ety, sz, n as i128, m as i128, wi as i128, 900_000 + rng.below(1000) as i128]);
                }
            }
        }
        for &(nm, n) in &un_pairs {
            for op in 3..6i128 {
                let wis: Vec<usize> = if op != 5 || nm == 0 {
                    vec![0]
                } else if thorough && nm <= 36 {
                    (0..nm).collect()
                } else {
                    let mut v = vec![0, nm - 1, rng.below(nm as u64) as usize];
                    v.sort();
                    v.dedup();
                    v
                };
                for wi in wis {
                    dist(["unflatten.owned", "unflatten.ref", "unflatten.mut"][op as usize - 3]);
                    do_case(vec![op, ety, sz, nm as i128, n as i128, wi as i128, 900_000 + rng.below(1000) as i128]);
                }
            }
        }
    }
    flush_dist();
}

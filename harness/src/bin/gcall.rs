//! Caller probes (`--prop C02 | C08 | C09 | C11 | C12 | C13 | C14 | C17 | C19`): small user crates, each compiled separately by rustc
//! against the current crate (harness::probe), that use a property's operations the way downstream code
//! does and the harness crate itself does not:
//!   * generic over the length / element type, stating exactly the bounds the trait impls publish
//!     (coq/gen/GenSigs.v gen_impl_bounds pins those bounds; here they are USED),
//!   * with plain method-call syntax on concrete arrays in every receiver / argument form,
//!   * with borrowed element types.
//! A change that narrows an impl, adds a shadowing inherent method or an ambiguous impl keeps such code from
//! compiling (or silently selects another impl) although every monomorphic UFCS call of the harness still works.
//!
//! CASE [k]   one caller program      OBS [1] compiled, ran, printed what is expected | [0] wrong output
//!                                        | [-1] rejected by rustc
//! Direct oracles only (the expected output is the std-library computation written next to each program).
use harness::probe::Probe;
use harness::*;
use std::sync::atomic::{AtomicUsize, Ordering};
use std::sync::Mutex;

struct Caller {
    what: &'static str,
    externs: &'static [&'static str],
    src: &'static str,
    expect: &'static str,
}

const HEAD: &str = "#![allow(warnings)]\nuse generic_array::typenum::*;\nuse generic_array::sequence::*;\nuse generic_array::functional::*;\nuse generic_array::{arr, ArrayLength, GenericArray};\nuse core::ops::{Add, Sub, Mul, Div};\n";

fn callers(prop: &str) -> Vec<Caller> {
    match prop {
        "C09" => vec![
            Caller {
                what: "append / prepend in code generic over N with the bounds of `impl Lengthen`",
                externs: &[],
                src: r#"
fn app<T: Clone, N>(a: GenericArray<T, N>, x: T) -> (GenericArray<T, Add1<N>>, GenericArray<T, Add1<N>>)
where N: ArrayLength + Add<B1>, Add1<N>: ArrayLength + Sub<B1, Output = N>, Sub1<Add1<N>>: ArrayLength
{ (a.clone().append(x.clone()), a.prepend(x)) }
fn main() { let (p, q) = app(arr![1u32, 2, 3], 9); println!("{:?} {:?}", p.as_slice(), q.as_slice());
            let (p, q) = app(GenericArray::<u8, U0>::default(), 7); println!("{:?} {:?}", p.as_slice(), q.as_slice()); }
"#,
                expect: "[1, 2, 3, 9] [9, 1, 2, 3]\n[7] [7]\n",
            },
            Caller {
                what: "pop_back / pop_front in code generic over N with the bounds of `impl Shorten`",
                externs: &[],
                src: r#"
fn pops<T: Clone, N>(a: GenericArray<T, N>) -> (GenericArray<T, Sub1<N>>, T, T, GenericArray<T, Sub1<N>>)
where N: ArrayLength + Sub<B1>, Sub1<N>: ArrayLength + Add<B1, Output = N>, Add1<Sub1<N>>: ArrayLength
{ let (i, l) = a.clone().pop_back(); let (f, r) = a.pop_front(); (i, l, f, r) }
fn main() { let (i, l, f, r) = pops(arr![1u32, 2, 3]); println!("{:?} {} {} {:?}", i.as_slice(), l, f, r.as_slice());
            let (i, l, f, r) = pops(arr![5u8]); println!("{:?} {} {} {:?}", i.as_slice(), l, f, r.as_slice()); }
"#,
                expect: "[1, 2] 3 1 [2, 3]\n[] 5 5 []\n",
            },
            Caller {
                what: "split (owned, &, &mut) and concat in code generic over N, K with the bounds of `impl Split` / `impl Concat`",
                externs: &[],
                src: r#"
fn sp<T: Clone, N, K>(a: GenericArray<T, N>) -> (Vec<T>, Vec<T>, usize, usize)
where N: ArrayLength + Sub<K>, K: ArrayLength, Diff<N, K>: ArrayLength
{ let mut b = a.clone();
  let (x, y): (GenericArray<T, K>, GenericArray<T, Diff<N, K>>) = a.clone().split();
  let (rx, ry): (&GenericArray<T, K>, &GenericArray<T, Diff<N, K>>) = (&a).split();
  let (mx, my): (&mut GenericArray<T, K>, &mut GenericArray<T, Diff<N, K>>) = (&mut b).split();
  assert!(rx.len() == mx.len() && ry.len() == my.len());
  (x.to_vec(), y.to_vec(), rx.len(), ry.len()) }
fn cc<T, N, M>(a: GenericArray<T, N>, b: GenericArray<T, M>) -> GenericArray<T, Sum<N, M>>
where N: ArrayLength + Add<M>, M: ArrayLength, Sum<N, M>: ArrayLength { a.concat(b) }
fn main() { println!("{:?}", sp::<u32, U5, U2>(arr![1, 2, 3, 4, 5])); println!("{:?}", sp::<u32, U3, U3>(arr![1, 2, 3])); println!("{:?}", sp::<u32, U3, U0>(arr![1, 2, 3]));
            println!("{:?}", cc(arr![1u8, 2], arr![3u8]).as_slice()); println!("{:?}", cc(GenericArray::<u8, U0>::default(), arr![3u8]).as_slice()); }
"#,
                expect: "([1, 2], [3, 4, 5], 2, 3)\n([1, 2, 3], [], 3, 0)\n([], [1, 2, 3], 0, 3)\n[1, 2, 3]\n[3]\n",
            },
            Caller {
                what: "remove / swap_remove in code generic over N with the bounds of `impl Remove`",
                externs: &[],
                src: r#"
fn rm<T: Clone, N>(a: GenericArray<T, N>, i: usize) -> (T, Vec<T>, T, Vec<T>)
where N: ArrayLength + Sub<B1>, Sub1<N>: ArrayLength
{ let (x, r) = a.clone().remove(i); let (y, s) = a.swap_remove(i); (x, r.to_vec(), y, s.to_vec()) }
fn main() { println!("{:?}", rm(arr![1u32, 2, 3, 4], 1)); println!("{:?}", rm(arr![1u32, 2, 3, 4], 3)); println!("{:?}", rm(arr![8u8], 0)); }
"#,
                expect: "(2, [1, 3, 4], 2, [1, 4, 3])\n(4, [1, 2, 3], 4, [1, 2, 3])\n(8, [], 8, [])\n",
            },
            Caller {
                what: "the sequence operations with method syntax on arrays whose ELEMENTS are arrays, and on arrays of borrowed elements",
                externs: &[],
                src: r#"
fn borrowed<'a>(s: &'a String, t: &'a String) -> Vec<&'a str> {
    let a: GenericArray<&'a str, U2> = arr![s.as_str(), t.as_str()];
    let b: GenericArray<&'a str, U1> = arr![&s[1..]];
    let c = a.concat(b);
    let (h, rest) = c.pop_front();
    let d = rest.append(h).prepend("z");
    let (x, y): (GenericArray<&'a str, U1>, GenericArray<&'a str, U3>) = d.split();
    let (r, z) = y.remove(1);
    let mut v = x.to_vec(); v.push(r); v.extend(z.iter().copied()); v
}
fn main() {
    let rows: GenericArray<GenericArray<u64, U3>, U2> = arr![arr![1u64, 2, 3], arr![4u64, 5, 6]];
    let more: GenericArray<GenericArray<u64, U3>, U1> = arr![arr![7u64, 8, 9]];
    let all = rows.concat(more);
    println!("{} {:?}", all.len(), all[2].as_slice());
    let (first, rest) = all.pop_front();
    let back = rest.append(first);
    println!("{:?} {:?}", back[0].as_slice(), back[2].as_slice());
    let (x, r) = back.remove(1);
    let (p, q): (GenericArray<GenericArray<u64, U3>, U1>, GenericArray<GenericArray<u64, U3>, U1>) = r.split();
    println!("{:?} {:?} {:?}", x.as_slice(), p[0].as_slice(), q[0].as_slice());
    let (s, t) = (String::from("abc"), String::from("de"));
    println!("{:?}", borrowed(&s, &t));
}
"#,
                expect: "3 [7, 8, 9]\n[4, 5, 6] [1, 2, 3]\n[7, 8, 9] [4, 5, 6] [1, 2, 3]\n[\"z\", \"bc\", \"de\", \"abc\"]\n",
            },
        ],
        "C15" => vec![Caller {
            what: "box_arr! as a boxed constructor from caller code: the empty list, a trailing comma, a length that is a type parameter of the caller, one evaluation of the repeat operand, a 32 MiB array",
            externs: &[],
            src: r#"
use generic_array::box_arr;
fn filled<N: ArrayLength>() -> Box<GenericArray<u8, N>> {
    box_arr![7u8; N]
}
fn longer<N: ArrayLength + Add<U3>>() -> usize where Sum<N, U3>: ArrayLength {
    let b: Box<GenericArray<u16, Sum<N, U3>>> = box_arr![9u16; Sum<N, U3>];
    b.len()
}
fn main() {
    let e: Box<GenericArray<String, U0>> = box_arr![];
    println!("{}", e.len());
    let t = box_arr![1u8, 2, 3,];
    println!("{:?}", &t[..]);
    println!("{:?} {}", &filled::<U5>()[..], filled::<Sum<U1000, U24>>().len());
    println!("{}", longer::<U4>());
    let mut calls = 0;
    let r = box_arr![{ calls += 1; String::from("x") }; U4];
    println!("{} {:?}", calls, &r[..]);
    let big = box_arr![1u64; 4194304];
    println!("{}", big.iter().sum::<u64>());
    let v: Vec<u64> = big.into_vec();
    println!("{}", v.len());
}
"#,
            expect: "0\n[1, 2, 3]\n[7, 7, 7, 7, 7] 1024\n7\n1 [\"x\", \"x\", \"x\", \"x\"]\n4194304\n4194304\n",
        }],
        "C10" => vec![Caller {
            what: "the [T; U] <-> GenericArray slice views from code generic over `const U: usize` that carries only the documented bound `Const<U>: IntoArrayLength`",
            externs: &[],
            src: r#"
use generic_array::typenum::Const;
use generic_array::{ConstArrayLength, IntoArrayLength};
fn tour<const U: usize>(count: usize) -> (bool, bool, usize, u32)
where
    Const<{ U }>: IntoArrayLength,
{
    let mut rows: Vec<[u32; U]> = (0..count).map(|r| [r as u32; U]).collect();
    let addr = rows.as_ptr() as usize;
    let ga: &[GenericArray<u32, ConstArrayLength<{ U }>>] = GenericArray::from_chunks(&rows);
    let same = ga.as_ptr() as usize == addr && ga.len() == count;
    let back: &[[u32; U]] = GenericArray::into_chunks(ga);
    let same2 = back.as_ptr() as usize == addr && back.len() == count;
    let gm: &mut [GenericArray<u32, ConstArrayLength<{ U }>>] = GenericArray::from_chunks_mut(&mut rows);
    for c in gm.iter_mut() {
        for x in c.iter_mut() {
            *x += 1;
        }
    }
    let bm: &mut [[u32; U]] = GenericArray::into_chunks_mut(gm);
    let n = bm.len();
    if let Some(r) = bm.last_mut() {
        if U > 0 {
            r[U - 1] += 100;
        }
    }
    let flat: &[u32] = GenericArray::<u32, ConstArrayLength<{ U }>>::slice_from_chunks(GenericArray::from_chunks(&rows));
    (same, same2, n, flat.iter().sum())
}
fn main() {
    println!("{:?}", tour::<3>(4));
    println!("{:?}", tour::<1>(5));
    println!("{:?}", tour::<8>(0));
    println!("{:?}", tour::<16>(2));
}
"#,
            expect: "(true, true, 4, 130)\n(true, true, 5, 115)\n(true, true, 0, 0)\n(true, true, 2, 148)\n",
        }],
        "C14" => vec![Caller {
            what: "{:x} / {:X} / {:.3x} in code generic over N with the bounds of `impl LowerHex` / `impl UpperHex`",
            externs: &[],
            src: r#"
fn hx<N>(a: &GenericArray<u8, N>) -> String where N: ArrayLength + Add<N>, Sum<N, N>: ArrayLength
{ format!("{:x} {:X} {:.3x}", a, a, a) }
fn main() { println!("{}", hx(&arr![0xdeu8, 0xad, 0xbe, 0xef])); println!("[{}]", hx(&GenericArray::<u8, U0>::default()));
            println!("{}", hx(&GenericArray::<u8, U20>::generate(|i| i as u8 * 3))); }
"#,
            expect: "deadbeef DEADBEEF dea\n[  ]\n000306090c0f1215181b1e2124272a2d30333639 000306090C0F1215181B1E2124272A2D30333639 000\n",
        }],
        "C17" => vec![
            Caller {
                what: "deserialising an array of BORROWED elements (&str) and a caller generic over T: Deserialize<'de>",
                externs: &["serde", "serde_json"],
                src: r#"
use serde::{Deserialize, Deserializer, Serialize};
fn de<'de, T: Deserialize<'de>, N: ArrayLength, D: Deserializer<'de>>(d: D) -> Result<GenericArray<T, N>, D::Error> { GenericArray::<T, N>::deserialize(d) }
fn ser<T: Serialize, N: ArrayLength>(a: &GenericArray<T, N>) -> String { serde_json::to_string(a).unwrap() }
fn main() {
    let text = String::from("[\"a\",\"bc\",\"\"]");
    let mut d = serde_json::Deserializer::from_str(&text);
    let a: GenericArray<&str, U3> = de(&mut d).unwrap();
    println!("{:?} {}", a.as_slice(), ser(&a));
    let b: Result<GenericArray<&str, U2>, _> = serde_json::from_str(&text);
    println!("{}", b.is_err());
    // an element type that is Serialize + Deserialize and nothing else (no Default, no Clone, no Copy)
    #[derive(Debug, PartialEq)] struct Id(core::num::NonZeroU8);
    impl Serialize for Id { fn serialize<S: serde::Serializer>(&self, s: S) -> Result<S::Ok, S::Error> { s.serialize_u8(self.0.get()) } }
    impl<'de> Deserialize<'de> for Id { fn deserialize<D: Deserializer<'de>>(d: D) -> Result<Self, D::Error> {
        let v = u8::deserialize(d)?; core::num::NonZeroU8::new(v).map(Id).ok_or_else(|| serde::de::Error::custom("zero")) } }
    let ids: GenericArray<Id, U2> = serde_json::from_str("[3,4]").unwrap();
    println!("{:?} {}", ids.as_slice(), ser(&ids));
}
"#,
                expect: "[\"a\", \"bc\", \"\"] [\"a\",\"bc\",\"\"]\ntrue\n[Id(3), Id(4)] [3,4]\n",
            },
        ],
        "C08" => vec![
            Caller {
                what: "map / zip / fold with plain method syntax on concrete arrays in every receiver / argument form",
                externs: &[],
                src: r#"
fn main() {
    let a = arr![1u32, 2, 3]; let mut b = arr![10u32, 20, 30]; let mut c = arr![100u32, 200, 300];
    println!("{:?}", a.map(|x| x + 1).as_slice());
    println!("{:?}", (&a).map(|x| *x + 1).as_slice());
    println!("{:?}", (&mut c).map(|x| { *x += 1; *x }).as_slice());
    println!("{:?}", a.zip(b, |x, y| x + y).as_slice());
    println!("{:?}", a.zip(&b, |x, y| x + *y).as_slice());
    println!("{:?}", a.zip(&mut b, |x, y| { *y += 1; x + *y }).as_slice());
    println!("{:?}", (&a).zip(b, |x, y| *x + y).as_slice());
    println!("{:?}", (&a).zip(&b, |x, y| *x + *y).as_slice());
    println!("{:?}", (&mut c).zip(&a, |x, y| *x + *y).as_slice());
    println!("{}", a.fold(0, |s, x| s + x) + (&a).fold(0, |s, x| s + *x) + (&mut c).fold(0, |s, x| s + *x));
    let bx = Box::new(arr![1u8, 2]); println!("{:?}", bx.map(|x| x * 2).as_slice());
}
"#,
                expect: "[2, 3, 4]\n[2, 3, 4]\n[101, 201, 301]\n[11, 22, 33]\n[11, 22, 33]\n[12, 23, 34]\n[12, 23, 34]\n[12, 23, 34]\n[102, 203, 304]\n615\n[2, 4]\n",
            },
            Caller {
                what: "map / zip / fold in code generic over the sequence type with the bounds of FunctionalSequence",
                externs: &[],
                src: r#"
fn sums<A, B>(a: A, b: B) -> i32
where A: FunctionalSequence<i32> + MappedGenericSequence<i32, i32>,
      B: FunctionalSequence<i32, Length = A::Length> + MappedGenericSequence<i32, i32, Mapped = MappedSequence<A, i32, i32>>,
      A::Item: core::ops::Add<B::Item, Output = i32>,
      MappedSequence<A, i32, i32>: FunctionalSequence<i32>, SequenceItem<MappedSequence<A, i32, i32>>: core::ops::Add<i32, Output = i32>
{ a.zip(b, |l, r| l + r).fold(0, |s, x| x + s) }
fn main() { println!("{}", sums(arr![1, 2, 3], arr![10, 20, 30])); println!("{}", sums(&arr![1, 2, 3], &arr![10, 20, 30])); }
"#,
                expect: "66\n66\n",
            },
            Caller {
                what: "map / fold / zip with their generic arguments NAMED (turbofish, UFCS), and a caller generic over the receiver that spells the result type through the published associated types",
                externs: &[],
                src: r#"
fn widen<S>(s: S) -> <<S as MappedGenericSequence<u8, u64>>::Mapped as GenericSequence<u64>>::Sequence
where S: FunctionalSequence<u8> + MappedGenericSequence<u8, u64>, S::Item: core::borrow::Borrow<u8>
{ s.map(|x| *core::borrow::Borrow::<u8>::borrow(&x) as u64 * 3) }
fn main() {
    let a = arr![1u8, 2, 3];
    let m = a.map::<u64, _>(|x| x as u64 + 1);
    let f = (&a).fold::<u64, _>(0, |acc, x| acc * 10 + *x as u64);
    let z = FunctionalSequence::zip::<u8, _, u16, _>(a, arr![10u8, 20, 30], |x, y| x as u16 + y as u16);
    println!("{:?} {} {:?}", m.as_slice(), f, z.as_slice());
    let w: GenericArray<u64, U3> = widen(arr![1u8, 2, 3]);
    let wr: GenericArray<u64, U2> = widen(&arr![4u8, 5]);
    println!("{:?} {:?}", w.as_slice(), wr.as_slice());
}
"#,
                expect: "[2, 3, 4] 123 [11, 22, 33]\n[3, 6, 9] [12, 15]\n",
            },
        ],
        "C19" => vec![Caller {
            what: "zeroize() from a caller generic over T: Zeroize, and on an array of elements that BORROW (no 'static bound)",
            externs: &["zeroize"],
            src: r#"
use zeroize::Zeroize;
struct Secret<'a>(&'a mut [u8]);
impl<'a> Zeroize for Secret<'a> { fn zeroize(&mut self) { for b in self.0.iter_mut() { *b = 0; } } }
fn wipe<T: Zeroize, N: ArrayLength>(a: &mut GenericArray<T, N>) { a.zeroize() }
fn main() {
    let mut x = [1u8, 2, 3]; let mut y = [4u8, 5];
    {
        let mut a: GenericArray<Secret<'_>, U2> = GenericArray::from_array([Secret(&mut x), Secret(&mut y)]);
        wipe(&mut a);
    }
    println!("{:?} {:?}", x, y);
    let mut n = arr![7u32, 8, 9];
    wipe(&mut n);
    println!("{:?}", n.as_slice());
}
"#,
            expect: "[0, 0, 0] [0, 0]\n[0, 0, 0]\n",
        },
        Caller {
            what: "const_default() from a caller generic over T and N that states what the inherent method asks for (T: ConstDefault and GenericArray<T, N>: ConstDefault), at run time and in a const",
            externs: &["const_default"],
            src: r#"
use const_default::ConstDefault;
fn cd<T, N: ArrayLength>() -> GenericArray<T, N> where T: ConstDefault, GenericArray<T, N>: ConstDefault { GenericArray::<T, N>::const_default() }
struct Holder<T, N: ArrayLength>(GenericArray<T, N>);
impl<T: ConstDefault, N: ArrayLength> Holder<T, N> where GenericArray<T, N>: ConstDefault { const INIT: GenericArray<T, N> = GenericArray::<T, N>::const_default(); }
fn main() {
    let a: GenericArray<u8, U3> = cd();
    let b: GenericArray<[u16; 2], U2> = cd();
    const C: GenericArray<u32, U5> = GenericArray::<u32, U5>::const_default();
    let d = Holder::<i64, U4>::INIT;
    println!("{:?} {:?} {:?} {:?}", a.as_slice(), b.as_slice(), C.as_slice(), d.as_slice());
}
"#,
            expect: "[0, 0, 0] [[0, 0], [0, 0]] [0, 0, 0, 0, 0] [0, 0, 0, 0]\n",
        }],
        "C02" => vec![
            Caller {
                what: "slice methods reached through auto-deref with the crate's traits glob-imported (reverse, sort, swap, rotate, fill write through to the array), and the slice views of an array of arrays with an inferred element type",
                externs: &[],
                src: r#"
fn main() {
    let mut a = arr![3u32, 1, 2, 4];
    a.reverse(); println!("{:?}", a.as_slice());
    a.sort(); println!("{:?}", a.as_slice());
    a.swap(0, 3); a.rotate_left(1); println!("{:?}", a.as_slice());
    a.fill(7); println!("{:?} {} {:?} {:?}", a.as_slice(), a.contains(&7), a.first(), a.last());
    { let r: &mut GenericArray<u32, U4> = &mut a; r[1] = 9; r.reverse(); }
    println!("{:?} {:?} {}", a.as_slice(), a.iter().position(|x| *x == 9), a.len());
    let rows: GenericArray<GenericArray<u8, U2>, U3> = arr![arr![1u8, 2], arr![3u8, 4], arr![5u8, 6]];
    let v: &[_] = rows.as_ref();
    println!("{} {:?}", v.len(), v[1].as_slice());
    let s: &[GenericArray<u8, U2>] = &rows;
    println!("{}", s.len());
    let mut m = rows;
    { let w: &mut [_] = m.as_mut(); w[0][1] = 9; }
    let b: &[GenericArray<u8, U2>] = core::borrow::Borrow::borrow(&m);
    println!("{:?} {}", m[0].as_slice(), b.len());
    let mut t = arr![String::from("b"), String::from("a")];
    t.reverse(); t.sort(); t.swap(0, 1);
    println!("{:?}", t.as_slice());
    #[repr(C)] struct Framed { head: u64, empty: GenericArray<u64, U0>, three: GenericArray<u64, U3>, tail: u64 }
    let mut fr = Framed { head: 1, empty: GenericArray::default(), three: arr![7u64, 8, 9], tail: 2 };
    let base = &fr as *const Framed as usize;
    println!("{} {} {} {}", fr.empty.as_ptr() as usize - base, fr.three.as_ptr() as usize - base,
             fr.empty.as_mut_ptr() as usize - base, fr.three.as_mut_ptr() as usize - base);
    println!("{} {}", fr.head + fr.tail, fr.three.as_ptr_range().end as usize - base);
}
"#,
                expect: "[4, 2, 1, 3]\n[1, 2, 3, 4]\n[2, 3, 1, 4]\n[7, 7, 7, 7] true Some(7) Some(7)\n[7, 7, 9, 7] Some(2) 4\n3 [3, 4]\n3\n[1, 9] 3\n[\"b\", \"a\"]\n8 8 8 8\n3 32\n",
            },
        ],
        "C11" => vec![Caller {
            what: "by-reference flatten of a 65536 x 65536 grid of zero-sized elements (2^32 elements, 0 bytes)",
            externs: &[],
            src: r#"
fn main() {
    let p = core::ptr::NonNull::<GenericArray<GenericArray<(), U65536>, U65536>>::dangling();
    let rows: &GenericArray<GenericArray<(), U65536>, U65536> = unsafe { p.as_ref() };
    let flat = rows.flatten();
    println!("{} {}", flat.len(), core::mem::size_of_val(flat));
}
"#,
            expect: "4294967296 0\n",
        }],
        "C12" => vec![
            Caller {
                what: "the by-value sequence operations called with method syntax on a BOXED array: auto-deref moves the array out of the box and the results are plain arrays of the lengths the impls of GenericArray state",
                externs: &[],
                src: r#"
fn main() {
    let b = Box::new(arr![1u32, 2, 3, 4, 5]);
    let (x, y): (GenericArray<u32, U2>, GenericArray<u32, U3>) = b.split();
    println!("{:?} {:?}", x.as_slice(), y.as_slice());
    let c = Box::new(arr![arr![1u8, 2], arr![3u8, 4]]);
    let f: GenericArray<u8, U4> = c.flatten();
    let u: GenericArray<GenericArray<u8, U2>, U2> = Box::new(f).unflatten();
    println!("{:?} {:?}", f.as_slice(), u[1].as_slice());
    let e: GenericArray<u8, U4> = Box::new(arr![1u8, 2, 3]).append(4);
    let p: GenericArray<u8, U4> = Box::new(arr![1u8, 2, 3]).prepend(0);
    let (i, l): (GenericArray<u8, U1>, u8) = Box::new(arr![1u8, 2]).pop_back();
    let (h, t): (u8, GenericArray<u8, U1>) = Box::new(arr![1u8, 2]).pop_front();
    let g: GenericArray<u8, U3> = Box::new(arr![1u8, 2]).concat(arr![3u8]);
    let (r, rest): (u8, GenericArray<u8, U2>) = Box::new(arr![1u8, 2, 3]).remove(0);
    println!("{:?} {:?} {:?} {} {} {:?} {:?} {} {:?}", e.as_slice(), p.as_slice(), i.as_slice(), l, h, t.as_slice(), g.as_slice(), r, rest.as_slice());
    let z: GenericArray<GenericArray<(), U2>, U3> = Default::default();
    let fz: GenericArray<(), U6> = Box::new(z).flatten();
    println!("{}", fz.len());
}
"#,
                expect: "[1, 2] [3, 4, 5]\n[1, 2, 3, 4] [3, 4]\n[1, 2, 3, 4] [0, 1, 2, 3] [1] 2 1 [2] [1, 2, 3] 1 [2, 3]\n6\n",
            },
            Caller {
                what: "by-reference flatten / unflatten / split of arrays whose elements BORROW from locals (no 'static bound on the views)",
                externs: &[],
                src: r#"
fn flat<'a, 's>(rows: &'a GenericArray<GenericArray<&'s str, U2>, U3>) -> &'a GenericArray<&'s str, U6> { rows.flatten() }
fn main() {
    let words: Vec<String> = ["a", "bb", "ccc", "d", "ee", "fff"].iter().map(|s| s.to_string()).collect();
    let mut rows: GenericArray<GenericArray<&str, U2>, U3> = arr![arr![&words[0][..], &words[1][..]], arr![&words[2][..], &words[3][..]], arr![&words[4][..], &words[5][..]]];
    println!("{:?}", flat(&rows).as_slice());
    { let m: &mut GenericArray<&str, U6> = (&mut rows).flatten(); m[5] = &words[0][..]; }
    let back: &GenericArray<GenericArray<&str, U3>, U2> = flat(&rows).unflatten();
    let (l, r): (&GenericArray<&str, U2>, &GenericArray<&str, U4>) = flat(&rows).split();
    println!("{:?} {:?} {:?}", back[1].as_slice(), l.as_slice(), r.as_slice());
}
"#,
                expect: "[\"a\", \"bb\", \"ccc\", \"d\", \"ee\", \"fff\"]\n[\"d\", \"ee\", \"a\"] [\"a\", \"bb\"] [\"ccc\", \"d\", \"ee\", \"a\"]\n",
            },
            Caller {
                what: "Clone / Copy / Send / Sync of arrays whose elements BORROW from locals (no 'static bound), as for native arrays",
                externs: &[],
                src: r#"
#[derive(Clone, Copy, Debug)] struct View<'a> { s: &'a str, n: &'a u32 }
fn dup<'a>(a: GenericArray<&'a u32, U3>) -> (GenericArray<&'a u32, U3>, GenericArray<&'a u32, U3>) { (a, a.clone()) }
fn need_send_sync<X: Send + Sync + Copy>(x: X) -> X { x }
fn main() {
    let (p, q, r) = (1u32, 2u32, 3u32);
    let text = String::from("hello");
    let a: GenericArray<&u32, U3> = arr![&p, &q, &r];
    let (b, c) = dup(a);
    let v = arr![View { s: &text[..2], n: &p }, View { s: &text[2..], n: &q }];
    let w = need_send_sync(v);
    let it = a.into_iter().clone();
    println!("{:?} {:?} {:?} {:?} {:?}", a.as_slice(), b.as_slice(), c.as_slice(), w[1], it.as_slice());
}
"#,
                expect: "[1, 2, 3] [1, 2, 3] [1, 2, 3] View { s: \"llo\", n: 2 } [1, 2, 3]\n",
            },
        ],
        "C13" => vec![
            Caller {
                what: "comparisons whose other side is INFERRED from the array (Default::default(), .into(), collect()): one candidate impl only",
                externs: &[],
                src: r#"
fn main() {
    let a: GenericArray<String, U3> = Default::default();
    println!("{}", a == Default::default());
    let b = arr![1u8, 2, 3];
    println!("{} {}", b == [1, 2, 3].into(), b != GenericArray::default());
    println!("{}", b == (1u8..4).collect());
    println!("{:?}", b.partial_cmp(&[1, 2, 4].into()));
    println!("{:?}", b.cmp(&Default::default()));
    let e = GenericArray::<u32, U0>::default();
    println!("{}", e == Default::default() && e <= Default::default());
}
"#,
                expect: "true\ntrue true\ntrue\nSome(Less)\nGreater\ntrue\n",
            },
            Caller {
                what: "hashing, comparing and printing in code generic over T and N with the published bounds; map lookups through the slice",
                externs: &[],
                src: r#"
use std::collections::{BTreeMap, HashMap};
use std::hash::Hash;
fn look<T: Hash + core::cmp::Eq + core::cmp::Ord + Clone + core::fmt::Debug, N: ArrayLength>(k: GenericArray<T, N>) -> (bool, bool, String) {
    let mut h: HashMap<GenericArray<T, N>, u8> = HashMap::new();
    h.insert(k.clone(), 1);
    let mut b: BTreeMap<GenericArray<T, N>, u8> = BTreeMap::new();
    b.insert(k.clone(), 2);
    let s: &[T] = &k;
    (h.get(s) == Some(&1), b.get(s) == Some(&2), format!("{:?}", k))
}
#[derive(Clone, Copy, Debug, PartialEq, Eq, PartialOrd, Ord, Hash)]
enum Dir { N, E, S }
fn main() {
    println!("{:?}", look(arr![Dir::N, Dir::S, Dir::E]));
    println!("{:?}", look(arr![[7u8; 1], [9u8; 1]]));
    let (x, y) = (String::from("p"), String::from("q"));
    println!("{:?}", look(arr![&x, &y]));
    println!("{:?}", look(arr![true, false]));
    println!("{:?}", look(arr!['a', 'b']));
    println!("{:?}", look(GenericArray::<u64, U0>::default()));
}
"#,
                expect: "(true, true, \"[N, S, E]\")\n(true, true, \"[[7], [9]]\")\n(true, true, \"[\\\"p\\\", \\\"q\\\"]\")\n(true, true, \"[true, false]\")\n(true, true, \"['a', 'b']\")\n(true, true, \"[]\")\n",
            },
            Caller {
                what: "optional form: a nested array key looked up through a flattened Borrow<[T]> view (no such impl today; one that exists must keep the Borrow contract: Eq, Ord and Hash agree with the key's)",
                externs: &[],
                src: r#"
use std::collections::{BTreeSet, HashSet};
fn main() {
    let keys: Vec<GenericArray<GenericArray<u8, U2>, U3>> = (0..64u8).map(|i| arr![arr![i, 1], arr![2, i], arr![i, i]]).collect();
    let h: HashSet<_> = keys.iter().cloned().collect();
    let b: BTreeSet<_> = keys.iter().cloned().collect();
    let (mut fh, mut fb) = (0, 0);
    for k in &keys {
        let flat: Vec<u8> = k.iter().flat_map(|r| r.iter().copied()).collect();
        if h.contains::<[u8]>(&flat[..]) { fh += 1 }
        if b.contains::<[u8]>(&flat[..]) { fb += 1 }
    }
    println!("{} {}", fh, fb);
}
"#,
                expect: "64 64\n",
            },
            Caller {
                what: "optional form: an array key looked up through a native-array Borrow<[T; 3]> view (no such impl today; one that exists must keep the Borrow contract)",
                externs: &[],
                src: r#"
use std::collections::{BTreeSet, HashSet};
fn main() {
    let keys: Vec<GenericArray<u8, U3>> = (0..64u8).map(|i| arr![i, 1, i ^ 5]).collect();
    let h: HashSet<_> = keys.iter().cloned().collect();
    let b: BTreeSet<_> = keys.iter().cloned().collect();
    let (mut fh, mut fb) = (0, 0);
    for k in &keys {
        let n: [u8; 3] = [k[0], k[1], k[2]];
        if h.contains::<[u8; 3]>(&n) { fh += 1 }
        if b.contains::<[u8; 3]>(&n) { fb += 1 }
    }
    println!("{} {}", fh, fb);
}
"#,
                expect: "64 64\n",
            },
        ],
        other => panic!("no caller programs for {}", other),
    }
}

fn main() {
    let a = args();
    let prop = a.extra.iter().find(|x| x.starts_with('C')).cloned().unwrap_or_else(|| "C09".to_string());
    let mut cs = callers(&prop);
    if a.extra.iter().any(|x| x == "--typing-only") {
        // the run of another property that borrows these programs for what they say about typing / inference
        cs.retain(|c| !c.what.starts_with("optional form:"));
    }
    let p = Probe::new(&format!("gcall-{}", prop));
    note(&format!("rlib {}", p.rlib.display()));
    let results: Mutex<Vec<Option<Result<String, String>>>> = Mutex::new(vec![None; cs.len()]);
    let next = AtomicUsize::new(0);
    std::thread::scope(|sc| {
        for _ in 0..8 {
            sc.spawn(|| loop {
                let i = next.fetch_add(1, Ordering::SeqCst);
                if i >= cs.len() {
                    break;
                }
                let src = format!("{}{}", HEAD, cs[i].src);
                let r = p.compile_and_run_with(&format!("gcall_{}_{}", prop, i), &src, cs[i].externs);
                results.lock().unwrap()[i] = Some(r);
            });
        }
    });
    let results = results.into_inner().unwrap();
    for (i, c) in cs.iter().enumerate() {
        emit_case(&[i as i128]);
        dist("caller");
        match results[i].clone().unwrap() {
            Ok(out) if out == c.expect => emit_obs(&[1]),
            Ok(out) => {
                emit_obs(&[0]);
                emit_oracle(&format!("caller program {} ({}) printed {:?}, expected {:?}", i, c.what, out, c.expect));
            }
            // an OPTIONAL form is an impl the crate does not have today: rejected for the missing trait bound = absent
            Err(e) if c.what.starts_with("optional form:") && e.starts_with("error[E0277]") => {
                dist("optional-absent");
                emit_obs(&[2]);
            }
            Err(e) => {
                emit_obs(&[-1]);
                emit_oracle(&format!("caller program {} ({}) is rejected or fails: {}", i, c.what, e.chars().take(500).collect::<String>()));
            }
        }
    }
    flush_dist();
}

//! C14: {:x} / {:X} / {:.p$x} of GenericArray<u8, N> print exactly the two-digit
//! hexadecimal form of every byte, truncated to min(p, 2N) characters.
//! Built twice by the driver: plain and with cargo feature `fasterhex`
//! (= generic-array/faster-hex); the cases are the same in both builds.
//! Case: [upper(0/1), has_prec(0/1), prec, N, b_0..b_{N-1}]
//! Obs : [0, c_0..c_k] bytes of the formatted string | [1] the formatting panicked.
use generic_array::typenum::*;
use generic_array::{ArrayLength, GenericArray};
use harness::*;
use std::ops::Add;

type U1025 = Sum<U1024, U1>;
type U2049 = Sum<U2048, U1>;
type U3000 = Sum<U2048, U952>;

fn fmt_arr<N>(upper: bool, prec: Option<usize>, bytes: &[u8]) -> String
where
    N: ArrayLength + Add<N>,
    Sum<N, N>: ArrayLength,
{
    let arr: GenericArray<u8, N> = GenericArray::from_iter(bytes.iter().copied());
    match (upper, prec) {
        (false, None) => format!("{:x}", arr),
        (true, None) => format!("{:X}", arr),
        (false, Some(p)) => format!("{:.p$x}", arr, p = p),
        (true, Some(p)) => format!("{:.p$X}", arr, p = p),
    }
}

/// the same formatting with width / fill / alignment / sign / alternate flags in the spec: the impl prints
/// the digits and nothing else, so every variant must give the same string
fn fmt_variants<N>(upper: bool, prec: Option<usize>, bytes: &[u8]) -> Vec<(String, String)>
where
    N: ArrayLength + Add<N>,
    Sum<N, N>: ArrayLength,
{
    let arr: GenericArray<u8, N> = GenericArray::from_iter(bytes.iter().copied());
    let mut out = vec![];
    let digits = prec.map(|p| p.min(2 * bytes.len())).unwrap_or(2 * bytes.len());
    for w in [1usize, digits + 1, digits + 9] {
        if w > PMAX {
            continue; // std::fmt rejects a run-time width above u16::MAX itself
        }
        match (upper, prec) {
            (false, None) => {
                out.push((format!("{{:{}x}}", w), format!("{:w$x}", arr, w = w)));
                out.push((format!("{{:>{}x}}", w), format!("{:>w$x}", arr, w = w)));
                out.push((format!("{{:^{}x}}", w), format!("{:^w$x}", arr, w = w)));
                out.push((format!("{{:0{}x}}", w), format!("{:0w$x}", arr, w = w)));
                out.push((format!("{{:*<{}x}}", w), format!("{:*<w$x}", arr, w = w)));
            }
            (true, None) => {
                out.push((format!("{{:{}X}}", w), format!("{:w$X}", arr, w = w)));
                out.push((format!("{{:^{}X}}", w), format!("{:^w$X}", arr, w = w)));
                out.push((format!("{{:0{}X}}", w), format!("{:0w$X}", arr, w = w)));
            }
            (false, Some(p)) => {
                out.push((format!("{{:{}.{}x}}", w, p), format!("{:w$.p$x}", arr, w = w, p = p)));
                out.push((format!("{{:^{}.{}x}}", w, p), format!("{:^w$.p$x}", arr, w = w, p = p)));
                out.push((format!("{{:0{}.{}x}}", w, p), format!("{:0w$.p$x}", arr, w = w, p = p)));
            }
            (true, Some(p)) => {
                out.push((format!("{{:{}.{}X}}", w, p), format!("{:w$.p$X}", arr, w = w, p = p)));
                out.push((format!("{{:>{}.{}X}}", w, p), format!("{:>w$.p$X}", arr, w = w, p = p)));
            }
        }
    }
    match (upper, prec) {
        (false, None) => {
            out.push(("{:#x}".into(), format!("{:#x}", arr)));
            out.push(("{:+x}".into(), format!("{:+x}", arr)));
        }
        (true, None) => out.push(("{:#X}".into(), format!("{:#X}", arr))),
        _ => {}
    }
    out
}

/// std::fmt limits a run-time precision argument to u16::MAX ("Formatting argument out of range" beyond)
const PMAX: usize = u16::MAX as usize;

const LENS: [usize; 31] = [
    0, 1, 2, 3, 4, 5, 6, 7, 8, 9, 10, 11, 12, 13, 14, 15, 16, 17, 31, 32, 33, 1023, 1024, 1025, 2047,
    2048, 2049, 3000, 4096,
    // 2N reaches / exceeds u16::MAX + 1: a digit count or precision kept in 16 bits shows here
    32768, 65536,
];

fn run_variants(upper: bool, prec: Option<usize>, bytes: &[u8]) -> Vec<(String, String)> {
    dispatch_len!(
        bytes.len(),
        [
            U0, U1, U2, U3, U4, U5, U6, U7, U8, U9, U10, U11, U12, U13, U14, U15, U16, U17, U31, U32, U33,
            U1023, U1024, U1025, U2047, U2048, U2049, U3000, U4096, U32768, U65536
        ],
        |N| fmt_variants::<N>(upper, prec, bytes),
        panic!("length {} not monomorphised", bytes.len())
    )
}

fn run_impl(upper: bool, prec: Option<usize>, bytes: &[u8]) -> String {
    dispatch_len!(
        bytes.len(),
        [
            U0, U1, U2, U3, U4, U5, U6, U7, U8, U9, U10, U11, U12, U13, U14, U15, U16, U17, U31, U32, U33,
            U1023, U1024, U1025, U2047, U2048, U2049, U3000, U4096, U32768, U65536
        ],
        |N| fmt_arr::<N>(upper, prec, bytes),
        panic!("length {} not monomorphised", bytes.len())
    )
}

/// the reference the property names: per-byte {:02x}, truncated to the precision
fn reference(upper: bool, prec: Option<usize>, bytes: &[u8]) -> String {
    let mut s = String::with_capacity(bytes.len() * 2);
    for b in bytes {
        if upper {
            s.push_str(&format!("{:02X}", b));
        } else {
            s.push_str(&format!("{:02x}", b));
        }
    }
    if let Some(p) = prec {
        s.truncate(p.min(bytes.len() * 2));
    }
    s
}

fn do_case(case: Vec<i128>) {
    emit_case(&case);
    let upper = case[0] != 0;
    let prec = if case[1] != 0 { Some(case[2] as usize) } else { None };
    let n = case[3] as usize;
    let bytes: Vec<u8> = case[4..4 + n].iter().map(|b| *b as u8).collect();
    dist(&format!(
        "strategy.{}",
        if n < 16 {
            "table(N<16)"
        } else if n <= 1024 {
            "stack(16..=1024)"
        } else {
            "chunked(>1024)"
        }
    ));
    dist(match prec {
        None => "prec.none",
        Some(p) if p == 0 => "prec.zero",
        Some(p) if p >= 2 * n => "prec.ge2N",
        Some(p) if p % 2 == 1 => "prec.odd",
        Some(_) => "prec.even",
    });
    match catch(|| run_impl(upper, prec, &bytes)) {
        Ok(s) => {
            let mut obs: Vec<i128> = vec![0];
            obs.extend(s.bytes().map(|b| b as i128));
            emit_obs(&obs);
            // width, fill, alignment, sign and alternate flags must not change the output
            if prec.map(|p| p <= PMAX).unwrap_or(true) {
                match catch(|| run_variants(upper, prec, &bytes)) {
                    Ok(vs) => {
                        for (spec, v) in vs {
                            if v != s {
                                emit_oracle(&format!("format spec {} prints {} chars where the plain spec prints {}: width / fill / flags must be ignored (N={})", spec, v.len(), s.len(), n));
                                break;
                            }
                        }
                    }
                    Err(m) => emit_oracle(&format!("formatting with a width panicked: {}", m)),
                }
            }
            let want = reference(upper, prec, &bytes);
            if s != want {
                let at = s.bytes().zip(want.bytes()).position(|(a, b)| a != b).unwrap_or(s.len().min(want.len()));
                emit_oracle(&format!(
                    "hex output differs from the per-byte {{:02x}} reference: N={} upper={} prec={:?} got {} chars, want {} chars, first difference at char {}",
                    n, upper, prec, s.len(), want.len(), at
                ));
            }
        }
        Err(m) => {
            emit_obs(&[1]);
            emit_oracle(&format!("formatting panicked: {}", m));
        }
    }
}

fn pattern(kind: u32, n: usize, rng: &mut Rng) -> Vec<u8> {
    match kind {
        // all-distinct (for N <= 256) with both nibbles varying; 167 is odd so i -> i*167+13 is a bijection mod 256
        0 => (0..n).map(|i| ((i * 167 + 13) % 256) as u8).collect(),
        1 => (0..n).map(|_| rng.below(256) as u8).collect(),
        2 => vec![0xff; n],
        // nibble-asymmetric, position dependent
        _ => (0..n).map(|i| if i % 2 == 0 { 0x1e } else { 0xa0 | (i as u8 & 0xf) }).collect(),
    }
}

fn mk(upper: bool, prec: Option<usize>, bytes: &[u8]) -> Vec<i128> {
    let mut c = vec![
        upper as i128,
        prec.is_some() as i128,
        prec.unwrap_or(0) as i128,
        bytes.len() as i128,
    ];
    c.extend(bytes.iter().map(|b| *b as i128));
    c
}

fn main() {
    let a = args();
    quiet_panics();
    if let Some(c) = a.replay {
        do_case(c);
        return;
    }
    let thorough = a.tier == "thorough";
    let mut rng = Rng::new(a.seed);
    note(&format!(
        "feature faster-hex: {}",
        if cfg!(feature = "fasterhex") { "on" } else { "off" }
    ));

    for &n in LENS.iter() {
        let small = n <= 33;
        // quick: the lengths next to the thresholds get the full treatment, the others one pattern
        let key_len = small || [1023, 1024, 1025, 2049, 4096].contains(&n);
        // precisions
        let mut precs: Vec<Option<usize>> = vec![None];
        if small {
            precs.extend((0..=2 * n + 2).map(Some));
            precs.push(Some(PMAX));
        } else if n >= 32768 {
            precs.extend([0usize, 1, 2, 2047, 2048, 2049, 32767, 32768, PMAX / 2 + 1, PMAX - 1, PMAX].map(Some));
        } else {
            let mut ps: Vec<usize> = vec![0, 1, 2, 3, PMAX, PMAX / 2 + 1];
            let mut k = 2048usize;
            while k <= 2 * n + 2048 {
                for d in [-2i64, -1, 0, 1, 2] {
                    ps.push((k as i64 + d) as usize);
                }
                k += 2048;
            }
            for d in 0..=4usize {
                ps.push(2 * n + 2 - d);
            }
            // the byte-level thresholds seen as digits
            for p in [15usize, 16, 17, 30, 31, 32, 33, 1023, 1024, 1025] {
                ps.push(p);
            }
            let nrand = if thorough { 64 } else { 4 };
            for _ in 0..nrand {
                ps.push(rng.below(2 * n as u64 + 3) as usize);
            }
            ps.sort();
            ps.dedup();
            if !thorough {
                // quick: keep the boundaries of the first two chunks, the end, and the random ones
                ps.retain(|p| *p <= 3 || (*p >= 2046 && *p <= 2050) || (*p >= 4094 && *p <= 4098) || *p + 4 >= 2 * n || *p % 7 == 0);
            }
            precs.extend(ps.into_iter().map(Some));
        }
        let kinds: &[u32] = if n <= 17 {
            &[0, 1, 2, 3]
        } else if thorough || key_len {
            &[0, 1]
        } else {
            &[1]
        };
        for &kind in kinds {
            for upper in [false, true] {
                if !small && !thorough && kind == 1 && upper && key_len {
                    continue;
                }
                if !small && !thorough && !key_len && upper != (n % 2 == 0) {
                    continue;
                }
                // one byte pattern per (N, kind, case); fresh random bytes for every few precisions
                let mut bytes = pattern(kind, n, &mut rng);
                for (i, p) in precs.iter().enumerate() {
                    if kind == 1 && i % 5 == 4 {
                        bytes = pattern(kind, n, &mut rng);
                    }
                    do_case(mk(upper, *p, &bytes));
                }
            }
        }
    }
    // every byte value in every position parity, both cases, at the three strategies (N = 2, 16, 1025)
    for upper in [false, true] {
        for b in 0..256usize {
            do_case(mk(upper, None, &[b as u8, (255 - b) as u8]));
        }
        let all: Vec<u8> = (0..=255u8).collect();
        for start in 0..16usize {
            let bytes: Vec<u8> = (0..16).map(|i| all[(start * 16 + i) % 256]).collect();
            do_case(mk(upper, None, &bytes));
            do_case(mk(upper, Some(31), &bytes));
        }
    }
    // seeded random cases over the whole lattice: random bytes, precision biased to the
    // interesting places (none, chunk boundaries in digits, the end, odd values)
    let nrandom = if thorough { 8000 } else { 250 };
    for _ in 0..nrandom {
        let n = if rng.chance(1, 2) {
            LENS[rng.below(21) as usize]
        } else {
            LENS[21 + rng.below(8) as usize]
        };
        let bytes = pattern(1, n, &mut rng);
        let d = 2 * n;
        let prec = match rng.below(8) {
            0 => None,
            1 => Some(rng.below(d as u64 + 3) as usize | 1),
            2 => Some((d + 2).saturating_sub(rng.below(6) as usize)),
            3 => Some(((rng.below(d as u64 / 2048 + 1) as usize) * 2048 + 2).saturating_sub(rng.below(5) as usize)),
            4 => Some(rng.below(40) as usize),
            _ => Some(rng.below(d as u64 + 3) as usize),
        };
        do_case(mk(rng.chance(1, 2), prec, &bytes));
    }
    flush_dist();
}

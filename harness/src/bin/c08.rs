//! C08: generate/map/zip/fold/clone/default apply the function once per index, in order,
//! identically for every receiver and argument form (no panics here; element types with and
//! without drop glue select the crate's different internal branches).
use generic_array::typenum::*;
use harness::forms;
use harness::track::Tr;
use harness::*;

fn do_case(case: Vec<i128>) {
    emit_case(&case);
    let n = case[3] as usize;
    let elem = case[2];
    let r = catch(|| {
        dispatch_len!(
            n,
            [U0, U1, U2, U3, U4, U5, U6, U16, U33, U97],
            |N| match elem {
                0 => forms::run::<Tr, Tr, Tr, N>(&case),
                1 => forms::run::<u32, u32, u32, N>(&case),
                2 => forms::run::<Tr, u32, Tr, N>(&case),
                3 => forms::run::<u32, Tr, Tr, N>(&case),
                4 => forms::run::<forms::Cn, forms::Cn, forms::Cn, N>(&case),
                8 => forms::run::<forms::P3, forms::P3, forms::P3, N>(&case),
                9 => forms::run::<forms::H2, u32, u32, N>(&case),
                10 => forms::run::<u32, forms::H2, forms::P3, N>(&case),
                11 => forms::run::<forms::Sd, forms::Sd, forms::Sd, N>(&case),
                _ => forms::run::<forms::Zs, forms::Zs, forms::Zs, N>(&case),
            },
            panic!("length {} not monomorphised", n)
        )
    });
    match r {
        Ok((obs, oracle)) => {
            emit_obs(&obs);
            for o in oracle {
                emit_oracle(&o);
            }
        }
        Err(m) => {
            emit_obs(&[-99]);
            emit_oracle(&format!("unexpected panic outside catch: {}", m));
        }
    }
}

fn main() {
    let a = args();
    quiet_panics();
    if let Some(c) = a.replay {
        do_case(c);
        return;
    }
    let ns: Vec<usize> = vec![0, 1, 2, 3, 4, 5, 6, 16, 33, 97];
    for &n in &ns {
        for elem in [0i128, 1, 2, 3, 4, 5, 8, 9, 10, 11] {
            for (op, nforms) in [(0i128, 4i128), (1, 10), (2, 4), (3, 4), (4, 1), (5, 2)] {
                if (elem == 1 && op >= 4) || ((elem == 2 || elem == 3) && op != 1) || (elem == 4 && op != 4) || (elem == 5 && op >= 4) {
                    continue;
                }
                // 8: plain 12-byte elements (size != alignment); 9, 10: zips of plain arrays with different element sizes
                // 11: plain elements with a stateful Default whose first value is all-zero bits: Default / default_boxed only
                if (elem == 8 && op >= 4) || ((elem == 9 || elem == 10) && op != 1) || (elem == 11 && op != 5) {
                    continue;
                }
                for form in 0..nforms {
                    dist(&format!("op{}", op));
                    dist(&format!("elem{}", elem));
                    do_case(vec![op, form, elem, n as i128, -1, 0, 0, 0]);
                }
            }
        }
    }
    flush_dist();
}

//! C06: GenericArray::into_iter() as a double-ended, exact-size, fused queue.
//! Case: [N, a_0..a_{N-1}, ops...]; ops: 0 next, 1 next_back, 2 nth n, 3 nth_back n,
//! 4 len, 5 size_hint, 6 as_slice, 7 write i v, 8 clone_obs, 9 clone_swap,
//! 10 fold(clone), 11 rfold(clone), 12 count(clone), 13 last(clone), 14 debug,
//! 15 fold / 16 rfold of the iterator ITSELF (it is consumed: these end a history; plain u32 run only, where
//! the visited values are what a clone's fold visits), 17 clone_from: an iterator over a copy of the WHOLE array
//! (so: longer than, or as long as, the source) takes `clone_from(&it)` and is then observed like a clone.
//! Observables, per op: 0 | 1 x | 2 n | 3 lo hi | 4 k x1..xk | 5 (unit) | 6 (panic).
use generic_array::typenum::*;
use generic_array::{ArrayLength, GenericArray, GenericArrayIter};
use harness::*;

/// Element types: plain `u32` (Clone = copy) and `Cn`: no drop glue, not Copy, and a
/// hand-written Clone that is observable (adds 2^20) -- a bitwise shortcut in the
/// iterator's Clone would go unnoticed with `u32`.
trait El: Clone + std::fmt::Debug + 'static {
    fn mk(v: u32) -> Self;
    fn val(&self) -> u32;
    fn uses(&self) -> Option<u32> {
        None
    }
    fn clone_calls() -> Option<u64> {
        None
    }
    /// destructor runs so far (element types with an observable Drop)
    fn drops() -> Option<u64> {
        None
    }
}
impl El for u32 {
    fn mk(v: u32) -> u32 {
        v
    }
    fn val(&self) -> u32 {
        *self
    }
}
/// `uses`: how often THIS element was the source of a clone (inline interior mutability: a clone taken from a
/// bitwise duplicate instead of the original leaves it behind); CN_CLONES: all calls of Cn::clone on this thread.
struct Cn(u32, std::cell::Cell<u32>);
thread_local! {
    static CN_CLONES: std::cell::Cell<u64> = std::cell::Cell::new(0);
}
impl Clone for Cn {
    fn clone(&self) -> Cn {
        self.1.set(self.1.get() + 1);
        CN_CLONES.with(|c| c.set(c.get() + 1));
        Cn(self.0 + (1 << 20), std::cell::Cell::new(0))
    }
}
impl std::fmt::Debug for Cn {
    fn fmt(&self, f: &mut std::fmt::Formatter) -> std::fmt::Result {
        write!(f, "{}", self.0)
    }
}
impl El for Cn {
    fn mk(v: u32) -> Cn {
        Cn(v, std::cell::Cell::new(0))
    }
    fn val(&self) -> u32 {
        self.0
    }
    fn uses(&self) -> Option<u32> {
        Some(self.1.get())
    }
    fn clone_calls() -> Option<u64> {
        Some(CN_CLONES.with(|c| c.get()))
    }
}

/// Drop glue: every value made (mk / clone) and every destructor run is counted (run `--elem dr`; values as for u32).
struct Dr(u32);
thread_local! {
    static DR_MADE: std::cell::Cell<u64> = std::cell::Cell::new(0);
    static DR_DROPS: std::cell::Cell<u64> = std::cell::Cell::new(0);
}
impl Clone for Dr {
    fn clone(&self) -> Dr {
        Dr::mk(self.0)
    }
}
impl Drop for Dr {
    fn drop(&mut self) {
        DR_DROPS.with(|c| c.set(c.get() + 1));
    }
}
impl std::fmt::Debug for Dr {
    fn fmt(&self, f: &mut std::fmt::Formatter) -> std::fmt::Result {
        std::fmt::Debug::fmt(&self.0, f)
    }
}
impl El for Dr {
    fn mk(v: u32) -> Dr {
        DR_MADE.with(|c| c.set(c.get() + 1));
        Dr(v)
    }
    fn val(&self) -> u32 {
        self.0
    }
    fn drops() -> Option<u64> {
        Some(DR_DROPS.with(|c| c.get()))
    }
}

/// Zero-sized AND drop-counted (run `--elem dz`; values as for `Zs`): an operation that disposes of elements by
/// address arithmetic alone never runs their destructors.
struct Dz;
impl Clone for Dz {
    fn clone(&self) -> Dz {
        Dz::mk(0)
    }
}
impl Drop for Dz {
    fn drop(&mut self) {
        DR_DROPS.with(|c| c.set(c.get() + 1));
    }
}
impl std::fmt::Debug for Dz {
    fn fmt(&self, f: &mut std::fmt::Formatter) -> std::fmt::Result {
        write!(f, "0")
    }
}
impl El for Dz {
    fn mk(_: u32) -> Dz {
        DR_MADE.with(|c| c.set(c.get() + 1));
        Dz
    }
    fn val(&self) -> u32 {
        0
    }
    fn drops() -> Option<u64> {
        Some(DR_DROPS.with(|c| c.get()))
    }
}

/// `it.clone()` with the direct oracles of an observable Clone: exactly one T::clone per remaining element, each
/// taken from the original's own element (its use count goes up by one), the new elements fresh.
fn clone_checked<E: El, N: ArrayLength>(it: &GenericArrayIter<E, N>) -> GenericArrayIter<E, N> {
    let calls = E::clone_calls();
    let uses: Vec<Option<u32>> = it.as_slice().iter().map(|e| e.uses()).collect();
    let d0 = E::drops();
    let c = it.clone();
    if let (Some(a), Some(b)) = (d0, E::drops()) {
        if a != b {
            PENDING.with(|p| p.borrow_mut().push(format!("clone() of an iterator with {} elements to come ran {} destructors (a clone drops nothing)", it.len(), b - a)));
        }
    }
    if let (Some(a), Some(b)) = (calls, E::clone_calls()) {
        let mut msg = None;
        if b - a != it.len() as u64 {
            msg = Some(format!("clone() of an iterator with {} elements to come ran T::clone {} times", it.len(), b - a));
        } else if it.as_slice().iter().zip(&uses).any(|(e, u)| e.uses() != u.map(|u| u + 1)) {
            msg = Some("clone() did not take every clone from the original's own remaining element (their use counts did not each go up by one)".to_string());
        } else if c.as_slice().iter().any(|e| e.uses() != Some(0)) {
            msg = Some("clone() handed out an element that is not the fresh result of T::clone".to_string());
        }
        if let Some(m) = msg {
            PENDING.with(|p| p.borrow_mut().push(m));
        }
    }
    c
}

/// zero-sized element: every value reads 0 (run `--elem zs`: the case's values and written values are all 0), so
/// what shows is HOW MANY elements each operation visits / returns -- a pointer-range walk sees none of them
#[derive(Clone)]
struct Zs;
impl std::fmt::Debug for Zs {
    fn fmt(&self, f: &mut std::fmt::Formatter) -> std::fmt::Result {
        write!(f, "0")
    }
}
impl El for Zs {
    fn mk(_: u32) -> Zs {
        Zs
    }
    fn val(&self) -> u32 {
        0
    }
}

fn opt<E: El>(out: &mut Vec<i128>, o: Option<E>) {
    match o {
        None => out.push(0),
        Some(x) => {
            out.push(1);
            out.push(x.val() as i128)
        }
    }
}
fn list<E: El>(out: &mut Vec<i128>, l: &[E]) {
    out.push(4);
    out.push(l.len() as i128);
    out.extend(l.iter().map(|x| x.val() as i128));
}

fn run<E: El, N: ArrayLength>(vals: &[i128], ops: &[i128]) -> Vec<i128> {
    let arr: GenericArray<E, N> = GenericArray::from_iter(vals.iter().map(|v| E::mk(*v as u32)));
    let whole: GenericArray<E, N> = arr.clone();
    let mut it: GenericArrayIter<E, N> = arr.into_iter();
    let mut out = vec![];
    let mut i = 0;
    while i < ops.len() {
        let code = ops[i];
        i += 1;
        match code {
            0 => opt(&mut out, it.next()),
            1 => opt(&mut out, it.next_back()),
            2 => {
                let n = ops[i] as usize;
                i += 1;
                opt(&mut out, it.nth(n))
            }
            3 => {
                let n = ops[i] as usize;
                i += 1;
                opt(&mut out, it.nth_back(n))
            }
            4 => {
                out.push(2);
                out.push(it.len() as i128)
            }
            5 => {
                let (lo, hi) = it.size_hint();
                out.push(3);
                out.push(lo as i128);
                out.push(hi.map(|h| h as i128).unwrap_or(-1));
            }
            6 => list(&mut out, it.as_slice()),
            7 => {
                let ix = ops[i] as usize;
                let v = E::mk(ops[i + 1] as u32);
                i += 2;
                let r = catch(|| {
                    it.as_mut_slice()[ix] = v;
                });
                out.push(if r.is_ok() { 5 } else { 6 });
            }
            8 => {
                let c = clone_checked(&it);
                list(&mut out, c.as_slice());
                let (k, d0) = (c.len() as u64, E::drops());
                drop(c);
                if let (Some(a), Some(b)) = (d0, E::drops()) {
                    if b - a != k {
                        PENDING.with(|p| p.borrow_mut().push(format!("dropping a clone with {} elements to come ran {} destructors", k, b - a)));
                    }
                }
            }
            9 => {
                let c = clone_checked(&it);
                it = c;
                out.push(5);
            }
            17 => {
                let mut d: GenericArrayIter<E, N> = whole.clone().into_iter();
                d.clone_from(&it);
                list(&mut out, d.as_slice());
                // the destination is a working queue of its own afterwards
                let k = d.len();
                let mut seen = 0;
                while d.next().is_some() {
                    seen += 1;
                }
                assert_eq!(seen, k, "an iterator filled by clone_from yields len() elements");
            }
            10 => {
                let mut seen = vec![];
                let n = clone_checked(&it).fold(0usize, |acc, x| {
                    seen.push(x);
                    acc + 1
                });
                assert_eq!(n, seen.len());
                list(&mut out, &seen);
            }
            11 => {
                let mut seen = vec![];
                clone_checked(&it).rfold((), |_, x| seen.push(x));
                list(&mut out, &seen);
            }
            12 => {
                out.push(2);
                out.push(clone_checked(&it).count() as i128)
            }
            13 => opt(&mut out, clone_checked(&it).last()),
            15 | 16 => {
                // consumes the iterator: whatever follows in the case is not run
                let mut seen = vec![];
                if code == 15 {
                    let n = it.fold(0usize, |acc, x| {
                        seen.push(x);
                        acc + 1
                    });
                    assert_eq!(n, seen.len());
                } else {
                    it.rfold((), |_, x| seen.push(x));
                }
                list(&mut out, &seen);
                return out;
            }
            14 => {
                // Debug must show exactly the remaining elements
                let s = format!("{:?}", it);
                let prefix = "GenericArrayIter([";
                if s.starts_with(prefix) && s.ends_with("])") {
                    let inner = &s[prefix.len()..s.len() - 2];
                    let nums: Vec<u32> = inner
                        .split(',')
                        .map(|t| t.trim())
                        .filter(|t| !t.is_empty())
                        .map(|t| t.parse::<u32>().unwrap_or(u32::MAX))
                        .collect();
                    let nums: Vec<E> = nums.into_iter().map(E::mk).collect();
                    list(&mut out, &nums);
                } else {
                    out.push(-1);
                }
                // ... under every formatter the caller may pick: the same text as a one-field tuple struct holding
                // the remaining slice ([T; N]::into_iter() prints exactly that, under its own name)
                struct Want<'a, E>(&'a [E]);
                impl<'a, E: std::fmt::Debug> std::fmt::Debug for Want<'a, E> {
                    fn fmt(&self, f: &mut std::fmt::Formatter<'_>) -> std::fmt::Result {
                        f.debug_tuple("GenericArrayIter").field(&self.0).finish()
                    }
                }
                let w = Want(it.as_slice());
                let pairs = [
                    ("{:#?}", format!("{:#?}", it), format!("{:#?}", w)),
                    ("{:x?}", format!("{:x?}", it), format!("{:x?}", w)),
                    ("{:X?}", format!("{:X?}", it), format!("{:X?}", w)),
                    ("{:5?}", format!("{:5?}", it), format!("{:5?}", w)),
                    ("{:+?}", format!("{:+?}", it), format!("{:+?}", w)),
                    ("{:#06x?}", format!("{:#06x?}", it), format!("{:#06x?}", w)),
                ];
                for (spec, got, want) in pairs {
                    if got != want {
                        PENDING.with(|p| {
                            p.borrow_mut().push(format!(
                                "Debug with {} shows {:?} where the remaining elements print as {:?}",
                                spec, got, want
                            ))
                        });
                        break;
                    }
                }
            }
            _ => panic!("bad op code {}", code),
        }
    }
    out
}

fn run_case(case: &[i128]) -> Vec<i128> {
    let n = case[0] as usize;
    let vals = &case[1..1 + n];
    let ops = &case[1 + n..];
    let cn = std::env::args().any(|a| a == "cn");
    let zs = std::env::args().any(|a| a == "zs");
    let dr = std::env::args().any(|a| a == "dr");
    let dz = std::env::args().any(|a| a == "dz");
    let (m0, d0) = (DR_MADE.with(|c| c.get()), DR_DROPS.with(|c| c.get()));
    let out = dispatch_len!(
        n,
        [U0, U1, U2, U3, U4, U5, U6, U7, U8, U16, U97, U1024],
        |N| if cn {
            run::<Cn, N>(vals, ops)
        } else if zs {
            run::<Zs, N>(vals, ops)
        } else if dr {
            run::<Dr, N>(vals, ops)
        } else if dz {
            run::<Dz, N>(vals, ops)
        } else {
            run::<u32, N>(vals, ops)
        },
        panic!("length {} not monomorphised", n)
    );
    // every value of the history is gone by now: as many destructor runs as values made
    let (made, dropped) = (DR_MADE.with(|c| c.get()) - m0, DR_DROPS.with(|c| c.get()) - d0);
    if made != dropped {
        PENDING.with(|p| p.borrow_mut().push(format!("over the whole history {} element values were made and {} destructors ran", made, dropped)));
    }
    out
}

thread_local! {
    /// direct-oracle messages of the case being run (printed after its OBS line)
    static PENDING: std::cell::RefCell<Vec<String>> = std::cell::RefCell::new(vec![]);
}

fn do_case(case: Vec<i128>) {
    let mut case = case;
    if std::env::args().any(|a| a == "zs" || a == "dz") && !case.is_empty() && case[0] >= 0 {
        // zero-sized elements: all values, and all written values, are 0
        let n = case[0] as usize;
        for v in &mut case[1..1 + n] {
            *v = 0;
        }
        let mut i = 1 + n;
        while i < case.len() {
            let l = op_len(case[i]);
            if case[i] == 7 && i + 2 < case.len() {
                case[i + 2] = 0;
            }
            i += l;
        }
    }
    emit_case(&case);
    match catch(|| run_case(&case)) {
        Ok(obs) => {
            emit_obs(&obs);
            for m in PENDING.with(|p| std::mem::take(&mut *p.borrow_mut())) {
                emit_oracle(&m);
            }
        }
        Err(m) => {
            emit_obs(&[-99]);
            PENDING.with(|p| p.borrow_mut().clear());
            emit_oracle(&format!("unexpected panic: {}", m));
        }
    }
}

fn op_len(code: i128) -> usize {
    match code {
        2 | 3 => 2,
        7 => 3,
        _ => 1,
    }
}

/// Zero-sized elements cost no memory, so the length can exceed u32::MAX: an iterator whose bookkeeping
/// is narrower than usize shows here and nowhere else.  Compared against a length-only queue (every item
/// is `()`): remaining count after each operation and what the operation returned (Some / None).
#[cfg(target_pointer_width = "64")]
fn huge<N: ArrayLength>(tag: i128, script: &[(i128, u64)]) {
    let mut case = vec![-1, tag];
    for (c, k) in script {
        case.push(*c);
        case.push(*k as i128);
    }
    emit_case(&case);
    let arr: GenericArray<(), N> = unsafe { GenericArray::assume_init(GenericArray::<(), N>::uninit()) };
    let mut it = arr.into_iter();
    let mut remaining: u128 = N::U64 as u128;
    let mut obs: Vec<i128> = vec![];
    let mut oracle: Vec<String> = vec![];
    for (step, (code, k)) in script.iter().enumerate() {
        let k128 = *k as u128;
        let (got, want): (bool, bool) = match code {
            0 => (it.next().is_some(), remaining > 0),
            1 => (it.next_back().is_some(), remaining > 0),
            2 => (it.nth(*k as usize).is_some(), k128 < remaining),
            _ => (it.nth_back(*k as usize).is_some(), k128 < remaining),
        };
        remaining = match code {
            0 | 1 => remaining.saturating_sub(1),
            _ => {
                if k128 < remaining {
                    remaining - k128 - 1
                } else {
                    0
                }
            }
        };
        obs.push(got as i128);
        obs.push(it.len() as i128);
        if got != want {
            oracle.push(format!("huge zero-sized array (N = {}): step {} op {} {} returned {} where the queue says {}", N::U64, step, code, k, got, want));
        }
        if it.len() as u128 != remaining || it.size_hint() != (remaining as usize, Some(remaining as usize)) {
            oracle.push(format!("huge zero-sized array (N = {}): after step {} len() = {} and size_hint = {:?} where the queue holds {}", N::U64, step, it.len(), it.size_hint(), remaining));
        }
    }
    let left = it.count() as u128;
    obs.push(left as i128);
    if left != remaining {
        oracle.push(format!("huge zero-sized array (N = {}): count() = {} where the queue holds {}", N::U64, left, remaining));
    }
    emit_obs(&obs);
    for o in oracle {
        emit_oracle(&o);
    }
}

#[cfg(target_pointer_width = "64")]
fn huge_all() {
    type H0 = U4294967296; // 2^32
    type H5 = Sum<U4294967296, U5>; // 2^32 + 5
    type H31 = U2147483648; // 2^31
    let scripts: Vec<Vec<(i128, u64)>> = vec![
        vec![(0, 0), (1, 0), (2, 0), (3, 0)],
        vec![(2, 5), (3, 5), (0, 0)],
        vec![(2, 4294967295), (0, 0), (1, 0)],
        vec![(3, 4294967296), (0, 0), (0, 0), (0, 0), (0, 0), (0, 0)],
        vec![(2, 4294967300), (0, 0)],
        vec![(2, u64::MAX), (0, 0)],
        vec![(0, 0), (3, 2147483647), (2, 2147483647), (1, 0)],
    ];
    for (i, sc) in scripts.iter().enumerate() {
        dist("huge_zst");
        huge::<H0>(4294967296 + i as i128 * 0, sc);
        huge::<H5>(4294967301, sc);
        huge::<H31>(2147483648, sc);
        let _ = i;
    }
}
#[cfg(not(target_pointer_width = "64"))]
fn huge_all() {
    emit_note("huge zero-sized arrays are only built on 64-bit targets");
}

fn main() {
    let a = args();
    quiet_panics();
    if a.extra.iter().any(|x| x == "--huge") {
        huge_all();
        flush_dist();
        return;
    }
    if let Some(c) = a.replay {
        do_case(c);
        return;
    }
    let max_n = if a.tier == "thorough" { 8 } else { 5 };
    let trailer: [i128; 6] = [6, 4, 5, 0, 1, 6];
    // exhaustive: every reachable (front, back), every operation, every argument
    for n in 0..=max_n {
        let vals: Vec<i128> = (0..n).map(|i| 100 + i as i128).collect();
        for f in 0..=n {
            for b in 0..=(n - f) {
                for via_clone in [false, true] {
                    let len = n - f - b;
                    let mut ops_list: Vec<Vec<i128>> = vec![];
                    for code in [0, 1, 4, 5, 6, 8, 9, 10, 11, 12, 13, 14, 17] {
                        ops_list.push(vec![code]);
                    }
                    for arg in 0..=(len + 2) {
                        ops_list.push(vec![2, arg as i128]);
                        ops_list.push(vec![3, arg as i128]);
                    }
                    ops_list.push(vec![2, u64::MAX as i128]);
                    ops_list.push(vec![3, u64::MAX as i128]);
                    for ix in 0..=(len + 1) {
                        ops_list.push(vec![7, ix as i128, 7000 + ix as i128]);
                    }
                    if !std::env::args().any(|a| a == "cn") {
                        // fold / rfold of the iterator itself, from this (front, back) position
                        for code in [15i128, 16] {
                            let mut case = vec![n as i128];
                            case.extend(&vals);
                            for _ in 0..f {
                                case.push(0);
                            }
                            for _ in 0..b {
                                case.push(1);
                            }
                            if via_clone {
                                case.push(9);
                            }
                            case.push(code);
                            dist(&format!("op{}", code));
                            do_case(case);
                        }
                    }
                    for op in ops_list {
                        let mut case = vec![n as i128];
                        case.extend(&vals);
                        for _ in 0..f {
                            case.push(0);
                        }
                        for _ in 0..b {
                            case.push(1);
                        }
                        if via_clone {
                            case.push(9);
                        }
                        dist(&format!("op{}", op[0]));
                        dist(&format!("len{}", len));
                        case.extend(&op);
                        case.extend(&trailer);
                        do_case(case);
                    }
                }
            }
        }
    }
    // Debug of an iterator with many elements still to come (97: every one of them must be shown)
    for (f, b) in [(0usize, 0usize), (3, 0), (0, 5), (30, 30), (60, 36)] {
        let n = 97usize;
        let mut case = vec![n as i128];
        case.extend((0..n).map(|i| 100 + i as i128));
        for _ in 0..f {
            case.push(0);
        }
        for _ in 0..b {
            case.push(1);
        }
        case.push(14);
        dist("op14_long");
        do_case(case);
    }
    // seeded long histories
    let mut rng = Rng::new(a.seed);
    let (nseq, steps) = if a.tier == "thorough" { (3000, 60) } else { (300, 40) };
    let lens = [0usize, 1, 2, 3, 5, 8, 16, 97, 1024];
    for s in 0..nseq {
        let n = lens[(s % lens.len()) as usize];
        let mut case = vec![n as i128];
        for i in 0..n {
            case.push(1 + i as i128 * 3 + rng.below(3) as i128);
        }
        for _ in 0..steps {
            let r = rng.below(100);
            let code: i128 = match r {
                0..=17 => 0,
                18..=35 => 1,
                36..=47 => 2,
                48..=59 => 3,
                60..=63 => 4,
                64..=66 => 5,
                67..=72 => 6,
                73..=79 => 7,
                80..=82 => 8,
                83..=86 => 9,
                87..=89 => 10,
                90..=92 => 11,
                93..=94 => 12,
                95..=96 => 13,
                97 => 17,
                _ => 14,
            };
            case.push(code);
            dist(&format!("op{}", code));
            match code {
                2 | 3 => {
                    // mostly small skips, sometimes around the remaining length, rarely huge
                    let k = match rng.below(10) {
                        0 => u64::MAX as i128,
                        1 => n as i128,
                        2 => (n as i128) / 2,
                        _ => rng.below(4) as i128,
                    };
                    case.push(k);
                }
                7 => {
                    case.push(rng.below(n as u64 + 2) as i128);
                    case.push(900000 + rng.below(1000) as i128);
                }
                _ => {}
            }
        }
        // sized N=1024 slices are printed in full only at the end
        if n <= 97 {
            case.push(6);
        }
        case.push(4);
        dist(&format!("N{}", n));
        let _ = op_len(0);
        do_case(case);
    }
    flush_dist();
}

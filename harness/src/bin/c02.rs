//! C02: borrowed views alias the array's storage; reinterpretation needs exact length;
//! by-value conversions keep positions.  Encodings: see coq/theories/CorrC02.v.
//!
//! case = kind, ety, sz, N, rest...   (ety 0 u32, 1 Tr, 2 Tz, 3 (), 4 Tri: 12 bytes with alignment 4, so that
//! an array of them rarely starts at a multiple of its element SIZE; sz = size_of::<T>())
//! kind 0 views [o] | 1 write-through [o, A, B, i, v] | 2 reinterpretation [o, L, form, wi, wv]
//! | 3 by value [dir, base]
use generic_array::sequence::GenericSequence;
use generic_array::typenum::*;
use generic_array::{ArrayLength, GenericArray, IntoArrayLength};
use harness::track::{self, Ev, Tr, Tz};
use harness::*;
use std::borrow::{Borrow, BorrowMut};
use std::mem::size_of;
use std::ops::{Deref, DerefMut};

trait Elem: Sized + 'static {
    fn mk(id: i64) -> Self;
    fn id(&self) -> i64;
    fn set(&mut self, id: i64);
}
impl Elem for u32 {
    fn mk(id: i64) -> u32 {
        id as u32
    }
    fn id(&self) -> i64 {
        *self as i64
    }
    fn set(&mut self, id: i64) {
        *self = id as u32
    }
}
impl Elem for Tr {
    fn mk(id: i64) -> Tr {
        Tr::new(id)
    }
    fn id(&self) -> i64 {
        self.id
    }
    fn set(&mut self, id: i64) {
        self.id = id
    }
}
impl Elem for Tz {
    fn mk(_: i64) -> Tz {
        Tz::new()
    }
    fn id(&self) -> i64 {
        0
    }
    fn set(&mut self, _: i64) {}
}
/// a composite element whose size (12) is larger than its alignment (4)
#[derive(Clone, Copy)]
struct Tri {
    a: u32,
    b: u32,
    c: u32,
}
impl Elem for Tri {
    fn mk(id: i64) -> Tri {
        Tri { a: id as u32, b: !(id as u32), c: 0xC0FFEE }
    }
    fn id(&self) -> i64 {
        if self.b != !self.a || self.c != 0xC0FFEE {
            return -1;
        }
        self.a as i64
    }
    fn set(&mut self, id: i64) {
        *self = Tri::mk(id)
    }
}
impl Elem for () {
    fn mk(_: i64) {}
    fn id(&self) -> i64 {
        0
    }
    fn set(&mut self, _: i64) {}
}

/// creation / clone / drop events since `start` (a by-value conversion must cause none)
fn events_since(start: usize) -> usize {
    track::log_from(start)
        .iter()
        .filter(|e| matches!(e, Ev::Drop(_) | Ev::Clone(_, _) | Ev::ZDrop | Ev::ZNew | Ev::New(_)))
        .count()
}

type Res = (Vec<i128>, Vec<String>);

fn of_slice<T: Elem>(s: &[T], base: isize) -> (i128, usize, Vec<i64>) {
    ((s.as_ptr() as isize - base) as i128, s.len(), s.iter().map(|e| e.id()).collect())
}

/// View number `k` (order of Views.all_views) of `arr`: byte offset relative to the array,
/// length, ids read through it.
fn read_view<T: Elem, N: ArrayLength, const K: usize>(
    k: usize,
    arr: &mut GenericArray<T, N>,
    oracle: &mut Vec<String>,
) -> (i128, usize, Vec<i64>)
where
    Const<K>: IntoArrayLength<ArrayLength = N>,
{
    let base = arr as *const GenericArray<T, N> as isize;
    let sz = size_of::<T>() as isize;
    match k {
        0 => of_slice(arr.as_slice(), base),
        1 => of_slice(arr.as_mut_slice(), base),
        2 => of_slice(Deref::deref(&*arr), base),
        3 => of_slice(DerefMut::deref_mut(arr), base),
        4 => of_slice(Borrow::<[T]>::borrow(&*arr), base),
        5 => of_slice(BorrowMut::<[T]>::borrow_mut(arr), base),
        6 => of_slice(AsRef::<[T]>::as_ref(&*arr), base),
        7 => of_slice(AsMut::<[T]>::as_mut(arr), base),
        8 => {
            let a: &[T; K] = AsRef::<[T; K]>::as_ref(&*arr);
            of_slice(&a[..], base)
        }
        9 => {
            let a: &mut [T; K] = AsMut::<[T; K]>::as_mut(arr);
            of_slice(&a[..], base)
        }
        10 => {
            let it = (&*arr).into_iter();
            let off = (it.as_slice().as_ptr() as isize - base) as i128;
            let len = it.len();
            let mut ids = vec![];
            for (i, r) in it.enumerate() {
                if r as *const T as isize != base + (i as isize) * sz {
                    oracle.push(format!("by-reference iteration: item {} is not the element at index {}", i, i));
                }
                ids.push(r.id());
            }
            (off, len, ids)
        }
        _ => {
            let it = (&mut *arr).into_iter();
            let off = (it.as_slice().as_ptr() as isize - base) as i128;
            let len = it.len();
            let mut ids = vec![];
            for (i, r) in it.enumerate() {
                if r as *const T as isize != base + (i as isize) * sz {
                    oracle.push(format!("by-mutable-reference iteration: item {} is not the element at index {}", i, i));
                }
                ids.push(r.id());
            }
            (off, len, ids)
        }
    }
}

/// Write `v` at index `i` through mutable view `k`; false when that panicked.
fn write_view<T: Elem, N: ArrayLength, const K: usize>(k: usize, arr: &mut GenericArray<T, N>, i: usize, v: i64) -> bool
where
    Const<K>: IntoArrayLength<ArrayLength = N>,
{
    catch(|| match k {
        1 => arr.as_mut_slice()[i].set(v),
        3 => DerefMut::deref_mut(arr)[i].set(v),
        5 => BorrowMut::<[T]>::borrow_mut(arr)[i].set(v),
        7 => AsMut::<[T]>::as_mut(arr)[i].set(v),
        9 => AsMut::<[T; K]>::as_mut(arr)[i].set(v),
        11 => (&mut *arr).into_iter().nth(i).expect("no such item").set(v),
        _ => panic!("view {} is not mutable", k),
    })
    .is_ok()
}

/// The array between two real fields: also a zero-sized array (N = 0, or a zero-sized T) then has an
/// address inside a live allocation, so a view that does not start at the array (a promoted `&[]`,
/// a dangling pointer) shows as a non-zero offset instead of coinciding with Vec's dangling pointer.
#[repr(C)]
struct Framed<T, N: ArrayLength> {
    head: u64,
    arr: GenericArray<T, N>,
    tail: u64,
}

fn three<T: Elem, N: ArrayLength>() -> Vec<Framed<T, N>> {
    (0..3i64).map(|k| Framed { head: 0xA5A5_0000 + k as u64, arr: GenericArray::generate(|i| T::mk(10000 * k + i as i64)), tail: 0x5A5A_0000 + k as u64 }).collect()
}

/// ids of `count` consecutive `T`s read straight from memory (no crate code involved)
fn raw_ids<T: Elem>(p: *const T, count: usize) -> Vec<i128> {
    (0..count).map(|k| unsafe { (*p.add(k)).id() as i128 }).collect()
}

fn k_views<T: Elem, N: ArrayLength, const K: usize>(case: &[i128]) -> Res
where
    Const<K>: IntoArrayLength<ArrayLength = N>,
{
    let o = case[4] as usize;
    let mut oracle = vec![];
    let mut buf = three::<T, N>();
    let mut out = vec![];
    for k in 0..12 {
        let (off, len, ids) = read_view::<T, N, K>(k, &mut buf[o].arr, &mut oracle);
        out.push(off);
        out.push(len as i128);
        out.extend(ids.iter().map(|x| *x as i128));
    }
    (out, oracle)
}

fn k_write<T: Elem, N: ArrayLength, const K: usize>(case: &[i128]) -> Res
where
    Const<K>: IntoArrayLength<ArrayLength = N>,
{
    let (o, a, b, i, v) = (case[4] as usize, case[5] as usize, case[6] as usize, case[7] as usize, case[8] as i64);
    let mut oracle = vec![];
    let mut buf = three::<T, N>();
    if !write_view::<T, N, K>(a, &mut buf[o].arr, i, v) {
        return (vec![2], oracle);
    }
    let (_, len, ids) = read_view::<T, N, K>(b, &mut buf[o].arr, &mut oracle);
    let mut out = vec![0, len as i128];
    out.extend(ids.iter().map(|x| *x as i128));
    for fr in &buf {
        out.extend(raw_ids(&fr.arr as *const GenericArray<T, N> as *const T, N::USIZE));
        if fr.head >> 16 != 0xA5A5 || fr.tail >> 16 != 0x5A5A {
            oracle.push("a write through a view changed memory outside the array".to_string());
        }
    }
    (out, oracle)
}

enum Outcome<'a, T, N: ArrayLength> {
    Shared(&'a GenericArray<T, N>),
    Mut(&'a mut GenericArray<T, N>),
    LenErr,
    Panic(String),
}

fn panic_code(m: &str) -> i128 {
    if m.contains("slice.len() != N in GenericArray::from_") {
        2
    } else {
        3
    }
}

fn k_reint<T: Elem, N: ArrayLength, const K: usize>(case: &[i128]) -> Res
where
    Const<K>: IntoArrayLength<ArrayLength = N>,
{
    let (o, l, form, wi, wv) = (case[4] as usize, case[5] as usize, case[6], case[7] as usize, case[8] as i64);
    let n = N::USIZE;
    let oracle = vec![];
    let mut out = vec![];
    // the two kinds of source: a slice of a longer buffer, or one of three native arrays
    let mut buf: Vec<T> = if form < 6 { (0..(o + l + n + 4) as i64).map(|k| T::mk(500 + k)).collect() } else { vec![] };
    let mut bufa: Vec<[T; K]> =
        if form < 6 { vec![] } else { (0..3i64).map(|k| core::array::from_fn(|i| T::mk(10000 * k + i as i64))).collect() };
    let src_ptr = if form < 6 { buf[o..].as_ptr() as isize } else { &bufa[o] as *const [T; K] as isize };
    let res: Outcome<T, N> = match form {
        0 => {
            let s = &buf[o..o + l];
            match catch(move || GenericArray::<T, N>::from_slice(s)) {
                Ok(r) => Outcome::Shared(r),
                Err(m) => Outcome::Panic(m),
            }
        }
        1 => {
            let s = &buf[o..o + l];
            match catch(move || GenericArray::<T, N>::try_from_slice(s)) {
                Ok(Ok(r)) => Outcome::Shared(r),
                Ok(Err(_)) => Outcome::LenErr,
                Err(m) => Outcome::Panic(m),
            }
        }
        2 => {
            let s = &mut buf[o..o + l];
            match catch(move || GenericArray::<T, N>::from_mut_slice(s)) {
                Ok(r) => Outcome::Mut(r),
                Err(m) => Outcome::Panic(m),
            }
        }
        3 => {
            let s = &mut buf[o..o + l];
            match catch(move || GenericArray::<T, N>::try_from_mut_slice(s)) {
                Ok(Ok(r)) => Outcome::Mut(r),
                Ok(Err(_)) => Outcome::LenErr,
                Err(m) => Outcome::Panic(m),
            }
        }
        4 => {
            let s = &buf[o..o + l];
            match catch(move || <&GenericArray<T, N>>::try_from(s)) {
                Ok(Ok(r)) => Outcome::Shared(r),
                Ok(Err(_)) => Outcome::LenErr,
                Err(m) => Outcome::Panic(m),
            }
        }
        5 => {
            let s = &mut buf[o..o + l];
            match catch(move || <&mut GenericArray<T, N>>::try_from(s)) {
                Ok(Ok(r)) => Outcome::Mut(r),
                Ok(Err(_)) => Outcome::LenErr,
                Err(m) => Outcome::Panic(m),
            }
        }
        6 => {
            let a: &[T; K] = &bufa[o];
            match catch(move || <&GenericArray<T, N>>::from(a)) {
                Ok(r) => Outcome::Shared(r),
                Err(m) => Outcome::Panic(m),
            }
        }
        _ => {
            let a: &mut [T; K] = &mut bufa[o];
            match catch(move || <&mut GenericArray<T, N>>::from(a)) {
                Ok(r) => Outcome::Mut(r),
                Err(m) => Outcome::Panic(m),
            }
        }
    };
    match res {
        Outcome::LenErr => out.push(1),
        Outcome::Panic(m) => out.push(panic_code(&m)),
        Outcome::Shared(r) => {
            out.push(0);
            out.push((r as *const GenericArray<T, N> as isize - src_ptr) as i128);
            out.push(r.as_slice().len() as i128);
            out.extend(r.as_slice().iter().map(|e| e.id() as i128));
        }
        Outcome::Mut(r) => {
            out.push(0);
            out.push((r as *const GenericArray<T, N> as isize - src_ptr) as i128);
            out.push(r.as_slice().len() as i128);
            out.extend(r.as_slice().iter().map(|e| e.id() as i128));
            if wi < n {
                r.as_mut_slice()[wi].set(wv);
            }
            if form < 6 {
                out.extend(raw_ids(buf.as_ptr(), buf.len()));
            } else {
                out.extend(raw_ids(bufa.as_ptr() as *const T, 3 * K));
            }
        }
    }
    (out, oracle)
}

fn k_value<T: Elem, N: ArrayLength, const K: usize>(case: &[i128]) -> Res
where
    Const<K>: IntoArrayLength<ArrayLength = N>,
{
    let (dir, base) = (case[4], case[5] as i64);
    let oracle = vec![];
    let id_at = |i: usize| base + 3 * i as i64;
    let r = match dir {
        0 | 1 => {
            let native: [T; K] = core::array::from_fn(|i| T::mk(id_at(i)));
            let start = track::log_len();
            catch(move || {
                let ga: GenericArray<T, N> = if dir == 0 { GenericArray::from_array(native) } else { GenericArray::from(native) };
                let ev = events_since(start);
                let ids: Vec<i64> = raw_ids(&ga as *const GenericArray<T, N> as *const T, N::USIZE).iter().map(|x| *x as i64).collect();
                (ids, N::USIZE, ev)
            })
        }
        _ => {
            let ga: GenericArray<T, N> = GenericArray::generate(|i| T::mk(id_at(i)));
            let start = track::log_len();
            catch(move || {
                let native: [T; K] = if dir == 2 { ga.into_array::<K>() } else { ga.into() };
                let ev = events_since(start);
                let ids: Vec<i64> = native.iter().map(|e| e.id()).collect();
                (ids, native.len(), ev)
            })
        }
    };
    let out = match r {
        Ok((ids, len, ev)) => {
            let mut out = vec![0, len as i128];
            out.extend(ids.iter().map(|x| *x as i128));
            out.push(ev as i128);
            out
        }
        Err(m) => vec![if m.contains("Size mismatch") { 2 } else { 3 }],
    };
    (out, oracle)
}

macro_rules! ty_of {
    ($i:tt, $t:ty) => {
        $t
    };
}

macro_rules! tuple_fns {
    ($( $name:ident, $u:ty, [$($i:tt),*] );* $(;)?) => {$(
        fn $name<T: Elem>(to_array: bool, base: i64) -> (Vec<i64>, usize, usize) {
            let id_at = |i: usize| base + 3 * i as i64;
            if to_array {
                let t: ($(ty_of!($i, T),)*) = ($(T::mk(id_at($i)),)*);
                let start = track::log_len();
                let ga: GenericArray<T, $u> = t.into();
                let ev = events_since(start);
                let ids = raw_ids(&ga as *const GenericArray<T, $u> as *const T, <$u as Unsigned>::USIZE).iter().map(|x| *x as i64).collect();
                (ids, <$u as Unsigned>::USIZE, ev)
            } else {
                let ga: GenericArray<T, $u> = GenericArray::generate(|i| T::mk(id_at(i)));
                let start = track::log_len();
                let t: ($(ty_of!($i, T),)*) = ga.into();
                let ev = events_since(start);
                let ids = vec![$(t.$i.id()),*];
                let len = ids.len();
                (ids, len, ev)
            }
        }
    )*};
}

tuple_fns! {
    tuple1, U1, [0];
    tuple2, U2, [0, 1];
    tuple3, U3, [0, 1, 2];
    tuple4, U4, [0, 1, 2, 3];
    tuple5, U5, [0, 1, 2, 3, 4];
    tuple6, U6, [0, 1, 2, 3, 4, 5];
    tuple7, U7, [0, 1, 2, 3, 4, 5, 6];
    tuple8, U8, [0, 1, 2, 3, 4, 5, 6, 7];
    tuple9, U9, [0, 1, 2, 3, 4, 5, 6, 7, 8];
    tuple10, U10, [0, 1, 2, 3, 4, 5, 6, 7, 8, 9];
    tuple11, U11, [0, 1, 2, 3, 4, 5, 6, 7, 8, 9, 10];
    tuple12, U12, [0, 1, 2, 3, 4, 5, 6, 7, 8, 9, 10, 11];
}

fn k_tuple<T: Elem>(case: &[i128]) -> Res {
    let (n, dir, base) = (case[3] as usize, case[4], case[5] as i64);
    let to_array = dir == 4;
    let r = catch(|| match n {
        1 => tuple1::<T>(to_array, base),
        2 => tuple2::<T>(to_array, base),
        3 => tuple3::<T>(to_array, base),
        4 => tuple4::<T>(to_array, base),
        5 => tuple5::<T>(to_array, base),
        6 => tuple6::<T>(to_array, base),
        7 => tuple7::<T>(to_array, base),
        8 => tuple8::<T>(to_array, base),
        9 => tuple9::<T>(to_array, base),
        10 => tuple10::<T>(to_array, base),
        11 => tuple11::<T>(to_array, base),
        12 => tuple12::<T>(to_array, base),
        _ => panic!("no tuple conversion of length {}", n),
    });
    let out = match r {
        Ok((ids, len, ev)) => {
            let mut out = vec![0, len as i128];
            out.extend(ids.iter().map(|x| *x as i128));
            out.push(ev as i128);
            out
        }
        Err(m) => vec![if m.contains("Size mismatch") { 2 } else { 3 }],
    };
    (out, vec![])
}

macro_rules! with_len {
    ($n:expr, $ety:expr, $f:ident, $case:expr) => {
        with_len!(@go $n, $ety, $f, $case, [
            (U0, 0), (U1, 1), (U2, 2), (U3, 3), (U4, 4), (U5, 5), (U6, 6), (U7, 7), (U8, 8), (U9, 9),
            (U10, 10), (U11, 11), (U12, 12), (U16, 16), (U33, 33), (U64, 64), (U255, 255), (U1024, 1024)
        ])
    };
    (@go $n:expr, $ety:expr, $f:ident, $case:expr, [$(($u:ty, $k:literal)),*]) => {{
        let mut r: Option<Res> = None;
        $(
            if $n == $k {
                r = Some(match $ety {
                    0 => $f::<u32, $u, $k>($case),
                    1 => $f::<Tr, $u, $k>($case),
                    2 => $f::<Tz, $u, $k>($case),
                    4 => $f::<Tri, $u, $k>($case),
                    _ => $f::<(), $u, $k>($case),
                });
            }
        )*
        r.unwrap_or_else(|| panic!("length {} not monomorphised", $n))
    }};
}

const NS: [usize; 18] = [0, 1, 2, 3, 4, 5, 6, 7, 8, 9, 10, 11, 12, 16, 33, 64, 255, 1024];

fn size_of_ety(ety: i128) -> i128 {
    (match ety {
        0 => size_of::<u32>(),
        1 => size_of::<Tr>(),
        2 => size_of::<Tz>(),
        4 => size_of::<Tri>(),
        _ => size_of::<()>(),
    }) as i128
}

fn run(case: &[i128]) -> Res {
    let (kind, ety, n) = (case[0], case[1], case[3] as usize);
    track::reset(1_000_000);
    match kind {
        0 => with_len!(n, ety, k_views, case),
        1 => with_len!(n, ety, k_write, case),
        2 => with_len!(n, ety, k_reint, case),
        _ => {
            if case[4] >= 4 {
                match ety {
                    0 => k_tuple::<u32>(case),
                    1 => k_tuple::<Tr>(case),
                    2 => k_tuple::<Tz>(case),
                    4 => k_tuple::<Tri>(case),
                    _ => k_tuple::<()>(case),
                }
            } else {
                with_len!(n, ety, k_value, case)
            }
        }
    }
}

fn do_case(case: Vec<i128>) {
    emit_case(&case);
    match catch(|| run(&case)) {
        Ok((obs, oracle)) => {
            let mut oracle = oracle;
            // every value created during the case has been dropped exactly once by now
            let log = track::take_log();
            let made = log.iter().filter(|e| matches!(e, Ev::New(_) | Ev::Clone(_, _))).count();
            let dropped = log.iter().filter(|e| matches!(e, Ev::Drop(_))).count();
            if made != dropped {
                oracle.push(format!("{} tracked values created but {} dropped", made, dropped));
            }
            if track::zlive() != 0 {
                oracle.push(format!("{} zero-sized tracked values alive after the case (created minus dropped)", track::zlive()));
            }
            if case[2] != size_of_ety(case[1]) {
                oracle.push("case carries the wrong element size".to_string());
            }
            emit_obs(&obs);
            for o in oracle {
                emit_oracle(&o);
            }
        }
        Err(m) => {
            emit_obs(&[-99]);
            emit_oracle(&format!("unexpected panic outside catch: {}", m));
        }
    }
}

/// Slices of zero-sized elements cost no memory, so their length can be anything: a length that agrees
/// with N only modulo 2^32 (or any narrower comparison) must still be refused by every checked
/// reinterpretation.  Direct oracle (case kind 9: [9, N, d, form], L = N + d * 2^32).
#[cfg(target_pointer_width = "64")]
fn huge_one<N: ArrayLength>(d: u64, form: i128) {
    let l: usize = N::USIZE + (d as usize) * (1usize << 32);
    emit_case(&[9, N::USIZE as i128, d as i128, form]);
    let p = std::ptr::NonNull::<()>::dangling().as_ptr();
    let shared: &[()] = unsafe { std::slice::from_raw_parts(p, l) };
    let excl: &mut [()] = unsafe { std::slice::from_raw_parts_mut(p, l) };
    // 0 accepted, 1 LengthError, 2 panic
    let code: i128 = match form {
        0 => match catch(move || GenericArray::<(), N>::from_slice(shared).len()) {
            Ok(_) => 0,
            Err(_) => 2,
        },
        1 => match catch(move || GenericArray::<(), N>::try_from_slice(shared).is_ok()) {
            Ok(true) => 0,
            Ok(false) => 1,
            Err(_) => 2,
        },
        2 => match catch(move || GenericArray::<(), N>::from_mut_slice(excl).len()) {
            Ok(_) => 0,
            Err(_) => 2,
        },
        3 => match catch(move || GenericArray::<(), N>::try_from_mut_slice(excl).is_ok()) {
            Ok(true) => 0,
            Ok(false) => 1,
            Err(_) => 2,
        },
        4 => match catch(move || <&GenericArray<(), N>>::try_from(shared).is_ok()) {
            Ok(true) => 0,
            Ok(false) => 1,
            Err(_) => 2,
        },
        _ => match catch(move || <&mut GenericArray<(), N>>::try_from(excl).is_ok()) {
            Ok(true) => 0,
            Ok(false) => 1,
            Err(_) => 2,
        },
    };
    emit_obs(&[code]);
    let want = if form == 0 || form == 2 { 2 } else { 1 };
    if code != want {
        emit_oracle(&format!(
            "a slice of {} zero-sized elements was {} as a GenericArray of length {} (form {})",
            l,
            if code == 0 { "accepted" } else { "answered with the wrong kind of refusal" },
            N::USIZE,
            form
        ));
    }
}

/// Arrays of zero-sized elements can be longer than isize::MAX elements: every borrowed view must still have
/// exactly N elements (case kind 8: [8, log2 N, view]).
#[cfg(target_pointer_width = "64")]
fn huge_views<N: ArrayLength>(log2: i128) {
    let mut arr: GenericArray<(), N> = unsafe { GenericArray::assume_init(GenericArray::<(), N>::uninit()) };
    let base = &arr as *const GenericArray<(), N> as usize;
    for view in 0..8i128 {
        emit_case(&[8, log2, view]);
        let (len, addr): (usize, usize) = match view {
            0 => (arr.as_slice().len(), arr.as_slice().as_ptr() as usize),
            1 => (arr.as_mut_slice().len(), arr.as_mut_slice().as_ptr() as usize),
            2 => (Deref::deref(&arr).len(), Deref::deref(&arr).as_ptr() as usize),
            3 => (DerefMut::deref_mut(&mut arr).len(), DerefMut::deref_mut(&mut arr).as_ptr() as usize),
            4 => (Borrow::<[()]>::borrow(&arr).len(), Borrow::<[()]>::borrow(&arr).as_ptr() as usize),
            5 => (AsRef::<[()]>::as_ref(&arr).len(), AsRef::<[()]>::as_ref(&arr).as_ptr() as usize),
            6 => ((&arr).into_iter().len(), (&arr).into_iter().as_slice().as_ptr() as usize),
            _ => (GenericArray::<(), N>::from_slice(arr.as_slice()).as_slice().len(), base),
        };
        emit_obs(&[(len == N::USIZE) as i128, (addr == base) as i128]);
        if len != N::USIZE || addr != base {
            emit_oracle(&format!("array of 2^{} zero-sized elements: view {} has {} elements at offset {}", log2, view, len, addr.wrapping_sub(base)));
        }
    }
}

#[cfg(target_pointer_width = "64")]
fn huge_all() {
    dist("huge_zst_views");
    huge_views::<U4294967296>(32);
    huge_views::<U9223372036854775808>(63);
    for d in [1u64, 2, 3] {
        for form in 0..6i128 {
            dist("huge_zst_slice");
            huge_one::<U0>(d, form);
            huge_one::<U3>(d, form);
            huge_one::<U16>(d, form);
        }
    }
}
#[cfg(not(target_pointer_width = "64"))]
fn huge_all() {}

fn main() {
    let a = args();
    quiet_panics();
    if a.extra.iter().any(|x| x == "--huge") {
        huge_all();
        flush_dist();
        return;
    }
    if let Some(c) = a.replay {
        do_case(c);
        return;
    }
    let thorough = a.tier == "thorough";
    let mut rng = Rng::new(a.seed);

    // kind 0: every view of every length and element type, at every position of the enclosing buffer
    for &n in &NS {
        for ety in 0..5i128 {
            for o in 0..3i128 {
                if n >= 255 && !thorough && o != 1 {
                    continue;
                }
                dist("views");
                do_case(vec![0, ety, size_of_ety(ety), n as i128, o]);
            }
        }
    }

    // kind 1: write through mutable view A at index i, read through view B
    let mut_views = [1i128, 3, 5, 7, 9, 11];
    for &n in &NS {
        if n == 0 {
            continue;
        }
        for ety in [0i128, 1, 4] {
            if ety == 4 && n > 16 {
                continue;
            }
            let mut idx = vec![0, n / 2, n - 1];
            idx.dedup();
            for &a_ in &mut_views {
                for b in 0..12i128 {
                    let full = thorough || n <= 16;
                    // larger lengths in the quick tier: every pair once with one random index,
                    // the largest two only a random third of the pairs
                    if !full && n >= 255 && !rng.chance(1, 3) {
                        continue;
                    }
                    let is: Vec<usize> = if full { idx.clone() } else { vec![rng.below(n as u64) as usize] };
                    for i in is {
                        let v = 700_000 + rng.below(1000) as i128;
                        let o = rng.below(3) as i128;
                        dist("write-through");
                        do_case(vec![1, ety, size_of_ety(ety), n as i128, o, a_, b, i as i128, v]);
                    }
                }
            }
            // an index just past the end panics and changes nothing
            dist("write-oob");
            do_case(vec![1, ety, size_of_ety(ety), n as i128, 1, 1, 0, n as i128, 5]);
        }
    }

    // kind 2: reinterpretation for every source length L in 0..=N+3
    for &n in &NS {
        for ety in 0..4i128 {
            let ls: Vec<usize> = if thorough || n <= 64 {
                (0..=n + 3).collect()
            } else {
                let mut v = vec![0, 1, n / 2, n - 3, n - 2, n - 1, n, n + 1, n + 2, n + 3];
                v.push(rng.below(n as u64) as usize);
                v
            };
            for form in 0..6i128 {
                for &l in &ls {
                    let o = if rng.chance(1, 2) { 0 } else { 1 + rng.below(3) as i128 };
                    let wi = if n > 0 { rng.below(n as u64) as i128 } else { 0 };
                    let wv = 800_000 + rng.below(1000) as i128;
                    dist(if l < n {
                        "reinterpret.L<N"
                    } else if l == n {
                        "reinterpret.L=N"
                    } else {
                        "reinterpret.L>N"
                    });
                    do_case(vec![2, ety, size_of_ety(ety), n as i128, o, l as i128, form, wi, wv]);
                }
            }
            for form in 6..8i128 {
                for o in 0..3i128 {
                    let wi = if n > 0 { rng.below(n as u64) as i128 } else { 0 };
                    dist("reinterpret.native-array");
                    do_case(vec![2, ety, size_of_ety(ety), n as i128, o, n as i128, form, wi, 810_000 + o]);
                }
            }
        }
    }

    // kind 3: by-value conversions
    for &n in &NS {
        for ety in 0..5i128 {
            for dir in 0..4i128 {
                dist("by-value.array");
                do_case(vec![3, ety, size_of_ety(ety), n as i128, dir, 1 + rng.below(100_000) as i128]);
            }
            if (1..=12).contains(&n) {
                for dir in 4..6i128 {
                    dist("by-value.tuple");
                    do_case(vec![3, ety, size_of_ety(ety), n as i128, dir, 1 + rng.below(100_000) as i128]);
                }
            }
        }
    }
    flush_dist();
}

//! C16: every heap block is requested validly, freed once with its layout, never leaked.
//! Case: [op, kind, N, L, spare, pan, fail, aux] (coq/theories/HeapCase.v).
//! OBS (fail = -1): code, alloc / dealloc / realloc calls of the whole run, zero-size requests,
//!     releases not matching a live block with its layout, live blocks at the end,
//!     4 k requested sizes (sorted)..., 4 d identities dropped during the operation (sorted)...
//! OBS (fail >= 0, the run happens in a child process whose fail-th allocation returns null):
//!     0 finished | 1 abort with the standard allocation-error message | 2 other abnormal end | 3 timeout
use harness::*;
use std::io::Read;
use std::process::{Child, Command, Stdio};
use std::time::{Duration, Instant};

#[path = "../heap_common.rs"]
mod hc;
use hc::*;

#[global_allocator]
static ALLOC: RecAlloc = RecAlloc;

const CHILD_ENV: &str = "GA_C16_CHILD";
const CHILD_TIMEOUT: Duration = Duration::from_secs(8);

fn do_case(c: &Case) {
    emit_case(&c.ints());
    let (out, log, overflow) = run_dyn(c);
    let s = analyze(&log);
    let mut obs: Vec<i128> = vec![out.code, s.na, s.nd, s.nr, s.zero, s.mis, s.live_end, 4, s.sizes.len() as i128];
    obs.extend(&s.sizes);
    obs.push(4);
    obs.push(out.drops.len() as i128);
    obs.extend(out.drops.iter().map(|x| *x as i128));
    emit_obs(&obs);
    if overflow {
        emit_oracle("harness log overflow");
    }
    if s.zero != 0 {
        emit_oracle(&format!("{} zero-size request(s) reached the global allocator", s.zero));
    }
    if s.mis != 0 {
        emit_oracle(&format!("{} block(s) released with a layout other than the one requested", s.mis));
    }
    if s.live_end != 0 {
        emit_oracle(&format!("{} block(s) still allocated after all values are gone (outcome code {})", s.live_end, out.code));
    }
}

fn spawn_child(c: &Case) -> Child {
    let line: Vec<String> = c.ints().iter().map(|x| x.to_string()).collect();
    Command::new(std::env::current_exe().unwrap())
        .env(CHILD_ENV, line.join(" "))
        .stdin(Stdio::null())
        .stdout(Stdio::null())
        .stderr(Stdio::piped())
        .spawn()
        .expect("spawn child")
}

fn classify(mut ch: Child) -> (i128, String) {
    let t0 = Instant::now();
    loop {
        match ch.try_wait() {
            Ok(Some(st)) => {
                let mut err = String::new();
                if let Some(mut e) = ch.stderr.take() {
                    let _ = e.read_to_string(&mut err);
                }
                let cls = if st.success() {
                    0
                } else if err.contains("memory allocation of") {
                    1
                } else {
                    2
                };
                return (cls, format!("status {:?}; stderr: {}", st, err.chars().take(200).collect::<String>()));
            }
            Ok(None) => {
                if t0.elapsed() > CHILD_TIMEOUT {
                    let _ = ch.kill();
                    let _ = ch.wait();
                    return (3, "timeout".to_string());
                }
                std::thread::sleep(Duration::from_millis(2));
            }
            Err(e) => return (2, format!("wait failed: {}", e)),
        }
    }
}

fn do_fail_batch(batch: &[Case]) {
    let children: Vec<Child> = batch.iter().map(spawn_child).collect();
    for (c, ch) in batch.iter().zip(children) {
        emit_case(&c.ints());
        let (cls, detail) = classify(ch);
        emit_obs(&[cls]);
        if cls >= 2 {
            emit_oracle(&format!(
                "allocation {} of the run returned null and the process did not end through the standard allocation-error path: {}",
                c.fail, detail
            ));
        }
    }
}

fn child_main(line: &str) -> ! {
    let ints: Vec<i128> = line.split_whitespace().map(|t| t.parse().unwrap()).collect();
    let c = Case::from_ints(&ints);
    let _ = run_dyn(&c);
    std::process::exit(0)
}

fn main() {
    install_hook();
    if let Ok(line) = std::env::var(CHILD_ENV) {
        child_main(&line);
    }
    let a = args();
    if let Some(c) = a.replay {
        let c = Case::from_ints(&c);
        if c.fail >= 0 {
            do_fail_batch(&[c]);
        } else {
            do_case(&c);
        }
        return;
    }
    let thorough = a.tier == "thorough";
    let ns: Vec<usize> = LATTICE.to_vec();
    let mut fail_cases: Vec<Case> = vec![];
    let fail_ns: Vec<usize> = if thorough { vec![0, 1, 2, 3, 8, 33, 1024] } else { vec![0, 1, 3, 1024] };
    enumerate(&ns, 40, if thorough { 48 } else { 1 }, |c| {
        dist(&format!("op{}", c.op));
        dist(if c.pan >= 0 { "panic" } else { "nopanic" });
        do_case(&c);
        // an allocation failure at every allocation index the run can have (at most 3 allocation calls per run)
        if c.pan == -1 && fail_ns.contains(&c.n) && (c.spare == 0 || c.spare == 5) && (thorough || c.aux == 0 || c.op == 11) {
            for k in 0..4isize {
                fail_cases.push(Case { fail: k, ..c.clone() });
            }
        }
    });
    enumerate_big(|c| {
        dist("big");
        do_case(&c);
    });
    let mut rng = Rng::new(a.seed);
    let count = if thorough { 4000 } else { 400 };
    for _ in 0..count {
        let n = LATTICE[rng.below(LATTICE.len() as u64) as usize];
        let kind = rng.below(3) as i128;
        let op = rng.below(19) as i128;
        if op == 13 && !LIST_LENGTHS.contains(&n) {
            continue;
        }
        let l = match rng.below(4) {
            0 => n,
            1 => rng.below(2 * n as u64 + 3) as usize,
            2 => n + 1 + rng.below(3) as usize,
            _ => n.saturating_sub(1 + rng.below(3) as usize),
        };
        let l = if matches!(op, 0 | 3 | 4 | 7 | 8 | 12) { l } else { n };
        let spare = if (op == 0 || op == 4) && rng.chance(1, 2) { 1 + rng.below(40) as usize } else { 0 };
        let calls = calls_of(op, n, l);
        let pan = if calls > 0 && rng.chance(2, 3) { rng.below(calls as u64) as i64 } else { -1 };
        let aux = if op == 11 { rng.below(n as u64 + 1) as i128 } else if op == 7 || op == 12 { rng.below(2) as i128 } else { 0 };
        dist("seeded");
        do_case(&Case { op, kind, n, l, spare, pan, fail: -1, aux });
    }
    for batch in fail_cases.chunks(12) {
        dist("alloc-failure-batch");
        do_fail_batch(batch);
    }
    flush_dist();
}

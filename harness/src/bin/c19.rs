//! C19: zeroize() and the constant default reach every one of the N elements.
//!
//! Case: [op, ty, nd, b_0..b_{nd-1}, prior contents...]
//!   b_i  digits of the length TYPE read off the type itself (trait `Digits`),
//!        outermost (least significant) first, 1 = B1; non-normalised lengths
//!        (leading B0 digits) are part of the list of lengths
//!   op 0 zeroize() of an array holding the prior contents (N element codes)
//!   op 1 GenericArray::<T, N>::const_default() at run time
//!   op 2 <GenericArray<T, N> as ConstDefault>::DEFAULT evaluated in a `const { }` block
//!   op 3 Default::default()
//!   op 4 a `const` ITEM initialised with const_default() (fixed set of (T, N));
//!        the item is additionally compared element-wise at COMPILE time (const bool)
//!   ty   0 u8, 1 u64, 2 [u8; 3], 3 GenericArray<u8, U3>, 4 Fd, 5 Keep, 6 W, 7 GenericArray<W, U3>,
//!        8 KeepBig (Keep plus 20 bytes of key material: wider than a machine word, no drop glue),
//!        9 Inv (one byte whose zeroized value is 0xFF, not the all-zero byte pattern),
//!        10 Page (a 5000-byte element: larger than a memory page),
//!        11 Cnt (one byte that counts its wipes: zeroize is x -> x + 1, so reaching an element twice shows)
//! Observables: [N, element codes...] (N = Unsigned::USIZE of the type).
//! Direct oracles: every element after zeroize() equals the zeroized clone of the
//! element before; const default == T::DEFAULT == Default::default() element-wise.
use const_default::ConstDefault;
use generic_array::typenum::*;
use generic_array::{ArrayLength, GenericArray};
use harness::*;
use zeroize::Zeroize;

// ---------------------------------------------------------------- lengths

/// The binary digits of a type-level length, outermost first, read off the type.
trait Digits {
    fn digits(out: &mut Vec<i128>);
}
impl Digits for UTerm {
    fn digits(_: &mut Vec<i128>) {}
}
impl<U: Digits> Digits for UInt<U, B0> {
    fn digits(out: &mut Vec<i128>) {
        out.push(0);
        U::digits(out)
    }
}
impl<U: Digits> Digits for UInt<U, B1> {
    fn digits(out: &mut Vec<i128>) {
        out.push(1);
        U::digits(out)
    }
}

// non-normalised lengths: leading (innermost) zero digits
type Z1 = UInt<UTerm, B0>; // 0
type Z2 = UInt<UInt<UTerm, B0>, B0>; // 0
type L1 = UInt<UInt<UTerm, B0>, B1>; // 1
type L2 = UInt<UInt<UInt<UInt<UTerm, B0>, B0>, B1>, B0>; // 2
type L3 = UInt<UInt<UInt<UTerm, B0>, B1>, B1>; // 3
type L10 = UInt<UInt<UInt<UInt<UInt<UTerm, B0>, B1>, B0>, B1>, B0>; // 10
type U1025 = Sum<U1024, U1>;

macro_rules! with_lengths {
    ($cb:ident ! ( $($pre:tt)* )) => {
        $cb!($($pre)* [
            U0, U1, U2, U3, U4, U5, U6, U7, U8, U9, U10, U11, U12, U13, U14, U15, U16,
            U17, U18, U19, U20, U21, U22, U23, U24, U25, U26, U27, U28, U29, U30, U31, U32,
            U33, U34, U35, U36, U37, U38, U39, U40, U41, U42, U43, U44, U45, U46, U47, U48,
            U49, U50, U51, U52, U53, U54, U55, U56, U57, U58, U59, U60, U61, U62, U63, U64,
            U97, U127, U128, U255, U256, U1023, U1024, U1025,
            Z1, Z2, L1, L2, L3, L10
        ])
    };
}

fn digits_of<N: Digits>() -> Vec<i128> {
    let mut d = vec![];
    N::digits(&mut d);
    d
}

macro_rules! all_digits_body {
    ([$($u:ty),* $(,)?]) => { vec![ $( digits_of::<$u>() ),* ] };
}
fn all_digits() -> Vec<Vec<i128>> {
    with_lengths!(all_digits_body!())
}

// ---------------------------------------------------------------- element types

/// zero and default distinguishable per field: zeroize -> {0, 0}, DEFAULT = {7, 9}
#[derive(Clone, PartialEq, Debug)]
struct Fd {
    a: u16,
    b: u16,
}
impl Zeroize for Fd {
    fn zeroize(&mut self) {
        self.a.zeroize();
        self.b.zeroize();
    }
}
impl ConstDefault for Fd {
    const DEFAULT: Self = Fd { a: 7, b: 9 };
}
impl Default for Fd {
    fn default() -> Self {
        Fd { a: 7, b: 9 }
    }
}

/// zeroize keeps the public id and wipes the secret: the zeroized value depends on
/// the element, so a permuted, skipped or doubly visited slot is visible
#[derive(Clone, PartialEq, Debug)]
struct Keep {
    id: u16,
    secret: u16,
}
impl Zeroize for Keep {
    fn zeroize(&mut self) {
        self.secret.zeroize();
    }
}
impl ConstDefault for Keep {
    const DEFAULT: Self = Keep { id: 3, secret: 5 };
}
impl Default for Keep {
    fn default() -> Self {
        Keep { id: 3, secret: 5 }
    }
}

/// Keep, but wider than a machine word (24 bytes, plain data): the zeroized value still depends on
/// the element (the id stays), the key material must end up zero in EVERY element
#[derive(Clone, PartialEq, Debug)]
struct KeepBig {
    id: u16,
    secret: u16,
    key: [u8; 20],
}
impl Zeroize for KeepBig {
    fn zeroize(&mut self) {
        self.secret.zeroize();
        self.key.zeroize();
    }
}
impl ConstDefault for KeepBig {
    const DEFAULT: Self = KeepBig { id: 3, secret: 5, key: [0; 20] };
}
impl Default for KeepBig {
    fn default() -> Self {
        KeepBig { id: 3, secret: 5, key: [0; 20] }
    }
}

/// one byte whose ZEROIZED value is 0xFF: an element that happens to be all-zero bytes beforehand is not
/// yet zeroized
#[derive(Clone, PartialEq, Debug)]
struct Inv(u8);
impl Zeroize for Inv {
    fn zeroize(&mut self) {
        self.0 = 0xFF;
    }
}
impl ConstDefault for Inv {
    const DEFAULT: Self = Inv(0);
}
impl Default for Inv {
    fn default() -> Self {
        Inv(0)
    }
}

/// a plain-old-data byte (Copy + Default) whose DEFAULT (50) is not its zeroized value (0): a shortcut that
/// overwrites Copy + Default elements with `T::default()` instead of calling the element's Zeroize shows here --
/// such a shortcut can only be picked for a CONCRETE element type (op 5), not through `T: Zeroize`
#[derive(Clone, Copy, PartialEq, Debug)]
struct Lv(u8);
impl Zeroize for Lv {
    fn zeroize(&mut self) {
        self.0 = 0;
    }
}
impl ConstDefault for Lv {
    const DEFAULT: Self = Lv(50);
}
impl Default for Lv {
    fn default() -> Self {
        Lv(50)
    }
}

/// Keep with machine-word fields (16 bytes, alignment 8, plain data): a word-wise zero fill of "word-aligned plain
/// data" would also wipe the id, which this type's Zeroize keeps
#[derive(Clone, Copy, PartialEq, Debug)]
struct K8 {
    id: u64,
    secret: u64,
}
impl Zeroize for K8 {
    fn zeroize(&mut self) {
        self.secret.zeroize();
    }
}
impl ConstDefault for K8 {
    const DEFAULT: Self = K8 { id: 3, secret: 5 };
}
impl Default for K8 {
    fn default() -> Self {
        K8 { id: 3, secret: 5 }
    }
}

/// `DefaultIsZeroes` with a default that is NOT all-zero bytes: zeroize (the zeroize crate's blanket impl) writes
/// `Default::default()`, a byte-wise wipe of the storage does not
#[derive(Clone, Copy, PartialEq, Debug)]
struct Dz(u8);
impl Default for Dz {
    fn default() -> Self {
        Dz(50)
    }
}
impl zeroize::DefaultIsZeroes for Dz {}
impl ConstDefault for Dz {
    const DEFAULT: Self = Dz(50);
}

/// one byte that COUNTS its wipes: zeroize is not idempotent here (x -> x + 1), so an element that is
/// reached twice differs from one that is reached once
#[derive(Clone, PartialEq, Debug)]
struct Cnt(u8);
impl Zeroize for Cnt {
    fn zeroize(&mut self) {
        self.0 = self.0.wrapping_add(1);
    }
}
impl ConstDefault for Cnt {
    const DEFAULT: Self = Cnt(0);
}
impl Default for Cnt {
    fn default() -> Self {
        Cnt(0)
    }
}

/// an element larger than a memory page (5000 bytes): zeroize wipes all of it
#[derive(Clone, PartialEq, Debug)]
struct Page {
    tag: u8,
    fill: [u8; 4999],
}
impl Zeroize for Page {
    fn zeroize(&mut self) {
        self.tag.zeroize();
        self.fill.zeroize();
    }
}
impl ConstDefault for Page {
    const DEFAULT: Self = Page { tag: 0, fill: [0; 4999] };
}
impl Default for Page {
    fn default() -> Self {
        Page { tag: 0, fill: [0; 4999] }
    }
}

/// one byte with a non-zero constant default
#[derive(Clone, Copy, PartialEq, Debug)]
struct W(u8);
impl Zeroize for W {
    fn zeroize(&mut self) {
        self.0.zeroize();
    }
}
impl ConstDefault for W {
    const DEFAULT: Self = W(0x5A);
}
impl Default for W {
    fn default() -> Self {
        W(0x5A)
    }
}

trait Elem: Zeroize + ConstDefault + Default + Clone + PartialEq + 'static {
    /// number of bits of an element code
    const BITS: u32;
    fn dec(code: i128) -> Self;
    fn enc(&self) -> i128;
}
impl Elem for u8 {
    const BITS: u32 = 8;
    fn dec(c: i128) -> Self {
        c as u8
    }
    fn enc(&self) -> i128 {
        *self as i128
    }
}
impl Elem for u64 {
    const BITS: u32 = 64;
    fn dec(c: i128) -> Self {
        c as u64
    }
    fn enc(&self) -> i128 {
        *self as i128
    }
}
fn pack3(b: [u8; 3]) -> i128 {
    b[0] as i128 + 256 * b[1] as i128 + 65536 * b[2] as i128
}
fn unpack3(c: i128) -> [u8; 3] {
    [c as u8, (c >> 8) as u8, (c >> 16) as u8]
}
impl Elem for [u8; 3] {
    const BITS: u32 = 24;
    fn dec(c: i128) -> Self {
        unpack3(c)
    }
    fn enc(&self) -> i128 {
        pack3(*self)
    }
}
impl Elem for GenericArray<u8, U3> {
    const BITS: u32 = 24;
    fn dec(c: i128) -> Self {
        GenericArray::from_array(unpack3(c))
    }
    fn enc(&self) -> i128 {
        pack3([self[0], self[1], self[2]])
    }
}
impl Elem for Fd {
    const BITS: u32 = 32;
    fn dec(c: i128) -> Self {
        Fd { a: c as u16, b: (c >> 16) as u16 }
    }
    fn enc(&self) -> i128 {
        self.a as i128 + 65536 * self.b as i128
    }
}
impl Elem for Keep {
    const BITS: u32 = 32;
    fn dec(c: i128) -> Self {
        Keep { id: c as u16, secret: (c >> 16) as u16 }
    }
    fn enc(&self) -> i128 {
        self.id as i128 + 65536 * self.secret as i128
    }
}
impl Elem for KeepBig {
    const BITS: u32 = 32;
    fn dec(c: i128) -> Self {
        // prior contents: key material derived from the code, never all zero
        let b = (c as u8) | 1;
        KeepBig { id: c as u16, secret: (c >> 16) as u16, key: [b; 20] }
    }
    fn enc(&self) -> i128 {
        // key material that is not wiped shows as an out-of-range code
        if self.key.iter().any(|k| *k != 0) {
            return (1i128 << 40) + self.id as i128;
        }
        self.id as i128 + 65536 * self.secret as i128
    }
}
impl Elem for Inv {
    const BITS: u32 = 8;
    fn dec(c: i128) -> Self {
        Inv(c as u8)
    }
    fn enc(&self) -> i128 {
        self.0 as i128
    }
}
impl Elem for K8 {
    const BITS: u32 = 32;
    fn dec(c: i128) -> Self {
        K8 { id: c as u16 as u64, secret: (c >> 16) as u16 as u64 }
    }
    fn enc(&self) -> i128 {
        self.id as i128 + 65536 * self.secret as i128
    }
}
impl Elem for Dz {
    const BITS: u32 = 8;
    fn dec(c: i128) -> Self {
        Dz(c as u8)
    }
    fn enc(&self) -> i128 {
        self.0 as i128
    }
}
impl Elem for Lv {
    const BITS: u32 = 8;
    fn dec(c: i128) -> Self {
        Lv(c as u8)
    }
    fn enc(&self) -> i128 {
        self.0 as i128
    }
}
impl Elem for Cnt {
    const BITS: u32 = 8;
    fn dec(c: i128) -> Self {
        Cnt(c as u8)
    }
    fn enc(&self) -> i128 {
        self.0 as i128
    }
}
impl Elem for Page {
    const BITS: u32 = 8;
    fn dec(c: i128) -> Self {
        Page { tag: c as u8, fill: [(c as u8) | 1; 4999] }
    }
    fn enc(&self) -> i128 {
        if self.fill.iter().any(|k| *k != 0) {
            return (1i128 << 40) + self.tag as i128;
        }
        self.tag as i128
    }
}
impl Elem for W {
    const BITS: u32 = 8;
    fn dec(c: i128) -> Self {
        W(c as u8)
    }
    fn enc(&self) -> i128 {
        self.0 as i128
    }
}
impl Elem for GenericArray<W, U3> {
    const BITS: u32 = 24;
    fn dec(c: i128) -> Self {
        let b = unpack3(c);
        GenericArray::from_array([W(b[0]), W(b[1]), W(b[2])])
    }
    fn enc(&self) -> i128 {
        pack3([self[0].0, self[1].0, self[2].0])
    }
}

const NTY: i128 = 16;
fn bits_of(ty: i128) -> u32 {
    match ty {
        0 => <u8 as Elem>::BITS,
        1 => <u64 as Elem>::BITS,
        2 => <[u8; 3] as Elem>::BITS,
        3 => <GenericArray<u8, U3> as Elem>::BITS,
        4 => <Fd as Elem>::BITS,
        5 => <Keep as Elem>::BITS,
        6 => <W as Elem>::BITS,
        7 => <GenericArray<W, U3> as Elem>::BITS,
        8 => <KeepBig as Elem>::BITS,
        9 => <Inv as Elem>::BITS,
        11 => <Cnt as Elem>::BITS,
        13 => <Lv as Elem>::BITS,
        14 => <K8 as Elem>::BITS,
        15 => <Dz as Elem>::BITS,
        _ => <Page as Elem>::BITS,
    }
}

// ---------------------------------------------------------------- const items (op 4)

const fn ok_u8(e: &u8) -> bool {
    *e == 0
}
const fn ok_u64(e: &u64) -> bool {
    *e == 0
}
const fn ok_b3(e: &[u8; 3]) -> bool {
    e[0] == 0 && e[1] == 0 && e[2] == 0
}
const fn ok_n8(e: &GenericArray<u8, U3>) -> bool {
    let s = e.as_slice();
    s.len() == 3 && s[0] == 0 && s[1] == 0 && s[2] == 0
}
const fn ok_fd(e: &Fd) -> bool {
    e.a == 7 && e.b == 9
}
const fn ok_keep(e: &Keep) -> bool {
    e.id == 3 && e.secret == 5
}
const fn ok_w(e: &W) -> bool {
    e.0 == 0x5A
}
const fn ok_nw(e: &GenericArray<W, U3>) -> bool {
    let s = e.as_slice();
    s.len() == 3 && s[0].0 == 0x5A && s[1].0 == 0x5A && s[2].0 == 0x5A
}

/// `const ARR: GenericArray<T, N> = GenericArray::const_default();` plus its
/// element-wise comparison evaluated by the compiler.
macro_rules! const_items {
    ($( ($arr:ident, $ok:ident, $ty:expr, $T:ty, $N:ty, $f:ident) ),* $(,)?) => {
        $(
            const $arr: GenericArray<$T, $N> = GenericArray::const_default();
            const $ok: bool = {
                let a = $arr;
                let s = a.as_slice();
                let mut ok = s.len() == <$N as Unsigned>::USIZE;
                let mut i = 0;
                while i < s.len() {
                    if !$f(&s[i]) {
                        ok = false;
                    }
                    i += 1;
                }
                ok
            };
        )*
        /// (ty, digits) of every const item
        fn const_item_list() -> Vec<(i128, Vec<i128>)> {
            vec![ $( ($ty, digits_of::<$N>()) ),* ]
        }
        /// element codes of the item and the compile-time verdict
        fn const_item(ty: i128, digits: &[i128]) -> Option<(usize, Vec<i128>, bool)> {
            $(
                if ty == $ty && digits_of::<$N>() == digits {
                    let a: GenericArray<$T, $N> = $arr;
                    return Some((<$N as Unsigned>::USIZE, a.iter().map(|e| e.enc()).collect(), $ok));
                }
            )*
            None
        }
    };
}

const_items! {
    (ARR_W5, OK_W5, 6, W, U5, ok_w),
    (ARR_W0, OK_W0, 6, W, U0, ok_w),
    (ARR_W1, OK_W1, 6, W, U1, ok_w),
    (ARR_W2, OK_W2, 6, W, U2, ok_w),
    (ARR_W3, OK_W3, 6, W, U3, ok_w),
    (ARR_W4, OK_W4, 6, W, U4, ok_w),
    (ARR_W6, OK_W6, 6, W, U6, ok_w),
    (ARR_W7, OK_W7, 6, W, U7, ok_w),
    (ARR_W8, OK_W8, 6, W, U8, ok_w),
    (ARR_W64, OK_W64, 6, W, U64, ok_w),
    (ARR_W97, OK_W97, 6, W, U97, ok_w),
    (ARR_W255, OK_W255, 6, W, U255, ok_w),
    (ARR_W1025, OK_W1025, 6, W, U1025, ok_w),
    (ARR_WL3, OK_WL3, 6, W, L3, ok_w),
    (ARR_WL10, OK_WL10, 6, W, L10, ok_w),
    (ARR_U8_0, OK_U8_0, 0, u8, U0, ok_u8),
    (ARR_U8_1, OK_U8_1, 0, u8, U1, ok_u8),
    (ARR_U8_33, OK_U8_33, 0, u8, U33, ok_u8),
    (ARR_U64_64, OK_U64_64, 1, u64, U64, ok_u64),
    (ARR_B3_33, OK_B3_33, 2, [u8; 3], U33, ok_b3),
    (ARR_N8_12, OK_N8_12, 3, GenericArray<u8, U3>, U12, ok_n8),
    (ARR_FD6, OK_FD6, 4, Fd, U6, ok_fd),
    (ARR_FD7, OK_FD7, 4, Fd, U7, ok_fd),
    (ARR_FD1024, OK_FD1024, 4, Fd, U1024, ok_fd),
    (ARR_KEEP10, OK_KEEP10, 5, Keep, U10, ok_keep),
    (ARR_NW9, OK_NW9, 7, GenericArray<W, U3>, U9, ok_nw),
    (ARR_NW127, OK_NW127, 7, GenericArray<W, U3>, U127, ok_nw),
}

// ---------------------------------------------------------------- running a case

fn check_default<T: Elem, N: ArrayLength>(what: &str, arr: &GenericArray<T, N>) {
    if arr.len() != N::USIZE {
        emit_oracle(&format!("{}: slice view has {} elements, N = {}", what, arr.len(), N::USIZE));
    }
    let dflt: GenericArray<T, N> = Default::default();
    for (i, e) in arr.iter().enumerate() {
        if *e != T::DEFAULT {
            emit_oracle(&format!("{}: element {} is not T::DEFAULT (code {})", what, i, e.enc()));
            break;
        }
        if *e != dflt[i] {
            emit_oracle(&format!("{}: element {} differs from Default::default()", what, i));
            break;
        }
    }
}

fn run<T: Elem, N: ArrayLength>(op: i128, prior: &[i128]) -> Vec<i128>
where
    GenericArray<T, N>: ConstDefault,
{
    let mut out = vec![N::USIZE as i128];
    match op {
        0 => {
            let mut arr: GenericArray<T, N> = GenericArray::from_iter(prior.iter().map(|c| T::dec(*c)));
            let before = arr.clone();
            arr.zeroize();
            for (i, (b, a)) in before.iter().zip(arr.iter()).enumerate() {
                let mut z = b.clone();
                z.zeroize();
                if z != *a {
                    emit_oracle(&format!(
                        "zeroize: element {} of {} is {} afterwards, its zeroized value is {}",
                        i,
                        N::USIZE,
                        a.enc(),
                        z.enc()
                    ));
                    break;
                }
            }
            out.extend(arr.iter().map(|e| e.enc()));
        }
        1 => {
            let arr = GenericArray::<T, N>::const_default();
            check_default("const_default()", &arr);
            out.extend(arr.iter().map(|e| e.enc()));
        }
        2 => {
            let arr: GenericArray<T, N> = const { <GenericArray<T, N> as ConstDefault>::DEFAULT };
            check_default("DEFAULT in a const block", &arr);
            out.extend(arr.iter().map(|e| e.enc()));
        }
        3 => {
            let arr: GenericArray<T, N> = Default::default();
            out.extend(arr.iter().map(|e| e.enc()));
        }
        _ => panic!("bad op {}", op),
    }
    out
}

macro_rules! dispatch_digits {
    ($T:ty, $digits:expr, $op:expr, $prior:expr, [$($u:ty),* $(,)?]) => {{
        let mut res: Option<Vec<i128>> = None;
        $(
            if res.is_none() && digits_of::<$u>() == $digits {
                res = Some(run::<$T, $u>($op, $prior));
            }
        )*
        res
    }};
}

fn run_ty<T: Elem>(digits: &[i128], op: i128, prior: &[i128]) -> Option<Vec<i128>> {
    with_lengths!(dispatch_digits!(T, digits, op, prior,))
}

/// page-sized elements: only the short lengths are monomorphised (in an optimised build the dispatch
/// function would otherwise reserve stack for every length of a 5000-byte element at once)
#[inline(never)]
fn run_ty_short<T: Elem>(digits: &[i128], op: i128, prior: &[i128]) -> Option<Vec<i128>> {
    dispatch_digits!(T, digits, op, prior, [U0, U1, U2, U3, U4])
}

/// op 5: `arr.zeroize()` in method-call syntax on a CONCRETE array type, written out per (element, length): method
/// resolution sees the concrete element type here (inherent methods and more specific impls are candidates)
fn run_concrete(ty: i128, n: usize, prior: &[i128], boxed: bool) -> Option<Vec<i128>> {
    macro_rules! conc {
        ($T:ty, $N:ty) => {{
            let mut arr: GenericArray<$T, $N> = GenericArray::from_iter(prior.iter().map(|c| <$T as Elem>::dec(*c)));
            let mut out = vec![<$N as Unsigned>::USIZE as i128];
            if boxed {
                // op 6: the array lives in a Box and `zeroize()` is called on the BOX
                let mut b: Box<GenericArray<$T, $N>> = Box::new(arr);
                b.zeroize();
                out.extend(b.iter().map(|e| e.enc()));
            } else {
                arr.zeroize();
                out.extend(arr.iter().map(|e| e.enc()));
            }
            Some(out)
        }};
    }
    macro_rules! by_len {
        ($T:ty) => {
            match n {
                0 => conc!($T, U0),
                1 => conc!($T, U1),
                2 => conc!($T, U2),
                3 => conc!($T, U3),
                8 => conc!($T, U8),
                33 => conc!($T, U33),
                _ => None,
            }
        };
    }
    match ty {
        0 => by_len!(u8),
        1 => by_len!(u64),
        4 => by_len!(Fd),
        9 => by_len!(Inv),
        11 => by_len!(Cnt),
        13 => by_len!(Lv),
        14 => by_len!(K8),
        15 => by_len!(Dz),
        _ => None,
    }
}
const CONCRETE_TYS: [i128; 8] = [0, 1, 4, 9, 11, 13, 14, 15];
const CONCRETE_LENS: [usize; 6] = [0, 1, 2, 3, 8, 33];

fn run_case(case: &[i128]) -> Vec<i128> {
    let (op, ty, nd) = (case[0], case[1], case[2] as usize);
    let digits = &case[3..3 + nd];
    let prior = &case[3 + nd..];
    if op == 5 || op == 6 {
        return run_concrete(ty, value(digits), prior, op == 6).expect("concrete (type, length) not written out");
    }
    if op == 4 {
        let (n, codes, ok) = const_item(ty, digits).expect("no const item of that type and length");
        if !ok {
            emit_oracle("const item: the element-wise comparison evaluated at compile time is false");
        }
        let mut out = vec![n as i128];
        out.extend(codes);
        return out;
    }
    let r = match ty {
        0 => run_ty::<u8>(digits, op, prior),
        1 => run_ty::<u64>(digits, op, prior),
        2 => run_ty::<[u8; 3]>(digits, op, prior),
        3 => run_ty::<GenericArray<u8, U3>>(digits, op, prior),
        4 => run_ty::<Fd>(digits, op, prior),
        5 => run_ty::<Keep>(digits, op, prior),
        6 => run_ty::<W>(digits, op, prior),
        7 => run_ty::<GenericArray<W, U3>>(digits, op, prior),
        8 => run_ty::<KeepBig>(digits, op, prior),
        9 => run_ty::<Inv>(digits, op, prior),
        10 => run_ty_short::<Page>(digits, op, prior),
        11 => run_ty::<Cnt>(digits, op, prior),
        13 => run_ty::<Lv>(digits, op, prior),
        14 => run_ty::<K8>(digits, op, prior),
        15 => run_ty::<Dz>(digits, op, prior),
        _ => panic!("bad element type {}", ty),
    };
    r.expect("length type not monomorphised")
}

fn do_case(case: Vec<i128>) {
    emit_case(&case);
    match catch(|| run_case(&case)) {
        Ok(obs) => emit_obs(&obs),
        Err(m) => {
            emit_obs(&[-99]);
            emit_oracle(&format!("unexpected panic: {}", m));
        }
    }
}

fn value(ds: &[i128]) -> usize {
    ds.iter().rev().fold(0usize, |acc, b| acc * 2 + *b as usize)
}

fn main() {
    let a = args();
    quiet_panics();
    if let Some(c) = a.replay {
        do_case(c);
        return;
    }
    let thorough = a.tier == "thorough";
    let mut rng = Rng::new(a.seed);
    let lens = all_digits();
    let head = |op: i128, ty: i128, ds: &[i128]| {
        let mut c = vec![op, ty, ds.len() as i128];
        c.extend(ds);
        c
    };
    // const items first: compile-time verdicts
    for (ty, ds) in const_item_list() {
        dist("op4");
        do_case(head(4, ty, &ds));
    }
    for ds in &lens {
        let n = value(ds);
        let shape = if ds.last() == Some(&0) { "nonnormalised" } else { "normalised" };
        for ty in 0..NTY {
            if ty == 12 {
                continue; // 12 is the probe's zero-sized type (c19p.rs)
            }
            if ty == 10 && (n > 4 || ds.last() == Some(&0)) {
                continue; // 5000-byte elements: small arrays only (they live on the stack)
            }
            for op in 1..=3 {
                dist(&format!("op{}", op));
                do_case(head(op, ty, ds));
            }
            let bits = bits_of(ty);
            let max: i128 = (1i128 << bits) - 1;
            // prior contents: all ones, seeded random; thorough: more seeds, index pattern, all zero
            let nrand = if thorough { if n <= 64 { 60 } else { 12 } } else { 1 };
            let mut contents: Vec<Vec<i128>> = vec![vec![max; n]];
            for _ in 0..nrand {
                contents.push((0..n).map(|_| (rng.next() as i128) & max).collect());
            }
            if ty == 9 && !thorough {
                contents.push(vec![0; n]); // slots that are all-zero bytes beforehand
            }
            if thorough {
                contents.push((0..n).map(|i| ((i as i128 + 1) * 0x0101_0101_0101_0101) & max).collect());
                contents.push(vec![0; n]);
                // exactly one non-zero element, at a seeded position
                if n > 0 {
                    let mut one = vec![0; n];
                    one[rng.below(n as u64) as usize] = max;
                    contents.push(one);
                }
            }
            if CONCRETE_TYS.contains(&ty) && CONCRETE_LENS.contains(&n) && ds.last() != Some(&0) {
                for prior in &contents {
                    for op in [5i128, 6] {
                        dist(&format!("op{}", op));
                        let mut c = head(op, ty, ds);
                        c.extend(prior);
                        do_case(c);
                    }
                }
            }
            for prior in contents {
                dist("op0");
                dist(&format!("ty{}", ty));
                dist(&format!("N{}", n));
                dist(shape);
                let mut c = head(0, ty, ds);
                c.extend(prior);
                do_case(c);
            }
        }
    }
    flush_dist();
}

//! C20: arr! / box_arr! build the array their literal syntax denotes.
//!
//! CASE = [form, count, etype, trailing, via]   (see coq/theories/CorrC20.v)
//!   form   0 arr![e0,..]   1 const A = arr![c0,..]   2 arr![e0; <type count>]   3 arr![e0; count]
//!          4 const A = arr![c0; <type count>]   5 const A = arr![c0; count]
//!          6 box_arr![e0,..]   7 box_arr![e0; <type count>]   8 box_arr![e0; count]
//!          9 arr![e0; LEN] (LEN a const item, bare path)   10 box_arr![e0; LEN]
//!          11 const B: Box<_> = box_arr![c0,..]   12 arr![e0; {LEN}]   13 box_arr![e0; {LEN}]
//!   etype  0 u32   1 String   2 Ck (Clone logs)   3 Zs (zero-sized Copy)
//!   via    8: every element carries its own `unsafe { .. }` block around a call of an unsafe fn, and the program
//!             is compiled with #![deny(unused_unsafe)] and uncapped lints (as for the native literal: accepted)
//!   via    9: every element calls an unsafe fn WITHOUT an unsafe block (as for the native literal: rejected,
//!             whenever there is an element expression at all)
//!   via   13: list forms (0, 6) whose elements are LOCAL VARIABLES of a non-Copy type, moved into the invocation (each
//!             element expression may occur in the expansion any number of times, but must be consumed once)
//!   via   12: the invocation sits in a scope that SHADOWS the names an unhygienic expansion could pick up: local items
//!             `Box`, `Vec`, `GenericArray`, `Option`, `Result`, `Default`, local variants `Ok` / `Err` / `Some` / `None` and a
//!             local `vec!` macro (paths in a macro_rules!
//!             transcriber resolve at the call site unless they start with `$crate`)
//!   via   11: list forms (0, 1, 6) whose FIRST element carries `#[cfg(any())]`: the element is compiled out, as in the
//!             native literal `[#[cfg(any())] e0, e1, ..]`, so the array has one element less (and e0 is not evaluated)
//!   via   10: box_arr![x; N] inside a fn generic over the type-level length N (form 7 only: the expansion may not
//!             put N into an item, which cannot name the parameters of the enclosing fn)
//!   via    7: elements borrowing from temporaries of their own expression (u32 behind a reference)
//!   via    1 here: every case is a generated program compiled with rustc against the rlib cargo
//!          built from the current crate tree (so a case that does not compile is an
//!          observable, not a build failure); via 0 = the same invocations written in Rust
//!          source by macros, see c20src.rs
//! OBS  = 0 kind N::USIZE len values... loglen log...  |  1 (does not compile)  |  2 (panicked)
//!        |  4 (the program of this case was killed: abort / signal -- only reported for programs of their own)
//!   element i appends i to the log and yields 3 + 7*i; a clone of value v logs -1-v.
use harness::*;
use std::io::Write;
use std::path::{Path, PathBuf};
use std::process::Command;

include!("../c20_shared.rs");

// ------------------------------------------------------------------ generated programs

const COUNTS_EXTRA: [usize; 4] = [100, 128, 255, 256];
const LATTICE: [usize; 13] = [0, 1, 2, 3, 8, 16, 33, 64, 100, 128, 255, 256, 1024];

fn ety(et: i128) -> &'static str {
    match et {
        0 => "u32",
        1 => "String",
        2 => "Ck",
        _ => "Zs",
    }
}

/// explicit binary typenum type: does not go through Const<N> / U<N>
fn ty_of(k: usize) -> String {
    if k == 0 {
        "typenum::UTerm".to_string()
    } else {
        format!("typenum::UInt<{}, typenum::B{}>", ty_of(k >> 1), k & 1)
    }
}

fn const_elem(et: i128, i: usize) -> String {
    match et {
        0 => format!("{}u32", 3 + 7 * i),
        _ => "Zs".to_string(),
    }
}

/// the body of `fn() -> Vec<i128>` running one case
fn case_body(c: &[i128]) -> String {
    let (form, count, et, trailing) = (c[0], c[1] as usize, c[2], c[3] as usize);
    let t = ety(et);
    let commas = ",".repeat(trailing);
    let list = || (0..count).map(|i| format!("e::<{}>({})", t, i)).collect::<Vec<_>>().join(", ");
    let clist = || (0..count).map(|i| const_elem(et, i)).collect::<Vec<_>>().join(", ");
    let x = format!("e::<{}>(0)", t);
    let cx = const_elem(et, 0);
    let nty = ty_of(count);
    let via = if c.len() > 4 { c[4] } else { 1 };
    // via 2: list forms whose elements are DISTINCT fn items; they have distinct types and only
    // coerce to `fn() -> u32` inside one array literal or against an expected element type
    if via == 2 {
        let items: String = (0..count).map(|i| format!("fn f{}() -> u32 {{ {} }} ", i, 3 + 7 * i)).collect();
        let elems = (0..count).map(|i| format!("{{ lg({}); f{} }}", i, i)).collect::<Vec<_>>().join(", ");
        return match form {
            0 => format!("{items}let a: GenericArray<fn() -> u32, _> = arr![{elems}{commas}]; observe(0, &a)"),
            _ => format!("{items}let a: Box<GenericArray<fn() -> u32, _>> = box_arr![{elems}{commas}]; observe(1, &a)"),
        };
    }
    // via 3: the repeat operand is a path to a `const` item of the non-Copy element type Ck
    if via == 3 {
        let k = "const C: Ck = Ck(3);";
        return match form {
            2 => format!("{k} let a: GenericArray<Ck, _> = arr![C; {nty}]; observe(0, &a)"),
            3 => format!("{k} let a: GenericArray<Ck, _> = arr![C; {count}]; observe(0, &a)"),
            4 => format!("{k} const A: GenericArray<Ck, {nty}> = arr![C; {nty}]; observe(0, &A)"),
            5 => format!("{k} const A: GenericArray<Ck, {nty}> = arr![C; {count}]; observe(0, &A)"),
            7 => format!("{k} let a: Box<GenericArray<Ck, _>> = box_arr![C; {nty}]; observe(1, &a)"),
            _ => format!("{k} let a: Box<GenericArray<Ck, _>> = box_arr![C; {count}]; observe(1, &a)"),
        };
    }
    // via 4: the braced length is a const generic parameter of the enclosing fn
    if via == 4 {
        return format!(
            "fn gen<const LEN: usize>() -> Vec<i128> where typenum::Const<LEN>: generic_array::IntoArrayLength {{ let a: GenericArray<{t}, _> = arr![{x}; {{LEN}}]; observe(0, &a) }} gen::<{count}>()"
        );
    }
    // via 5 / 6: the type-level length is written as an alias that is literally named `N` / `T` (the names
    // of the generic parameters of the helper fn inside the macro: macro_rules does not rename those)
    if via == 5 || via == 6 {
        let al = if via == 5 { "N" } else { "T" };
        return match form {
            2 => format!("type {al} = {nty}; let a: GenericArray<{t}, _> = arr![{x}; {al}]; observe(0, &a)"),
            4 => format!("type {al} = {nty}; const A: GenericArray<{t}, {nty}> = arr![{cx}; {al}]; observe(0, &A)"),
            _ => format!("type {al} = {nty}; let a: Box<GenericArray<{t}, _>> = box_arr![{x}; {al}]; observe(1, &a)"),
        };
    }
    // via 7: every element borrows from a temporary its own expression creates (`&*Box::new(..)`), and the array is
    // consumed within the same statement -- accepted for the native literal, so for the macros too (where a
    // temporary is dropped depends on how the expansion nests the element expression)
    if via == 7 {
        let r = |i: usize| format!("&*Box::new(e::<u32>({}))", i);
        let rlist = (0..count).map(|i| r(i)).collect::<Vec<_>>().join(", ");
        return match form {
            0 => format!("let o = observe(0, &arr![{rlist}{commas}]); o"),
            2 => format!("let o = observe(0, &arr![{}; {nty}]); o", r(0)),
            3 => format!("let o = observe(0, &arr![{}; {count}]); o", r(0)),
            6 => format!("let o = observe(1, &*box_arr![{rlist}{commas}]); o"),
            7 => format!("let o = observe(1, &*box_arr![{}; {nty}]); o", r(0)),
            _ => format!("let o = observe(1, &*box_arr![{}; {count}]); o", r(0)),
        };
    }
    // via 13: the elements are non-Copy locals moved into the list
    if via == 13 {
        let binds: String = (0..count).map(|i| format!("let s{} = e::<{}>({}); ", i, t, i)).collect();
        let names = (0..count).map(|i| format!("s{}", i)).collect::<Vec<_>>().join(", ");
        return match form {
            0 => format!("{binds}let a: GenericArray<{t}, _> = arr![{names}{commas}]; observe(0, &a)"),
            _ => format!("{binds}let a: Box<GenericArray<{t}, _>> = box_arr![{names}{commas}]; observe(1, &a)"),
        };
    }
    // via 12: the caller's scope shadows Box / Vec / GenericArray / Option / Default / vec!
    if via == 12 {
        let sh = "#[allow(dead_code)] struct Box; #[allow(dead_code)] struct Vec; #[allow(dead_code)] struct GenericArray; #[allow(dead_code)] struct Option; #[allow(dead_code)] struct Default; #[allow(dead_code)] struct Result; #[allow(dead_code)] enum ShadowedVariants { Ok, Err, Some, None } #[allow(unused_imports)] use ShadowedVariants::*; #[allow(unused_macros)] macro_rules! vec { ($($t:tt)*) => { compile_error!(\"the caller's own vec! macro\") } }";
        let ga = "generic_array::GenericArray";
        let bx = "std::boxed::Box";
        return match form {
            0 => format!("{sh} let a: {ga}<{t}, _> = arr![{}{commas}]; observe(0, &a)", list()),
            1 => format!("{sh} const A: {ga}<{t}, {nty}> = arr![{}{commas}]; observe(0, &A)", clist()),
            2 => format!("{sh} let a: {ga}<{t}, _> = arr![{x}; {nty}]; observe(0, &a)"),
            3 => format!("{sh} let a: {ga}<{t}, _> = arr![{x}; {count}]; observe(0, &a)"),
            4 => format!("{sh} const A: {ga}<{t}, {nty}> = arr![{cx}; {nty}]; observe(0, &A)"),
            5 => format!("{sh} const A: {ga}<{t}, {nty}> = arr![{cx}; {count}]; observe(0, &A)"),
            6 => format!("{sh} let a: {bx}<{ga}<{t}, _>> = box_arr![{}{commas}]; observe(1, &a)", list()),
            7 => format!("{sh} let a: {bx}<{ga}<{t}, _>> = box_arr![{x}; {nty}]; observe(1, &a)"),
            _ => format!("{sh} let a: {bx}<{ga}<{t}, _>> = box_arr![{x}; {count}]; observe(1, &a)"),
        };
    }
    // via 11: the first element of a list form is compiled out by a cfg attribute
    if via == 11 {
        let strip = |l: String| format!("#[cfg(any())] {}", l);
        let nty1 = ty_of(count.saturating_sub(1));
        return match form {
            0 => format!("let a: GenericArray<{t}, _> = arr![{}{commas}]; observe(0, &a)", strip(list())),
            1 => format!("const A: GenericArray<{t}, {nty1}> = arr![{}{commas}]; observe(0, &A)", strip(clist())),
            _ => format!("let a: Box<GenericArray<{t}, _>> = box_arr![{}{commas}]; observe(1, &a)", strip(list())),
        };
    }
    // via 10: the type-level length is a generic parameter of the enclosing fn
    if via == 10 {
        return format!(
            "fn gen<N: generic_array::ArrayLength>() -> Vec<i128> {{ let a: Box<GenericArray<{t}, N>> = box_arr![{x}; N]; observe(1, &a) }} gen::<{nty}>()"
        );
    }
    // via 8 / 9: unsafe hygiene of the expansion around the caller's element expressions
    if via == 8 || via == 9 {
        let items = "unsafe fn ue(i: i128) -> u32 { e::<u32>(i) } const unsafe fn cu(i: i128) -> u32 { (3 + 7 * i) as u32 }";
        let w = |f: &str, i: usize| if via == 8 { format!("unsafe {{ {f}({i}) }}") } else { format!("{f}({i})") };
        let ul = (0..count).map(|i| w("ue", i)).collect::<Vec<_>>().join(", ");
        let cl = (0..count).map(|i| w("cu", i)).collect::<Vec<_>>().join(", ");
        let (ux, ucx) = (w("ue", 0), w("cu", 0));
        return match form {
            0 => format!("{items} let a: GenericArray<u32, _> = arr![{ul}{commas}]; observe(0, &a)"),
            1 => format!("{items} const A: GenericArray<u32, {nty}> = arr![{cl}{commas}]; observe(0, &A)"),
            2 => format!("{items} let a: GenericArray<u32, _> = arr![{ux}; {nty}]; observe(0, &a)"),
            3 => format!("{items} let a: GenericArray<u32, _> = arr![{ux}; {count}]; observe(0, &a)"),
            4 => format!("{items} const A: GenericArray<u32, {nty}> = arr![{ucx}; {nty}]; observe(0, &A)"),
            5 => format!("{items} const A: GenericArray<u32, {nty}> = arr![{ucx}; {count}]; observe(0, &A)"),
            6 => format!("{items} let a: Box<GenericArray<u32, _>> = box_arr![{ul}{commas}]; observe(1, &a)"),
            7 => format!("{items} let a: Box<GenericArray<u32, _>> = box_arr![{ux}; {nty}]; observe(1, &a)"),
            _ => format!("{items} let a: Box<GenericArray<u32, _>> = box_arr![{ux}; {count}]; observe(1, &a)"),
        };
    }
    match form {
        0 => format!("let a: GenericArray<{t}, _> = arr![{}{commas}]; observe(0, &a)", list()),
        1 => format!("const A: GenericArray<{t}, {nty}> = arr![{}{commas}]; observe(0, &A)", clist()),
        2 => format!("let a: GenericArray<{t}, _> = arr![{x}; {nty}]; observe(0, &a)"),
        3 => format!("let a: GenericArray<{t}, _> = arr![{x}; {count}]; observe(0, &a)"),
        4 => format!("const A: GenericArray<{t}, {nty}> = arr![{cx}; {nty}]; observe(0, &A)"),
        5 => format!("const A: GenericArray<{t}, {nty}> = arr![{cx}; {count}]; observe(0, &A)"),
        6 => format!("let a: Box<GenericArray<{t}, _>> = box_arr![{}{commas}]; observe(1, &a)", list()),
        7 => format!("let a: Box<GenericArray<{t}, _>> = box_arr![{x}; {nty}]; observe(1, &a)"),
        8 => format!("let a: Box<GenericArray<{t}, _>> = box_arr![{x}; {count}]; observe(1, &a)"),
        9 => format!("const LEN: usize = {count}; let a: GenericArray<{t}, _> = arr![{x}; LEN]; observe(0, &a)"),
        10 => format!("const LEN: usize = {count}; let a: Box<GenericArray<{t}, _>> = box_arr![{x}; LEN]; observe(1, &a)"),
        11 => format!("const B: Box<GenericArray<{t}, {nty}>> = box_arr![{}{commas}]; observe(1, &B)", clist()),
        12 => format!("const LEN: usize = {count}; let a: GenericArray<{t}, _> = arr![{x}; {{LEN}}]; observe(0, &a)"),
        _ => format!("const LEN: usize = {count}; let a: Box<GenericArray<{t}, _>> = box_arr![{x}; {{LEN}}]; observe(1, &a)"),
    }
}

fn program(cases: &[Vec<i128>]) -> String {
    let mut s = String::from("#![allow(warnings)]\n#![recursion_limit = \"128\"]\n");
    if cases.iter().any(|c| c.len() > 4 && c[4] == 8) {
        s.push_str("#![deny(unused_unsafe)]\n");
    }
    s.push_str(PRELUDE);
    s.push('\n');
    for (i, c) in cases.iter().enumerate() {
        s.push_str(&format!("fn case_{}() -> Vec<i128> {{ {} }}\n", i, case_body(c)));
    }
    s.push_str("fn main() {\n    std::panic::set_hook(Box::new(|_| {}));\n");
    for (i, c) in cases.iter().enumerate() {
        let ints: Vec<String> = c.iter().map(|x| x.to_string()).collect();
        s.push_str(&format!("    run_case(&[{}], case_{});\n", ints.join(", "), i));
    }
    s.push_str("}\n");
    s
}

struct Tool {
    dir: PathBuf,
    deps: PathBuf,
    rlib: PathBuf,
}

fn tool() -> Tool {
    let exe = std::env::current_exe().expect("current_exe");
    let deps = exe.parent().expect("exe dir").join("deps");
    let mut best: Option<(std::time::SystemTime, PathBuf)> = None;
    for ent in std::fs::read_dir(&deps).expect("deps dir") {
        let p = ent.unwrap().path();
        let name = p.file_name().unwrap().to_string_lossy().to_string();
        if name.starts_with("libgeneric_array-") && name.ends_with(".rlib") {
            let m = p.metadata().and_then(|m| m.modified()).unwrap_or(std::time::UNIX_EPOCH);
            if best.as_ref().map_or(true, |(bm, _)| m > *bm) {
                best = Some((m, p));
            }
        }
    }
    let rlib = best.expect("libgeneric_array-*.rlib next to the harness binary").1;
    let base = std::env::var("VERIF_OUT").map(PathBuf::from).unwrap_or_else(|_| std::env::temp_dir());
    let dir = base.join(format!("c20-gen-{}", std::process::id()));
    let _ = std::fs::remove_dir_all(&dir);
    std::fs::create_dir_all(&dir).expect("scratch dir");
    Tool { dir, deps, rlib }
}

/// compile one program; Ok(executable) or Err(first error lines)
fn compile(t: &Tool, name: &str, src: &str) -> Result<PathBuf, String> {
    let rs = t.dir.join(format!("{}.rs", name));
    let out = t.dir.join(name);
    std::fs::write(&rs, src).expect("write program");
    // programs that turn a lint into an error are compiled with uncapped lints
    let lints: &[&str] = if src.contains("#![deny(") { &[] } else { &["-A", "warnings", "--cap-lints", "allow"] };
    let r = Command::new("rustc")
        .args(["--edition", "2021", "-C", "debuginfo=0"])
        .args(lints)
        .arg("-C")
        // same optimisation level as the rlib the harness itself was built against
        .arg(if cfg!(debug_assertions) { "opt-level=0" } else { "opt-level=2" })
        .arg("--extern")
        .arg(format!("generic_array={}", t.rlib.display()))
        .arg("-L")
        .arg(format!("dependency={}", t.deps.display()))
        .arg("-o")
        .arg(&out)
        .arg(&rs)
        .output()
        .expect("rustc runs");
    if r.status.success() {
        Ok(out)
    } else {
        let err = String::from_utf8_lossy(&r.stderr);
        let first: Vec<&str> = err.lines().filter(|l| l.starts_with("error")).take(2).collect();
        Err(first.join(" | "))
    }
}

/// run jobs on a few worker threads, results in job order
fn parallel<T: Send + Sync, R: Send>(jobs: &[T], f: impl Fn(usize, &T) -> R + Sync) -> Vec<R> {
    let n = std::thread::available_parallelism().map(|n| n.get()).unwrap_or(4).clamp(1, 12);
    let next = std::sync::atomic::AtomicUsize::new(0);
    let res: std::sync::Mutex<Vec<Option<R>>> = std::sync::Mutex::new((0..jobs.len()).map(|_| None).collect());
    std::thread::scope(|s| {
        for _ in 0..n {
            s.spawn(|| loop {
                let i = next.fetch_add(1, std::sync::atomic::Ordering::SeqCst);
                if i >= jobs.len() {
                    break;
                }
                let r = f(i, &jobs[i]);
                res.lock().unwrap()[i] = Some(r);
            });
        }
    });
    res.into_inner().unwrap().into_iter().map(|r| r.unwrap()).collect()
}

/// run a compiled program, relaying its CASE/OBS lines; false if it died
fn relay(exe: &Path) -> bool {
    let out = Command::new(exe).output().expect("generated program runs");
    let o = std::io::stdout();
    let mut o = o.lock();
    let _ = o.write_all(&out.stdout);
    let _ = o.flush();
    out.status.success()
}

/// run a compiled single-case program; when it is killed (abort, signal) the case is reported with OBS 4
fn relay_solo(exe: &Path, case: &[i128]) {
    let out = Command::new(exe).output().expect("generated program runs");
    let o = std::io::stdout();
    let mut o = o.lock();
    if out.status.success() {
        let _ = o.write_all(&out.stdout);
    } else {
        let ints: Vec<String> = case.iter().map(|x| x.to_string()).collect();
        let _ = writeln!(o, "CASE {}", ints.join(" "));
        let _ = writeln!(o, "OBS 4");
        let err = String::from_utf8_lossy(&out.stderr);
        let first = err.lines().find(|l| l.contains("panicked") || l.contains("unsafe precondition") || l.contains("SIG")).unwrap_or("").to_string();
        let _ = writeln!(o, "NOTE case {:?}: its program was killed ({:?}) {}", case, out.status, first);
    }
    let _ = o.flush();
}

/// a generated program died (abort, signal) while running its last CASE
fn die(t: &Tool) -> ! {
    flush_dist();
    let _ = std::fs::remove_dir_all(&t.dir);
    std::process::exit(3)
}

fn does_not_compile(case: &[i128], why: &str, notes: &mut usize) {
    emit_case(case);
    emit_obs(&[1]);
    if *notes < 12 {
        *notes += 1;
        note(&format!("case {:?} does not compile: {}", case, why));
    }
}

/// Batching hint only (the verdict comes from the model): cases that probably do
/// not compile get a program of their own so that they do not take a batch down.
fn probably_rejected(c: &[i128]) -> bool {
    let (form, count, et) = (c[0], c[1], c[2]);
    let in_table = count <= 1024 || [2047, 2048, 3600, 4095, 4096].contains(&count);
    let copy = et == 0 || et == 3;
    if c.len() > 4 && (c[4] == 8 || c[4] == 9 || c[4] == 11) {
        return true; // a program of its own: its lint levels differ / it is expected to be rejected / it may be killed
    }
    match form {
        9 | 10 | 11 => true,
        2 | 4 => !copy && count > 1,
        3 | 5 | 12 => !in_table || (!copy && count > 1),
        8 | 13 => !in_table,
        _ => false,
    }
}

fn generated_cases(thorough: bool) -> Vec<Vec<i128>> {
    let mut v: Vec<Vec<i128>> = vec![];
    let mut counts: Vec<usize> = (0..=64).collect();
    counts.extend(COUNTS_EXTRA);
    // list forms: every element count; Copy and non-Copy elements; trailing commas
    for &k in &counts {
        let k = k as i128;
        let dense = thorough || k <= 8 || k % 8 == 0 || k >= 100 || k == 63 || k == 33;
        for et in 0..4i128 {
            if !dense && et >= 2 {
                continue;
            }
            for tr in 0..3i128 {
                if tr == 2 && !dense {
                    continue;
                }
                v.push(vec![0, k, et, tr, 1]);
                v.push(vec![6, k, et, tr, 1]);
            }
        }
        for et in [0i128, 3] {
            if et == 3 && !dense {
                continue;
            }
            v.push(vec![1, k, et, 0, 1]);
            if dense {
                v.push(vec![1, k, et, 1, 1]);
            }
        }
    }
    // repeat forms over the length lattice (1025: representable as a type, not in Const's table)
    let mut lat: Vec<usize> = LATTICE.to_vec();
    lat.extend([1025, 2048]);
    if thorough {
        lat.extend([4, 5, 6, 7, 15, 17, 31, 32, 63, 65, 127, 129, 511, 512, 1023, 2047, 3000, 4096]);
    }
    for &n in &lat {
        let n = n as i128;
        for et in 0..4i128 {
            for form in [2i128, 3, 7, 8] {
                v.push(vec![form, n, et, 0, 1]);
            }
        }
        for et in [0i128, 3] {
            v.push(vec![4, n, et, 0, 1]);
            v.push(vec![5, n, et, 0, 1]);
        }
    }
    // a const item as the length: bare path (taken for a type) and braced
    for n in [0i128, 3, 16] {
        for et in [0i128, 1] {
            v.push(vec![9, n, et, 0, 1]);
            v.push(vec![10, n, et, 0, 1]);
            v.push(vec![12, n, et, 0, 1]);
            v.push(vec![13, n, et, 0, 1]);
        }
    }
    // list elements that need a coercion to the common element type (distinct fn items)
    for k in [0i128, 1, 2, 3, 5, 8, 33] {
        for tr in 0..2i128 {
            v.push(vec![0, k, 0, tr, 2]);
            v.push(vec![6, k, 0, tr, 2]);
        }
    }
    // a `const` item of a non-Copy type as the repeat operand
    for n in [0i128, 1, 2, 3, 16, 33] {
        for form in [2i128, 3, 4, 5, 7, 8] {
            v.push(vec![form, n, 2, 0, 3]);
        }
    }
    // the braced length is a const generic parameter
    // (Copy element types only: with a generic length rustc cannot see that it is <= 1, so a non-Copy
    // operand is rejected for every length -- a rule the model does not state)
    for n in [0i128, 1, 3, 16, 64] {
        for et in [0i128, 3] {
            v.push(vec![12, n, et, 0, 4]);
        }
    }
    // the type-level length spelled as an alias named N / T
    for n in [0i128, 3, 16] {
        for via in [5i128, 6] {
            for form in [2i128, 4, 7] {
                v.push(vec![form, n, 0, 0, via]);
            }
        }
    }
    // elements that borrow from temporaries of their own expression, the array used within the statement
    for n in [0i128, 1, 3, 16] {
        for form in [0i128, 2, 3, 6, 7, 8] {
            // an empty list has no element to take the element type from
            if n == 0 && (form == 0 || form == 6) {
                continue;
            }
            v.push(vec![form, n, 0, 0, 7]);
        }
    }
    // unsafe hygiene: elements with their own unsafe block under deny(unused_unsafe); elements that need one and have none
    for n in [0i128, 1, 3, 16] {
        for form in 0..9i128 {
            for via in [8i128, 9] {
                v.push(vec![form, n, 0, if form == 0 || form == 6 { n % 2 } else { 0 }, via]);
            }
        }
    }
    // non-Copy locals moved into a list form
    for n in [1i128, 2, 3, 8] {
        for form in [0i128, 6] {
            for et in [1i128, 2] {
                v.push(vec![form, n, et, n % 2, 13]);
            }
        }
    }
    // the caller's scope shadows the names an expansion might use unqualified
    for n in [0i128, 1, 3] {
        for form in 0..9i128 {
            v.push(vec![form, n, 0, if form == 0 || form == 6 { n % 2 } else { 0 }, 12]);
        }
    }
    // a list element compiled out by `#[cfg(any())]`
    for n in [1i128, 2, 3, 8] {
        for form in [0i128, 1, 6] {
            v.push(vec![form, n, 0, 0, 11]);
        }
    }
    // box_arr! with a generic type-level length
    for n in [0i128, 1, 3, 16, 100] {
        for et in 0..4i128 {
            v.push(vec![7, n, et, 0, 10]);
        }
    }
    // box_arr! is not usable in a const
    v.push(vec![11, 0, 0, 0, 1]);
    v.push(vec![11, 3, 0, 1, 1]);
    v
}

fn run_generated(t: &Tool, cases: Vec<Vec<i128>>) {
    let (solo, batch): (Vec<_>, Vec<_>) = cases.into_iter().partition(|c| probably_rejected(c));
    let mut notes = 0usize;
    // batches
    let chunks: Vec<Vec<Vec<i128>>> = batch.chunks(48).map(|c| c.to_vec()).collect();
    let built = parallel(&chunks, |i, ch| compile(t, &format!("batch{}", i), &program(ch)));
    for (i, (ch, b)) in chunks.iter().zip(built).enumerate() {
        match b {
            Ok(exe) => {
                if !relay(&exe) {
                    println!("NOTE batch {} died", i);
                    die(t);
                }
            }
            Err(why) => {
                // find the offenders: one program per case
                note(&format!("batch {} does not compile ({}); compiling its cases one by one", i, why));
                let each = parallel(ch, |j, c| compile(t, &format!("b{}c{}", i, j), &program(std::slice::from_ref(c))));
                for (c, r) in ch.iter().zip(each) {
                    match r {
                        Ok(exe) => {
                            if !relay(&exe) {
                                die(t);
                            }
                        }
                        Err(why) => does_not_compile(c, &why, &mut notes),
                    }
                }
            }
        }
    }
    let each = parallel(&solo, |j, c| compile(t, &format!("solo{}", j), &program(std::slice::from_ref(c))));
    for (c, r) in solo.iter().zip(each) {
        match r {
            Ok(exe) => relay_solo(&exe, c),
            Err(why) => does_not_compile(c, &why, &mut notes),
        }
    }
}

fn main() {
    let a = args();
    quiet_panics();
    let t = tool();
    if let Some(c) = a.replay {
        let mut c = c;
        while c.len() < 5 {
            c.push(1);
        }
        if c[4] < 1 {
            c[4] = 1; // a replay always goes through a generated program
        }
        run_generated(&t, vec![c]);
        let _ = std::fs::remove_dir_all(&t.dir);
        return;
    }
    let thorough = a.tier == "thorough";
    let cases = generated_cases(thorough);
    for c in &cases {
        dist(&format!("form{}", c[0]));
    }
    run_generated(&t, cases);
    note(&format!("generated programs compiled against {}", t.rlib.display()));
    let _ = std::fs::remove_dir_all(&t.dir);
    flush_dist();
}

//! C17: serde impls of GenericArray (src/impl_serde.rs).
//!
//! Case: [fmt, ty, N, h0, ha_mode, ha_p, tail, m, item_0 .. item_{m-1}]
//!   fmt  0 scripted Deserializer/SeqAccess (this file), 1 JSON text, 2 bincode,
//!        3 serde_json::Value, 4 serialize (recording Serializer + bincode bytes),
//!        5 the scripted Deserializer entered through Deserialize::deserialize_in_place (u8 / f64 only:
//!          `place` holds N dummy values beforehand); the model runs it as fmt 0
//!   ty   0 u8, 1 f64, 2 drop-tracked Tr (newtype TrD), 3 a ZERO-SIZED drop-tracked element (TzD: it
//!        deserialises from the same numbers; identities are reconstructed from the order of creation
//!        when the number of destructor runs is right, otherwise the count is a direct oracle)
//!   h0   what size_hint() says before anything is read: -1 = None, otherwise Some(h0)
//!   ha_mode/ha_p   what size_hint() says when asked again after k next_element calls:
//!        0 None, 1 Some(max(0, ha_p - k)), 2 Some(ha_p)
//!   item >= 0 an element with that identity/value, -2 Ok(None), -1 Err from the SeqAccess,
//!        -3 an element of the wrong type (T::deserialize fails); tail = answer beyond the m items.
//!   For fmt 1..3 the fields h0/ha/tail are not inputs of the run: they state how that data format
//!   behaves (JSON: no hints; bincode: exact countdown from N, reading past the end is an error;
//!   Value: exact countdown from m) so that the model can be run on the same line.
//! Observables (fmt 0..3): Ok  -> [1, N, a_0.., polls, ndrops, sorted drops..]
//!                         Err -> [0, 0, polls, ndrops, sorted drops..]
//!   polls = number of next_element calls (-1 for fmt 1..3), drops = destructors run before the
//!   result is handed back (tracked type only).
//! Observables (fmt 4): tokens (1 n = serialize_tuple(n), 2 x = element, 3 = end, 4 n = serialize_seq,
//!   5 = seq end, 9 = anything else), then the length of the bincode encoding and its bytes (-1 per
//!   byte for f64, whose bytes are checked by a direct oracle instead).
//! Direct oracles: every created id dropped exactly once by the end of the case, never a drop of
//!   an id that was not created, deserialize_tuple called with N, Ok arrays equal the input prefix,
//!   JSON text / bincode bytes / Value of serialize equal the tuple encoding of the elements.
use generic_array::typenum::*;
use generic_array::{ArrayLength, GenericArray};
use harness::track::{self, Ev, Tr, Tz};
use harness::*;
use serde::de::{self, DeserializeOwned, DeserializeSeed, Deserializer, SeqAccess, Visitor};
use serde::ser::{self, Impossible, Serialize, SerializeSeq, SerializeTuple, Serializer};
use serde::Deserialize;
use std::cell::Cell;
use std::fmt;

// ------------------------------------------------------------------ heap blocks of the array's size
// The crate's deserializer builds the array in place and owns no heap block.  If it ever does (a heap path for
// large arrays), a block of exactly size_of::<GenericArray<T, N>>() bytes requested during a call must be gone
// once the result has been dropped -- on every exit, the `?` exits included.
struct Track;
static TARGET: std::sync::atomic::AtomicUsize = std::sync::atomic::AtomicUsize::new(usize::MAX);
static LIVE_TARGET: std::sync::atomic::AtomicIsize = std::sync::atomic::AtomicIsize::new(0);
unsafe impl std::alloc::GlobalAlloc for Track {
    unsafe fn alloc(&self, l: std::alloc::Layout) -> *mut u8 {
        if l.size() == TARGET.load(std::sync::atomic::Ordering::Relaxed) {
            LIVE_TARGET.fetch_add(1, std::sync::atomic::Ordering::Relaxed);
        }
        std::alloc::System.alloc(l)
    }
    unsafe fn dealloc(&self, p: *mut u8, l: std::alloc::Layout) {
        if l.size() == TARGET.load(std::sync::atomic::Ordering::Relaxed) {
            LIVE_TARGET.fetch_sub(1, std::sync::atomic::Ordering::Relaxed);
        }
        std::alloc::System.dealloc(p, l)
    }
}
#[global_allocator]
static GLOBAL: Track = Track;

// ------------------------------------------------------------------ error type

#[derive(Debug)]
struct SErr(#[allow(dead_code)] String);
impl fmt::Display for SErr {
    fn fmt(&self, f: &mut fmt::Formatter) -> fmt::Result {
        write!(f, "{}", self.0)
    }
}
impl std::error::Error for SErr {}
impl de::Error for SErr {
    fn custom<T: fmt::Display>(m: T) -> Self {
        SErr(m.to_string())
    }
}
impl ser::Error for SErr {
    fn custom<T: fmt::Display>(m: T) -> Self {
        SErr(m.to_string())
    }
}

// ------------------------------------------------------------------ element types

trait El: Serialize + DeserializeOwned {
    const TY: i128;
    const SIZE: usize;
    fn mk(id: i128) -> Self;
    fn id(&self) -> i128;
    fn json(id: i128) -> String;
    fn value(id: i128) -> serde_json::Value;
    fn bin(id: i128, out: &mut Vec<u8>);
    /// identities of an array's elements (`made` = ids in creation order, for types that carry none)
    fn ids_of(arr: &[Self], _made: &[i128]) -> Vec<i128> {
        arr.iter().map(|e| e.id()).collect()
    }
}

impl El for u8 {
    const TY: i128 = 0;
    const SIZE: usize = 1;
    fn mk(id: i128) -> u8 {
        id as u8
    }
    fn id(&self) -> i128 {
        *self as i128
    }
    fn json(id: i128) -> String {
        id.to_string()
    }
    fn value(id: i128) -> serde_json::Value {
        serde_json::Value::from(id as u64)
    }
    fn bin(id: i128, out: &mut Vec<u8>) {
        out.push(id as u8)
    }
}

impl El for f64 {
    const TY: i128 = 1;
    const SIZE: usize = 8;
    fn mk(id: i128) -> f64 {
        id as f64
    }
    fn id(&self) -> i128 {
        if self.fract() == 0.0 {
            *self as i128
        } else {
            -1
        }
    }
    fn json(id: i128) -> String {
        format!("{}.0", id)
    }
    fn value(id: i128) -> serde_json::Value {
        serde_json::Value::from(id as f64)
    }
    fn bin(id: i128, out: &mut Vec<u8>) {
        out.extend_from_slice(&(id as f64).to_le_bytes())
    }
}

/// drop-tracked element: serialises as its id (i64); a negative number is not a valid TrD
struct TrD(Tr);
impl Serialize for TrD {
    fn serialize<S: Serializer>(&self, s: S) -> Result<S::Ok, S::Error> {
        s.serialize_i64(self.0.id)
    }
}
struct TrVisitor;
impl<'de> Visitor<'de> for TrVisitor {
    type Value = TrD;
    fn expecting(&self, f: &mut fmt::Formatter) -> fmt::Result {
        write!(f, "a non-negative id")
    }
    fn visit_i64<E: de::Error>(self, v: i64) -> Result<TrD, E> {
        if v < 0 {
            Err(E::custom("negative id"))
        } else {
            Ok(TrD(Tr::new(v)))
        }
    }
    fn visit_u64<E: de::Error>(self, v: u64) -> Result<TrD, E> {
        Ok(TrD(Tr::new(v as i64)))
    }
}
impl<'de> Deserialize<'de> for TrD {
    fn deserialize<D: Deserializer<'de>>(d: D) -> Result<TrD, D::Error> {
        d.deserialize_i64(TrVisitor)
    }
}
impl El for TrD {
    const TY: i128 = 2;
    const SIZE: usize = 8;
    fn mk(id: i128) -> TrD {
        TrD(Tr::new(id as i64))
    }
    fn id(&self) -> i128 {
        self.0.id as i128
    }
    fn json(id: i128) -> String {
        id.to_string()
    }
    fn value(id: i128) -> serde_json::Value {
        serde_json::Value::from(id as i64)
    }
    fn bin(id: i128, out: &mut Vec<u8>) {
        out.extend_from_slice(&(id as i64).to_le_bytes())
    }
}

/// zero-sized drop-tracked element: accepts the same numbers as TrD and remembers (outside the value)
/// the ids in creation order
struct TzD(#[allow(dead_code)] Tz);
thread_local! {
    static ZMADE: std::cell::RefCell<Vec<i128>> = std::cell::RefCell::new(Vec::new());
}
fn zmade_take() -> Vec<i128> {
    ZMADE.with(|z| std::mem::take(&mut *z.borrow_mut()))
}
fn tzd(id: i128) -> TzD {
    ZMADE.with(|z| z.borrow_mut().push(id));
    TzD(Tz::new())
}
impl Serialize for TzD {
    fn serialize<S: Serializer>(&self, s: S) -> Result<S::Ok, S::Error> {
        s.serialize_i64(0)
    }
}
struct TzVisitor;
impl<'de> Visitor<'de> for TzVisitor {
    type Value = TzD;
    fn expecting(&self, f: &mut fmt::Formatter) -> fmt::Result {
        write!(f, "a non-negative id")
    }
    fn visit_i64<E: de::Error>(self, v: i64) -> Result<TzD, E> {
        if v < 0 {
            Err(E::custom("negative id"))
        } else {
            Ok(tzd(v as i128))
        }
    }
    fn visit_u64<E: de::Error>(self, v: u64) -> Result<TzD, E> {
        Ok(tzd(v as i128))
    }
}
impl<'de> Deserialize<'de> for TzD {
    fn deserialize<D: Deserializer<'de>>(d: D) -> Result<TzD, D::Error> {
        d.deserialize_i64(TzVisitor)
    }
}
impl El for TzD {
    const TY: i128 = 3;
    const SIZE: usize = 8;
    fn mk(id: i128) -> TzD {
        tzd(id)
    }
    fn id(&self) -> i128 {
        -1
    }
    fn json(id: i128) -> String {
        id.to_string()
    }
    fn value(id: i128) -> serde_json::Value {
        serde_json::Value::from(id as i64)
    }
    fn bin(id: i128, out: &mut Vec<u8>) {
        out.extend_from_slice(&(id as i64).to_le_bytes())
    }
    fn ids_of(arr: &[Self], made: &[i128]) -> Vec<i128> {
        made.iter().copied().take(arr.len()).collect()
    }
}

// ------------------------------------------------------------------ scripted deserializer

struct Script {
    h0: i128,
    mode: i128,
    p: i128,
    tail: i128,
    items: Vec<i128>,
}

#[derive(Default)]
struct Ctl {
    calls: Cell<usize>,
    hint_calls: Cell<usize>,
    tuple_len: Cell<Option<usize>>,
    entered: Cell<usize>,
}

struct ScriptDe<'a> {
    sc: &'a Script,
    ctl: &'a Ctl,
}

impl<'de, 'a> Deserializer<'de> for ScriptDe<'a> {
    type Error = SErr;
    fn deserialize_any<V: Visitor<'de>>(self, v: V) -> Result<V::Value, SErr> {
        self.ctl.entered.set(self.ctl.entered.get() + 1);
        v.visit_seq(ScriptSeq { sc: self.sc, ctl: self.ctl })
    }
    fn deserialize_tuple<V: Visitor<'de>>(self, len: usize, v: V) -> Result<V::Value, SErr> {
        self.ctl.tuple_len.set(Some(len));
        self.deserialize_any(v)
    }
    serde::forward_to_deserialize_any! {
        bool i8 i16 i32 i64 i128 u8 u16 u32 u64 u128 f32 f64 char str string bytes byte_buf
        option unit unit_struct newtype_struct seq tuple_struct map struct enum identifier ignored_any
    }
}

struct ScriptSeq<'a> {
    sc: &'a Script,
    ctl: &'a Ctl,
}

impl<'de, 'a> SeqAccess<'de> for ScriptSeq<'a> {
    type Error = SErr;
    fn next_element_seed<S: DeserializeSeed<'de>>(&mut self, seed: S) -> Result<Option<S::Value>, SErr> {
        let k = self.ctl.calls.get();
        self.ctl.calls.set(k + 1);
        let it = self.sc.items.get(k).copied().unwrap_or(self.sc.tail);
        if it >= 0 || it == -3 {
            seed.deserialize(ElemDe(it)).map(Some)
        } else if it == -2 {
            Ok(None)
        } else {
            Err(SErr("scripted parse error".into()))
        }
    }
    fn size_hint(&self) -> Option<usize> {
        let c = self.ctl.hint_calls.get();
        self.ctl.hint_calls.set(c + 1);
        if c == 0 {
            if self.sc.h0 < 0 {
                None
            } else {
                Some(self.sc.h0 as usize)
            }
        } else {
            match self.sc.mode {
                1 => Some(std::cmp::max(0, self.sc.p - self.ctl.calls.get() as i128) as usize),
                2 => Some(self.sc.p as usize),
                _ => None,
            }
        }
    }
}

/// one element of the scripted input: a number, or (-3) something of the wrong type
struct ElemDe(i128);
impl<'de> Deserializer<'de> for ElemDe {
    type Error = SErr;
    fn deserialize_any<V: Visitor<'de>>(self, v: V) -> Result<V::Value, SErr> {
        if self.0 >= 0 {
            v.visit_u64(self.0 as u64)
        } else {
            v.visit_str("x")
        }
    }
    serde::forward_to_deserialize_any! {
        bool i8 i16 i32 i64 i128 u8 u16 u32 u64 u128 f32 f64 char str string bytes byte_buf
        option unit unit_struct newtype_struct seq tuple tuple_struct map struct enum identifier ignored_any
    }
}

// ------------------------------------------------------------------ recording serializer

struct Rec<'a>(&'a mut Vec<i128>);

macro_rules! rec_prim {
    ($($f:ident $t:ty),*) => {
        $(fn $f(self, v: $t) -> Result<(), SErr> {
            self.0.push(2);
            self.0.push(v as i128);
            Ok(())
        })*
    };
}

impl<'a> Rec<'a> {
    fn other(self) -> Result<(), SErr> {
        self.0.push(9);
        Ok(())
    }
}

impl<'a> Serializer for Rec<'a> {
    type Ok = ();
    type Error = SErr;
    type SerializeSeq = RecSeq<'a>;
    type SerializeTuple = RecSeq<'a>;
    type SerializeTupleStruct = Impossible<(), SErr>;
    type SerializeTupleVariant = Impossible<(), SErr>;
    type SerializeMap = Impossible<(), SErr>;
    type SerializeStruct = Impossible<(), SErr>;
    type SerializeStructVariant = Impossible<(), SErr>;
    rec_prim!(serialize_i8 i8, serialize_i16 i16, serialize_i32 i32, serialize_i64 i64,
              serialize_u8 u8, serialize_u16 u16, serialize_u32 u32, serialize_u64 u64,
              serialize_f32 f32, serialize_f64 f64);
    fn serialize_bool(self, _: bool) -> Result<(), SErr> {
        self.other()
    }
    fn serialize_char(self, _: char) -> Result<(), SErr> {
        self.other()
    }
    fn serialize_str(self, _: &str) -> Result<(), SErr> {
        self.other()
    }
    fn serialize_bytes(self, _: &[u8]) -> Result<(), SErr> {
        self.other()
    }
    fn serialize_none(self) -> Result<(), SErr> {
        self.other()
    }
    fn serialize_some<T: ?Sized + Serialize>(self, _: &T) -> Result<(), SErr> {
        self.other()
    }
    fn serialize_unit(self) -> Result<(), SErr> {
        self.other()
    }
    fn serialize_unit_struct(self, _: &'static str) -> Result<(), SErr> {
        self.other()
    }
    fn serialize_unit_variant(self, _: &'static str, _: u32, _: &'static str) -> Result<(), SErr> {
        self.other()
    }
    fn serialize_newtype_struct<T: ?Sized + Serialize>(self, _: &'static str, _: &T) -> Result<(), SErr> {
        self.other()
    }
    fn serialize_newtype_variant<T: ?Sized + Serialize>(
        self,
        _: &'static str,
        _: u32,
        _: &'static str,
        _: &T,
    ) -> Result<(), SErr> {
        self.other()
    }
    fn serialize_seq(self, len: Option<usize>) -> Result<RecSeq<'a>, SErr> {
        self.0.push(4);
        self.0.push(len.map(|l| l as i128).unwrap_or(-1));
        Ok(RecSeq { out: self.0, end: 5 })
    }
    fn serialize_tuple(self, len: usize) -> Result<RecSeq<'a>, SErr> {
        self.0.push(1);
        self.0.push(len as i128);
        Ok(RecSeq { out: self.0, end: 3 })
    }
    fn serialize_tuple_struct(self, _: &'static str, _: usize) -> Result<Self::SerializeTupleStruct, SErr> {
        self.0.push(9);
        Err(SErr("unsupported".into()))
    }
    fn serialize_tuple_variant(
        self,
        _: &'static str,
        _: u32,
        _: &'static str,
        _: usize,
    ) -> Result<Self::SerializeTupleVariant, SErr> {
        self.0.push(9);
        Err(SErr("unsupported".into()))
    }
    fn serialize_map(self, _: Option<usize>) -> Result<Self::SerializeMap, SErr> {
        self.0.push(9);
        Err(SErr("unsupported".into()))
    }
    fn serialize_struct(self, _: &'static str, _: usize) -> Result<Self::SerializeStruct, SErr> {
        self.0.push(9);
        Err(SErr("unsupported".into()))
    }
    fn serialize_struct_variant(
        self,
        _: &'static str,
        _: u32,
        _: &'static str,
        _: usize,
    ) -> Result<Self::SerializeStructVariant, SErr> {
        self.0.push(9);
        Err(SErr("unsupported".into()))
    }
}

struct RecSeq<'a> {
    out: &'a mut Vec<i128>,
    end: i128,
}
impl<'a> SerializeTuple for RecSeq<'a> {
    type Ok = ();
    type Error = SErr;
    fn serialize_element<T: ?Sized + Serialize>(&mut self, v: &T) -> Result<(), SErr> {
        v.serialize(Rec(&mut *self.out))
    }
    fn end(self) -> Result<(), SErr> {
        self.out.push(self.end);
        Ok(())
    }
}
impl<'a> SerializeSeq for RecSeq<'a> {
    type Ok = ();
    type Error = SErr;
    fn serialize_element<T: ?Sized + Serialize>(&mut self, v: &T) -> Result<(), SErr> {
        v.serialize(Rec(&mut *self.out))
    }
    fn end(self) -> Result<(), SErr> {
        self.out.push(self.end);
        Ok(())
    }
}

// ------------------------------------------------------------------ running one case

struct Parsed {
    fmt: i128,
    ty: i128,
    n: usize,
    sc: Script,
}

fn parse(case: &[i128]) -> Parsed {
    let m = case[7] as usize;
    Parsed {
        fmt: case[0],
        ty: case[1],
        n: case[2] as usize,
        sc: Script { h0: case[3], mode: case[4], p: case[5], tail: case[6], items: case[8..8 + m].to_vec() },
    }
}

fn all_valid(items: &[i128]) -> bool {
    items.iter().all(|x| *x >= 0)
}

fn json_text<T: El>(items: &[i128]) -> String {
    let parts: Vec<String> = items.iter().map(|i| if *i >= 0 { T::json(*i) } else { "\"x\"".to_string() }).collect();
    format!("[{}]", parts.join(","))
}

fn bin_bytes<T: El>(items: &[i128]) -> Vec<u8> {
    let mut out = vec![];
    for i in items {
        if *i >= 0 || T::TY >= 2 {
            T::bin(*i, &mut out)
        } else {
            break; // u8 / f64 have no unparsable encoding: the input is cut here
        }
    }
    out
}

fn value_of<T: El>(items: &[i128]) -> serde_json::Value {
    serde_json::Value::Array(
        items.iter().map(|i| if *i >= 0 { T::value(*i) } else { serde_json::Value::String("x".into()) }).collect(),
    )
}

/// direct oracles on the serializer through the real formats; returns the bincode bytes
fn ser_oracles<T: El, N: ArrayLength>(items: &[i128], orc: &mut Vec<String>) -> Vec<u8> {
    let arr: GenericArray<T, N> = GenericArray::from_iter(items.iter().map(|i| T::mk(*i)));
    let want_json = json_text::<T>(items);
    match serde_json::to_string(&arr) {
        Ok(s) if s == want_json => {}
        other => orc.push(format!("JSON text {:?} is not the tuple/list of the elements {}", other, want_json)),
    }
    let want_bin = bin_bytes::<T>(items);
    let got = match bincode::serialize(&arr) {
        Ok(b) => b,
        Err(e) => {
            orc.push(format!("bincode::serialize failed: {}", e));
            vec![]
        }
    };
    if got != want_bin {
        orc.push(format!("bincode bytes ({} bytes) are not the concatenated element encodings ({} bytes)", got.len(), want_bin.len()));
    }
    match bincode::serialized_size(&arr) {
        Ok(sz) if sz as usize == N::USIZE * T::SIZE => {}
        other => orc.push(format!("bincode serialized_size {:?} != N * element size {}", other.ok(), N::USIZE * T::SIZE)),
    }
    match serde_json::to_value(&arr) {
        Ok(v) if v == value_of::<T>(items) => {}
        other => orc.push(format!("serde_json::Value {:?} is not the array of the elements", other.ok())),
    }
    got
}

fn run<T: El, N: ArrayLength>(c: &Parsed, orc: &mut Vec<String>) -> Vec<i128> {
    let items = &c.sc.items;
    if c.fmt == 4 {
        let take: Vec<i128> = items.iter().copied().take(N::USIZE).collect();
        if take.len() != N::USIZE || !all_valid(&take) {
            return vec![-2];
        }
        let bytes = ser_oracles::<T, N>(&take, orc);
        let arr: GenericArray<T, N> = GenericArray::from_iter(take.iter().map(|i| T::mk(*i)));
        let mut toks = vec![];
        if let Err(e) = arr.serialize(Rec(&mut toks)) {
            orc.push(format!("recording serializer got an unsupported call: {}", e));
        }
        toks.push(bytes.len() as i128);
        toks.extend(bytes.iter().map(|b| if T::TY == 1 { -1 } else { *b as i128 }));
        return toks;
    }
    // serializer cross-check for inputs that are a well-formed array: the format's own output is
    // the input of the deserialisation below (round trip)
    let wellformed = items.len() == N::USIZE && all_valid(items);
    if wellformed && c.fmt != 0 && c.fmt != 5 && T::TY != 3 {
        let _ = ser_oracles::<T, N>(items, orc);
    }
    track::reset(1_000_000);
    let _ = zmade_take();
    let ctl = Ctl::default();
    let arr_bytes = std::mem::size_of::<GenericArray<T, N>>();
    let watch = c.fmt == 0 && arr_bytes >= 4096;
    if watch {
        LIVE_TARGET.store(0, std::sync::atomic::Ordering::Relaxed);
        TARGET.store(arr_bytes, std::sync::atomic::Ordering::Relaxed);
    }
    let res: Result<Result<GenericArray<T, N>, String>, String> = catch(|| match c.fmt {
        0 => GenericArray::<T, N>::deserialize(ScriptDe { sc: &c.sc, ctl: &ctl }).map_err(|e| e.to_string()),
        5 => {
            let mut place: GenericArray<T, N> = GenericArray::from_iter((0..N::USIZE).map(|_| T::mk(0)));
            <GenericArray<T, N> as Deserialize>::deserialize_in_place(ScriptDe { sc: &c.sc, ctl: &ctl }, &mut place).map(|()| place).map_err(|e| e.to_string())
        }
        1 => serde_json::from_str::<GenericArray<T, N>>(&json_text::<T>(items)).map_err(|e| e.to_string()),
        2 => bincode::deserialize::<GenericArray<T, N>>(&bin_bytes::<T>(items)).map_err(|e| e.to_string()),
        _ => serde_json::from_value::<GenericArray<T, N>>(value_of::<T>(items)).map_err(|e| e.to_string()),
    });
    if watch {
        TARGET.store(usize::MAX, std::sync::atomic::Ordering::Relaxed);
    }
    let during = track::log_from(0);
    let polls = if c.fmt == 0 || c.fmt == 5 { ctl.calls.get() as i128 } else { -1 };
    let mut drops: Vec<i128> = track::drops_sorted(&during).iter().map(|x| *x as i128).collect();
    let made = zmade_take();
    if T::TY == 3 {
        // zero-sized elements: the destructor runs are counted; they are given the identities of the
        // created elements that are not in the result when the count is what that requires
        let zd = during.iter().filter(|e| matches!(e, Ev::ZDrop)).count();
        let kept = match &res {
            Ok(Ok(_)) => std::cmp::min(N::USIZE, made.len()),
            _ => 0,
        };
        if zd == made.len() - kept {
            drops = made[kept..].to_vec();
            drops.sort();
        } else {
            orc.push(format!(
                "{} zero-sized elements were created, {} are in the result, but {} destructors ran before the result was handed back",
                made.len(), kept, zd
            ));
            drops = vec![-7; zd];
        }
    }
    let mut obs = vec![];
    match res {
        Err(m) => {
            orc.push(format!("deserialize panicked: {}", m));
            obs.push(-99);
        }
        Ok(Ok(arr)) => {
            obs.push(1);
            obs.push(arr.len() as i128);
            obs.extend(T::ids_of(&arr, &made));
            obs.push(polls);
            obs.push(drops.len() as i128);
            obs.extend(&drops);
            // an Ok array is the first N items of the input
            let got: Vec<i128> = T::ids_of(&arr, &made);
            let want: Vec<i128> = (0..N::USIZE).map(|k| items.get(k).copied().unwrap_or(c.sc.tail)).collect();
            if got != want {
                orc.push(format!("Ok array {:?} is not the first N items of the input", got));
            }
            if wellformed && got != *items {
                orc.push("round trip changed the array".to_string());
            }
            drop(arr);
        }
        Ok(Err(_)) => {
            obs.push(0);
            obs.push(0);
            obs.push(polls);
            obs.push(drops.len() as i128);
            obs.extend(&drops);
        }
    }
    if watch {
        // the result (array or error) is gone by now: no block of the array's size may be left
        let left = LIVE_TARGET.load(std::sync::atomic::Ordering::Relaxed);
        if left > 0 {
            orc.push(format!("{} heap block(s) of the array's size ({} bytes) requested during deserialize are still allocated after the result was dropped", left, arr_bytes));
        }
    }
    if c.fmt == 0 || c.fmt == 5 {
        if ctl.tuple_len.get() != Some(N::USIZE) {
            orc.push(format!("deserialize_tuple({}) expected, deserializer saw {:?}", N::USIZE, ctl.tuple_len.get()));
        }
        if ctl.entered.get() != 1 {
            orc.push(format!("deserializer entered {} times", ctl.entered.get()));
        }
    }
    // every created id dropped exactly once, nothing else dropped
    let log = track::take_log();
    let mut created: Vec<i64> = vec![];
    let mut dropped: Vec<i64> = vec![];
    for e in &log {
        match e {
            Ev::New(x) => created.push(*x),
            Ev::Drop(x) => dropped.push(*x),
            Ev::Clone(_, y) => created.push(*y),
            _ => {}
        }
    }
    let zn = log.iter().filter(|e| matches!(e, Ev::ZNew)).count();
    let zd = log.iter().filter(|e| matches!(e, Ev::ZDrop)).count();
    if zn != zd {
        orc.push(format!("{} zero-sized elements created but {} destructor runs by the end of the case", zn, zd));
    }
    created.sort();
    dropped.sort();
    if created != dropped {
        orc.push(format!("created ids {:?} but dropped ids {:?} by the end of the case", created, dropped));
    }
    obs
}

fn run_ty<T: El>(c: &Parsed, orc: &mut Vec<String>) -> Vec<i128> {
    dispatch_len!(
        c.n,
        [U0, U1, U2, U3, U4, U5, U8, U16, U33, U1024],
        |N| run::<T, N>(c, orc),
        panic!("length {} not monomorphised", c.n)
    )
}

fn do_case(case: Vec<i128>) {
    emit_case(&case);
    let c = parse(&case);
    let mut orc = vec![];
    let r = catch(|| match c.ty {
        0 => run_ty::<u8>(&c, &mut orc),
        1 => run_ty::<f64>(&c, &mut orc),
        3 => run_ty::<TzD>(&c, &mut orc),
        _ => run_ty::<TrD>(&c, &mut orc),
    });
    match r {
        Ok(obs) => {
            dist(&format!("fmt{}.{}", c.fmt, match obs.first() { Some(1) => "ok", Some(0) => "err", _ => "other" }));
            emit_obs(&obs)
        }
        Err(m) => {
            emit_obs(&[-99]);
            orc.push(format!("unexpected panic: {}", m));
        }
    }
    for o in orc {
        emit_oracle(&o);
    }
}

// ------------------------------------------------------------------ case generation

fn mk_case(fmt: i128, ty: i128, n: usize, h0: i128, mode: i128, p: i128, tail: i128, items: &[i128]) -> Vec<i128> {
    let mut c = vec![fmt, ty, n as i128, h0, mode, p, tail, items.len() as i128];
    c.extend(items);
    c
}

fn ids(base: i128, m: usize) -> Vec<i128> {
    (0..m).map(|k| base + k as i128).collect()
}

fn dedup(mut v: Vec<i128>) -> Vec<i128> {
    let mut out = vec![];
    for x in v.drain(..) {
        if !out.contains(&x) {
            out.push(x);
        }
    }
    out
}

fn dedup2(mut v: Vec<(i128, i128)>) -> Vec<(i128, i128)> {
    let mut out = vec![];
    for x in v.drain(..) {
        if !out.contains(&x) {
            out.push(x);
        }
    }
    out
}

/// fault positions to try in a script of m items for array length n
fn fault_positions(n: usize, m: usize, full: bool) -> Vec<usize> {
    if full {
        return (0..m).collect();
    }
    let cand = [0usize, 1, n / 2, n.saturating_sub(2), n.saturating_sub(1), n, n + 1];
    let mut out = vec![];
    for c in cand {
        if c < m && !out.contains(&c) {
            out.push(c);
        }
    }
    out
}

fn scripted_cases(n: usize, ty: i128, full: bool, all_positions: bool) {
    let ms: Vec<usize> = if full {
        (0..=n + 2).collect()
    } else {
        let mut v = vec![0, 1, n.saturating_sub(1), n, n + 1, n + 2];
        v.sort();
        v.dedup();
        v
    };
    for m in ms {
        let base = ids(10, m);
        let h0s = dedup(vec![-1, n as i128, n as i128 - 1, n as i128 + 1, m as i128, 0]);
        let has = dedup2(vec![(0, 0), (1, m as i128), (2, 0), (2, 7), (1, n as i128)]);
        for h0 in &h0s {
            let rejecting = *h0 >= 0 && *h0 != n as i128;
            if *h0 < -1 {
                continue;
            }
            for (mode, p) in &has {
                if rejecting && !full && *mode != 0 {
                    continue;
                }
                let tails: &[i128] = if full { &[-2, -1] } else { &[-2] };
                for tail in tails {
                    dist(&format!("scripted.N{}", n));
                    do_case(mk_case(0, ty, n, *h0, *mode, *p, *tail, &base));
                    if ty < 2 {
                        // the same script entered through deserialize_in_place
                        dist("scripted.in_place");
                        do_case(mk_case(5, ty, n, *h0, *mode, *p, *tail, &base));
                    }
                    let pos = if rejecting && !full {
                        fault_positions(n, m, false).into_iter().take(1).collect()
                    } else {
                        fault_positions(n, m, full || all_positions)
                    };
                    for k in pos {
                        for bad in [-1, -2, -3] {
                            let mut it = base.clone();
                            it[k] = bad;
                            dist(&format!("scripted.fault{}", bad));
                            do_case(mk_case(0, ty, n, *h0, *mode, *p, *tail, &it));
                        }
                    }
                }
            }
        }
    }
}

fn format_cases(n: usize, ty: i128, full: bool) {
    for m in 0..=n + 2 {
        let base = ids(20, m);
        // JSON: no hints, the list ends with `]`
        do_case(mk_case(1, ty, n, -1, 0, 0, -2, &base));
        // Value: exact countdown from the number of elements offered
        do_case(mk_case(3, ty, n, m as i128, 1, m as i128, -2, &base));
        // bincode: countdown from N whatever follows; reading past the end fails
        do_case(mk_case(2, ty, n, n as i128, 1, n as i128, -1, &base));
        for k in fault_positions(n, m, full) {
            let mut it = base.clone();
            it[k] = -1;
            do_case(mk_case(1, ty, n, -1, 0, 0, -2, &it));
            do_case(mk_case(3, ty, n, m as i128, 1, m as i128, -2, &it));
            if ty >= 2 {
                do_case(mk_case(2, ty, n, n as i128, 1, n as i128, -1, &it));
            }
        }
    }
    if ty != 3 {
        do_case(mk_case(4, ty, n, 0, 0, 0, 0, &ids(30, n)));
    }
}

/// `--bomb` (a C05 run): deserialising drop-tracked elements from an unhinted scripted source that turns out too short,
/// too long, or faulty at some position -- so that the elements already read are torn down inside the call -- while the
/// destructor of ONE of them panics.  Direct oracle: no identity is released twice (leaks are allowed by C05), whatever
/// the crate does between reading and rejecting.   CASE [-5, N, m, fault (-9 none), bomb]   OBS [outcome, drops]
fn bomb_cases() {
    fn one<N: ArrayLength>(n: usize, m: usize, fault: i128, bomb: i64) {
        emit_case(&[-5, n as i128, m as i128, fault, bomb as i128]);
        let mut items: Vec<i128> = (0..m as i128).collect();
        let mut tail = -2;
        if fault >= 0 && (fault as usize) < m {
            items[fault as usize] = -3; // an element of the wrong type at that position
        } else if fault >= 0 {
            tail = -1; // the source itself fails after the m items
        }
        let sc = Script { h0: -1, mode: 0, p: 0, tail, items };
        let ctl = Ctl::default();
        track::reset(1_000_000);
        track::arm_drop(if bomb >= 0 { Some(bomb) } else { None });
        let res = catch(std::panic::AssertUnwindSafe(|| GenericArray::<TrD, N>::deserialize(ScriptDe { sc: &sc, ctl: &ctl }).map_err(|e| e.to_string())));
        let outcome = match res {
            Ok(Ok(arr)) => {
                let r = catch(std::panic::AssertUnwindSafe(move || drop(arr)));
                if r.is_ok() { 1 } else { 7 }
            }
            Ok(Err(_)) => 0,
            Err(_) => 6,
        };
        track::arm_drop(None);
        let drops = track::drops_sorted(&track::log_from(0));
        emit_obs(&[outcome, drops.len() as i128]);
        for w in drops.windows(2) {
            if w[0] == w[1] {
                emit_oracle(&format!("N = {}, {} items offered, fault {}, destructor of {} panics: element {} released twice", n, m, fault, bomb, w[0]));
                break;
            }
        }
    }
    for n in [1usize, 2, 3, 5] {
        for m in [n.saturating_sub(1), n, n + 1, n + 2] {
            for fault in [-9i128, 0, (n as i128) - 1, n as i128, m as i128] {
                for bomb in -1..(m.min(n + 1) as i64) {
                    dist("bomb");
                    harness::dispatch_len!(n, [U1, U2, U3, U5], |N| one::<N>(n, m, fault, bomb), panic!("length"));
                }
            }
        }
    }
    flush_dist();
}

/// `--inplace` (a C03 / C17 run): `deserialize_in_place` into an array that HOLDS drop-tracked elements (identities
/// 500..500+N), from an unhinted scripted source of m items (too short, exact, too long) with an optional fault.
/// Nothing panics.  Direct oracle: by the time the place is dropped every identity that was created -- the old contents
/// and every element read -- has been released exactly once; on Ok the place holds the m = N items in order.
/// CASE [-6, N, m, fault (-9 none)]   OBS [outcome, created, released]
fn inplace_cases() {
    fn one<N: ArrayLength>(n: usize, m: usize, fault: i128) {
        emit_case(&[-6, n as i128, m as i128, fault]);
        let mut items: Vec<i128> = (0..m as i128).collect();
        let mut tail = -2;
        if fault >= 0 && (fault as usize) < m {
            items[fault as usize] = -3;
        } else if fault >= 0 {
            tail = -1;
        }
        let sc = Script { h0: -1, mode: 0, p: 0, tail, items };
        let ctl = Ctl::default();
        track::reset(1_000_000);
        let mut place: GenericArray<TrD, N> = GenericArray::from_iter((0..N::USIZE).map(|i| TrD(Tr::new(500 + i as i64))));
        let res = catch(std::panic::AssertUnwindSafe(|| {
            <GenericArray<TrD, N> as Deserialize>::deserialize_in_place(ScriptDe { sc: &sc, ctl: &ctl }, &mut place).map_err(|e| e.to_string())
        }));
        let held: Vec<i64> = place.iter().map(|t| t.0.id).collect();
        let outcome = match &res {
            Ok(Ok(())) => 1,
            Ok(Err(_)) => 0,
            Err(_) => 6,
        };
        drop(place);
        let mut created: Vec<i64> = vec![];
        let mut dropped: Vec<i64> = vec![];
        for e in track::log_from(0) {
            match e {
                Ev::New(x) => created.push(x),
                Ev::Drop(x) => dropped.push(x),
                _ => {}
            }
        }
        created.sort();
        dropped.sort();
        emit_obs(&[outcome, created.len() as i128, dropped.len() as i128]);
        if created != dropped {
            emit_oracle(&format!("deserialize_in_place (N = {}, {} items, fault {}): created {:?}, released {:?}", n, m, fault, created, dropped));
        }
        if outcome == 1 && (m != n || held != (0..n as i64).collect::<Vec<_>>()) {
            emit_oracle(&format!("deserialize_in_place (N = {}, {} items): Ok with the place holding {:?}", n, m, held));
        }
        if outcome == 6 {
            emit_oracle("deserialize_in_place panicked although nothing was armed");
        }
    }
    for n in [1usize, 2, 3, 5] {
        for m in [0, n.saturating_sub(1), n, n + 1, n + 2] {
            for fault in [-9i128, 0, (n as i128) - 1, n as i128, m as i128] {
                dist("inplace");
                harness::dispatch_len!(n, [U1, U2, U3, U5], |N| one::<N>(n, m, fault), panic!("length"));
            }
        }
    }
    flush_dist();
}

fn main() {
    let a = args();
    quiet_panics();
    if a.extra.iter().any(|x| x == "--inplace") {
        inplace_cases();
        return;
    }
    if a.extra.iter().any(|x| x == "--bomb") {
        bomb_cases();
        return;
    }
    if let Some(c) = a.replay {
        do_case(c);
        return;
    }
    let thorough = a.tier == "thorough";
    let lattice = [0usize, 1, 2, 3, 5, 8, 16, 33];
    let full_upto = if thorough { 8 } else { 3 };
    for n in lattice {
        for ty in 0..4 {
            // thorough: every fault index also for the long arrays (tails/hints fully crossed for N <= 8)
            scripted_cases(n, ty, n <= full_upto, thorough);
            format_cases(n, ty, n <= full_upto || thorough);
        }
    }
    // arrays larger than a page (8-byte elements x 1024): exact, one short, one / two surplus elements, a parse
    // error and an early end at a few positions; no hints and exact hints
    {
        let n = 1024usize;
        for ty in [1i128, 2, 3] {
            for m in [n - 1, n, n + 1, n + 2] {
                let base = ids(10, m);
                for (h0, mode, p) in [(-1i128, 0i128, 0i128), (n as i128, 1, m as i128), (-1, 2, 7)] {
                    dist("scripted.N1024");
                    do_case(mk_case(0, ty, n, h0, mode, p, -2, &base));
                }
                for k in [0usize, 1, n / 2, n - 2] {
                    for bad in [-1i128, -2] {
                        let mut it = base.clone();
                        it[k] = bad;
                        dist("scripted.N1024");
                        do_case(mk_case(0, ty, n, -1, 0, 0, -2, &it));
                    }
                }
                if ty != 3 {
                    do_case(mk_case(1, ty, n, -1, 0, 0, -2, &base));
                    do_case(mk_case(3, ty, n, m as i128, 1, m as i128, -2, &base));
                }
            }
        }
    }
    // seeded scripts
    let mut rng = Rng::new(a.seed);
    let count = if thorough { 400000 } else { 4000 };
    for _ in 0..count {
        let n = lattice[rng.below(lattice.len() as u64) as usize];
        let ty = rng.below(4) as i128;
        let m = match rng.below(6) {
            0 => rng.below(n as u64 + 4) as usize,
            1 => n + 1,
            2 => n.saturating_sub(1),
            _ => n,
        };
        let fmt = match rng.below(10) {
            0 => 1,
            1 => 2,
            2 => 3,
            3 => 4,
            _ => 0,
        };
        let base = 1 + rng.below(150) as i128;
        let mut items = ids(base, m);
        if ty == 0 && rng.chance(1, 2) {
            // u8 values may repeat and cover the whole range
            for x in items.iter_mut() {
                *x = rng.below(256) as i128;
            }
        }
        if fmt == 4 && ty != 3 {
            let it = ids(base, n);
            do_case(mk_case(4, ty, n, 0, 0, 0, 0, &it));
            continue;
        }
        let nfaults = match rng.below(4) {
            0 => 0,
            1 | 2 => 1,
            _ => 2,
        };
        for _ in 0..nfaults {
            if m > 0 {
                let k = if rng.chance(1, 3) { std::cmp::min(m - 1, n) } else { rng.below(m as u64) as usize };
                items[k] = match fmt {
                    0 => [-1, -2, -3][rng.below(3) as usize],
                    2 => {
                        if ty >= 2 {
                            -1
                        } else {
                            items[k]
                        }
                    }
                    _ => -1,
                };
            }
        }
        let case = match fmt {
            1 => mk_case(1, ty, n, -1, 0, 0, -2, &items),
            2 => mk_case(2, ty, n, n as i128, 1, n as i128, -1, &items),
            3 => mk_case(3, ty, n, m as i128, 1, m as i128, -2, &items),
            _ => {
                let h0 = match rng.below(8) {
                    0 | 1 | 2 => -1,
                    3 | 4 | 5 => n as i128,
                    6 => m as i128,
                    _ => rng.below(n as u64 + 3) as i128,
                };
                let (mode, p) = match rng.below(6) {
                    0 | 1 => (0, 0),
                    2 => (1, m as i128),
                    3 => (1, rng.below(n as u64 + 3) as i128),
                    4 => (2, 0),
                    _ => (2, rng.below(n as u64 + 3) as i128),
                };
                let tail = [-2, -2, -2, -1, -3, 77][rng.below(6) as usize];
                mk_case(0, ty, n, h0, mode, p, tail, &items)
            }
        };
        dist(&format!("seeded.fmt{}.N{}", fmt, n));
        do_case(case);
    }
    flush_dist();
    note("formats: JSON text offers no size hints; bincode 1.3 counts down exactly from the tuple length and ignores trailing bytes; serde_json::Value counts down exactly from the number of elements it holds");
}

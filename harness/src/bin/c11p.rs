//! C11 (caller probes): the reference forms of flatten / unflatten called with METHOD syntax from code
//! that is generic over the lengths and states only the bounds the traits themselves ask for (plus
//! `Copy` of the source, which an element type like u32 gives every such caller).  One program,
//! compiled separately by rustc against the current crate (harness::probe); it prints the cases in
//! the encoding of the main C11 binary (coq/theories/CorrC11.v), so the same model answers them.
//!
//! What this adds: method probing.  If a by-reference impl asks for more than the trait documents, the
//! call `buf.unflatten()` does not fail in such a caller: probing skips the reference impl, derefs, and
//! picks the OWNED impl on a copy of `*buf` -- the result is then not a view (different address, writes
//! lost).  UFCS calls as in the main binary turn the same change into a build failure of the harness.
use harness::probe::Probe;
use harness::*;

const PROGRAM: &str = r#"
#![allow(warnings)]
use core::ops::{Div, Mul};
use generic_array::sequence::{Flatten, GenericSequence, Unflatten};
use generic_array::typenum::*;
use generic_array::{ArrayLength, GenericArray};
use std::mem::size_of_val;

/// whatever the method call returned (a reference, a mutable reference, or -- if probing fell through to
/// the owned impl -- a value): a shared view of it
trait View { type Target; fn view(&self) -> &Self::Target; }
impl<'a, X> View for &'a X { type Target = X; fn view(&self) -> &X { &**self } }
impl<'a, X> View for &'a mut X { type Target = X; fn view(&self) -> &X { &**self } }
impl<T, N: ArrayLength> View for GenericArray<T, N> { type Target = GenericArray<T, N>; fn view(&self) -> &Self { self } }

fn line(tag: &str, v: &[i128]) { let s: Vec<String> = v.iter().map(|x| x.to_string()).collect(); println!("{} {}", tag, s.join(" ")); }

fn nested_obs<N: ArrayLength, Q: ArrayLength>(r: &GenericArray<GenericArray<u32, N>, Q>, base: isize, out: &mut Vec<i128>) {
    out.push(0);
    out.push((r as *const _ as *const u8 as isize - base) as i128);
    out.push(size_of_val(r) as i128);
    out.push(r.as_slice().len() as i128);
    out.push(N::USIZE as i128);
    for row in r.as_slice() { for e in row.as_slice() { out.push(*e as i128); } }
}
fn flat_obs<K: ArrayLength>(r: &GenericArray<u32, K>, base: isize, out: &mut Vec<i128>) {
    out.push(0);
    out.push((r as *const _ as *const u8 as isize - base) as i128);
    out.push(size_of_val(r) as i128);
    out.push(r.as_slice().len() as i128);
    for e in r.as_slice() { out.push(*e as i128); }
}

// ---- unflatten: only the bounds of `Unflatten<T, NM, N>` ----
fn unfl_ref<NM, N>(wi: usize, wv: u32)
where NM: ArrayLength + Div<N>, N: ArrayLength, Quot<NM, N>: ArrayLength, GenericArray<u32, NM>: Copy,
{
    let src: GenericArray<u32, NM> = GenericArray::generate(|k| 7 * k as u32 + 3);
    let base = &src as *const _ as *const u8 as isize;
    line("CASE", &[4, 0, 4, NM::USIZE as i128, N::USIZE as i128, wi as i128, wv as i128]);
    let buf = &src;
    let rows = buf.unflatten();
    let v: &GenericArray<GenericArray<u32, N>, Quot<NM, N>> = rows.view();
    let mut out = vec![];
    nested_obs(v, base, &mut out);
    line("OBS", &out);
    if out[1] != 0 { println!("ORACLE generic caller, method syntax: the unflattened & view is at offset {} of the source, not the source itself", out[1]); }
}
fn unfl_mut<NM, N>(wi: usize, wv: u32)
where NM: ArrayLength + Div<N>, N: ArrayLength, Quot<NM, N>: ArrayLength, GenericArray<u32, NM>: Copy,
{
    let mut src: GenericArray<u32, NM> = GenericArray::generate(|k| 7 * k as u32 + 3);
    let base = &src as *const _ as *const u8 as isize;
    line("CASE", &[5, 0, 4, NM::USIZE as i128, N::USIZE as i128, wi as i128, wv as i128]);
    let mut out = vec![];
    {
        let buf = &mut src;
        let mut rows = buf.unflatten();
        { let v: &GenericArray<GenericArray<u32, N>, Quot<NM, N>> = rows.view(); nested_obs(v, base, &mut out); }
        if wi < NM::USIZE {
            let target: &mut GenericArray<u32, N> = &mut rows[wi / N::USIZE];
            target[wi % N::USIZE] = wv;
        }
    }
    for e in src.as_slice() { out.push(*e as i128); }
    line("OBS", &out);
    if wi < NM::USIZE && src[wi] != wv { println!("ORACLE generic caller, method syntax: a write through the unflattened &mut view is lost (flat index {})", wi); }
}

// ---- flatten: only the bounds of `Flatten<T, N, M>` ----
fn fl_ref<N, M>(wi: usize, wv: u32)
where N: ArrayLength + Mul<M>, M: ArrayLength, Prod<N, M>: ArrayLength, GenericArray<GenericArray<u32, N>, M>: Copy,
{
    let src: GenericArray<GenericArray<u32, N>, M> = GenericArray::generate(|i| GenericArray::generate(|j| 1000 * i as u32 + j as u32));
    let base = &src as *const _ as *const u8 as isize;
    line("CASE", &[1, 0, 4, N::USIZE as i128, M::USIZE as i128, wi as i128, wv as i128]);
    let buf = &src;
    let flat = buf.flatten();
    let v: &GenericArray<u32, Prod<N, M>> = flat.view();
    let mut out = vec![];
    flat_obs(v, base, &mut out);
    line("OBS", &out);
    if out[1] != 0 { println!("ORACLE generic caller, method syntax: the flattened & view is at offset {} of the source", out[1]); }
}
fn fl_mut<N, M>(wi: usize, wv: u32)
where N: ArrayLength + Mul<M>, M: ArrayLength, Prod<N, M>: ArrayLength, GenericArray<GenericArray<u32, N>, M>: Copy,
{
    let mut src: GenericArray<GenericArray<u32, N>, M> = GenericArray::generate(|i| GenericArray::generate(|j| 1000 * i as u32 + j as u32));
    let base = &src as *const _ as *const u8 as isize;
    line("CASE", &[2, 0, 4, N::USIZE as i128, M::USIZE as i128, wi as i128, wv as i128]);
    let mut out = vec![];
    {
        let buf = &mut src;
        let mut flat = buf.flatten();
        { let v: &GenericArray<u32, Prod<N, M>> = flat.view(); flat_obs(v, base, &mut out); }
        if wi < N::USIZE * M::USIZE { flat[wi] = wv; }
    }
    for row in src.as_slice() { for e in row.as_slice() { out.push(*e as i128); } }
    line("OBS", &out);
    if wi < N::USIZE * M::USIZE && src[wi / N::USIZE][wi % N::USIZE] != wv { println!("ORACLE generic caller, method syntax: a write through the flattened &mut view is lost (flat index {})", wi); }
}

macro_rules! each { ($f:ident; $(($a:ty, $b:ty, $wi:expr)),*) => { $( $f::<$a, $b>($wi, 900_000 + $wi as u32); )* } }

fn main() {
    each!(unfl_ref; (U0, U1, 0), (U1, U1, 0), (U6, U1, 0), (U6, U2, 0), (U6, U3, 0), (U6, U6, 0), (U12, U4, 0), (U12, U3, 0), (U36, U9, 0), (U35, U5, 0), (U1024, U16, 0));
    each!(unfl_mut; (U0, U1, 0), (U1, U1, 0), (U6, U1, 5), (U6, U2, 3), (U6, U3, 4), (U6, U6, 0), (U12, U4, 9), (U12, U3, 11), (U36, U9, 17), (U35, U5, 34), (U1024, U16, 1000));
    each!(fl_ref; (U0, U0, 0), (U0, U3, 0), (U3, U0, 0), (U1, U1, 0), (U2, U3, 0), (U3, U2, 0), (U6, U6, 0), (U1, U6, 0), (U16, U64, 0));
    each!(fl_mut; (U0, U0, 0), (U0, U3, 0), (U3, U0, 0), (U1, U1, 0), (U2, U3, 4), (U3, U2, 5), (U6, U6, 20), (U1, U6, 3), (U16, U64, 1000));
}
"#;

/// elements that are themselves arrays, result types NOT annotated: regrouping removes / adds exactly one level
const PROGRAM_NESTED: &str = r#"
#![allow(warnings)]
use generic_array::sequence::{Flatten, GenericSequence, Unflatten};
use generic_array::typenum::*;
use generic_array::GenericArray;
type E = GenericArray<u8, U2>;
fn main() {
    let mut src: GenericArray<GenericArray<E, U3>, U2> =
        GenericArray::generate(|i| GenericArray::generate(|j| GenericArray::generate(|k| (100 * i + 10 * j + k) as u8)));
    let want: Vec<[u8; 2]> = (0..2).flat_map(|i| (0..3).map(move |j| [(100 * i + 10 * j) as u8, (100 * i + 10 * j + 1) as u8])).collect();
    let base = &src as *const _ as usize;
    {
        let f = (&src).flatten();
        let got: Vec<[u8; 2]> = f.iter().map(|e| [e[0], e[1]]).collect();
        println!("ref {} {} {}", f.len(), (f as *const _ as usize) == base, got == want);
    }
    {
        let f = (&mut src).flatten();
        f[4][1] = 77;
        println!("mut {}", f.len());
    }
    println!("wrote {}", src[1][1][1]);
    let o = src.clone().flatten();
    println!("owned {} {}", o.len(), o[4][1]);
    let back: GenericArray<GenericArray<E, U3>, U2> = o.unflatten();
    println!("back {}", back == src);
}
"#;

fn nested(p: &Probe) {
    emit_case(&[9, 0]);
    dist("nested-elements");
    match p.compile_and_run("c11p_nested", PROGRAM_NESTED) {
        Ok(out) if out == "ref 6 true true\nmut 6\nwrote 77\nowned 6 77\nback true\n" => emit_obs(&[1]),
        Ok(out) => {
            emit_obs(&[0]);
            emit_oracle(&format!("flatten / unflatten over elements that are arrays themselves printed {:?}", out));
        }
        Err(e) => {
            emit_obs(&[-1]);
            emit_oracle(&format!("flatten / unflatten of an array whose elements are arrays themselves, result types not annotated, is rejected: {}", e.chars().take(400).collect::<String>()));
        }
    }
    flush_dist();
}

fn main() {
    let a = args();
    let p = Probe::new("c11p");
    if a.extra.iter().any(|x| x == "--nested") {
        nested(&p);
        return;
    }
    note(&format!("rlib {}", p.rlib.display()));
    match p.compile_and_run("c11p_probe", PROGRAM) {
        Ok(out) => {
            let mut n = 0;
            for l in out.lines() {
                if l.starts_with("CASE ") {
                    n += 1;
                    dist(["", "flatten.ref", "flatten.mut", "", "unflatten.ref", "unflatten.mut"][l.split_whitespace().nth(1).and_then(|x| x.parse::<usize>().ok()).unwrap_or(0)]);
                }
                println!("{}", l);
            }
            note(&format!("{} cases from the generic-caller probe", n));
        }
        Err(e) => {
            // the first case of the program, so that the failure has an input to name
            emit_case(&[4, 0, 4, 6, 2, 0, 900_000]);
            emit_obs(&[-1]);
            emit_oracle(&format!(
                "a caller generic over the lengths that states only the bounds of Flatten / Unflatten (and Copy of the source) and calls the reference forms with method syntax is rejected or fails: {}",
                e.chars().take(500).collect::<String>()
            ));
        }
    }
    flush_dist();
}

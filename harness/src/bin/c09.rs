//! C09: Lengthen / Shorten / Split (owned, &, &mut) / Concat / Remove of src/sequence.rs
//! against the hub model (coq/theories/SeqOps.v) and against Vec.
//!
//! Case: [op, kind, N, p, e_0 .. e_{N-1}, extra ...]
//!   op   0 append(p)  1 prepend(p)  2 pop_back  3 pop_front  4 split at K=p (owned)
//!        5 split (&)  6 split (&mut) then both halves reversed in place through the references
//!        7 concat (p = M, extra = right operand)  8 remove(p)  9 swap_remove(p)
//!        10 remove_unchecked(p)  11 swap_remove_unchecked(p)   (only run for p < N)
//!   kind 0 Tz (size 0, tracked; identities all 0)  1 u8  2 u64  3 [u64;3]  4 Tr (tracked)
//!        5 Tb (ONE byte, alignment 1, tracked: a byte-sized element with a destructor)
//! OBS:  status (0 ok | 1 bounds panic | 2 other panic), on ok the result parts
//!       (arrays as [len, ids...]; removed value first; by-reference halves as
//!       [byte offset from the source's first element, len, ids seen...]; for &mut additionally
//!       the source after the in-place reversals), then [count, sorted ids] of the destructors
//!       that ran DURING the operation (tracked kinds; [0] for plain kinds).
//! ORACLE: the same parts computed with Vec::{push, insert(0), pop, remove(0), split_at, extend,
//!       remove, swap_remove}; no destructor during a non-panicking operation; on the bounds panic
//!       exactly the elements dropped; every created Tr/Tz dropped exactly once by the end.
//!
//! `--sanitize` (second run): rebuilds this bin with the nightly toolchain under AddressSanitizer
//! and forwards the child's records, so that an out-of-bounds read whose value is discarded
//! (right answer, wrong access) aborts on the case that was running.  `--miri` (thorough tier):
//! the cases with N <= 4 interpreted by Miri (aliasing of the by-reference halves, uninitialised
//! reads, out-of-bounds accesses of any size).
use generic_array::sequence::*;
use generic_array::typenum::*;
use generic_array::{ArrayLength, GenericArray};
use harness::track::{self, Ev, Tb, Tr, Tz};
use harness::*;

trait Elem: Sized {
    const KIND: i128;
    const TRACKED: bool;
    fn make(id: i64) -> Self;
    fn id(&self) -> i64;
}
impl Elem for Tz {
    const KIND: i128 = 0;
    const TRACKED: bool = true;
    fn make(_: i64) -> Self {
        Tz::new()
    }
    fn id(&self) -> i64 {
        0
    }
}
impl Elem for u8 {
    const KIND: i128 = 1;
    const TRACKED: bool = false;
    fn make(id: i64) -> Self {
        id as u8
    }
    fn id(&self) -> i64 {
        *self as i64
    }
}
impl Elem for u64 {
    const KIND: i128 = 2;
    const TRACKED: bool = false;
    fn make(id: i64) -> Self {
        id as u64
    }
    fn id(&self) -> i64 {
        *self as i64
    }
}
impl Elem for [u64; 3] {
    const KIND: i128 = 3;
    const TRACKED: bool = false;
    fn make(id: i64) -> Self {
        let x = id as u64;
        [x, x ^ 0xA5A5_A5A5_A5A5_A5A5, !x]
    }
    fn id(&self) -> i64 {
        // a torn element (words of different elements) has no identity
        if self[1] == self[0] ^ 0xA5A5_A5A5_A5A5_A5A5 && self[2] == !self[0] {
            self[0] as i64
        } else {
            -7
        }
    }
}
impl Elem for Tr {
    const KIND: i128 = 4;
    const TRACKED: bool = true;
    fn make(id: i64) -> Self {
        Tr::new(id)
    }
    fn id(&self) -> i64 {
        self.id
    }
}

impl Elem for Tb {
    const KIND: i128 = 5;
    const TRACKED: bool = true;
    fn make(id: i64) -> Self {
        Tb::new(id)
    }
    fn id(&self) -> i64 {
        self.0 as i64
    }
}

struct Ctx {
    op: i128,
    n: usize,
    p: i128,
    ids: Vec<i64>,
    extra: Vec<i64>,
}

struct Out {
    obs: Vec<i128>,
    oracle: Vec<String>,
}

fn unsupported() -> Out {
    Out { obs: vec![-98], oracle: vec!["length combination not monomorphised in the harness".into()] }
}

fn build<T: Elem, N: ArrayLength>(ids: &[i64]) -> GenericArray<T, N> {
    GenericArray::<T, N>::generate(|i| T::make(ids[i]))
}

fn enc_arr<T: Elem>(s: &[T]) -> Vec<i128> {
    let mut v = vec![s.len() as i128];
    v.extend(s.iter().map(|e| e.id() as i128));
    v
}

fn enc_ids(s: &[i64]) -> Vec<i128> {
    let mut v = vec![s.len() as i128];
    v.extend(s.iter().map(|e| *e as i128));
    v
}

enum Exp {
    Ok(Vec<i128>),
    Bounds,
}

/// The reference: the same operation on a Vec with the same contents.
fn expected(c: &Ctx, sz: usize) -> Exp {
    let mut v: Vec<i64> = c.ids.clone();
    let mut out: Vec<i128> = vec![];
    match c.op {
        0 => {
            v.push(c.p as i64);
            out.extend(enc_ids(&v));
        }
        1 => {
            v.insert(0, c.p as i64);
            out.extend(enc_ids(&v));
        }
        2 => {
            let x = v.pop().unwrap();
            out.push(x as i128);
            out.extend(enc_ids(&v));
        }
        3 => {
            let x = v.remove(0);
            out.push(x as i128);
            out.extend(enc_ids(&v));
        }
        4 => {
            let (a, b) = v.split_at(c.p as usize);
            out.extend(enc_ids(a));
            out.extend(enc_ids(b));
        }
        5 | 6 => {
            let k = c.p as usize;
            {
                let (a, b) = v.split_at_mut(k);
                out.push(0);
                out.extend(enc_ids(a));
                out.push((k * sz) as i128);
                out.extend(enc_ids(b));
                if c.op == 6 {
                    a.reverse();
                    b.reverse();
                }
            }
            if c.op == 6 {
                out.extend(enc_ids(&v));
            }
        }
        7 => {
            v.extend(c.extra.iter().copied());
            out.extend(enc_ids(&v));
        }
        8 | 10 => {
            if c.p >= c.n as i128 {
                return Exp::Bounds;
            }
            let x = v.remove(c.p as usize);
            out.push(x as i128);
            out.extend(enc_ids(&v));
        }
        _ => {
            if c.p >= c.n as i128 {
                return Exp::Bounds;
            }
            let x = v.swap_remove(c.p as usize);
            out.push(x as i128);
            out.extend(enc_ids(&v));
        }
    }
    Exp::Ok(out)
}

fn is_bounds_msg(m: &str) -> bool {
    m.starts_with("Index out of bounds: the len is")
}

fn drops_during<T: Elem>(evs: &[Ev]) -> Vec<i128> {
    if T::KIND == 0 {
        evs.iter().filter(|e| matches!(e, Ev::ZDrop)).map(|_| 0i128).collect()
    } else {
        track::drops_sorted(evs).into_iter().map(|x| x as i128).collect()
    }
}

/// Encode the observables, apply the direct oracles, do the final drop accounting.
/// Everything the case created must already be dropped when this is called.
fn finish<T: Elem>(c: &Ctx, res: Result<Vec<i128>, String>, during: Vec<Ev>) -> Out {
    let mut oracle = vec![];
    let d = drops_during::<T>(&during);
    match (&res, expected(c, std::mem::size_of::<T>())) {
        (Ok(body), Exp::Ok(e)) => {
            if *body != e {
                oracle.push(format!("result {:?} but the Vec operation gives {:?}", body, e));
            }
            if T::TRACKED && !d.is_empty() {
                oracle.push(format!("destructors ran during a non-panicking operation: {:?}", d));
            }
        }
        (Ok(body), Exp::Bounds) => {
            oracle.push(format!("index {} >= N = {} was accepted, result {:?}", c.p, c.n, body))
        }
        (Err(m), Exp::Bounds) => {
            if !is_bounds_msg(m) {
                oracle.push(format!("out-of-range index panicked with an unexpected message: {}", m));
            }
            if T::TRACKED {
                let mut want: Vec<i128> = c.ids.iter().map(|x| *x as i128).collect();
                want.sort();
                if d != want {
                    oracle.push(format!("bounds panic dropped {:?}, the array held {:?}", d, want));
                }
            }
        }
        (Err(m), Exp::Ok(_)) => oracle.push(format!("unexpected panic: {}", m)),
    }
    let mut obs = vec![];
    match res {
        Ok(body) => {
            obs.push(0);
            obs.extend(body);
        }
        Err(m) => obs.push(if is_bounds_msg(&m) { 1 } else { 2 }),
    }
    if T::TRACKED {
        obs.push(d.len() as i128);
        obs.extend(d);
    } else {
        obs.push(0);
    }
    // every element created in this case was dropped exactly once
    let log = track::take_log();
    if T::KIND == 4 {
        let mut created: Vec<i64> =
            log.iter().filter_map(|e| if let Ev::New(x) = e { Some(*x) } else { None }).collect();
        created.sort();
        let dropped = track::drops_sorted(&log);
        if created != dropped {
            oracle.push(format!("created {:?} but dropped {:?} by the end of the case", created, dropped));
        }
    }
    if T::KIND == 0 {
        let made = log.iter().filter(|e| matches!(e, Ev::ZNew)).count();
        let gone = log.iter().filter(|e| matches!(e, Ev::ZDrop)).count();
        if made != gone || track::zlive() != 0 {
            oracle.push(format!("{} zero-sized elements created, {} dropped", made, gone));
        }
    }
    Out { obs, oracle }
}

// ---------------------------------------------------------------- operations
// Each macro runs one operation of the real crate at concrete type-level lengths
// (generic only in the element type) and returns an `Out`.

macro_rules! op_append {
    ($T:ty, $c:expr, $N:ty) => {{
        let a: GenericArray<$T, $N> = build::<$T, $N>(&$c.ids);
        let x = <$T as Elem>::make($c.p as i64);
        let start = track::log_len();
        let r = catch(move || Lengthen::append(a, x));
        let during = track::log_from(start);
        let res = r.map(|b| enc_arr::<$T>(b.as_slice()));
        finish::<$T>($c, res, during)
    }};
}
macro_rules! op_prepend {
    ($T:ty, $c:expr, $N:ty) => {{
        let a: GenericArray<$T, $N> = build::<$T, $N>(&$c.ids);
        let x = <$T as Elem>::make($c.p as i64);
        let start = track::log_len();
        let r = catch(move || Lengthen::prepend(a, x));
        let during = track::log_from(start);
        let res = r.map(|b| enc_arr::<$T>(b.as_slice()));
        finish::<$T>($c, res, during)
    }};
}
macro_rules! op_pop_back {
    ($T:ty, $c:expr, $N:ty) => {{
        let a: GenericArray<$T, $N> = build::<$T, $N>(&$c.ids);
        let start = track::log_len();
        let r = catch(move || Shorten::pop_back(a));
        let during = track::log_from(start);
        let res = r.map(|(init, last)| {
            let mut body = vec![last.id() as i128];
            body.extend(enc_arr::<$T>(init.as_slice()));
            body
        });
        finish::<$T>($c, res, during)
    }};
}
macro_rules! op_pop_front {
    ($T:ty, $c:expr, $N:ty) => {{
        let a: GenericArray<$T, $N> = build::<$T, $N>(&$c.ids);
        let start = track::log_len();
        let r = catch(move || Shorten::pop_front(a));
        let during = track::log_from(start);
        let res = r.map(|(head, tail)| {
            let mut body = vec![head.id() as i128];
            body.extend(enc_arr::<$T>(tail.as_slice()));
            body
        });
        finish::<$T>($c, res, during)
    }};
}
macro_rules! op_split {
    ($T:ty, $c:expr, $N:ty, $K:ty) => {{
        let a: GenericArray<$T, $N> = build::<$T, $N>(&$c.ids);
        let start = track::log_len();
        let r = catch(move || <GenericArray<$T, $N> as Split<$T, $K>>::split(a));
        let during = track::log_from(start);
        let res = r.map(|(head, tail)| {
            let mut body = enc_arr::<$T>(head.as_slice());
            body.extend(enc_arr::<$T>(tail.as_slice()));
            body
        });
        finish::<$T>($c, res, during)
    }};
}
macro_rules! op_split_ref {
    ($T:ty, $c:expr, $N:ty, $K:ty) => {{
        let a: GenericArray<$T, $N> = build::<$T, $N>(&$c.ids);
        let base = a.as_ptr() as usize;
        let start = track::log_len();
        let r = catch(|| {
            let (h, t) = <&GenericArray<$T, $N> as Split<$T, $K>>::split(&a);
            let mut body = vec![(h.as_ptr() as usize).wrapping_sub(base) as i128];
            body.extend(enc_arr::<$T>(h.as_slice()));
            body.push((t.as_ptr() as usize).wrapping_sub(base) as i128);
            body.extend(enc_arr::<$T>(t.as_slice()));
            body
        });
        let during = track::log_from(start);
        drop(a);
        finish::<$T>($c, r, during)
    }};
}
macro_rules! op_split_mut {
    ($T:ty, $c:expr, $N:ty, $K:ty) => {{
        let mut a: GenericArray<$T, $N> = build::<$T, $N>(&$c.ids);
        let base = a.as_ptr() as usize;
        let start = track::log_len();
        let r = catch(|| {
            let (h, t) = <&mut GenericArray<$T, $N> as Split<$T, $K>>::split(&mut a);
            let mut body = vec![(h.as_ptr() as usize).wrapping_sub(base) as i128];
            body.extend(enc_arr::<$T>(h.as_slice()));
            body.push((t.as_ptr() as usize).wrapping_sub(base) as i128);
            body.extend(enc_arr::<$T>(t.as_slice()));
            // both exclusive references are live at the same time
            h.reverse();
            t.reverse();
            body
        });
        let during = track::log_from(start);
        let r = r.map(|mut body| {
            body.extend(enc_arr::<$T>(a.as_slice()));
            body
        });
        drop(a);
        finish::<$T>($c, r, during)
    }};
}
macro_rules! op_concat {
    ($T:ty, $c:expr, $N:ty, $M:ty) => {{
        let a: GenericArray<$T, $N> = build::<$T, $N>(&$c.ids);
        let b: GenericArray<$T, $M> = build::<$T, $M>(&$c.extra);
        let start = track::log_len();
        let r = catch(move || <GenericArray<$T, $N> as Concat<$T, $M>>::concat(a, b));
        let during = track::log_from(start);
        let res = r.map(|o| enc_arr::<$T>(o.as_slice()));
        finish::<$T>($c, res, during)
    }};
}
macro_rules! removed_body {
    ($T:ty, $r:expr) => {
        $r.map(|(x, rest)| {
            let mut body = vec![x.id() as i128];
            body.extend(enc_arr::<$T>(rest.as_slice()));
            body
        })
    };
}
macro_rules! op_remove {
    ($T:ty, $c:expr, $N:ty) => {{
        let a: GenericArray<$T, $N> = build::<$T, $N>(&$c.ids);
        let idx = $c.p as usize;
        let start = track::log_len();
        let r = catch(move || <GenericArray<$T, $N> as Remove<$T, $N>>::remove(a, idx));
        let during = track::log_from(start);
        finish::<$T>($c, removed_body!($T, r), during)
    }};
}
macro_rules! op_swap_remove {
    ($T:ty, $c:expr, $N:ty) => {{
        let a: GenericArray<$T, $N> = build::<$T, $N>(&$c.ids);
        let idx = $c.p as usize;
        let start = track::log_len();
        let r = catch(move || <GenericArray<$T, $N> as Remove<$T, $N>>::swap_remove(a, idx));
        let during = track::log_from(start);
        finish::<$T>($c, removed_body!($T, r), during)
    }};
}
macro_rules! op_remove_unchecked {
    ($T:ty, $c:expr, $N:ty) => {{
        if $c.p >= $c.n as i128 {
            unsupported() // undefined behaviour by contract: never executed
        } else {
            let a: GenericArray<$T, $N> = build::<$T, $N>(&$c.ids);
            let idx = $c.p as usize;
            let start = track::log_len();
            let r = catch(move || unsafe { <GenericArray<$T, $N> as Remove<$T, $N>>::remove_unchecked(a, idx) });
            let during = track::log_from(start);
            finish::<$T>($c, removed_body!($T, r), during)
        }
    }};
}
macro_rules! op_swap_remove_unchecked {
    ($T:ty, $c:expr, $N:ty) => {{
        if $c.p >= $c.n as i128 {
            unsupported()
        } else {
            let a: GenericArray<$T, $N> = build::<$T, $N>(&$c.ids);
            let idx = $c.p as usize;
            let start = track::log_len();
            let r =
                catch(move || unsafe { <GenericArray<$T, $N> as Remove<$T, $N>>::swap_remove_unchecked(a, idx) });
            let during = track::log_from(start);
            finish::<$T>($c, removed_body!($T, r), during)
        }
    }};
}

// ---------------------------------------------------------------- monomorphisation tables

macro_rules! pick1 {
    ($n:expr, $mac:ident, $T:ty, $c:expr; $($U:ty)*) => {{
        let mut out: Option<Out> = None;
        $(
            if out.is_none() && <$U as Unsigned>::USIZE == $n {
                out = Some($mac!($T, $c, $U));
            }
        )*
        out.unwrap_or_else(unsupported)
    }};
}
macro_rules! pick2 {
    ($n:expr, $k:expr, $mac:ident, $T:ty, $c:expr; $(($A:ty, $B:ty))*) => {{
        let mut out: Option<Out> = None;
        $(
            if out.is_none() && <$A as Unsigned>::USIZE == $n && <$B as Unsigned>::USIZE == $k {
                out = Some($mac!($T, $c, $A, $B));
            }
        )*
        out.unwrap_or_else(unsupported)
    }};
}
// every N in 0..=8 and the boundary lengths
macro_rules! len0 {
    ($mac:ident, $T:ty, $c:expr) => {
        pick1!($c.n, $mac, $T, $c;
            U0 U1 U2 U3 U4 U5 U6 U7 U8 U15 U16 U17
            U31 U32 U33 U63 U64 U65 U255 U256 U1023 U1024)
    };
}
// the same without 0 (Sub1<U0> does not exist: pop_* and remove have no impl for N = 0)
macro_rules! len1 {
    ($mac:ident, $T:ty, $c:expr) => {
        pick1!($c.n, $mac, $T, $c;
            U1 U2 U3 U4 U5 U6 U7 U8 U15 U16 U17 U31
            U32 U33 U63 U64 U65 U255 U256 U1023 U1024)
    };
}
// every (N, K) with K <= N <= 8, and boundary pairs
macro_rules! split_pairs {
    ($mac:ident, $T:ty, $c:expr) => {
        pick2!($c.n, $c.p as usize, $mac, $T, $c;
            (U0, U0) (U1, U0) (U1, U1) (U2, U0) (U2, U1) (U2, U2) (U3, U0) (U3, U1)
            (U3, U2) (U3, U3) (U4, U0) (U4, U1) (U4, U2) (U4, U3) (U4, U4) (U5, U0)
            (U5, U1) (U5, U2) (U5, U3) (U5, U4) (U5, U5) (U6, U0) (U6, U1) (U6, U2)
            (U6, U3) (U6, U4) (U6, U5) (U6, U6) (U7, U0) (U7, U1) (U7, U2) (U7, U3)
            (U7, U4) (U7, U5) (U7, U6) (U7, U7) (U8, U0) (U8, U1) (U8, U2) (U8, U3)
            (U8, U4) (U8, U5) (U8, U6) (U8, U7) (U8, U8) (U16, U0) (U16, U16) (U16, U7)
            (U17, U1) (U32, U16) (U33, U32) (U64, U1) (U65, U64) (U255, U128) (U256, U255) (U1023, U1023)
            (U1024, U512) (U1024, U0) (U15, U8) (U31, U30) (U63, U0))
    };
}
// every (N, M) with N + M <= 8, and boundary pairs
macro_rules! concat_pairs {
    ($mac:ident, $T:ty, $c:expr) => {
        pick2!($c.n, $c.p as usize, $mac, $T, $c;
            (U0, U0) (U0, U1) (U0, U2) (U0, U3) (U0, U4) (U0, U5) (U0, U6) (U0, U7)
            (U0, U8) (U1, U0) (U1, U1) (U1, U2) (U1, U3) (U1, U4) (U1, U5) (U1, U6)
            (U1, U7) (U2, U0) (U2, U1) (U2, U2) (U2, U3) (U2, U4) (U2, U5) (U2, U6)
            (U3, U0) (U3, U1) (U3, U2) (U3, U3) (U3, U4) (U3, U5) (U4, U0) (U4, U1)
            (U4, U2) (U4, U3) (U4, U4) (U5, U0) (U5, U1) (U5, U2) (U5, U3) (U6, U0)
            (U6, U1) (U6, U2) (U7, U0) (U7, U1) (U8, U0) (U15, U1) (U16, U16) (U17, U15)
            (U31, U33) (U0, U64) (U64, U0) (U255, U1) (U1, U255) (U1023, U1) (U512, U512) (U0, U1024)
            (U63, U2) (U256, U0) (U2048, U1) (U1, U2048))
    };
}

const BOUNDARY_LEN: &[usize] = &[15, 16, 17, 31, 32, 33, 63, 64, 65, 255, 256, 1023, 1024];
const BOUNDARY_SPLIT: &[(usize, usize)] = &[(16, 0), (16, 16), (16, 7), (17, 1), (32, 16), (33, 32), (64, 1), (65, 64), (255, 128), (256, 255), (1023, 1023), (1024, 512), (1024, 0), (15, 8), (31, 30), (63, 0)];
const BOUNDARY_CONCAT: &[(usize, usize)] = &[(15, 1), (16, 16), (17, 15), (31, 33), (0, 64), (64, 0), (255, 1), (1, 255), (1023, 1), (512, 512), (0, 1024), (63, 2), (256, 0), (2048, 1), (1, 2048)];

// one function per operation so that no single function body becomes huge
fn run_append<T: Elem>(c: &Ctx) -> Out {
    len0!(op_append, T, c)
}
fn run_prepend<T: Elem>(c: &Ctx) -> Out {
    len0!(op_prepend, T, c)
}
fn run_pop_back<T: Elem>(c: &Ctx) -> Out {
    len1!(op_pop_back, T, c)
}
fn run_pop_front<T: Elem>(c: &Ctx) -> Out {
    len1!(op_pop_front, T, c)
}
fn run_split<T: Elem>(c: &Ctx) -> Out {
    split_pairs!(op_split, T, c)
}
fn run_split_ref<T: Elem>(c: &Ctx) -> Out {
    split_pairs!(op_split_ref, T, c)
}
fn run_split_mut<T: Elem>(c: &Ctx) -> Out {
    split_pairs!(op_split_mut, T, c)
}
fn run_concat<T: Elem>(c: &Ctx) -> Out {
    concat_pairs!(op_concat, T, c)
}
fn run_remove<T: Elem>(c: &Ctx) -> Out {
    len1!(op_remove, T, c)
}
fn run_swap_remove<T: Elem>(c: &Ctx) -> Out {
    len1!(op_swap_remove, T, c)
}
fn run_remove_unchecked<T: Elem>(c: &Ctx) -> Out {
    len1!(op_remove_unchecked, T, c)
}
fn run_swap_remove_unchecked<T: Elem>(c: &Ctx) -> Out {
    len1!(op_swap_remove_unchecked, T, c)
}

fn run<T: Elem>(c: &Ctx) -> Out {
    track::reset(1_000_000_000);
    match c.op {
        0 => run_append::<T>(c),
        1 => run_prepend::<T>(c),
        2 => run_pop_back::<T>(c),
        3 => run_pop_front::<T>(c),
        4 => run_split::<T>(c),
        5 => run_split_ref::<T>(c),
        6 => run_split_mut::<T>(c),
        7 => run_concat::<T>(c),
        8 => run_remove::<T>(c),
        9 => run_swap_remove::<T>(c),
        10 => run_remove_unchecked::<T>(c),
        11 => run_swap_remove_unchecked::<T>(c),
        _ => unsupported(),
    }
}

fn do_case(case: Vec<i128>) {
    emit_case(&case);
    if case.len() < 4 || case[2] < 0 || case.len() < 4 + case[2] as usize {
        emit_obs(&[-97]);
        emit_oracle("malformed case");
        return;
    }
    let n = case[2] as usize;
    let c = Ctx {
        op: case[0],
        n,
        p: case[3],
        ids: case[4..4 + n].iter().map(|x| *x as i64).collect(),
        extra: case[4 + n..].iter().map(|x| *x as i64).collect(),
    };
    if (c.op == 7 && c.extra.len() != c.p as usize) || ((4..=6).contains(&c.op) && c.p > n as i128) {
        emit_obs(&[-97]);
        emit_oracle("malformed case");
        return;
    }
    let kind = case[1];
    let r = catch(|| match kind {
        0 => run::<Tz>(&c),
        1 => run::<u8>(&c),
        2 => run::<u64>(&c),
        3 => run::<[u64; 3]>(&c),
        5 => run::<Tb>(&c),
        _ => run::<Tr>(&c),
    });
    match r {
        Ok(o) => {
            emit_obs(&o.obs);
            for m in o.oracle {
                emit_oracle(&m);
            }
        }
        Err(m) => {
            emit_obs(&[-99]);
            emit_oracle(&format!("unexpected panic outside the operation: {}", m));
        }
    }
}

// ---------------------------------------------------------------- case generation

/// identities of the n elements of an operand: distinct (for u8: distinct up to 256 elements)
fn ids_for(kind: i128, n: usize, base: i64, rng: Option<&mut Rng>) -> Vec<i64> {
    match kind {
        0 => vec![0; n],
        1 | 5 => match rng {
            // random bytes: duplicates on purpose (a misplaced element must still show)
            Some(r) => (0..n).map(|_| r.below(256) as i64).collect(),
            None => (0..n as i64).map(|i| (base + 7 * i).rem_euclid(256)).collect(),
        },
        _ => match rng {
            Some(r) => {
                // a random permutation of distinct identities
                let b = 1000 * (1 + r.below(900)) as i64;
                let mut v: Vec<i64> = (0..n as i64).map(|i| b + i).collect();
                for i in (1..n).rev() {
                    let j = r.below(i as u64 + 1) as usize;
                    v.swap(i, j);
                }
                v
            }
            None => (0..n as i64).map(|i| base + i).collect(),
        },
    }
}

fn new_elem(kind: i128) -> i128 {
    match kind {
        0 => 0,
        1 | 5 => 250,
        _ => 900_000,
    }
}

fn mk(op: i128, kind: i128, n: usize, p: i128, rng: &mut Option<Rng>, m: usize) -> Vec<i128> {
    let mut c = vec![op, kind, n as i128, p];
    c.extend(ids_for(kind, n, 1, rng.as_mut()).into_iter().map(|x| x as i128));
    if op == 7 {
        c.extend(ids_for(kind, m, 101, rng.as_mut()).into_iter().map(|x| x as i128));
    }
    c
}

fn generate(rng: &mut Option<Rng>, small_max: usize, boundary: bool) {
    const MAX: i128 = usize::MAX as i128;
    for kind in 0..6i128 {
        let x = new_elem(kind);
        // small scope, exhaustively
        for n in 0..=small_max {
            dist(&format!("N{}", n));
            do_case(mk(0, kind, n, x, rng, 0));
            do_case(mk(1, kind, n, x, rng, 0));
            if n >= 1 {
                do_case(mk(2, kind, n, 0, rng, 0));
                do_case(mk(3, kind, n, 0, rng, 0));
                let mut idxs: Vec<i128> = (0..=(n as i128 + 1)).collect();
                idxs.push(MAX);
                idxs.push(MAX - 1);
                idxs.push(1i128 << 63);
                idxs.push((1i128 << 32) + 1); // truncation of the index to 32 bits would accept it
                for &i in &idxs {
                    dist(if i < n as i128 { "index-valid" } else { "index-out-of-range" });
                    do_case(mk(8, kind, n, i, rng, 0));
                    do_case(mk(9, kind, n, i, rng, 0));
                    if i < n as i128 {
                        do_case(mk(10, kind, n, i, rng, 0));
                        do_case(mk(11, kind, n, i, rng, 0));
                    }
                }
            }
            for k in 0..=n {
                dist("split");
                do_case(mk(4, kind, n, k as i128, rng, 0));
                do_case(mk(5, kind, n, k as i128, rng, 0));
                do_case(mk(6, kind, n, k as i128, rng, 0));
            }
            for m in 0..=(small_max - n) {
                dist("concat");
                do_case(mk(7, kind, n, m as i128, rng, m));
            }
        }
        if !boundary {
            continue;
        }
        for &n in BOUNDARY_LEN {
            dist(&format!("N{}", n));
            do_case(mk(0, kind, n, x, rng, 0));
            do_case(mk(1, kind, n, x, rng, 0));
            do_case(mk(2, kind, n, 0, rng, 0));
            do_case(mk(3, kind, n, 0, rng, 0));
            let n_ = n as i128;
            for &i in &[0, 1, n_ / 2, n_ - 2, n_ - 1, n_, n_ + 1, MAX] {
                dist(if i < n_ { "index-valid" } else { "index-out-of-range" });
                do_case(mk(8, kind, n, i, rng, 0));
                do_case(mk(9, kind, n, i, rng, 0));
                if i < n_ {
                    do_case(mk(10, kind, n, i, rng, 0));
                    do_case(mk(11, kind, n, i, rng, 0));
                }
            }
        }
        for &(n, k) in BOUNDARY_SPLIT {
            dist("split");
            do_case(mk(4, kind, n, k as i128, rng, 0));
            do_case(mk(5, kind, n, k as i128, rng, 0));
            do_case(mk(6, kind, n, k as i128, rng, 0));
        }
        for &(n, m) in BOUNDARY_CONCAT {
            dist("concat");
            do_case(mk(7, kind, n, m as i128, rng, m));
        }
    }
}

/// Re-run the fixed-identity cases in a child built with a checking tool and forward the
/// child's records (its stdout is ours).  `asan`: this bin rebuilt with the nightly toolchain
/// under AddressSanitizer, all lengths.  `miri`: the bin interpreted by Miri (Stacked Borrows,
/// uninitialised reads, out-of-bounds of any size), N <= 4.
fn child(a: &Args, miri: bool) -> i32 {
    use std::process::{Command, Stdio};
    let what = if miri { "Miri" } else { "AddressSanitizer" };
    let manifest_dir = env!("CARGO_MANIFEST_DIR");
    // the build root: <verif>/.build (the manifest is <verif>/harness or, for a scratch copy of the crate,
    // <verif>/.build/harness-shadow-<tag>, which names the copy)
    let md = std::path::Path::new(manifest_dir);
    let parent = md.parent().unwrap_or(md);
    let root = if parent.file_name().map(|f| f == ".build").unwrap_or(false) { parent.to_path_buf() } else { parent.join(".build") };
    let tag: u64 = manifest_dir.bytes().fold(1469598103934665603u64, |h, b| (h ^ b as u64).wrapping_mul(1099511628211));
    let build = root.join(format!("harness-target-{}-{:x}", if miri { "miri" } else { "asan" }, tag & 0xffff_ffff));
    let target = "x86_64-unknown-linux-gnu";
    let seed = a.seed.to_string();
    // a replay is passed through: the one case runs under the tool
    let child_args = |tier: &str| -> Vec<String> {
        match &a.replay {
            Some(c) => vec!["--replay".into(), c.iter().map(|x| x.to_string()).collect::<Vec<_>>().join(" ")],
            None => vec!["--tier".into(), tier.into(), "--seed".into(), seed.clone()],
        }
    };
    if miri {
        // build errors and interpreter findings both end the child with a failure status; tell them apart
        // by whether a CASE was started (the driver reads the records)
        let st = Command::new("cargo")
            .args(["+nightly", "miri", "run", "--offline", "--bin", "c09", "--"])
            .args(child_args("miri-child"))
            .current_dir(manifest_dir)
            .env("CARGO_TARGET_DIR", &build)
            .env("CARGO_NET_OFFLINE", "true")
            .env("MIRIFLAGS", "-Zmiri-disable-isolation")
            .env_remove("RUSTFLAGS")
            .stderr(Stdio::piped())
            .stdout(Stdio::inherit())
            .output();
        return match st {
            Ok(o) if o.status.success() => {
                note("check-child: Miri pass completed");
                0
            }
            Ok(o) => {
                let err = String::from_utf8_lossy(&o.stderr);
                let tail: Vec<&str> = err.lines().filter(|l| l.contains("error") || l.contains("Undefined Behavior")).take(4).collect();
                eprintln!("Miri child failed: {}", tail.join(" | "));
                o.status.code().unwrap_or(1).max(1)
            }
            Err(e) => {
                note(&format!("check-child: cannot start Miri, pass skipped: {}", e));
                0
            }
        };
    }
    let st = Command::new("cargo")
        .args(["+nightly", "build", "--offline", "--bin", "c09", "--target", target])
        .current_dir(manifest_dir)
        .env("RUSTFLAGS", "-Zsanitizer=address")
        .env("CARGO_TARGET_DIR", &build)
        .env("CARGO_NET_OFFLINE", "true")
        .stdout(Stdio::null())
        .stderr(Stdio::piped())
        .output();
    let ok = matches!(&st, Ok(o) if o.status.success());
    if !ok {
        let why = match st {
            Ok(o) => String::from_utf8_lossy(&o.stderr).lines().rev().take(6).collect::<Vec<_>>().join(" | "),
            Err(e) => e.to_string(),
        };
        // not a property failure: the pass is an extra; say so in the evidence
        note(&format!("check-child: {} build unavailable, pass skipped: {}", what, why));
        return 0;
    }
    let exe = build.join(target).join("debug").join("c09");
    let st = Command::new(&exe)
        .args(child_args("asan-child"))
        .env("ASAN_OPTIONS", "detect_leaks=0:abort_on_error=0:exitcode=23:detect_stack_use_after_return=0")
        .status(); // stdout inherited: the child's CASE/OBS/ORACLE lines are our records
    match st {
        Ok(s) if s.success() => {
            note("check-child: AddressSanitizer pass completed");
            0
        }
        Ok(s) => {
            eprintln!("AddressSanitizer child exited with {:?}", s.code());
            s.code().unwrap_or(1).max(1)
        }
        Err(e) => {
            eprintln!("cannot run the sanitized child: {}", e);
            1
        }
    }
}

fn main() {
    let a = args();
    quiet_panics();
    if a.extra.iter().any(|x| x == "--sanitize") {
        std::process::exit(child(&a, false));
    }
    if a.extra.iter().any(|x| x == "--miri") {
        std::process::exit(child(&a, true));
    }
    if let Some(c) = a.replay.clone() {
        do_case(c);
        return;
    }
    if a.tier == "miri-child" {
        let mut none: Option<Rng> = None;
        generate(&mut none, 4, false);
        flush_dist();
        return;
    }
    let thorough = a.tier == "thorough";
    // fixed identities: the whole quantifier of the property in both tiers
    let mut none: Option<Rng> = None;
    generate(&mut none, 8, true);
    if a.tier == "asan-child" {
        flush_dist();
        return;
    }
    // seeded identities (permuted; random bytes with duplicates for u8)
    let rounds = if thorough { 12 } else { 1 };
    let mut rng = Some(Rng::new(a.seed));
    for r in 0..rounds {
        generate(&mut rng, 8, r % 4 == 0);
    }
    flush_dist();
}

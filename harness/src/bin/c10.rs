//! C10: chunks_from_slice(_mut), slice_from_chunks(_mut), from_chunks(_mut),
//! into_chunks(_mut) regroup a slice in place.
//!
//! Case: [form, ty, N, p, L, G, mode]
//!   form 0 chunks_from_slice        1 chunks_from_slice_mut
//!        4 slice_from_chunks        5 slice_from_chunks_mut
//!        6 from_chunks+into_chunks  7 from_chunks_mut+into_chunks_mut
//!        form+10: the same calls evaluated inside a `const` item (bin c10c: the OBS line
//!        is the compile-time result; the run-time result must be identical)
//!   ty   0 u8, 1 u32, 2 (), 3 (u8,u16)
//!   forms 0,1: buffer of p+L+G elements, the slice is [p, p+L)
//!   forms 4-7: buffer of p+L+G arrays of N elements, the chunk slice is the L arrays from p
//!   mode 0: contents in full; 1: (count, weighted sum)
//! Observables (pointers as element offsets from the start of the buffer; 0 when the
//! buffer has no extent, -1 when the pointer is not inside the buffer):
//!   forms 0,1: 1 (panic) | 0 coff ccnt roff rlen <chunk contents> <remainder contents>
//!              foff flen <contents of slice_from_chunks(chunks)> [mut: <whole buffer>]
//!              (mut: the writes through the chunk view and the remainder happen
//!              before slice_from_chunks_mut; the buffer is read back directly)
//!   forms 4,5: foff flen <contents> (0 coff ccnt roff rlen | 1) [mut: <whole buffer>]
//!   forms 6,7: goff gcnt <contents via GenericArray view> hoff hcnt <contents via [T;N] view>
//!              [mut: <whole buffer>]
#![allow(unused_comparisons, dead_code)]
use generic_array::sequence::GenericSequence;
use generic_array::typenum::*;
use generic_array::{ArrayLength, GenericArray, IntoArrayLength};
use harness::*;
use std::cell::RefCell;
use std::mem::size_of;

trait Elem: Copy + 'static {
    fn mk(v: u8) -> Self;
    /// the byte the element was made from; -1 if it is not a value `mk` produces
    fn val(&self) -> i128;
}
impl Elem for u8 {
    fn mk(v: u8) -> Self {
        v
    }
    fn val(&self) -> i128 {
        *self as i128
    }
}
impl Elem for u32 {
    fn mk(v: u8) -> Self {
        mk_u32(v)
    }
    fn val(&self) -> i128 {
        val_u32(self)
    }
}
impl Elem for () {
    fn mk(_: u8) -> Self {}
    fn val(&self) -> i128 {
        0
    }
}
impl Elem for (u8, u16) {
    fn mk(v: u8) -> Self {
        mk_tup(v)
    }
    fn val(&self) -> i128 {
        val_tup(self)
    }
}
pub const fn mk_u8(v: u8) -> u8 {
    v
}
pub const fn val_u8(x: &u8) -> i128 {
    *x as i128
}
pub const fn mk_u32(v: u8) -> u32 {
    (v as u32) * 0x0101_0101
}
pub const fn val_u32(x: &u32) -> i128 {
    if *x % 0x0101_0101 == 0 {
        (*x / 0x0101_0101) as i128
    } else {
        -1
    }
}
pub const fn mk_unit(_: u8) {}
pub const fn val_unit(_: &()) -> i128 {
    0
}
pub const fn mk_tup(v: u8) -> (u8, u16) {
    (v, 1000 + v as u16)
}
pub const fn val_tup(x: &(u8, u16)) -> i128 {
    if x.1 == 1000 + x.0 as u16 {
        x.0 as i128
    } else {
        -1
    }
}

pub const fn orig(i: usize) -> u8 {
    ((3 + 7 * i) % 251) as u8
}
pub const fn newc(t: usize) -> u8 {
    ((11 + 5 * t) % 251) as u8
}
pub const fn newr(t: usize) -> u8 {
    ((101 + 13 * t) % 251) as u8
}

thread_local! {
    static ORACLES: RefCell<Vec<String>> = RefCell::new(vec![]);
}
pub fn oracle(msg: String) {
    ORACLES.with(|o| o.borrow_mut().push(msg));
}

/// the buffer all pointers are measured against
#[derive(Clone, Copy)]
struct Frame {
    base: usize,
    bytes: usize,
    esz: usize,
}
impl Frame {
    fn off<X>(&self, p: *const X) -> i128 {
        if self.bytes == 0 {
            return 0;
        }
        let a = p as usize;
        if a < self.base || a > self.base + self.bytes || (a - self.base) % self.esz != 0 {
            return -1;
        }
        ((a - self.base) / self.esz) as i128
    }
    /// may `nbytes` bytes at `p` be touched?  (an empty view always may)
    fn covers<X>(&self, what: &str, p: *const X, nbytes: usize) -> bool {
        if nbytes == 0 {
            return true;
        }
        let a = p as usize;
        let ok = a >= self.base && a + nbytes <= self.base + self.bytes;
        if !ok {
            oracle(format!(
                "{} reaches outside the source object: starts {} bytes from its start, {} bytes long, object {} bytes",
                what,
                a as i128 - self.base as i128,
                nbytes,
                self.bytes
            ));
        }
        ok
    }
}

fn vals(out: &mut Vec<i128>, mode: i128, it: impl Iterator<Item = i128>) {
    if mode == 0 {
        let at = out.len();
        out.push(0);
        let mut n = 0;
        for v in it {
            out.push(v);
            n += 1;
        }
        out[at] = n;
    } else {
        let (mut k, mut acc, mut n) = (1i128, 0i128, 0i128);
        for v in it {
            acc += k * (v + 1);
            k += 1;
            n += 1;
        }
        out.push(n);
        out.push(acc);
    }
}

const OOB: i128 = -2;

// ---------------------------------------------------------------- forms 0, 1

fn run_chunks<T: Elem, N: ArrayLength>(mutf: bool, p: usize, l: usize, g: usize, mode: i128) -> Vec<i128> {
    let m = p + l + g;
    let mut buf: Vec<T> = (0..m).map(|i| T::mk(orig(i))).collect();
    let fr = Frame { base: buf.as_ptr() as usize, bytes: m * size_of::<T>(), esz: size_of::<T>() };
    let asz = size_of::<GenericArray<T, N>>();
    let mut out = vec![];
    if !mutf {
        let s = &buf[p..p + l];
        let (c, r) = match catch(|| GenericArray::<T, N>::chunks_from_slice(s)) {
            Ok(x) => x,
            Err(_) => return vec![1],
        };
        out.extend([0, fr.off(c.as_ptr()), c.len() as i128, fr.off(r.as_ptr()), r.len() as i128]);
        if !(fr.covers("chunk slice", c.as_ptr(), c.len() * asz)
            & fr.covers("remainder", r.as_ptr(), r.len() * size_of::<T>()))
        {
            out.push(OOB);
            return out;
        }
        vals(&mut out, mode, c.iter().flat_map(|a| a.iter()).map(|x| x.val()));
        vals(&mut out, mode, r.iter().map(|x| x.val()));
        let f = GenericArray::<T, N>::slice_from_chunks(c);
        out.extend([fr.off(f.as_ptr()), f.len() as i128]);
        if !fr.covers("flattened chunks", f.as_ptr(), f.len() * size_of::<T>()) {
            out.push(OOB);
            return out;
        }
        vals(&mut out, mode, f.iter().map(|x| x.val()));
    } else {
        {
            let s = &mut buf[p..p + l];
            let (c, r) = match catch(move || GenericArray::<T, N>::chunks_from_slice_mut(s)) {
                Ok(x) => x,
                Err(_) => return vec![1],
            };
            out.extend([0, fr.off(c.as_ptr()), c.len() as i128, fr.off(r.as_ptr()), r.len() as i128]);
            if !(fr.covers("chunk slice", c.as_ptr(), c.len() * asz)
                & fr.covers("remainder", r.as_ptr(), r.len() * size_of::<T>()))
            {
                out.push(OOB);
                return out;
            }
            vals(&mut out, mode, c.iter().flat_map(|a| a.iter()).map(|x| x.val()));
            vals(&mut out, mode, r.iter().map(|x| x.val()));
            // write through both views
            for (j, a) in c.iter_mut().enumerate() {
                for (k, x) in a.iter_mut().enumerate() {
                    *x = T::mk(newc(j * N::USIZE + k));
                }
            }
            for (i, x) in r.iter_mut().enumerate() {
                *x = T::mk(newr(i));
            }
            let f = GenericArray::<T, N>::slice_from_chunks_mut(c);
            out.extend([fr.off(f.as_ptr()), f.len() as i128]);
            if !fr.covers("flattened chunks", f.as_ptr(), f.len() * size_of::<T>()) {
                out.push(OOB);
                return out;
            }
            vals(&mut out, mode, f.iter().map(|x| x.val()));
            // the flattened view is a mutable one: write through it too (the values it already holds)
            for (t, x) in f.iter_mut().enumerate() {
                *x = T::mk(newc(t));
            }
        }
        // read back through the original buffer
        vals(&mut out, mode, buf.iter().map(|x| x.val()));
    }
    out
}

// ---------------------------------------------------------------- forms 4, 5

fn run_flatten<T: Elem, N: ArrayLength>(mutf: bool, a: usize, cn: usize, g: usize, mode: i128) -> Vec<i128> {
    let n = N::USIZE;
    let k_arrays = a + cn + g;
    let mut buf: Vec<GenericArray<T, N>> =
        (0..k_arrays).map(|j| GenericArray::<T, N>::generate(|k| T::mk(orig(j * n + k)))).collect();
    let fr = Frame { base: buf.as_ptr() as usize, bytes: k_arrays * n * size_of::<T>(), esz: size_of::<T>() };
    let mut out = vec![];
    let tail = |out: &mut Vec<i128>, f: &[T]| -> bool {
        // the inverse: regroup the flattened slice
        match catch(|| GenericArray::<T, N>::chunks_from_slice(f)) {
            Ok((c2, r2)) => {
                out.extend([0, fr.off(c2.as_ptr()), c2.len() as i128, fr.off(r2.as_ptr()), r2.len() as i128]);
                true
            }
            Err(_) => {
                out.push(1);
                false
            }
        }
    };
    if !mutf {
        let cs = &buf[a..a + cn];
        let f = GenericArray::<T, N>::slice_from_chunks(cs);
        out.extend([fr.off(f.as_ptr()), f.len() as i128]);
        if !fr.covers("flattened chunks", f.as_ptr(), f.len() * size_of::<T>()) {
            out.push(OOB);
            return out;
        }
        vals(&mut out, mode, f.iter().map(|x| x.val()));
        tail(&mut out, f);
    } else {
        let ok;
        {
            let cs = &mut buf[a..a + cn];
            let f = GenericArray::<T, N>::slice_from_chunks_mut(cs);
            out.extend([fr.off(f.as_ptr()), f.len() as i128]);
            if !fr.covers("flattened chunks", f.as_ptr(), f.len() * size_of::<T>()) {
                out.push(OOB);
                return out;
            }
            vals(&mut out, mode, f.iter().map(|x| x.val()));
            for (t, x) in f.iter_mut().enumerate() {
                *x = T::mk(newc(t));
            }
            ok = tail(&mut out, f);
        }
        if ok {
            vals(&mut out, mode, buf.iter().flat_map(|a| a.iter()).map(|x| x.val()));
        }
    }
    out
}

// ---------------------------------------------------------------- forms 6, 7

fn run_native<T: Elem, N: ArrayLength, const UU: usize>(
    mutf: bool,
    a: usize,
    cn: usize,
    g: usize,
    mode: i128,
) -> Vec<i128>
where
    Const<UU>: IntoArrayLength<ArrayLength = N>,
{
    let k_arrays = a + cn + g;
    let mut buf: Vec<[T; UU]> = (0..k_arrays).map(|j| std::array::from_fn(|k| T::mk(orig(j * UU + k)))).collect();
    let fr = Frame { base: buf.as_ptr() as usize, bytes: k_arrays * UU * size_of::<T>(), esz: size_of::<T>() };
    let asz = UU * size_of::<T>();
    let mut out = vec![];
    if !mutf {
        let s: &[[T; UU]] = &buf[a..a + cn];
        let gv: &[GenericArray<T, N>] = GenericArray::<T, N>::from_chunks(s);
        out.extend([fr.off(gv.as_ptr()), gv.len() as i128]);
        if !fr.covers("from_chunks result", gv.as_ptr(), gv.len() * asz) {
            out.push(OOB);
            return out;
        }
        vals(&mut out, mode, gv.iter().flat_map(|x| x.iter()).map(|x| x.val()));
        let h: &[[T; UU]] = GenericArray::<T, N>::into_chunks(gv);
        out.extend([fr.off(h.as_ptr()), h.len() as i128]);
        if !fr.covers("into_chunks result", h.as_ptr(), h.len() * asz) {
            out.push(OOB);
            return out;
        }
        vals(&mut out, mode, h.iter().flat_map(|x| x.iter()).map(|x| x.val()));
    } else {
        {
            let s: &mut [[T; UU]] = &mut buf[a..a + cn];
            let gv: &mut [GenericArray<T, N>] = GenericArray::<T, N>::from_chunks_mut(s);
            out.extend([fr.off(gv.as_ptr()), gv.len() as i128]);
            if !fr.covers("from_chunks_mut result", gv.as_ptr(), gv.len() * asz) {
                out.push(OOB);
                return out;
            }
            vals(&mut out, mode, gv.iter().flat_map(|x| x.iter()).map(|x| x.val()));
            for (j, arr) in gv.iter_mut().enumerate() {
                for (k, x) in arr.iter_mut().enumerate() {
                    *x = T::mk(newc(j * UU + k));
                }
            }
            let h: &mut [[T; UU]] = GenericArray::<T, N>::into_chunks_mut(gv);
            out.extend([fr.off(h.as_ptr()), h.len() as i128]);
            if !fr.covers("into_chunks_mut result", h.as_ptr(), h.len() * asz) {
                out.push(OOB);
                return out;
            }
            vals(&mut out, mode, h.iter().flat_map(|x| x.iter()).map(|x| x.val()));
        }
        vals(&mut out, mode, buf.iter().flat_map(|x| x.iter()).map(|x| x.val()));
    }
    out
}

fn run_form<T: Elem, N: ArrayLength, const UU: usize>(form: i128, p: usize, l: usize, g: usize, mode: i128) -> Vec<i128>
where
    Const<UU>: IntoArrayLength<ArrayLength = N>,
{
    match form {
        0 => run_chunks::<T, N>(false, p, l, g, mode),
        1 => run_chunks::<T, N>(true, p, l, g, mode),
        4 => run_flatten::<T, N>(false, p, l, g, mode),
        5 => run_flatten::<T, N>(true, p, l, g, mode),
        6 => run_native::<T, N, UU>(false, p, l, g, mode),
        7 => run_native::<T, N, UU>(true, p, l, g, mode),
        _ => panic!("bad form {}", form),
    }
}

fn run_ty<T: Elem>(form: i128, n: usize, p: usize, l: usize, g: usize, mode: i128) -> Vec<i128> {
    macro_rules! go {
        ($N:ty, $UU:literal) => {
            run_form::<T, $N, $UU>(form, p, l, g, mode)
        };
    }
    match n {
        0 => go!(U0, 0),
        1 => go!(U1, 1),
        2 => go!(U2, 2),
        3 => go!(U3, 3),
        7 => go!(U7, 7),
        8 => go!(U8, 8),
        16 => go!(U16, 16),
        31 => go!(U31, 31),
        32 => go!(U32, 32),
        33 => go!(U33, 33),
        64 => go!(U64, 64),
        97 => go!(U97, 97),
        255 => go!(U255, 255),
        1024 => go!(U1024, 1024),
        _ => panic!("length {} not monomorphised", n),
    }
}

pub fn run_case(case: &[i128]) -> Vec<i128> {
    let (form, ty, n, p, l, g, mode) =
        (case[0], case[1], case[2] as usize, case[3] as usize, case[4] as usize, case[5] as usize, case[6]);
    match ty {
        0 => run_ty::<u8>(form, n, p, l, g, mode),
        1 => run_ty::<u32>(form, n, p, l, g, mode),
        2 => run_ty::<()>(form, n, p, l, g, mode),
        3 => run_ty::<(u8, u16)>(form, n, p, l, g, mode),
        _ => panic!("bad type code {}", ty),
    }
}

// ---------------------------------------------------------------- driver

pub fn finish(obs: &[i128]) {
    emit_obs(obs);
    ORACLES.with(|o| {
        for m in o.borrow_mut().drain(..) {
            emit_oracle(&m);
        }
    });
}

fn do_case(case: Vec<i128>) {
    emit_case(&case);
    if case.len() != 7 {
        emit_obs(&[-99]);
        emit_oracle("malformed case");
        return;
    }
    if case[0] >= 10 {
        // the const-evaluated forms live in harness/src/bin/c10c.rs
        emit_obs(&[-99]);
        emit_oracle("const-evaluated case: replay it with the c10c bin");
        return;
    }
    match catch(|| run_case(&case)) {
        Ok(obs) => finish(&obs),
        Err(m) => {
            oracle(format!("unexpected panic: {}", m));
            finish(&[-99]);
        }
    }
}

/// Chunk lengths of 2^32 and more (the array type is never instantiated): a slice shorter than N has no
/// chunk and is all remainder.  Direct oracle (case kind 9: [9, log-ish tag of N, ty, L, mutable]).
#[cfg(target_pointer_width = "64")]
fn huge_one<T: Elem, N: ArrayLength>(tag: i128, ty: i128, l: usize, mutable: bool) {
    emit_case(&[9, tag, ty, l as i128, mutable as i128]);
    let mut buf: Vec<T> = (0..l).map(|i| T::mk(i as u8 + 1)).collect();
    let base = buf.as_ptr() as usize;
    let r = catch(move || {
        if mutable {
            let (c, r) = GenericArray::<T, N>::chunks_from_slice_mut(&mut buf);
            (c.len(), r.len(), r.as_ptr() as usize)
        } else {
            let (c, r) = GenericArray::<T, N>::chunks_from_slice(&buf);
            (c.len(), r.len(), r.as_ptr() as usize)
        }
    });
    match r {
        Ok((nc, nr, rp)) => {
            emit_obs(&[0, nc as i128, nr as i128]);
            if nc != 0 || nr != l || (l > 0 && size_of::<T>() > 0 && rp != base) {
                emit_oracle(&format!("N = {} (tag {}), a slice of {} elements: {} chunks and a remainder of {} elements", N::U64, tag, l, nc, nr));
            }
        }
        Err(m) => {
            emit_obs(&[1]);
            emit_oracle(&format!("N = {} (tag {}), a slice of {} elements: panicked ({})", N::U64, tag, l, m));
        }
    }
}

/// Slices of a ZERO-SIZED element type can be longer than isize::MAX elements (their byte size is 0): the
/// chunk count is still L / N and the remainder L mod N.  Direct oracle (case kind 8: [8, N, L, mutable]).
#[cfg(target_pointer_width = "64")]
fn huge_len<N: ArrayLength>(l: usize, mutable: bool) {
    emit_case(&[8, N::USIZE as i128, l as i128, mutable as i128]);
    let p = std::ptr::NonNull::<()>::dangling().as_ptr();
    let r = catch(move || {
        if mutable {
            let s: &mut [()] = unsafe { std::slice::from_raw_parts_mut(p, l) };
            let (c, r) = GenericArray::<(), N>::chunks_from_slice_mut(s);
            (c.len(), r.len())
        } else {
            let s: &[()] = unsafe { std::slice::from_raw_parts(p, l) };
            let (c, r) = GenericArray::<(), N>::chunks_from_slice(s);
            (c.len(), r.len())
        }
    });
    match r {
        Ok((nc, nr)) => {
            emit_obs(&[0, nc as i128, nr as i128]);
            if nc != l / N::USIZE || nr != l % N::USIZE {
                emit_oracle(&format!("N = {}, a slice of {} zero-sized elements: {} chunks and a remainder of {} elements", N::USIZE, l, nc, nr));
            }
        }
        Err(m) => {
            emit_obs(&[1]);
            emit_oracle(&format!("N = {}, a slice of {} zero-sized elements: panicked ({})", N::USIZE, l, m));
        }
    }
}

#[cfg(target_pointer_width = "64")]
fn huge_all() {
    for l in [isize::MAX as usize, isize::MAX as usize + 1, isize::MAX as usize + 6, usize::MAX - 1, usize::MAX, (1usize << 32) + 1] {
        for mutable in [false, true] {
            dist("huge_L");
            huge_len::<U1>(l, mutable);
            huge_len::<U3>(l, mutable);
            huge_len::<U1024>(l, mutable);
        }
    }
    type A = U4294967296; // 2^32
    type B = U8589934592; // 2^33
    type C = Sum<U4294967296, U3>; // 2^32 + 3
    for l in [0usize, 1, 5, 9] {
        for mutable in [false, true] {
            dist("huge_N");
            huge_one::<u8, A>(32, 0, l, mutable);
            huge_one::<u8, B>(33, 0, l, mutable);
            huge_one::<u8, C>(3203, 0, l, mutable);
            huge_one::<u32, A>(32, 1, l, mutable);
            huge_one::<u32, C>(3203, 1, l, mutable);
            huge_one::<(), C>(3203, 2, l, mutable);
        }
    }
}
#[cfg(not(target_pointer_width = "64"))]
fn huge_all() {}

fn main() {
    let a = args();
    quiet_panics();
    if a.extra.iter().any(|x| x == "--huge") {
        huge_all();
        flush_dist();
        return;
    }
    if let Some(c) = a.replay {
        do_case(c);
        return;
    }
    let thorough = a.tier == "thorough";
    let mut rng = Rng::new(a.seed);
    let mut lattice: Vec<usize> = vec![0, 1, 2, 3, 7, 8, 16, 31, 32, 33];
    if thorough {
        lattice.extend([64, 97, 255, 1024]);
    }

    // chunks_from_slice / chunks_from_slice_mut: every L in 0..=4N+3
    for &n in &lattice {
        let mode = if n > 97 { 1 } else { 0 };
        for l in 0..=(4 * n + 3) {
            for ty in 0..4i128 {
                for form in 0..2i128 {
                    // position inside the source object: exhaustive choice is irrelevant to the
                    // arithmetic; vary it so that offsets are not always 0
                    let p = (l * 5 + n + ty as usize) % 4;
                    let g = 1 + (l + form as usize) % 3;
                    dist(&format!("N{}", n));
                    dist(&format!("form{}", form));
                    dist(&format!("ty{}", ty));
                    dist(if n == 0 {
                        if l == 0 { "n0-empty" } else { "n0-panic" }
                    } else if l % n == 0 {
                        "exact-multiple"
                    } else if l < n {
                        "shorter-than-one-chunk"
                    } else {
                        "chunks-and-remainder"
                    });
                    do_case(vec![form, ty, n as i128, p as i128, l as i128, g as i128, mode]);
                }
            }
        }
    }

    // slice_from_chunks(_mut), from_chunks(_mut), into_chunks(_mut): C arrays starting at array a
    let max_c = if thorough { 9 } else { 5 };
    for &n in &lattice {
        let mode = if n > 97 { 1 } else { 0 };
        for cn in 0..=max_c {
            for a0 in 0..=2usize {
                for ty in 0..4i128 {
                    for form in [4i128, 5, 6, 7] {
                        let g = 1 + (cn + a0) % 2;
                        dist(&format!("N{}", n));
                        dist(&format!("form{}", form));
                        dist(&format!("ty{}", ty));
                        do_case(vec![form, ty, n as i128, a0 as i128, cn as i128, g as i128, mode]);
                    }
                }
            }
        }
    }

    // seeded: random position, guard and count on the lattice
    let nrand = if thorough { 4000 } else { 400 };
    for _ in 0..nrand {
        let n = lattice[rng.below(lattice.len() as u64) as usize];
        let form = [0i128, 1, 4, 5, 6, 7][rng.below(6) as usize];
        let ty = rng.below(4) as i128;
        let mode = if n > 97 { 1 } else { 0 };
        let (p, l) = if form < 2 {
            (rng.below(40) as usize, rng.below(4 * n as u64 + 4) as usize)
        } else {
            (rng.below(6) as usize, rng.below(12) as usize)
        };
        let g = 1 + rng.below(5) as usize;
        dist("seeded");
        do_case(vec![form, ty, n as i128, p as i128, l as i128, g as i128, mode]);
    }
    flush_dist();
}

//! C15: heap interop preserves contents, needs exact length, reuses the allocation.
//! Case: [op, kind, N, L, spare, pan, fail, aux] (coq/theories/HeapCase.v; pan = fail = -1 here).
//! OBS: code, 4 k contents..., 4 d ids dropped during the operation (sorted)..., same block
//! (1 | 0 | 2 n/a), alloc / dealloc / realloc calls during the operation (0 0 0 for the
//! constructors default_boxed / generate: C16's subject).
//! `--big`: the boxed constructors build arrays of several MiB on a thread with a 256 KiB stack.
use generic_array::sequence::GenericSequence;
use generic_array::typenum::*;
use generic_array::{box_arr, GenericArray};
use harness::*;

#[path = "../heap_common.rs"]
mod hc;
use hc::*;

#[global_allocator]
static ALLOC: RecAlloc = RecAlloc;

fn do_case(c: &Case) {
    emit_case(&c.ints());
    let (out, log, overflow) = run_dyn(c);
    let s = analyze(&log);
    let count = |k: u8| s.class[out.w0.min(s.class.len())..out.w1.min(s.class.len())].iter().filter(|x| **x == k).count() as i128;
    let (na, nd, nr) = (count(0), count(1), count(2));
    let conv = (1..=4).contains(&c.op);
    let ctor = c.op == 5 || c.op == 6;
    let same = if conv && nr == 0 { out.same } else { 2 };
    let mut obs: Vec<i128> = vec![out.code, 4, out.contents.len() as i128];
    obs.extend(out.contents.iter().map(|x| *x as i128));
    obs.push(4);
    obs.push(out.drops.len() as i128);
    obs.extend(out.drops.iter().map(|x| *x as i128));
    obs.push(same);
    if ctor {
        obs.extend([0, 0, 0]);
    } else {
        obs.extend([na, nd, nr]);
    }
    emit_obs(&obs);
    // direct oracles (what is wrong whatever the model says)
    if overflow {
        emit_oracle("harness log overflow");
    }
    let fallible = matches!(c.op, 0 | 3 | 4 | 8);
    if fallible && ((out.code == 0) != (c.l == c.n)) {
        emit_oracle(&format!("conversion of a source of length {} to length {} ended with code {}", c.l, c.n, out.code));
    }
    if fallible && out.code == 1 && c.kind != 2 && out.drops.len() != c.l {
        emit_oracle(&format!("LengthError but {} of the {} source elements were dropped", out.drops.len(), c.l));
    }
    let elem_size: usize = match c.kind { 0 => 8, 1 => 0, _ => 4 };
    let o1 = match c.op {
        1 | 2 => true,
        3 => c.l == c.n,
        4 => c.l == c.n && (c.spare == 0 || elem_size == 0),
        _ => false,
    };
    if o1 && (na + nd + nr != 0 || out.same != 1) {
        emit_oracle(&format!("O(1) conversion made {} alloc / {} dealloc / {} realloc calls, same block = {}", na, nd, nr, out.same));
    }
    if s.mis != 0 {
        emit_oracle(&format!("{} block(s) released with a layout other than the one requested", s.mis));
    }
}

type Big = U4194304; // 4 Mi elements

fn big_on_small_stack(name: &str, code: i128, expect: (usize, u64), f: fn() -> (usize, u64)) {
    let case = [100 + code, 0, 4194304, 0, 0, -1, -1, 0];
    emit_case(&case);
    let h = std::thread::Builder::new().stack_size(256 * 1024).spawn(f).unwrap();
    match h.join() {
        Ok((bytes, check)) => {
            emit_obs(&[0, bytes as i128, check as i128]);
            if (bytes, check) != expect {
                emit_oracle(&format!("{}: size / contents check gave {:?}, expected {:?}", name, (bytes, check), expect));
            }
            note(&format!("{}: {} MiB array built and checked on a thread with a 256 KiB stack (debug build)", name, bytes >> 20));
        }
        Err(_) => {
            emit_obs(&[2]);
            emit_oracle(&format!("{} panicked on the small-stack thread", name));
        }
    }
}

/// a 1 KiB element: few elements already make a multi-MiB array (a "small array" fast
/// path keyed on the element COUNT would put these on the stack)
#[derive(Clone, Copy)]
struct K1([u64; 128]);
impl Default for K1 {
    fn default() -> K1 {
        K1([3; 128])
    }
}
impl K1 {
    fn of(i: usize) -> K1 {
        let mut a = [0u64; 128];
        a[0] = i as u64;
        a[127] = 1;
        K1(a)
    }
    fn sum(&self) -> u64 {
        self.0.iter().sum()
    }
}

fn big() {
    note("the clause 'boxed constructors build arrays far larger than the thread's stack' is not expressible in the hub model; it is established only by this run: each constructor builds a 4-32 MiB array on a thread whose stack is 256 KiB (a stack round-trip of the array would overflow it and kill the process)");
    big_on_small_stack("default_boxed::<u64, 4Mi>", 0, (33554432, 4194304), || {
        let b = GenericArray::<u64, Big>::default_boxed();
        (std::mem::size_of_val(&*b), b.iter().sum::<u64>() + b.len() as u64)
    });
    big_on_small_stack("Box::<GenericArray<u64, 4Mi>>::generate", 1, (33554432, 4206648), || {
        let b = Box::<GenericArray<u64, Big>>::generate(|i| i as u64);
        (std::mem::size_of_val(&*b), b[0] + b[4194303] + b[12345])
    });
    big_on_small_stack("box_arr![7u8; 4Mi]", 2, (4194304, 29360128), || {
        let b: Box<GenericArray<u8, Big>> = box_arr![7u8; Big];
        (std::mem::size_of_val(&*b), b.iter().map(|x| *x as u64).sum::<u64>())
    });
    big_on_small_stack("boxed from_iter (collect::<Box<GenericArray<u64, 4Mi>>>)", 3, (33554432, 4206648), || {
        let b: Box<GenericArray<u64, Big>> = (0..4194304u64).collect();
        (std::mem::size_of_val(&*b), b[0] + b[4194303] + b[12345])
    });
    big_on_small_stack("try_boxed_from_iter::<u32, 4Mi>", 4, (16777216, 4194303), || {
        let b = GenericArray::<u32, Big>::try_boxed_from_iter((0..4194304u32).map(|x| x ^ 1)).unwrap();
        (std::mem::size_of_val(&*b), (b[0] + b[4194303]) as u64)
    });
    big_on_small_stack("Box<GenericArray<u64, 4Mi>> into_vec / try_from_vec round trip", 5, (33554432, 4206648), || {
        let b = Box::<GenericArray<u64, Big>>::generate(|i| i as u64);
        let v = GenericArray::into_vec(b);
        let b = GenericArray::<u64, Big>::try_from_vec(v).unwrap();
        (std::mem::size_of_val(&*b), b[0] + b[4194303] + b[12345])
    });
    // few LARGE elements (4096 x 1 KiB = 4 MiB; 1024 x 1 KiB = 1 MiB)
    big_on_small_stack("default_boxed::<K1 (1 KiB), 4096>", 6, (4194304, 1572864), || {
        let b = GenericArray::<K1, U4096>::default_boxed();
        (std::mem::size_of_val(&*b), b.iter().map(|k| k.sum()).sum::<u64>())
    });
    big_on_small_stack("Box::<GenericArray<K1, 4096>>::generate", 7, (4194304, 8390656), || {
        let b = Box::<GenericArray<K1, U4096>>::generate(K1::of);
        (std::mem::size_of_val(&*b), b.iter().map(|k| k.sum()).sum::<u64>())
    });
    big_on_small_stack("box_arr![K1; 1024]", 8, (1048576, 393216), || {
        let b: Box<GenericArray<K1, U1024>> = box_arr![K1::default(); U1024];
        (std::mem::size_of_val(&*b), b.iter().map(|k| k.sum()).sum::<u64>())
    });
    big_on_small_stack("boxed from_iter (collect::<Box<GenericArray<K1, 4096>>>)", 9, (4194304, 8390656), || {
        let b: Box<GenericArray<K1, U4096>> = (0..4096usize).map(K1::of).collect();
        (std::mem::size_of_val(&*b), b.iter().map(|k| k.sum()).sum::<u64>())
    });
    big_on_small_stack("Box::<GenericArray<K1, 1024>>::generate (1 MiB)", 10, (1048576, 524800), || {
        let b = Box::<GenericArray<K1, U1024>>::generate(K1::of);
        (std::mem::size_of_val(&*b), b.iter().map(|k| k.sum()).sum::<u64>())
    });
}

fn main() {
    let a = args();
    install_hook();
    if a.extra.iter().any(|x| x == "--big") {
        if let Some(c) = a.replay {
            note(&format!("replay of big case {:?}: running the whole big set", c));
        }
        big();
        return;
    }
    if let Some(c) = a.replay {
        do_case(&Case::from_ints(&c));
        return;
    }
    let thorough = a.tier == "thorough";
    let ns: Vec<usize> = if thorough { LATTICE.to_vec() } else { vec![0, 1, 2, 3, 8, 16, 33, 1024] };
    let mut n_cases = 0usize;
    enumerate(&ns, 0, 1, |mut c| {
        if c.pan != -1 {
            return; // panics are C16's subject; C15 runs the panic-free cases
        }
        c.fail = -1;
        dist(&format!("op{}", c.op));
        dist(&format!("N{}", c.n));
        do_case(&c);
        n_cases += 1;
    });
    // seeded: random source lengths and spare capacities around every N
    enumerate_big(|c| {
        if c.pan != -1 {
            return;
        }
        dist("big");
        do_case(&c);
    });
    let mut rng = Rng::new(a.seed);
    let count = if thorough { 6000 } else { 600 };
    for _ in 0..count {
        let n = LATTICE[rng.below(LATTICE.len() as u64) as usize];
        let kind = rng.below(3) as i128;
        let op = [0i128, 3, 4, 8, 7, 12, 11][rng.below(7) as usize];
        let l = match rng.below(4) {
            0 => n,
            1 => rng.below(2 * n as u64 + 3) as usize,
            2 => n + 1 + rng.below(3) as usize,
            _ => n.saturating_sub(1 + rng.below(3) as usize),
        };
        let spare = if rng.chance(1, 2) { 0 } else { 1 + rng.below(40) as usize };
        let aux = if op == 11 { rng.below(n as u64 + 1) as i128 } else { rng.below(2) as i128 };
        let c = Case { op, kind, n, l, spare: if op == 0 || op == 4 { spare } else { 0 }, pan: -1, fail: -1, aux };
        dist("seeded");
        do_case(&c);
    }
    flush_dist();
}

//! C12: rustc's verdict on generated accept/reject programs, compiled against the
//! generic_array rlib that cargo built for this harness from the current tree.
//!
//! CASE: [op, variant, a, b, ci, c]   (see coq/theories/CorrC12.v and SigDecls.v)
//!   op 1..13  a use of a length-relating operation; a, b = the lengths at the use site;
//!             ci >= 0: the program writes length c for the ci-th result type, ci = -1: inferred
//!   op 20/21  GenericArray<T, N> / GenericArrayIter<T, N> must have trait `variant`
//!             (0 Send 1 Sync 2 Copy 3 Clone); a = traits of T as bits (1 Send 2 Sync 4 Copy 8 Clone);
//!             b = 0: generic N, 1: generic N + `where N::ArrayType<T>: Copy`, 2 + n: N = Un
//!   op 30     borrow program `variant` (0 plain use, 1 use after the source is gone, 2 alias,
//!             3 move the source, 4 harmless twin of 2, 5 require 'static) over signature id a
//!   op 40     implementing ArrayLength outside the crate (variant 0, 1); a plain generic use (2)
//! OBS:  [1, result lengths...] accepted (lengths read back from ONE combined binary built from all
//!       accepted programs, i.e. the lengths rustc inferred), [0] rejected.
//! ORACLE: a program was rejected with an error class outside the one expected for its kind
//!       (the corpus generator, not the crate, would be at fault), or rustc crashed.
use harness::*;
use std::collections::BTreeSet;
use std::path::{Path, PathBuf};
use std::process::Command;
use std::sync::atomic::{AtomicUsize, Ordering};
use std::sync::{Arc, Mutex};

const PRELUDE: &str = r#"
pub use generic_array::{arr, ArrayLength, ConstArrayLength, GenericArray, GenericArrayIter, IntoArrayLength};
pub use generic_array::typenum::{self, Const, UInt, UTerm, Unsigned, B0, B1};
pub use generic_array::sequence::*;
pub use generic_array::functional::*;
pub use std::borrow::{Borrow, BorrowMut};
pub use std::cell::{Cell, RefCell};
pub use std::marker::PhantomData;
pub use std::rc::Rc;
pub use std::sync::MutexGuard;
pub trait HasLen { const LEN: usize; }
impl<T, N: ArrayLength> HasLen for GenericArray<T, N> { const LEN: usize = N::USIZE; }
impl<T, const U: usize> HasLen for [T; U] { const LEN: usize = U; }
impl<'a, X: HasLen> HasLen for &'a X { const LEN: usize = X::LEN; }
impl<'a, X: HasLen> HasLen for &'a mut X { const LEN: usize = X::LEN; }
impl<'a, X: HasLen> HasLen for &'a [X] { const LEN: usize = X::LEN; }
impl<'a, X: HasLen> HasLen for &'a mut [X] { const LEN: usize = X::LEN; }
pub struct Arity<const K: usize>;
impl<const K: usize> HasLen for Arity<K> { const LEN: usize = K; }
pub trait Lens { fn lens() -> Vec<usize>; }
impl Lens for () { fn lens() -> Vec<usize> { vec![] } }
impl<A: HasLen> Lens for (A,) { fn lens() -> Vec<usize> { vec![A::LEN] } }
impl<A: HasLen, B: HasLen> Lens for (A, B) { fn lens() -> Vec<usize> { vec![A::LEN, B::LEN] } }
pub fn lens_of<A, R: Lens>(_: fn(A) -> R) -> Vec<usize> { R::lens() }
pub fn use_it<X>(_: &X) {}
pub fn touch<X: ?Sized>(_: &mut X) {}
pub fn need_static<X: 'static>(_: X) {}
pub fn need_send<X: Send>() {}
pub fn need_sync<X: Sync>() {}
pub fn need_copy<X: Copy>() {}
pub fn need_clone<X: Clone>() {}
pub struct NoClone(pub u8);
pub struct SendOnly(pub Cell<u8>);
pub struct NoTraits(pub *const u8);
"#;

/// typenum spelling of n as nested UInt (works for every n, no alias needed)
fn uint(n: u128) -> String {
    if n == 0 {
        "UTerm".to_string()
    } else {
        format!("UInt<{}, B{}>", uint(n >> 1), n & 1)
    }
}
fn ga(elem: &str, n: u128) -> String {
    format!("GenericArray<{}, {}>", elem, uint(n))
}

#[derive(Clone, Copy, PartialEq)]
enum Kind {
    Length,
    Auto,
    Borrow,
    Seal,
}

struct Prog {
    body: String,
    has_lens: bool,
    kind: Kind,
}

fn allowed_errors(k: Kind) -> &'static [&'static str] {
    match k {
        // unsatisfied bound, associated-type mismatch, mismatched types, method with unsatisfied bounds
        Kind::Length => &["E0277", "E0271", "E0308", "E0599"],
        Kind::Auto => &["E0277"],
        Kind::Borrow => &["E0597", "E0499", "E0502", "E0505", "E0506", "E0716", "E0521", "E0503", "E0515", "E0310"],
        Kind::Seal => &["E0277"],
    }
}

fn lens_fn(arg_pat: &str, arg_ty: &str, lt: bool, body: &str) -> Prog {
    let text = if lt {
        format!(
            "fn f<'a>({}: {}) -> impl Lens + 'a {{ {} }}\npub fn lens() -> Vec<usize> {{ lens_of(f) }}\n",
            arg_pat, arg_ty, body
        )
    } else {
        format!(
            "fn f({}: {}) -> impl Lens {{ {} }}\npub fn lens() -> Vec<usize> {{ lens_of(f) }}\n",
            arg_pat, arg_ty, body
        )
    };
    Prog { body: text, has_lens: true, kind: Kind::Length }
}

/// receiver forms: 0 owned, 1 &, 2 &mut
fn recv(v: i128, ty: &str) -> (String, bool) {
    match v {
        0 => (ty.to_string(), false),
        1 => (format!("&'a {}", ty), true),
        _ => (format!("&'a mut {}", ty), true),
    }
}
fn recv_ann(v: i128, ty: &str) -> String {
    match v {
        0 => ty.to_string(),
        1 => format!("&{}", ty),
        _ => format!("&mut {}", ty),
    }
}

fn tuple_ty(k: u128) -> String {
    match k {
        0 => "()".to_string(),
        _ => format!("({})", "u8,".repeat(k as usize)),
    }
}

const ELEMS: &[(i128, &str)] = &[
    (15, "u8"),
    (8, "Rc<u8>"),
    (13, "PhantomData<Cell<u8>>"),
    (12, "*const u8"),
    (11, "String"),
    (9, "Cell<u8>"),
    (3, "NoClone"),
    (2, "MutexGuard<'static, u8>"),
    (1, "SendOnly"),
    (0, "NoTraits"),
];

/// (id, source type, source initialiser, call with $S for the source place, result is mutable)
const SIGS: &[(i128, &str, &str, &str, bool)] = &[
    (1, "GenericArray<String, U4>", "Default::default()", "$S.as_slice()", false),
    (2, "GenericArray<String, U4>", "Default::default()", "$S.as_mut_slice()", true),
    (3, "Vec<String>", "vec![String::new(); 4]", "GenericArray::<String, U4>::from_slice(&$S)", false),
    (4, "Vec<String>", "vec![String::new(); 4]", "GenericArray::<String, U4>::try_from_slice(&$S)", false),
    (5, "Vec<String>", "vec![String::new(); 4]", "GenericArray::<String, U4>::from_mut_slice(&mut $S)", true),
    (6, "Vec<String>", "vec![String::new(); 4]", "GenericArray::<String, U4>::try_from_mut_slice(&mut $S)", true),
    (7, "Vec<String>", "vec![String::new(); 9]", "GenericArray::<String, U4>::chunks_from_slice(&$S)", false),
    (8, "Vec<String>", "vec![String::new(); 9]", "GenericArray::<String, U4>::chunks_from_slice_mut(&mut $S)", true),
    (9, "Vec<GenericArray<String, U4>>", "vec![Default::default(); 2]", "GenericArray::<String, U4>::slice_from_chunks(&$S)", false),
    (10, "Vec<GenericArray<String, U4>>", "vec![Default::default(); 2]", "GenericArray::<String, U4>::slice_from_chunks_mut(&mut $S)", true),
    (11, "Vec<[String; 4]>", "vec![Default::default(); 2]", "GenericArray::<String, U4>::from_chunks(&$S)", false),
    (12, "Vec<[String; 4]>", "vec![Default::default(); 2]", "GenericArray::<String, U4>::from_chunks_mut(&mut $S)", true),
    (13, "Vec<GenericArray<String, U4>>", "vec![Default::default(); 2]", "GenericArray::<String, U4>::into_chunks::<4>(&$S)", false),
    (14, "Vec<GenericArray<String, U4>>", "vec![Default::default(); 2]", "GenericArray::<String, U4>::into_chunks_mut::<4>(&mut $S)", true),
    (15, "GenericArray<String, U4>", "Default::default()", "std::ops::Deref::deref(&$S)", false),
    (16, "GenericArray<String, U4>", "Default::default()", "std::ops::DerefMut::deref_mut(&mut $S)", true),
    (17, "GenericArray<String, U4>", "Default::default()", "(&$S).into_iter()", false),
    (18, "GenericArray<String, U4>", "Default::default()", "(&mut $S).into_iter()", true),
    (19, "Vec<String>", "vec![String::new(); 4]", "<&GenericArray<String, U4>>::try_from(&$S[..])", false),
    (20, "Vec<String>", "vec![String::new(); 4]", "<&mut GenericArray<String, U4>>::try_from(&mut $S[..])", true),
    (21, "GenericArray<String, U4>", "Default::default()", "Split::<String, U1>::split(&$S)", false),
    (22, "GenericArray<String, U4>", "Default::default()", "Split::<String, U1>::split(&mut $S)", true),
    (23, "GenericArray<GenericArray<String, U2>, U2>", "Default::default()", "Flatten::flatten(&$S)", false),
    (24, "GenericArray<GenericArray<String, U2>, U2>", "Default::default()", "Flatten::flatten(&mut $S)", true),
    (25, "GenericArray<String, U4>", "Default::default()", "Unflatten::<String, U4, U2>::unflatten(&$S)", false),
    (26, "GenericArray<String, U4>", "Default::default()", "Unflatten::<String, U4, U2>::unflatten(&mut $S)", true),
    (27, "GenericArray<String, U4>", "Default::default()", "Borrow::<[String]>::borrow(&$S)", false),
    (28, "GenericArray<String, U4>", "Default::default()", "BorrowMut::<[String]>::borrow_mut(&mut $S)", true),
    (29, "GenericArray<String, U4>", "Default::default()", "AsRef::<[String]>::as_ref(&$S)", false),
    (30, "GenericArray<String, U4>", "Default::default()", "AsMut::<[String]>::as_mut(&mut $S)", true),
    (31, "[String; 4]", "Default::default()", "<&GenericArray<String, U4>>::from(&$S)", false),
    (32, "[String; 4]", "Default::default()", "<&mut GenericArray<String, U4>>::from(&mut $S)", true),
    (33, "GenericArray<String, U4>", "Default::default()", "AsRef::<[String; 4]>::as_ref(&$S)", false),
    (34, "GenericArray<String, U4>", "Default::default()", "AsMut::<[String; 4]>::as_mut(&mut $S)", true),
    (35, "GenericArrayIter<String, U4>", "GenericArray::default().into_iter()", "$S.as_slice()", false),
    (36, "GenericArrayIter<String, U4>", "GenericArray::default().into_iter()", "$S.as_mut_slice()", true),
    (37, "String", "String::new()", "arr![&$S, &$S, &$S]", false),
    (38, "String", "String::new()", "arr![&$S; U3]", false),
    (39, "String", "String::new()", "arr![&$S; 3]", false),
];

fn program(case: &[i128]) -> Option<Prog> {
    if case.len() != 6 {
        return None;
    }
    let (op, v, a, b, ci, c) = (case[0], case[1], case[2], case[3], case[4], case[5]);
    let (n, k) = (a as u128, b as u128);
    let claim = |i: i128| -> Option<u128> { if ci == i { Some(c as u128) } else { None } };
    // `_` or the claimed length
    let hole = |i: i128| -> String { claim(i).map(uint).unwrap_or_else(|| "_".to_string()) };
    let a_n = ga("u8", n);
    Some(match op {
        1 => {
            let m = if v == 0 { "append" } else { "prepend" };
            lens_fn("x", &a_n, false, &format!("let r: GenericArray<u8, {}> = x.{}(1u8); (r,)", hole(0), m))
        }
        2 => {
            let pat = if v == 0 { "(r, _)" } else { "(_, r)" };
            let m = if v == 0 { "pop_back" } else { "pop_front" };
            let ann = if v == 0 {
                format!("(GenericArray<u8, {}>, u8)", hole(0))
            } else {
                format!("(u8, GenericArray<u8, {}>)", hole(0))
            };
            lens_fn("x", &a_n, false, &format!("let {}: {} = x.{}(); (r,)", pat, ann, m))
        }
        3 => {
            let (ty, lt) = recv(v, &a_n);
            let first = recv_ann(v, &format!("GenericArray<u8, {}>", hole(0)));
            let second = recv_ann(v, &format!("GenericArray<u8, {}>", hole(1)));
            lens_fn("x", &ty, lt, &format!("let (p, q): ({}, {}) = Split::<u8, {}>::split(x); (p, q)", first, second, uint(k)))
        }
        4 => lens_fn(
            "(x, y)",
            &format!("({}, {})", a_n, ga("u8", k)),
            false,
            &format!("let r: GenericArray<u8, {}> = x.concat(y); (r,)", hole(0)),
        ),
        5 => {
            let m = if v == 0 { "remove" } else { "swap_remove" };
            lens_fn("x", &a_n, false, &format!("let (_, r): (u8, GenericArray<u8, {}>) = x.{}(0); (r,)", hole(0), m))
        }
        6 => {
            let src = format!("GenericArray<{}, {}>", a_n, uint(k));
            let (ty, lt) = recv(v, &src);
            let ann = recv_ann(v, &format!("GenericArray<u8, {}>", hole(0)));
            lens_fn("x", &ty, lt, &format!("let r: {} = Flatten::flatten(x); (r,)", ann))
        }
        7 => {
            let (ty, lt) = recv(v, &a_n);
            let ann = recv_ann(v, &format!("GenericArray<{}, {}>", ga("u8", k), hole(0)));
            lens_fn("x", &ty, lt, &format!("let r: {} = Unflatten::unflatten(x); (r,)", ann))
        }
        8 => {
            let call = match v {
                0 => "x.zip(y, |p, q| p.wrapping_add(q))",
                1 => "(&x).zip(&y, |p, q| p.wrapping_add(*q))",
                2 => "(&x).zip(y, |p, q| p.wrapping_add(q))",
                3 => "x.inverted_zip(y, |q, p| p.wrapping_add(q))",
                4 => "x.inverted_zip2(y, |q, p| p.wrapping_add(q))",
                5 => "x.inverted_zip2(&y, |q, p| p.wrapping_add(*q))",
                // 6 / 7: an OWNED receiver zipped with a borrowed / mutably borrowed array of the same length
                6 => "x.zip(&y, |p, q| p.wrapping_add(*q))",
                _ => "{ let mut y = y; x.zip(&mut y, |p, q| p.wrapping_add(*q)) }",
            };
            lens_fn(
                "(x, y)",
                &format!("({}, {})", a_n, ga("u8", k)),
                false,
                &format!("let r: GenericArray<u8, {}> = {}; (r,)", hole(0), call),
            )
        }
        9 => {
            let e = match v {
                0 => "let _r: bool = x == y;",
                1 | 3 => "let _r = x.partial_cmp(&y);",
                2 => "let _r = x.cmp(&y);",
                4 => "let _r: bool = x < y;",
                5 | 7 => "let _r: bool = x == y;",
                _ => "let _r: bool = x.lt(&y);",
            };
            // variant 7: the right-hand side is a NATIVE array of another length
            if v == 7 {
                return Some(lens_fn("(x, y)", &format!("({}, [u8; {}])", ga("u8", n), k), false, &format!("{} ()", e)));
            }
            // variants 3..: elements that are PartialOrd but not Ord (a method call must not fall
            // through to the slice impl, which would accept any two lengths)
            let el = if v >= 3 { "f64" } else { "u8" };
            lens_fn("(x, y)", &format!("({}, {})", ga(el, n), ga(el, k)), false, &format!("{} ()", e))
        }
        10 => match v {
            0 => lens_fn("x", &format!("[u8; {}]", k), false, &format!("(GenericArray::<u8, {}>::from_array(x),)", uint(n))),
            1 => lens_fn("x", &a_n, false, &format!("let r: [u8; {}] = x.into_array(); (r,)", k)),
            2 => lens_fn("x", &format!("&'a [[u8; {}]]", k), true, &format!("(GenericArray::<u8, {}>::from_chunks(x),)", uint(n))),
            3 => lens_fn("x", &format!("&'a mut [[u8; {}]]", k), true, &format!("(GenericArray::<u8, {}>::from_chunks_mut(x),)", uint(n))),
            4 => lens_fn("x", &format!("&'a [{}]", a_n), true, &format!("let r: &[[u8; {}]] = GenericArray::into_chunks(x); (r,)", k)),
            5 => lens_fn("x", &format!("&'a mut [{}]", a_n), true, &format!("let r: &mut [[u8; {}]] = GenericArray::into_chunks_mut(x); (r,)", k)),
            // 6..9: the four chunk reinterpretations called from code generic over `const U: usize` that states only the
            // published bound `Const<U>: IntoArrayLength`
            6 => lens_fn("x", &format!("&'a [[u8; {}]]", k), true, &format!("fn g<'b, T, const U: usize>(x: &'b [[T; U]]) -> &'b [GenericArray<T, generic_array::ConstArrayLength<U>>] where Const<U>: IntoArrayLength {{ GenericArray::from_chunks(x) }} let r: &'a [{}] = g(x); (r,)", a_n)),
            7 => lens_fn("x", &format!("&'a mut [[u8; {}]]", k), true, &format!("fn g<'b, T, const U: usize>(x: &'b mut [[T; U]]) -> &'b mut [GenericArray<T, generic_array::ConstArrayLength<U>>] where Const<U>: IntoArrayLength {{ GenericArray::from_chunks_mut(x) }} let r: &'a mut [{}] = g(x); (r,)", a_n)),
            8 => lens_fn("x", &format!("&'a [{}]", a_n), true, &format!("fn g<'b, T, const U: usize>(x: &'b [GenericArray<T, generic_array::ConstArrayLength<U>>]) -> &'b [[T; U]] where Const<U>: IntoArrayLength {{ GenericArray::into_chunks(x) }} let r: &[[u8; {}]] = g(x); (r,)", k)),
            9 => lens_fn("x", &format!("&'a mut [{}]", a_n), true, &format!("fn g<'b, T, const U: usize>(x: &'b mut [GenericArray<T, generic_array::ConstArrayLength<U>>]) -> &'b mut [[T; U]] where Const<U>: IntoArrayLength {{ GenericArray::into_chunks_mut(x) }} let r: &mut [[u8; {}]] = g(x); (r,)", k)),
            _ => return None,
        },
        11 => match v {
            0 => lens_fn("x", &format!("[u8; {}]", k), false, &format!("let r: {} = x.into(); (r,)", a_n)),
            1 => lens_fn("x", &a_n, false, &format!("let r: [u8; {}] = x.into(); (r,)", k)),
            2 => lens_fn("x", &format!("&'a [u8; {}]", k), true, &format!("let r: &'a {} = x.into(); (r,)", a_n)),
            3 => lens_fn("x", &format!("&'a mut [u8; {}]", k), true, &format!("let r: &'a mut {} = x.into(); (r,)", a_n)),
            4 => lens_fn("x", &format!("&'a {}", a_n), true, &format!("let r: &[u8; {}] = x.as_ref(); (r,)", k)),
            5 => lens_fn("x", &format!("&'a mut {}", a_n), true, &format!("let r: &mut [u8; {}] = x.as_mut(); (r,)", k)),
            // 6..11: the same six conversions called from code generic over `const U: usize` that states only the
            // published bound `Const<U>: IntoArrayLength`
            6 => lens_fn("x", &format!("[u8; {}]", k), false, &format!("fn g<T, const U: usize>(x: [T; U]) -> GenericArray<T, generic_array::ConstArrayLength<U>> where Const<U>: IntoArrayLength {{ x.into() }} let r: {} = g(x); (r,)", a_n)),
            7 => lens_fn("x", &a_n, false, &format!("fn g<T, const U: usize>(x: GenericArray<T, generic_array::ConstArrayLength<U>>) -> [T; U] where Const<U>: IntoArrayLength {{ x.into() }} let r: [u8; {}] = g(x); (r,)", k)),
            8 => lens_fn("x", &format!("&'a [u8; {}]", k), true, &format!("fn g<'b, T, const U: usize>(x: &'b [T; U]) -> &'b GenericArray<T, generic_array::ConstArrayLength<U>> where Const<U>: IntoArrayLength {{ x.into() }} let r: &'a {} = g(x); (r,)", a_n)),
            9 => lens_fn("x", &format!("&'a mut [u8; {}]", k), true, &format!("fn g<'b, T, const U: usize>(x: &'b mut [T; U]) -> &'b mut GenericArray<T, generic_array::ConstArrayLength<U>> where Const<U>: IntoArrayLength {{ x.into() }} let r: &'a mut {} = g(x); (r,)", a_n)),
            10 => lens_fn("x", &format!("&'a {}", a_n), true, &format!("fn g<'b, T, const U: usize>(x: &'b GenericArray<T, generic_array::ConstArrayLength<U>>) -> &'b [T; U] where Const<U>: IntoArrayLength {{ x.as_ref() }} let r: &[u8; {}] = g(x); (r,)", k)),
            11 => lens_fn("x", &format!("&'a mut {}", a_n), true, &format!("fn g<'b, T, const U: usize>(x: &'b mut GenericArray<T, generic_array::ConstArrayLength<U>>) -> &'b mut [T; U] where Const<U>: IntoArrayLength {{ x.as_mut() }} let r: &mut [u8; {}] = g(x); (r,)", k)),
            _ => return None,
        },
        12 => match v {
            0 => lens_fn("x", &tuple_ty(k), false, &format!("let r: {} = x.into(); (r,)", a_n)),
            1 => lens_fn("x", &a_n, false, &format!("let _r: {} = x.into(); (Arity::<{}>,)", tuple_ty(k), k)),
            _ => return None,
        },
        13 => {
            let arg = ga(if v == 3 { "u8" } else { "u8" }, claim(0).unwrap_or(n));
            match v {
                0 => lens_fn("x", &arg, false, &format!("let r: GenericArray<u8, <{} as GenericSequence<u8>>::Length> = x; (r,)", a_n)),
                1 => lens_fn("x", &arg, false, &format!("let r: GenericArray<u8, <&'static {} as GenericSequence<u8>>::Length> = x; (r,)", a_n)),
                2 => lens_fn("x", &arg, false, &format!("let r: GenericArray<u8, <&'static mut {} as GenericSequence<u8>>::Length> = x; (r,)", a_n)),
                3 => lens_fn("x", &a_n, false, &format!("let r: GenericArray<u16, {}> = x.map(|e| e as u16); (r,)", hole(0))),
                _ => return None,
            }
        }
        20 | 21 => {
            let tr = ["send", "sync", "copy", "clone"].get(v as usize)?;
            let st = if op == 20 { "GenericArray" } else { "GenericArrayIter" };
            let body = if b >= 2 {
                let (_, elem) = ELEMS.iter().find(|(bits, _)| *bits == a)?;
                format!("pub fn f() {{ need_{}::<{}<{}, {}>>() }}\n", tr, st, elem, uint((b - 2) as u128))
            } else {
                let mut bounds = vec![];
                for (bit, name) in [(1, "Send"), (2, "Sync"), (4, "Copy"), (8, "Clone")] {
                    if a & bit != 0 {
                        bounds.push(name);
                    }
                }
                let wc = if b == 1 { " where N::ArrayType<T>: Copy" } else { "" };
                format!(
                    "pub fn f<T{}{}, N: ArrayLength>(){} {{ need_{}::<{}<T, N>>() }}\n",
                    if bounds.is_empty() { "" } else { ": " },
                    bounds.join(" + "),
                    wc,
                    tr,
                    st
                )
            };
            Prog { body, has_lens: false, kind: Kind::Auto }
        }
        30 => {
            let (_, ty, init, call, is_mut) = SIGS.iter().find(|s| s.0 == a)?;
            let call = call.replace("$S", "src");
            let aliases = "type U1 = UInt<UTerm, B1>; type U2 = UInt<U1, B0>; type U3 = UInt<U1, B1>; type U4 = UInt<U2, B0>;\n";
            let decl = format!("let mut src: {} = {};", ty, init);
            let body = match v {
                0 => format!("{} let v = {}; use_it(&v);", decl, call),
                1 => format!("let v; {{ {} v = {}; }} use_it(&v);", decl, call),
                2 if *is_mut => format!("{} let v = {}; let w = {}; use_it(&v); use_it(&w);", decl, call, call),
                2 => format!("{} let v = {}; touch(&mut src); use_it(&v);", decl, call),
                3 => format!("{} let v = {}; let moved = src; use_it(&v);", decl, call),
                4 if *is_mut => format!("{} let v = {}; use_it(&v); let w = {}; use_it(&w);", decl, call, call),
                4 => format!("{} let v = {}; let w = {}; use_it(&v); use_it(&w);", decl, call, call),
                5 => format!("{} let v = {}; need_static(v);", decl, call),
                _ => return None,
            };
            Prog { body: format!("{}pub fn f() {{ {} }}\n", aliases, body), has_lens: false, kind: Kind::Borrow }
        }
        40 => {
            let body = match v {
                0 => "pub struct My;\nunsafe impl ArrayLength for My { type ArrayType<T> = [T; 1]; }\n",
                1 => "pub struct My;\nunsafe impl ArrayLength for My { type ArrayType<T> = generic_array::GenericArrayImplEven<T, [T; 0]>; }\n",
                2 => "pub fn f<N: ArrayLength>() -> usize { N::USIZE + core::mem::size_of::<N::ArrayType<u8>>() }\n",
                _ => return None,
            };
            Prog { body: body.to_string(), has_lens: false, kind: Kind::Seal }
        }
        50 => {
            // code generic over the sequence type: the result type after a round trip must be S itself
            // 4..8: callers generic over a length-relating trait that state only what the trait's declaration asks for
            if (4..=10).contains(&v) {
                let g = match v {
                    4 => "pub fn g<A, M>(a: A, b: A::Rest) -> A::Output where A: Concat<u8, M>, M: ArrayLength { a.concat(b) }",
                    5 => "pub fn g<N, M>(a: GenericArray<u8, N>, b: GenericArray<u8, M>) -> GenericArray<u8, typenum::Sum<N, M>> where N: ArrayLength + core::ops::Add<M>, M: ArrayLength, typenum::Sum<N, M>: ArrayLength { a.concat(b) }",
                    6 => "pub fn g<S, K>(s: S) -> (S::First, S::Second) where S: Split<u8, K>, K: ArrayLength { s.split() }",
                    7 => "pub fn g<S, N>(s: S) -> (u8, S::Output) where S: Remove<u8, N>, N: ArrayLength { s.remove(0) }",
                    9 => "pub fn g<N>(a: GenericArray<u8, N>) -> (u8, GenericArray<u8, typenum::Sub1<N>>) where N: ArrayLength + core::ops::Sub<B1>, typenum::Sub1<N>: ArrayLength { a.remove(0) }",
                    10 => "pub fn g<N, K>(a: GenericArray<u8, N>) -> (GenericArray<u8, K>, GenericArray<u8, typenum::Diff<N, K>>) where N: ArrayLength + core::ops::Sub<K>, K: ArrayLength, typenum::Diff<N, K>: ArrayLength { a.split() }",
                    _ => "pub fn g<S, N, M>(s: S) -> S::Output where S: Flatten<u8, N, M>, N: ArrayLength + core::ops::Mul<M>, typenum::Prod<N, M>: ArrayLength { s.flatten() }",
                };
                let call = match v {
                    4 | 5 => format!("pub fn call(x: {}, y: {}) -> {} {{ g(x, y) }}", ga("u8", n), ga("u8", 2), ga("u8", n + 2)),
                    6 => format!("pub fn call(x: {}) -> ({}, {}) {{ g::<_, {}>(x) }}", ga("u8", n + 1), ga("u8", 1), ga("u8", n), uint(1)),
                    7 | 9 => format!("pub fn call(x: {}) -> (u8, {}) {{ g(x) }}", ga("u8", n + 1), ga("u8", n)),
                    10 => format!("pub fn call(x: {}) -> ({}, {}) {{ g::<_, {}>(x) }}", ga("u8", n + 1), ga("u8", 1), ga("u8", n), uint(1)),
                    _ => format!("pub fn call(x: GenericArray<{}, {}>) -> {} {{ g(x) }}", ga("u8", n), uint(2), ga("u8", 2 * n)),
                };
                return Some(Prog { body: format!("{}\n{}\n", g, call), has_lens: false, kind: Kind::Length });
            }
            let (bound, body) = match v {
                0 => ("Lengthen<u8>", "s.append(7u8).pop_back().0"),
                2 => ("Lengthen<u8>", "s.prepend(7u8).pop_front().1"),
                1 => ("Shorten<u8>", "{ let (init, last) = s.pop_back(); init.append(last) }"),
                3 => ("Shorten<u8>", "{ let (head, tail) = s.pop_front(); tail.prepend(head) }"),
                _ => return None,
            };
            let call_len = if v == 1 || v == 3 { n + 1 } else { n };
            let body = format!(
                "pub fn round<S: {}>(s: S) -> S {{ {} }}\npub fn call(x: {}) -> {} {{ round(x) }}\n",
                bound,
                body,
                ga("u8", call_len),
                ga("u8", call_len)
            );
            Prog { body, has_lens: false, kind: Kind::Length }
        }
        _ => return None,
    })
}

fn file_text(p: &Prog) -> String {
    format!(
        "#![allow(unused, dead_code, non_camel_case_types)]\nmod pre {{{}}}\nmod p {{ use super::pre::*;\n{}}}\n",
        PRELUDE, p.body
    )
}

// ---------------------------------------------------------------- case enumeration

fn cases(tier: &str, rng: &mut Rng) -> Vec<Vec<i128>> {
    let th = tier == "thorough";
    let mut out: Vec<Vec<i128>> = vec![];
    let mut push = |op: i128, v: i128, a: i128, b: i128, ci: i128, c: i128| out.push(vec![op, v, a, b, ci, c]);
    let ns: Vec<i128> = if th { (0..=6).collect() } else { vec![0, 1, 3] };
    let ks: Vec<i128> = if th { (0..=7).collect() } else { vec![0, 1, 3, 4] };
    // 1 lengthen, 2 shorten, 5 remove, 13 sequence length / map
    for &n in &ns {
        for v in 0..2 {
            push(1, v, n, 0, -1, 0);
            push(2, v, n, 0, -1, 0);
            push(5, v, n, 0, -1, 0);
            if th || v == 0 {
                for c in [n, n + 1, n + 2] {
                    push(1, v, n, 0, 0, c);
                }
                for c in [n - 2, n - 1, n] {
                    if c >= 0 {
                        push(2, v, n, 0, 0, c);
                        push(5, v, n, 0, 0, c);
                    }
                }
            }
        }
        for v in 0..4 {
            if th || v == 0 || v == 3 {
                push(13, v, n, 0, -1, 0);
                push(13, v, n, 0, 0, n);
                push(13, v, n, 0, 0, n + 1);
            }
        }
    }
    // 3 split, 4 concat, 6 flatten, 7 unflatten, 8 zip
    for &n in &ns {
        for &k in &ks {
            for v in 0..3 {
                push(3, v, n, k, -1, 0);
                let small = n <= 3 && k <= 3;
                if v == 0 || small {
                    push(6, v, n, k, -1, 0);
                    push(7, v, n, k, -1, 0);
                    push(8, v, n, k, -1, 0);
                }
            }
            // the doc-hidden building blocks of zip called directly
            if n <= 3 && k <= 3 {
                for v in 3..8 {
                    push(8, v, n, k, -1, 0);
                }
            }
            push(4, 0, n, k, -1, 0);
            if th && (n + k) % 3 == 0 {
                // written result lengths: right, off by one in both directions
                for d in [-1, 0, 1] {
                    if k <= n && n - k + d >= 0 {
                        push(3, 0, n, k, 1, n - k + d);
                        push(3, 1, n, k, 0, k + d.abs());
                    }
                    if n + k + d >= 0 {
                        push(4, 0, n, k, 0, n + k + d);
                    }
                    if n * k + d >= 0 {
                        push(6, 0, n, k, 0, n * k + d);
                    }
                    if k > 0 && n / k + d >= 0 {
                        push(7, 0, n, k, 0, n / k + d);
                    }
                    if n + d >= 0 {
                        push(8, 0, n, k, 0, n + d);
                    }
                }
            }
        }
    }
    if th {
        for nm in [8, 9, 12, 16] {
            for k in 0..=5 {
                push(7, 0, nm, k, -1, 0);
            }
        }
    } else {
        push(3, 0, 3, 1, 1, 2);
        push(3, 0, 3, 1, 1, 3);
        push(4, 0, 1, 3, 0, 4);
        push(4, 0, 1, 3, 0, 5);
        push(6, 0, 3, 3, 0, 9);
        push(6, 0, 3, 3, 0, 6);
        push(7, 0, 7, 2, 0, 3);
        push(7, 0, 7, 2, 0, 4);
        push(7, 0, 8, 2, -1, 0);
    }
    // 9 comparisons
    let cm: i128 = if th { 4 } else { 1 };
    for n in 0..=cm {
        for k in 0..=cm {
            for v in 0..7 {
                push(9, v, n, k, -1, 0);
            }
        }
    }
    // 10 / 11 native arrays
    let (an, au): (i128, i128) = if th { (4, 5) } else { (1, 2) };
    for v in 0..6 {
        for n in 0..=an {
            for u in 0..=au {
                if th || v < 2 || n + u == 2 {
                    push(10, v, n, u, -1, 0);
                    if v >= 2 {
                        // the chunk reinterpretations from a caller generic over the const length
                        push(10, v + 4, n, u, -1, 0);
                    }
                }
                if (th && n <= 3 && u <= 4) || (!th && (v == 0 || v == 4) && u <= 1) || (!th && n + u == 2) {
                    push(11, v, n, u, -1, 0);
                    // the same conversion from a caller generic over the const length
                    push(11, v + 6, n, u, -1, 0);
                }
            }
        }
    }
    // typenum's Const<U> table: present and absent values, equal and unequal lengths
    let big: &[(i128, i128)] = if th {
        &[(1024, 1024), (1025, 1025), (1024, 1025), (2047, 2047), (2048, 2048), (2049, 2049), (3600, 3600),
          (3601, 3601), (4095, 4095), (4096, 4095), (5000, 5000), (10000, 10000), (65536, 65536), (1000000, 1000000),
          (1000001, 1000001), (4294967296, 4294967296)]
    } else {
        &[(1024, 1024), (1025, 1025), (2048, 2048), (2049, 2049)]
    };
    for &(n, u) in big {
        push(10, 0, n, u, -1, 0);
        push(11, 0, n, u, -1, 0);
        if th {
            push(10, 1, n, u, -1, 0);
            push(10, 4, n, u, -1, 0);
            push(11, 4, n, u, -1, 0);
        }
    }
    // 12 tuples
    for v in 0..2 {
        for k in 0..=13i128 {
            for n in [k - 1, k, k + 1] {
                if n >= 0 && (th || n == k || (k % 4 == 1 && v == 0) || k == 12) {
                    push(12, v, n, k, -1, 0);
                }
            }
        }
    }
    // 20 / 21 auto traits
    let shapes: Vec<i128> = if th { vec![0, 1, 2, 3, 5, 8] } else { vec![0, 1, 5] };
    for op in [20, 21] {
        for t in 0..4 {
            for (bits, _) in ELEMS {
                for &s in &shapes {
                    let keep = th || (op == 20 && (s != 5 || t < 2 || bits % 4 == 0)) || (op == 21 && s == 5 && (t == 0 || *bits >= 12));
                    if keep && !(!th && op == 20 && s == 0 && t == 3) {
                        push(op, t, *bits, s, -1, 0);
                    }
                }
            }
        }
    }
    // 30 borrow programs
    for s in SIGS {
        for v in 0..6 {
            push(30, v, s.0, 0, -1, 0);
        }
    }
    for v in 0..3 {
        push(40, v, 0, 0, -1, 0);
    }
    // 50 round trips in code generic over the sequence type
    for v in 0..11 {
        for n in [0i128, 1, 3] {
            push(50, v, n, 0, -1, 0);
        }
    }
    // a GenericArray compared with a native array of another length
    for (n, k) in [(0i128, 1i128), (1, 0), (3, 4), (4, 3), (1, 2)] {
        push(9, 7, n, k, -1, 0);
    }
    // seeded extras: random lengths up to 40 for the two-parameter operations
    let extra = if th { 60 } else { 8 };
    for _ in 0..extra {
        let op = [3, 4, 6, 7, 8, 9, 10][rng.below(7) as usize];
        let n = rng.below(41) as i128;
        let k = if rng.chance(1, 3) { n } else { rng.below(41) as i128 };
        let (n, k) = if op == 6 { (n % 12, k % 12) } else { (n, k) };
        push(op, 0, n, k, -1, 0);
    }
    let mut seen = BTreeSet::new();
    out.retain(|c| seen.insert(c.clone()));
    out
}

// ---------------------------------------------------------------- compiling

struct Env {
    dir: PathBuf,
    deps: PathBuf,
    rlib: PathBuf,
    rustc: String,
}

fn find_env() -> Env {
    let exe = std::env::current_exe().expect("current_exe");
    let deps = exe.parent().expect("exe dir").join("deps");
    let mut best: Option<(std::time::SystemTime, PathBuf)> = None;
    if let Ok(rd) = std::fs::read_dir(&deps) {
        for e in rd.flatten() {
            let name = e.file_name().to_string_lossy().to_string();
            if name.starts_with("libgeneric_array-") && name.ends_with(".rlib") {
                let t = e.metadata().and_then(|m| m.modified()).unwrap_or(std::time::UNIX_EPOCH);
                if best.as_ref().map_or(true, |(bt, _)| t > *bt) {
                    best = Some((t, e.path()));
                }
            }
        }
    }
    let rlib = best.expect("no libgeneric_array-*.rlib next to the harness executable").1;
    let base = std::env::var("VERIF_OUT").unwrap_or_else(|_| std::env::temp_dir().to_string_lossy().to_string());
    let dir = Path::new(&base).join(format!("c12-progs-{}", std::process::id()));
    let _ = std::fs::remove_dir_all(&dir);
    std::fs::create_dir_all(&dir).expect("create program dir");
    Env { dir, deps, rlib, rustc: std::env::var("RUSTC").unwrap_or_else(|_| "rustc".to_string()) }
}

fn rustc_cmd(env: &Env) -> Command {
    let mut c = Command::new(&env.rustc);
    c.arg("--edition").arg("2021").arg("--cap-lints").arg("allow");
    c.arg("-L").arg(format!("dependency={}", env.deps.display()));
    c.arg("--extern").arg(format!("generic_array={}", env.rlib.display()));
    c
}

/// (accepted, error codes, stderr)
fn compile_one(env: &Env, idx: usize, text: &str) -> (Option<bool>, Vec<String>, String) {
    let src = env.dir.join(format!("p{}.rs", idx));
    std::fs::write(&src, text).expect("write program");
    let outd = env.dir.join(format!("o{}", idx));
    let _ = std::fs::create_dir_all(&outd);
    let res = rustc_cmd(env)
        .arg("--emit=metadata")
        .arg("--crate-type")
        .arg("lib")
        .arg("--crate-name")
        .arg(format!("p{}", idx))
        .arg("--out-dir")
        .arg(&outd)
        .arg(&src)
        .output();
    let _ = std::fs::remove_dir_all(&outd);
    match res {
        Err(e) => (None, vec![], format!("cannot run rustc: {}", e)),
        Ok(o) => {
            let err = String::from_utf8_lossy(&o.stderr).to_string();
            let mut codes = BTreeSet::new();
            for line in err.lines() {
                if let Some(rest) = line.strip_prefix("error[") {
                    if let Some(end) = rest.find(']') {
                        codes.insert(rest[..end].to_string());
                    }
                } else if line.starts_with("error: lifetime may not live long enough") {
                    codes.insert("E0521".to_string());
                } else if line.starts_with("error: internal compiler error") || line.contains("panicked at") {
                    codes.insert("ICE".to_string());
                } else if line.starts_with("error: ") && !line.starts_with("error: aborting") && !line.starts_with("error: could not compile") {
                    codes.insert(format!("other:{}", &line[7..line.len().min(60)]));
                }
            }
            match o.status.code() {
                Some(0) => (Some(true), vec![], err),
                Some(1) => (Some(false), codes.into_iter().collect(), err),
                other => (None, codes.into_iter().collect(), format!("rustc exit {:?}: {}", other, err)),
            }
        }
    }
}

/// lengths of all accepted programs that have a lens(): one binary, one line per program
fn read_back(env: &Env, progs: &[(usize, &Prog)]) -> Result<std::collections::BTreeMap<usize, Vec<i128>>, String> {
    let mut map = std::collections::BTreeMap::new();
    if progs.is_empty() {
        return Ok(map);
    }
    let mut text = format!("#![allow(unused, dead_code, non_camel_case_types)]\nmod pre {{{}}}\n", PRELUDE);
    for (i, p) in progs {
        text.push_str(&format!("mod p{} {{ use super::pre::*;\n{}}}\n", i, p.body));
    }
    text.push_str("fn main() {\n");
    for (i, _) in progs {
        text.push_str(&format!("    println!(\"{} {{:?}}\", p{}::lens());\n", i, i));
    }
    text.push_str("}\n");
    let src = env.dir.join("combined.rs");
    std::fs::write(&src, &text).map_err(|e| e.to_string())?;
    let bin = env.dir.join("combined_bin");
    let o = rustc_cmd(env)
        .arg("-C")
        .arg("opt-level=0")
        .arg("-C")
        .arg("debuginfo=0")
        .arg("--crate-type")
        .arg("bin")
        .arg("-o")
        .arg(&bin)
        .arg(&src)
        .output()
        .map_err(|e| e.to_string())?;
    if !o.status.success() {
        let e = String::from_utf8_lossy(&o.stderr);
        return Err(format!("combined program does not compile: {}", &e[..e.len().min(1500)]));
    }
    let r = Command::new(&bin).output().map_err(|e| e.to_string())?;
    if !r.status.success() {
        return Err(format!("combined program failed: {:?}", r.status));
    }
    for line in String::from_utf8_lossy(&r.stdout).lines() {
        let (id, rest) = line.split_once(' ').ok_or("bad line")?;
        let nums: Vec<i128> = rest
            .trim_matches(|ch| ch == '[' || ch == ']')
            .split(',')
            .filter_map(|t| t.trim().parse::<i128>().ok())
            .collect();
        map.insert(id.parse::<usize>().map_err(|e| e.to_string())?, nums);
    }
    Ok(map)
}

fn main() {
    let a = args();
    let mut rng = Rng::new(a.seed);
    let env = find_env();
    let replay = a.replay.is_some();
    let list: Vec<Vec<i128>> = match &a.replay {
        Some(c) => vec![c.clone()],
        None => cases(&a.tier, &mut rng),
    };
    note(&format!("rlib {}", env.rlib.display()));
    let progs: Vec<Option<Prog>> = list.iter().map(|c| program(c)).collect();
    let texts: Vec<Option<String>> = progs.iter().map(|p| p.as_ref().map(file_text)).collect();

    // 16 rustc processes at a time
    let results: Arc<Mutex<Vec<Option<(Option<bool>, Vec<String>, String)>>>> = Arc::new(Mutex::new((0..list.len()).map(|_| None).collect()));
    let next = Arc::new(AtomicUsize::new(0));
    let env = Arc::new(env);
    let texts = Arc::new(texts);
    let mut hs = vec![];
    for _ in 0..16 {
        let (results, next, env, texts) = (results.clone(), next.clone(), env.clone(), texts.clone());
        hs.push(std::thread::spawn(move || loop {
            let i = next.fetch_add(1, Ordering::SeqCst);
            if i >= texts.len() {
                break;
            }
            if let Some(t) = &texts[i] {
                let r = compile_one(&env, i, t);
                results.lock().unwrap()[i] = Some(r);
            }
        }));
    }
    for h in hs {
        let _ = h.join();
    }
    let results = results.lock().unwrap();

    let accepted_with_lens: Vec<(usize, &Prog)> = (0..list.len())
        .filter_map(|i| match (&progs[i], &results[i]) {
            (Some(p), Some((Some(true), _, _))) if p.has_lens => Some((i, p)),
            _ => None,
        })
        .collect();
    let lens = match read_back(&env, &accepted_with_lens) {
        Ok(m) => m,
        Err(e) => {
            note(&format!("reading back the inferred lengths failed: {}", e));
            Default::default()
        }
    };

    for (i, case) in list.iter().enumerate() {
        emit_case(case);
        let (p, r) = match (&progs[i], &results[i]) {
            (Some(p), Some(r)) => (p, r),
            _ => {
                emit_obs(&[-2]);
                emit_oracle("no program for this case");
                continue;
            }
        };
        let kind = match p.kind {
            Kind::Length => format!("len.op{}", case[0]),
            Kind::Auto => format!("auto.op{}", case[0]),
            Kind::Borrow => "borrow".to_string(),
            Kind::Seal => "seal".to_string(),
        };
        match r.0 {
            Some(true) => {
                dist(&format!("{}.accepted", kind));
                let mut obs = vec![1];
                if p.has_lens {
                    match lens.get(&i) {
                        Some(l) => obs.extend(l.iter().copied()),
                        None => obs.push(-3),
                    }
                }
                emit_obs(&obs);
            }
            Some(false) => {
                dist(&format!("{}.rejected", kind));
                emit_obs(&[0]);
                for code in &r.1 {
                    dist(&format!("{}.{}", kind, code));
                }
                let allowed = allowed_errors(p.kind);
                let bad: Vec<&String> = r.1.iter().filter(|c| !allowed.contains(&c.as_str())).collect();
                if !bad.is_empty() || r.1.is_empty() {
                    emit_oracle(&format!(
                        "rejected for an unexpected reason {:?} (expected one of {:?}): {}",
                        r.1,
                        allowed,
                        &r.2[..r.2.len().min(400)]
                    ));
                }
            }
            None => {
                emit_obs(&[-4]);
                emit_oracle(&format!("rustc did not give a verdict: {}", &r.2[..r.2.len().min(400)]));
            }
        }
        if replay {
            note(&format!("program: {}", p.body.replace('\n', " ")));
            note(&format!("rustc: {}", &r.2[..r.2.len().min(1200)]));
        }
    }
    flush_dist();
    let _ = std::fs::remove_dir_all(&env.dir);
}

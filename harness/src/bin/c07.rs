//! C07: try_from_iter / from_iter / boxed forms over a scripted source.
//! Case: [form, N, hint_lo, hint_hi(-1 none), r_0, r_1, ...]; r_i: -1 None, -2 panic, >=0 item id.
//! form: 0 try_from_iter, 1 try_boxed_from_iter, 2 from_iter (collect), 3 boxed from_iter.
//! OBS: outcome (0 ok | 1 err | 2 caller panic | 3 length panic), k, ids..., polls, d, dropped ids (sorted).
use generic_array::typenum::*;
use generic_array::{ArrayLength, GenericArray};
use harness::track::{self, Tr, Tz};
use harness::*;
use std::cell::Cell;
use std::rc::Rc;

type U1025 = Sum<U1024, U1>;

/// element kinds: Tr (sized, identity-carrying) and Tz (zero-sized: a Vec of them has capacity
/// usize::MAX and never allocates; identities are reconstructed from the order of the script)
trait El: Sized + 'static {
    const ZST: bool;
    fn mk(id: i64) -> Self;
    fn ident(&self) -> i64;
}
impl El for Tr {
    const ZST: bool = false;
    fn mk(id: i64) -> Tr {
        Tr::new(id)
    }
    fn ident(&self) -> i64 {
        self.id
    }
}
impl El for Tz {
    const ZST: bool = true;
    fn mk(_: i64) -> Tz {
        Tz::new()
    }
    fn ident(&self) -> i64 {
        -1
    }
}

struct Script<E> {
    resp: Vec<i64>,
    pos: usize,
    polls: Rc<Cell<usize>>,
    yielded: Rc<std::cell::RefCell<Vec<i64>>>,
    hint: (usize, Option<usize>),
    _e: std::marker::PhantomData<E>,
}
impl<E: El> Iterator for Script<E> {
    type Item = E;
    fn next(&mut self) -> Option<E> {
        self.polls.set(self.polls.get() + 1);
        let r = self.resp.get(self.pos).copied().unwrap_or(-1);
        self.pos += 1;
        match r {
            -1 => None,
            -2 => panic!("injected source panic"),
            id => {
                self.yielded.borrow_mut().push(id);
                Some(E::mk(id))
            }
        }
    }
    fn size_hint(&self) -> (usize, Option<usize>) {
        self.hint
    }
}

/// the same scripted source carrying the `FusedIterator` marker (std's `Fuse` adaptor is a plain pass-through
/// for such sources: it keeps no "done" flag of its own).  Only truthfully fused scripts are run with it.
struct Marked<E>(Script<E>);
impl<E: El> Iterator for Marked<E> {
    type Item = E;
    fn next(&mut self) -> Option<E> {
        self.0.next()
    }
    fn size_hint(&self) -> (usize, Option<usize>) {
        self.0.size_hint()
    }
}
impl<E: El> std::iter::FusedIterator for Marked<E> {}

thread_local! { static MARKED_RUN: Cell<bool> = Cell::new(false); }

fn run<E: El, N: ArrayLength>(case: &[i128]) -> (Vec<i128>, Vec<String>) {
    let hint = (case[2] as usize, if case[3] < 0 { None } else { Some(case[3] as usize) });
    let resp: Vec<i64> = case[4..].iter().map(|x| *x as i64).collect();
    track::reset(100000);
    let polls = Rc::new(Cell::new(0));
    let yielded = Rc::new(std::cell::RefCell::new(vec![]));
    let src = Script::<E> { resp: resp.clone(), pos: 0, polls: polls.clone(), yielded: yielded.clone(), hint, _e: std::marker::PhantomData };
    if MARKED_RUN.with(|m| m.get()) {
        run_src::<E, N, Marked<E>>(case, Marked(src), resp, polls, yielded)
    } else {
        run_src::<E, N, Script<E>>(case, src, resp, polls, yielded)
    }
}

fn run_src<E: El, N: ArrayLength, I: Iterator<Item = E> + 'static>(
    case: &[i128],
    src: I,
    resp: Vec<i64>,
    polls: Rc<Cell<usize>>,
    yielded: Rc<std::cell::RefCell<Vec<i64>>>,
) -> (Vec<i128>, Vec<String>) {
    let form = case[0];
    let mut out = vec![];
    let mut result_ids: Vec<i64> = vec![];
    let push_ok = |out: &mut Vec<i128>, ids: &[i64]| {
        out.push(0);
        out.push(ids.len() as i128);
        out.extend(ids.iter().map(|x| *x as i128));
    };
    let classify = |m: &str| if m.contains("expected") && m.contains("items") { 3 } else { 2 };
    match form {
        0 => match catch(move || GenericArray::<E, N>::try_from_iter(src)) {
            Ok(Ok(a)) => {
                result_ids = a.iter().map(|t| t.ident()).collect();
                std::mem::forget(a);
                push_ok(&mut out, &result_ids)
            }
            Ok(Err(_)) => out.extend([1, 0]),
            Err(m) => out.extend([classify(&m), 0]),
        },
        1 => match catch(move || GenericArray::<E, N>::try_boxed_from_iter(src)) {
            Ok(Ok(a)) => {
                result_ids = a.iter().map(|t| t.ident()).collect();
                for t in a.into_iter() {
                    std::mem::forget(t)
                }
                push_ok(&mut out, &result_ids)
            }
            Ok(Err(_)) => out.extend([1, 0]),
            Err(m) => out.extend([classify(&m), 0]),
        },
        2 => match catch(move || src.collect::<GenericArray<E, N>>()) {
            Ok(a) => {
                result_ids = a.iter().map(|t| t.ident()).collect();
                std::mem::forget(a);
                push_ok(&mut out, &result_ids)
            }
            Err(m) => out.extend([classify(&m), 0]),
        },
        _ => match catch(move || src.collect::<Box<GenericArray<E, N>>>()) {
            Ok(a) => {
                result_ids = a.iter().map(|t| t.ident()).collect();
                for t in a.into_iter() {
                    std::mem::forget(t)
                }
                push_ok(&mut out, &result_ids)
            }
            Err(m) => out.extend([classify(&m), 0]),
        },
    }
    let p = polls.get();
    out.push(p as i128);
    let log = track::take_log();
    let mut d = track::drops_sorted(&log);
    if E::ZST {
        // zero-sized items carry no identity: the result holds the first items the source yielded, the
        // dropped ones are the rest -- provided the COUNTS are right (otherwise a marker that matches nothing)
        let y = yielded.borrow().clone();
        let k = result_ids.len();
        let zdrops = log.iter().filter(|e| matches!(e, track::Ev::ZDrop)).count();
        let znew = log.iter().filter(|e| matches!(e, track::Ev::ZNew)).count();
        let fixed: Vec<i64> = y.iter().take(k).copied().collect();
        // rewrite the ids already pushed for an Ok outcome
        if out.first() == Some(&0) {
            out.truncate(2);
            out.extend(fixed.iter().map(|x| *x as i128));
            out.push(p as i128);
        }
        result_ids = fixed;
        d = if znew == y.len() && zdrops + k == y.len() {
            let mut r: Vec<i64> = y.iter().skip(k).copied().collect();
            r.sort();
            r
        } else {
            vec![-7; zdrops]
        };
    }
    out.push(d.len() as i128);
    out.extend(d.iter().map(|x| *x as i128));
    // direct oracle: every item pulled is in the result or was dropped exactly once
    let mut created: Vec<i64> = if E::ZST {
        yielded.borrow().clone()
    } else {
        log.iter().filter_map(|e| if let track::Ev::New(x) = e { Some(*x) } else { None }).collect()
    };
    created.sort();
    let mut accounted: Vec<i64> = d.clone();
    accounted.extend(&result_ids);
    accounted.sort();
    let mut oracle = vec![];
    if created != accounted {
        oracle.push(format!("pulled items {:?} but dropped {:?} + returned {:?}", created, d, result_ids));
    }
    if p > N::USIZE + 1 {
        oracle.push(format!("{} items pulled, more than N + 1", p));
    }
    // never polled again after None
    if let Some(first_none) = resp.iter().position(|r| *r == -1) {
        if p > first_none + 1 {
            oracle.push(format!("source polled again after it returned None at poll {}", first_none));
        }
    } else if p > resp.len() + 1 {
        oracle.push("source polled again after it returned None".to_string());
    }
    (out, oracle)
}

thread_local! { static ZST_RUN: Cell<bool> = Cell::new(false); }

fn do_case(case: Vec<i128>) {
    emit_case(&case);
    let n = case[1] as usize;
    let r = catch(|| {
        dispatch_len!(
            n,
            [U0, U1, U2, U3, U5, U8, U16, U33, U1025, U4096],
            |N| if ZST_RUN.with(|z| z.get()) { run::<Tz, N>(&case) } else { run::<Tr, N>(&case) },
            panic!("length {} not monomorphised", n)
        )
    });
    match r {
        Ok((obs, oracle)) => {
            emit_obs(&obs);
            for o in oracle {
                emit_oracle(&o);
            }
        }
        Err(m) => {
            emit_obs(&[-99]);
            emit_oracle(&format!("unexpected panic outside catch: {}", m));
        }
    }
}

fn main() {
    let a = args();
    quiet_panics();
    ZST_RUN.with(|z| z.set(a.extra.iter().any(|x| x == "tz")));
    let marked = a.extra.iter().any(|x| x == "fm");
    MARKED_RUN.with(|m| m.set(marked));
    if let Some(c) = a.replay {
        do_case(c);
        return;
    }
    let thorough = a.tier == "thorough";
    let only_panics = a.extra.iter().any(|x| x == "panics");

    let ns: Vec<usize> = if thorough { vec![0, 1, 2, 3, 5, 8, 16, 33] } else { vec![0, 1, 2, 3, 5, 8] };
    for &n in &ns {
        for form in 0..4i128 {
            for count in 0..=(n + 3) {
                let items: Vec<i128> = (0..count as i128).collect();
                // hint kinds: exact, loose, absent upper, too-high lower bound, too-low upper bound, lying both ways
                let mut hints: Vec<(i128, i128)> = vec![
                    (count as i128, count as i128),
                    (0, -1),
                    (0, 2 * n as i128 + 7),
                    (n as i128 + 1, -1),
                    (0, count as i128),
                    (count as i128, -1),
                ];
                if n > 0 {
                    hints.push((0, n as i128 - 1));
                    hints.push((n as i128, n as i128)); // claims exactly N whatever is delivered
                }
                hints.push((n as i128 + 2, 1)); // lower bound above the upper bound: rules every length out
                for (lo, hi) in hints {
                    // plain script
                    let mut case = vec![form, n as i128, lo, hi];
                    case.extend(&items);
                    if !only_panics {
                        dist("plain");
                        do_case(case.clone());
                    }
                    // a panic at every poll index
                    for k in 0..=count {
                        let mut c = vec![form, n as i128, lo, hi];
                        c.extend(&items[..k]);
                        c.push(-2);
                        c.extend(&items[k..]);
                        dist("panic");
                        do_case(c);
                    }
                    // not fused: None at j, then more items (never with the FusedIterator marker: that would lie)
                    for j in 0..=(if only_panics || marked { 0 } else { count.min(n + 1) + 1 }) {
                        if j > count.min(n + 1) || only_panics || marked {
                            break;
                        }
                        let mut c = vec![form, n as i128, lo, hi];
                        c.extend(&items[..j]);
                        c.push(-1);
                        c.extend(&items[j..]);
                        c.push(777);
                        dist("nonfused");
                        do_case(c);
                    }
                }
            }
        }
    }
    // truthful but very loose upper bounds: above isize::MAX (a signed slack computation goes negative there)
    if !only_panics {
        for &n in &ns {
            for form in 0..4i128 {
                for count in [n.saturating_sub(1), n, n + 1] {
                    for hi in [usize::MAX as i128, isize::MAX as i128 + 1, isize::MAX as i128 + n as i128, isize::MAX as i128] {
                        let mut c = vec![form, n as i128, 0, hi];
                        c.extend(0..count as i128);
                        dist("huge-upper-hint");
                        do_case(c);
                    }
                }
            }
        }
    }
    // an array larger than 16 KiB (4096 x 8 bytes): exact, one short, one and two too many, under an exact, a loose
    // and an absent hint
    if !only_panics {
        let n = 4096usize;
        for form in 0..4i128 {
            for count in [n - 1, n, n + 1, n + 2] {
                for (lo, hi) in [(count as i128, count as i128), (0, -1), (0, 2 * n as i128), (n as i128, -1)] {
                    let mut c = vec![form, n as i128, lo, hi];
                    c.extend(0..count as i128);
                    dist("N4096");
                    do_case(c);
                }
            }
        }
    }
    // seeded scripts for larger N
    let mut rng = Rng::new(a.seed);
    let count = if only_panics { 0 } else if thorough { 4000 } else { 300 };
    let lens = [5usize, 8, 16, 33, 1025];
    for i in 0..count {
        let n = lens[i % lens.len()];
        if n == 1025 && !thorough && i % 25 != 4 {
            continue;
        }
        let form = rng.below(4) as i128;
        let delta = rng.below(7) as i64 - 3;
        let cnt = (n as i64 + if rng.chance(1, 2) { 0 } else { delta }).max(0) as usize;
        let (lo, hi) = match rng.below(5) {
            0 => (cnt as i128, cnt as i128),
            1 => (0, -1),
            2 => (rng.below(n as u64 + 1) as i128, -1),
            3 => (0, (n as u64 + rng.below(5)) as i128),
            _ => (rng.below(cnt as u64 + 1) as i128, (cnt as u64 + rng.below(3)) as i128),
        };
        let mut c = vec![form, n as i128, lo, hi];
        for k in 0..cnt {
            if rng.chance(1, 60) {
                c.push(-2);
            }
            if rng.chance(1, 80) && !marked {
                c.push(-1);
            }
            c.push(k as i128);
        }
        dist(&format!("N{}", n));
        do_case(c);
    }
    flush_dist();
}

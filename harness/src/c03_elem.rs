//! Element kinds of the C03 pool harness (`--elem tr|th|tz|u32`): the three element types the
//! property's quantifier names, plus the plain-tracked default.
//!   tr  : `track::Tr`  - drop-tracked identity, 8 bytes, no heap payload
//!   th  : `Th`         - drop-tracked identity WITH a heap payload (a double drop is a double
//!                        free, a stale read is a use-after-free: visible to AddressSanitizer)
//!   tz  : `track::Tz`  - drop-tracked zero-sized type (no identities, only counts)
//!   u32 : `Pl`         - a plain `u32` value: no drop glue (`needs_drop` is false, so the crate's
//!                        no-drop code paths run), not `Copy`; `clone` hands out a fresh value so
//!                        that values keep working as identities
use harness::track::{self, Tr, Tz};

pub trait El: Sized + Clone + 'static {
    /// values carry an identity that the views show
    const IDS: bool;
    /// the destructor writes to the track log
    const TRACKED: bool;
    /// a new element; identities come from the global counter (`track::reset(first_id)`)
    fn fresh() -> Self;
    fn id(&self) -> i64;
}

impl El for Tr {
    const IDS: bool = true;
    const TRACKED: bool = true;
    fn fresh() -> Tr {
        Tr::fresh()
    }
    fn id(&self) -> i64 {
        self.id
    }
}

/// Drop-tracked element that owns a heap allocation derived from its identity.
pub struct Th {
    t: Tr,
    payload: Box<[u64; 4]>,
}

fn pattern(id: i64) -> [u64; 4] {
    let x = id as u64;
    [x, !x, x.rotate_left(17) ^ 0x5bd1_e995, 0xfeed_face_cafe_beef]
}

impl Clone for Th {
    fn clone(&self) -> Th {
        let t = self.t.clone(); // logs Clone(from, to), takes the next identity
        Th { payload: Box::new(pattern(t.id)), t }
    }
}

impl El for Th {
    const IDS: bool = true;
    const TRACKED: bool = true;
    fn fresh() -> Th {
        let t = Tr::fresh();
        Th { payload: Box::new(pattern(t.id)), t }
    }
    /// reads the heap payload: after a drop this is a use-after-free (AddressSanitizer), and
    /// a payload that no longer belongs to the identity shows as the impossible id -7777
    fn id(&self) -> i64 {
        if *self.payload == pattern(self.t.id) {
            self.t.id
        } else {
            -7777
        }
    }
}

impl El for Tz {
    const IDS: bool = false;
    const TRACKED: bool = true;
    fn fresh() -> Tz {
        Tz::new()
    }
    fn id(&self) -> i64 {
        0
    }
}

/// Plain element: a `u32` without drop glue.
pub struct Pl(pub u32);

impl Clone for Pl {
    fn clone(&self) -> Pl {
        Pl::fresh()
    }
}

impl El for Pl {
    const IDS: bool = true;
    const TRACKED: bool = false;
    fn fresh() -> Pl {
        let id = track::next_id();
        track::set_next_id(id + 1);
        Pl(id as u32)
    }
    fn id(&self) -> i64 {
        self.0 as i64
    }
}

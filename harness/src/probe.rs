//! Separately compiled probe programs: a program text is compiled by rustc (default settings) against
//! the generic_array rlib cargo built for this harness from the current crate tree, and run.
//! Used where the property is about what a USER crate sees (one length alone in a crate, a caller that
//! is generic over the lengths and states only the bounds a trait documents), which code inside the
//! harness crate itself cannot show: there a change either does not manifest or keeps the whole
//! harness from building.
use std::path::PathBuf;
use std::process::Command;

pub struct Probe {
    pub dir: PathBuf,
    pub rlib: PathBuf,
    pub deps: PathBuf,
}

impl Probe {
    pub fn new(tag: &str) -> Probe {
        let exe = std::env::current_exe().expect("current_exe");
        let deps = exe.parent().unwrap().join("deps");
        let mut best: Option<(std::time::SystemTime, PathBuf)> = None;
        for e in std::fs::read_dir(&deps).expect("deps dir") {
            let p = e.unwrap().path();
            let name = p.file_name().unwrap().to_string_lossy().to_string();
            if name.starts_with("libgeneric_array-") && name.ends_with(".rlib") {
                let t = std::fs::metadata(&p).and_then(|m| m.modified()).unwrap_or(std::time::UNIX_EPOCH);
                if best.as_ref().map(|b| t > b.0).unwrap_or(true) {
                    best = Some((t, p));
                }
            }
        }
        let rlib = best.expect("libgeneric_array rlib next to the harness binary").1;
        let out = std::env::var("VERIF_OUT").map(PathBuf::from).unwrap_or_else(|_| std::env::temp_dir());
        let dir = out.join(format!("{}-gen-{}", tag, std::process::id()));
        let _ = std::fs::remove_dir_all(&dir);
        std::fs::create_dir_all(&dir).expect("temp dir");
        Probe { dir, rlib, deps }
    }

    /// newest `lib<krate>-*.rlib` in the harness's deps directory (a dependency of the harness itself)
    pub fn dep_rlib(&self, krate: &str) -> Option<PathBuf> {
        let mut best: Option<(std::time::SystemTime, PathBuf)> = None;
        for e in std::fs::read_dir(&self.deps).ok()? {
            let p = e.ok()?.path();
            let name = p.file_name()?.to_string_lossy().to_string();
            if name.starts_with(&format!("lib{}-", krate)) && name.ends_with(".rlib") {
                let t = std::fs::metadata(&p).and_then(|m| m.modified()).unwrap_or(std::time::UNIX_EPOCH);
                if best.as_ref().map(|b| t > b.0).unwrap_or(true) {
                    best = Some((t, p));
                }
            }
        }
        best.map(|b| b.1)
    }

    /// compile `src` as crate `name` and run it: Ok(stdout) or Err(first error lines of rustc / run failure)
    pub fn compile_and_run(&self, name: &str, src: &str) -> Result<String, String> {
        self.compile_and_run_with(name, src, &[])
    }

    /// the same with further `--extern krate=rlib` dependencies (looked up with dep_rlib)
    pub fn compile_and_run_with(&self, name: &str, src: &str, externs: &[&str]) -> Result<String, String> {
        let f = self.dir.join(format!("{}.rs", name));
        let bin = self.dir.join(name);
        std::fs::write(&f, src).unwrap();
        let mut cmd = Command::new("rustc");
        for k in externs {
            match self.dep_rlib(k) {
                Some(r) => {
                    cmd.arg("--extern").arg(format!("{}={}", k, r.display()));
                }
                None => return Err(format!("no rlib of `{}` among the harness's dependencies", k)),
            }
        }
        let o = cmd
            .arg("--edition=2021")
            .arg("--crate-type=bin")
            .arg("-C")
            .arg("debuginfo=0")
            .arg("--extern")
            .arg(format!("generic_array={}", self.rlib.display()))
            .arg("-L")
            .arg(format!("dependency={}", self.deps.display()))
            .arg("-o")
            .arg(&bin)
            .arg(&f)
            .output()
            .expect("rustc");
        let res = if !o.status.success() {
            let e = String::from_utf8_lossy(&o.stderr).to_string();
            let mut msg = e.lines().filter(|l| l.starts_with("error")).take(3).collect::<Vec<_>>().join(" / ");
            if msg.is_empty() {
                msg = e.chars().take(400).collect();
            }
            Err(msg)
        } else {
            let run = Command::new(&bin).output().expect("run probe");
            if run.status.success() {
                Ok(String::from_utf8_lossy(&run.stdout).to_string())
            } else {
                Err(format!(
                    "the probe exited with {:?}: {}",
                    run.status.code(),
                    String::from_utf8_lossy(&run.stderr).chars().take(300).collect::<String>()
                ))
            }
        };
        let _ = std::fs::remove_file(&f);
        let _ = std::fs::remove_file(&bin);
        res
    }
}

impl Drop for Probe {
    fn drop(&mut self) {
        let _ = std::fs::remove_dir_all(&self.dir);
    }
}

//! Shared by the C15 and C16 bins (included with `#[path]`; not part of the library):
//! a recording global allocator, drop-logging element types that never allocate,
//! and the scenario runner.  Case encoding: coq/theories/HeapCase.v
//!   [op, kind, N, L, spare, pan, fail, aux]
//!
//! Recording rules: allocator calls are logged while `REC` is set.  Everything the
//! harness itself allocates is allocated while recording is paused, so those blocks
//! are unknown to the log ("foreign") and their release is ignored wherever it
//! happens.  Allocations made while the thread is panicking (message string, payload
//! box, unwinder exception object) are not logged; releases done by the crate's
//! unwinding cleanup are.
#![allow(dead_code)]
use generic_array::functional::FunctionalSequence;
use generic_array::sequence::GenericSequence;
use generic_array::typenum::*;
use generic_array::{box_arr, ArrayLength, GenericArray, LengthError};
use std::alloc::{GlobalAlloc, Layout, System};
use std::marker::PhantomData;
use std::panic::{catch_unwind, AssertUnwindSafe};
use std::ptr::addr_of_mut;
use std::sync::atomic::{AtomicBool, AtomicIsize, AtomicUsize, Ordering::SeqCst};

// ---------------------------------------------------------------- recording allocator

pub struct RecAlloc;

#[derive(Clone, Copy, Debug)]
pub struct ARec {
    pub kind: u8, // 0 alloc, 1 dealloc, 2 realloc, 3 failed call (returned null)
    pub addr: usize,
    pub size: usize,
    pub align: usize,
    pub nsize: usize,
    pub naddr: usize,
}
const ZREC: ARec = ARec { kind: 0, addr: 0, size: 0, align: 0, nsize: 0, naddr: 0 };
const LOGCAP: usize = 1 << 13;
static mut ALOG: [ARec; LOGCAP] = [ZREC; LOGCAP];
static ALEN: AtomicUsize = AtomicUsize::new(0);
static REC: AtomicBool = AtomicBool::new(false);
static NOREC_ALLOC: AtomicBool = AtomicBool::new(false);
static FAIL_AT: AtomicIsize = AtomicIsize::new(-1);
static NCALL: AtomicIsize = AtomicIsize::new(0);
static OVERFLOW: AtomicBool = AtomicBool::new(false);

fn push(r: ARec) {
    let i = ALEN.fetch_add(1, SeqCst);
    if i < LOGCAP {
        unsafe { (*addr_of_mut!(ALOG))[i] = r }
    } else {
        OVERFLOW.store(true, SeqCst)
    }
}
// the system allocator is never handed a zero-sized layout, whatever the crate asks for
fn fix(l: Layout) -> Layout {
    if l.size() == 0 {
        Layout::from_size_align(1, l.align()).unwrap()
    } else {
        l
    }
}
// allocations made while this thread is panicking (message string, payload box, unwinder
// exception object) are the panic machinery's, not the crate's
fn recording_allocs() -> bool {
    REC.load(SeqCst) && !NOREC_ALLOC.load(SeqCst) && !std::thread::panicking()
}

unsafe impl GlobalAlloc for RecAlloc {
    unsafe fn alloc(&self, l: Layout) -> *mut u8 {
        if recording_allocs() {
            let k = NCALL.fetch_add(1, SeqCst);
            if k == FAIL_AT.load(SeqCst) {
                push(ARec { kind: 3, size: l.size(), align: l.align(), ..ZREC });
                return std::ptr::null_mut();
            }
            let p = System.alloc(fix(l));
            push(ARec { kind: 0, addr: p as usize, size: l.size(), align: l.align(), ..ZREC });
            p
        } else {
            System.alloc(fix(l))
        }
    }
    unsafe fn dealloc(&self, p: *mut u8, l: Layout) {
        if REC.load(SeqCst) {
            push(ARec { kind: 1, addr: p as usize, size: l.size(), align: l.align(), ..ZREC });
        }
        System.dealloc(p, fix(l))
    }
    unsafe fn realloc(&self, p: *mut u8, l: Layout, new_size: usize) -> *mut u8 {
        if recording_allocs() {
            let k = NCALL.fetch_add(1, SeqCst);
            if k == FAIL_AT.load(SeqCst) {
                push(ARec { kind: 3, size: new_size, align: l.align(), ..ZREC });
                return std::ptr::null_mut();
            }
            // ALWAYS relocate (as size-class allocators do when a block shrinks): a pointer read before the
            // realloc is stale afterwards
            let nl = Layout::from_size_align_unchecked(new_size.max(1), fix(l).align());
            let q = System.alloc(nl);
            if !q.is_null() {
                std::ptr::copy_nonoverlapping(p, q, l.size().min(new_size));
                System.dealloc(p, fix(l));
            }
            push(ARec { kind: 2, addr: p as usize, size: l.size(), align: l.align(), nsize: new_size, naddr: q as usize });
            q
        } else {
            System.realloc(p, fix(l), new_size.max(1))
        }
    }
}

/// Run harness-internal code whose allocations must not be logged.
pub fn paused<R>(f: impl FnOnce() -> R) -> R {
    let was = REC.swap(false, SeqCst);
    let r = f();
    REC.store(was, SeqCst);
    r
}

pub fn install_hook() {
    std::panic::set_hook(Box::new(|_| {}));
}

fn start_rec(fail_at: isize) {
    ALEN.store(0, SeqCst);
    NCALL.store(0, SeqCst);
    OVERFLOW.store(false, SeqCst);
    NOREC_ALLOC.store(false, SeqCst);
    FAIL_AT.store(fail_at, SeqCst);
    REC.store(true, SeqCst);
}
fn stop_rec() -> Vec<ARec> {
    REC.store(false, SeqCst);
    FAIL_AT.store(-1, SeqCst);
    let n = ALEN.load(SeqCst).min(LOGCAP);
    unsafe { (&(*addr_of_mut!(ALOG)))[..n].to_vec() }
}

/// Allocator observables of a log.
pub struct Summary {
    pub na: i128,
    pub nd: i128,
    pub nr: i128,
    pub zero: i128,
    pub mis: i128,
    pub live_end: i128,
    pub sizes: Vec<i128>,
    /// per event: 0 alloc, 1 dealloc, 2 realloc, 3 failed call, 9 foreign (ignored)
    pub class: Vec<u8>,
}

pub fn analyze(log: &[ARec]) -> Summary {
    let mut live: Vec<(usize, usize, usize)> = vec![];
    let mut s = Summary { na: 0, nd: 0, nr: 0, zero: 0, mis: 0, live_end: 0, sizes: vec![], class: vec![] };
    for r in log {
        match r.kind {
            0 => {
                s.na += 1;
                if r.size == 0 {
                    s.zero += 1
                }
                s.sizes.push(r.size as i128);
                live.push((r.addr, r.size, r.align));
                s.class.push(0);
            }
            1 => {
                if let Some(i) = live.iter().position(|b| b.0 == r.addr) {
                    s.nd += 1;
                    if (live[i].1, live[i].2) != (r.size, r.align) {
                        s.mis += 1
                    }
                    live.remove(i);
                    s.class.push(1);
                } else {
                    s.class.push(9);
                }
            }
            2 => {
                if let Some(i) = live.iter().position(|b| b.0 == r.addr) {
                    s.nr += 1;
                    if (live[i].1, live[i].2) != (r.size, r.align) {
                        s.mis += 1
                    }
                    if r.nsize == 0 {
                        s.zero += 1
                    }
                    s.sizes.push(r.nsize as i128);
                    live.remove(i);
                    live.push((r.naddr, r.nsize, r.align));
                    s.class.push(2);
                } else {
                    s.class.push(9);
                }
            }
            _ => {
                if r.size == 0 {
                    s.zero += 1
                }
                s.class.push(3);
            }
        }
    }
    s.live_end = live.len() as i128;
    s.sizes.sort();
    s
}

// ---------------------------------------------------------------- elements

const DCAP: usize = 1 << 16;
static mut DLOG: [i64; DCAP] = [0; DCAP];
static DLEN: AtomicUsize = AtomicUsize::new(0);
static DEF_CALLS: AtomicIsize = AtomicIsize::new(0);
static DEF_BOMB: AtomicIsize = AtomicIsize::new(-1);
static CLONES: AtomicIsize = AtomicIsize::new(0);

fn log_drop(id: i64) {
    let i = DLEN.fetch_add(1, SeqCst);
    if i < DCAP {
        unsafe { (*addr_of_mut!(DLOG))[i] = id }
    } else {
        OVERFLOW.store(true, SeqCst)
    }
}
fn default_call() -> i64 {
    let k = DEF_CALLS.fetch_add(1, SeqCst);
    if k == DEF_BOMB.load(SeqCst) {
        panic!("injected default panic");
    }
    k as i64
}

pub trait El: Sized + Clone + Default + 'static {
    const KIND: i128;
    const TRACKED: bool;
    type Other: El;
    fn mk(id: i64) -> Self;
    fn id(&self) -> i64;
}

/// tracked element, 8 bytes, alignment 8
pub struct He {
    pub id: i64,
}
impl Drop for He {
    fn drop(&mut self) {
        log_drop(self.id)
    }
}
impl Clone for He {
    fn clone(&self) -> He {
        He { id: 3000 + CLONES.fetch_add(1, SeqCst) as i64 }
    }
}
impl Default for He {
    fn default() -> He {
        He { id: 4000 + default_call() }
    }
}
impl El for He {
    const KIND: i128 = 0;
    const TRACKED: bool = true;
    type Other = Hq;
    fn mk(id: i64) -> He {
        He { id }
    }
    fn id(&self) -> i64 {
        self.id
    }
}

/// tracked zero-sized element: only the number of drops is observable
pub struct Hz;
impl Drop for Hz {
    fn drop(&mut self) {
        log_drop(0)
    }
}
impl Clone for Hz {
    fn clone(&self) -> Hz {
        Hz
    }
}
impl Default for Hz {
    fn default() -> Hz {
        default_call();
        Hz
    }
}
impl El for Hz {
    const KIND: i128 = 1;
    const TRACKED: bool = true;
    type Other = He;
    fn mk(_: i64) -> Hz {
        Hz
    }
    fn id(&self) -> i64 {
        0
    }
}

/// plain 4-byte element without drop glue whose `Default` is STATEFUL: the k-th call yields k (the first value
/// is the all-zero bit pattern): a constructor that calls `T::default()` once and copies the value shows
#[derive(Clone, Copy, Debug, PartialEq)]
pub struct Hq(pub u32);
impl Default for Hq {
    fn default() -> Hq {
        Hq(default_call() as u32)
    }
}
impl El for Hq {
    const KIND: i128 = 2;
    const TRACKED: bool = false;
    type Other = Hz;
    fn mk(id: i64) -> Hq {
        Hq(id as u32)
    }
    fn id(&self) -> i64 {
        self.0 as i64
    }
}

// ---------------------------------------------------------------- inspection of results

pub trait Inspect {
    fn ids(&self) -> Vec<i64>;
    fn addr(&self) -> Option<usize> {
        None
    }
    fn is_err(&self) -> bool {
        false
    }
}
impl<T: El, N: ArrayLength> Inspect for GenericArray<T, N> {
    fn ids(&self) -> Vec<i64> {
        self.iter().map(|x| x.id()).collect()
    }
}
impl<T: El, N: ArrayLength> Inspect for Box<GenericArray<T, N>> {
    fn ids(&self) -> Vec<i64> {
        self.iter().map(|x| x.id()).collect()
    }
    fn addr(&self) -> Option<usize> {
        Some(self.as_ptr() as usize)
    }
}
impl<T: El> Inspect for Box<[T]> {
    fn ids(&self) -> Vec<i64> {
        self.iter().map(|x| x.id()).collect()
    }
    fn addr(&self) -> Option<usize> {
        Some(self.as_ptr() as usize)
    }
}
impl<T: El> Inspect for Vec<T> {
    fn ids(&self) -> Vec<i64> {
        self.iter().map(|x| x.id()).collect()
    }
    fn addr(&self) -> Option<usize> {
        Some(self.as_ptr() as usize)
    }
}
impl<R: Inspect> Inspect for Result<R, LengthError> {
    fn ids(&self) -> Vec<i64> {
        match self {
            Ok(r) => r.ids(),
            Err(_) => vec![],
        }
    }
    fn addr(&self) -> Option<usize> {
        match self {
            Ok(r) => r.addr(),
            Err(_) => None,
        }
    }
    fn is_err(&self) -> bool {
        self.is_err()
    }
}
/// items the caller took out one by one (and keeps)
pub struct Items(pub Vec<i64>);
impl Inspect for Items {
    fn ids(&self) -> Vec<i64> {
        self.0.clone()
    }
}

pub struct Out {
    pub code: i128, // 0 ok, 1 LengthError, 2 caller panic, 3 length panic
    pub contents: Vec<i64>,
    pub drops: Vec<i64>, // identities dropped during the operation, sorted
    pub same: i128,      // 1 result owns the source block, 0 it does not, 2 not applicable
    pub w0: usize,       // allocator events [w0, w1) happened during the operation
    pub w1: usize,
    pub cap: Option<usize>,
}

/// The operation proper: everything before is "building the source", the drop of the
/// result at the end is "all values are gone".
fn phase<R: Inspect>(src: Option<usize>, f: impl FnOnce() -> R) -> Out {
    let w0 = ALEN.load(SeqCst);
    let d0 = DLEN.load(SeqCst);
    let r = catch_unwind(AssertUnwindSafe(f));
    let w1 = ALEN.load(SeqCst);
    let was = REC.swap(false, SeqCst);
    let d1 = DLEN.load(SeqCst).min(DCAP);
    let mut drops: Vec<i64> = unsafe { (&(*addr_of_mut!(DLOG)))[d0.min(d1)..d1].to_vec() };
    drops.sort();
    let mut out = Out { code: 0, contents: vec![], drops, same: 2, w0, w1, cap: None };
    match r {
        Ok(v) => {
            out.code = if v.is_err() { 1 } else { 0 };
            out.contents = v.ids();
            if let (Some(p), Some(q)) = (src, v.addr()) {
                out.same = (p == q) as i128;
            }
            NOREC_ALLOC.store(false, SeqCst);
            REC.store(was, SeqCst);
            drop(v); // recorded: the result goes away
        }
        Err(e) => {
            let msg = if let Some(s) = e.downcast_ref::<&str>() {
                s.to_string()
            } else if let Some(s) = e.downcast_ref::<String>() {
                s.clone()
            } else {
                String::new()
            };
            out.code = if msg.contains("expected") || msg.contains("LengthError") { 3 } else { 2 };
            drop(msg);
            drop(e);
            NOREC_ALLOC.store(false, SeqCst);
            REC.store(was, SeqCst);
        }
    }
    out
}

// ---------------------------------------------------------------- sources

fn mk_vec<T: El>(l: usize, spare: usize, base: i64) -> Vec<T> {
    let mut v = Vec::with_capacity(l + spare);
    for i in 0..l {
        v.push(T::mk(base + i as i64));
    }
    v
}
fn mk_slice<T: El>(l: usize) -> Box<[T]> {
    mk_vec::<T>(l, 0, 0).into_boxed_slice()
}
fn mk_arr<T: El, N: ArrayLength>(base: i64) -> GenericArray<T, N> {
    GenericArray::generate(|i| T::mk(base + i as i64))
}
fn mk_arr_box<T: El, N: ArrayLength>(base: i64) -> Box<GenericArray<T, N>> {
    Box::new(mk_arr::<T, N>(base))
}

pub struct Script<T> {
    l: usize,
    pan: i64,
    hint: i128,
    pos: usize,
    _p: PhantomData<T>,
}
impl<T: El> Iterator for Script<T> {
    type Item = T;
    fn next(&mut self) -> Option<T> {
        let i = self.pos;
        self.pos += 1;
        if i as i64 == self.pan {
            panic!("injected source panic");
        }
        if i < self.l {
            Some(T::mk(i as i64))
        } else {
            None
        }
    }
    fn size_hint(&self) -> (usize, Option<usize>) {
        if self.hint == 0 {
            (self.l, Some(self.l))
        } else {
            (0, None)
        }
    }
}

#[derive(Clone, Debug)]
pub struct Case {
    pub op: i128,
    pub kind: i128,
    pub n: usize,
    pub l: usize,
    pub spare: usize,
    pub pan: i64,
    pub fail: isize,
    pub aux: i128,
}
impl Case {
    pub fn from_ints(c: &[i128]) -> Case {
        Case {
            op: c[0],
            kind: c[1],
            n: c[2] as usize,
            l: c[3] as usize,
            spare: c[4] as usize,
            pan: c[5] as i64,
            fail: c[6] as isize,
            aux: c[7],
        }
    }
    pub fn ints(&self) -> Vec<i128> {
        vec![
            self.op,
            self.kind,
            self.n as i128,
            self.l as i128,
            self.spare as i128,
            self.pan as i128,
            self.fail as i128,
            self.aux,
        ]
    }
}

fn reset(c: &Case) {
    DLEN.store(0, SeqCst);
    DEF_CALLS.store(0, SeqCst);
    CLONES.store(0, SeqCst);
    DEF_BOMB.store(if c.op == 5 { c.pan as isize } else { -1 }, SeqCst);
}

pub const LIST_LENGTHS: [usize; 6] = [0, 1, 2, 3, 8, 16];

/// box_arr![a, b, ..]: the length comes from the number of expressions
fn run_list<T: El>(c: &Case) -> Out {
    fn m<T: El>(i: i64) -> T {
        T::mk(i)
    }
    match c.n {
        0 => phase(None, || -> Box<GenericArray<T, U0>> { box_arr![] }),
        1 => phase(None, || -> Box<GenericArray<T, U1>> { box_arr![m(0)] }),
        2 => phase(None, || -> Box<GenericArray<T, U2>> { box_arr![m(0), m(1)] }),
        3 => phase(None, || -> Box<GenericArray<T, U3>> { box_arr![m(0), m(1), m(2)] }),
        8 => phase(None, || -> Box<GenericArray<T, U8>> {
            box_arr![m(0), m(1), m(2), m(3), m(4), m(5), m(6), m(7)]
        }),
        16 => phase(None, || -> Box<GenericArray<T, U16>> {
            box_arr![
                m(0), m(1), m(2), m(3), m(4), m(5), m(6), m(7), m(8), m(9), m(10), m(11), m(12), m(13), m(14), m(15)
            ]
        }),
        n => panic!("box_arr list form of length {} not written out", n),
    }
}

/// Run one case on the real crate: (operation observables, allocator log of the whole run).
pub fn run_case<T: El, N: ArrayLength>(c: &Case) -> (Out, Vec<ARec>, bool) {
    reset(c);
    let pan = c.pan;
    let (l, spare) = (c.l, c.spare);
    start_rec(c.fail);
    let out = match c.op {
        0 => {
            let v = mk_vec::<T>(l, spare, 0);
            let p = v.as_ptr() as usize;
            phase(Some(p), move || GenericArray::<T, N>::try_from(v))
        }
        1 => {
            let b = mk_arr_box::<T, N>(0);
            let p = b.as_ptr() as usize;
            phase(Some(p), move || GenericArray::into_boxed_slice(b))
        }
        2 => {
            let b = mk_arr_box::<T, N>(0);
            let p = b.as_ptr() as usize;
            phase(Some(p), move || GenericArray::into_vec(b))
        }
        3 => {
            let s = mk_slice::<T>(l);
            let p = s.as_ptr() as usize;
            phase(Some(p), move || GenericArray::<T, N>::try_from_boxed_slice(s))
        }
        4 => {
            let v = mk_vec::<T>(l, spare, 0);
            let p = v.as_ptr() as usize;
            phase(Some(p), move || GenericArray::<T, N>::try_from_vec(v))
        }
        5 => phase(None, || GenericArray::<T, N>::default_boxed()),
        6 => phase(None, || {
            Box::<GenericArray<T, N>>::generate(|i| {
                if i as i64 == pan {
                    panic!("injected generator panic");
                }
                T::mk(1000 + i as i64)
            })
        }),
        7 => phase(None, || {
            GenericArray::<T, N>::try_boxed_from_iter(Script::<T> { l, pan, hint: c.aux, pos: 0, _p: PhantomData })
        }),
        8 => {
            let s = mk_slice::<T>(l);
            let p = s.as_ptr() as usize;
            phase(Some(p), move || GenericArray::<T, N>::try_from(s))
        }
        9 => {
            let a = mk_arr::<T, N>(0);
            phase(None, move || Box::<[T]>::from(a))
        }
        10 => {
            let a = mk_arr::<T, N>(0);
            phase(None, move || Vec::<T>::from(a))
        }
        11 => {
            let b = mk_arr_box::<T, N>(0);
            let p = b.as_ptr() as usize;
            let k = c.aux as usize;
            let mut ids: Vec<i64> = paused(|| Vec::with_capacity(k + 1));
            phase(Some(p), move || {
                let mut it = b.into_iter();
                for _ in 0..k {
                    if let Some(x) = it.next() {
                        ids.push(x.id());
                        std::mem::forget(x);
                    }
                }
                drop(it);
                Items(ids)
            })
        }
        12 => phase(None, || {
            Script::<T> { l, pan, hint: c.aux, pos: 0, _p: PhantomData }.collect::<Box<GenericArray<T, N>>>()
        }),
        13 => run_list::<T>(c),
        14 => {
            let x = T::mk(2999);
            phase(None, move || -> Box<GenericArray<T, N>> { box_arr![x; N] })
        }
        15 => {
            let b = mk_arr_box::<T, N>(0);
            let p = b.as_ptr() as usize;
            let mut calls = 0i64;
            phase(Some(p), move || {
                b.map(move |x: T| {
                    let k = calls;
                    calls += 1;
                    if k == pan {
                        panic!("injected map panic");
                    }
                    T::mk(x.id() + 5000)
                })
            })
        }
        16 => {
            let b = mk_arr_box::<T, N>(0);
            let b2 = mk_arr_box::<T, N>(2000);
            let p = b.as_ptr() as usize;
            let mut calls = 0i64;
            phase(Some(p), move || {
                b.zip(b2, move |x: T, y: T| {
                    let k = calls;
                    calls += 1;
                    if k == pan {
                        panic!("injected zip panic");
                    }
                    T::mk(x.id() + y.id() + 7000)
                })
            })
        }
        17 => {
            let b = mk_arr_box::<T, N>(0);
            let p = b.as_ptr() as usize;
            let mut calls = 0i64;
            phase(Some(p), move || {
                b.map(move |x: T| {
                    let k = calls;
                    calls += 1;
                    if k == pan {
                        panic!("injected map panic");
                    }
                    // a zero-sized input has no identity: the call index stands in for it
                    let xid = if T::KIND == 1 { k } else { x.id() };
                    <T::Other as El>::mk(xid + 5000)
                })
            })
        }
        18 => {
            // boxed zip of two DIFFERENT element kinds (drop glue on one side only, or a zero-sized side)
            let b = mk_arr_box::<T, N>(0);
            let b2 = mk_arr_box::<T::Other, N>(2000);
            let p = b.as_ptr() as usize;
            let mut calls = 0i64;
            phase(Some(p), move || {
                b.zip(b2, move |x: T, y: T::Other| {
                    let k = calls;
                    calls += 1;
                    if k == pan {
                        panic!("injected zip panic");
                    }
                    // a zero-sized input has no identity: its index stands in for it
                    let xid = if T::KIND == 1 { k } else { x.id() };
                    let yid = if <T::Other as El>::KIND == 1 { 2000 + k } else { y.id() };
                    T::mk(xid + yid + 7000)
                })
            })
        }
        op => panic!("unknown op {}", op),
    };
    let log = stop_rec();
    (out, log, OVERFLOW.load(SeqCst))
}

pub type Lattice = (U0, U1, U2, U3, U8, U16, U33, U1024);
pub const LATTICE: [usize; 8] = [0, 1, 2, 3, 8, 16, 33, 1024];
/// lengths at which the array itself is exactly 64 KiB (8-byte elements x 8192, 4-byte x 16384) or more (8-byte x 10000): size-dependent
/// allocation strategies; a reduced operation list (`enumerate_big`)
pub const BIG: [usize; 3] = [8192, 16384, 10000];

pub fn enumerate_big(mut emit: impl FnMut(Case)) {
    // (kind, N): 8-byte tracked elements x 8192 and 4-byte plain elements x 16384 are both exactly 64 KiB,
    // 8-byte tracked x 10000 is above it.
    // Operations with two element kinds (17, 18) are left out: the identity ranges of HeapCase.v assume N < 2000.
    for (kind, n) in [(0i128, BIG[0]), (2, BIG[1]), (0, BIG[2])] {
        let base = |op: i128| Case { op, kind, n, l: n, spare: 0, pan: -1, fail: -1, aux: 0 };
        for op in [0i128, 1, 2, 3, 4, 8, 9, 10, 14] {
            emit(base(op));
        }
        emit(Case { aux: (n / 2) as i128, ..base(11) });
        for op in [5i128, 6, 15, 16] {
            for pan in [-1i64, (n / 2) as i64] {
                emit(Case { pan, ..base(op) });
            }
        }
        for op in [7i128, 12] {
            for aux in [0i128, 1] {
                emit(Case { aux, ..base(op) });
            }
        }
    }
}

pub fn run_dyn(c: &Case) -> (Out, Vec<ARec>, bool) {
    fn by_len<T: El>(c: &Case) -> (Out, Vec<ARec>, bool) {
        harness::dispatch_len!(
            c.n,
            [U0, U1, U2, U3, U8, U16, U33, U1024, U8192, U10000, U16384],
            |N| run_case::<T, N>(c),
            panic!("length {} not monomorphised", c.n)
        )
    }
    match c.kind {
        0 => by_len::<He>(c),
        1 => by_len::<Hz>(c),
        _ => by_len::<Hq>(c),
    }
}

/// closure calls / source polls / default() calls the operation makes when nothing panics
pub fn calls_of(op: i128, n: usize, l: usize) -> usize {
    match op {
        5 | 6 | 15 | 16 | 17 | 18 => n,
        7 | 12 => l.min(n) + 1,
        _ => 0,
    }
}

/// The case list: every operation x element kind x length of the lattice x its source shapes.
/// `pans(op, n, l)` chooses the panic indices, `with_sources` the (L, spare) pairs.
pub fn enumerate(ns: &[usize], all_pans_upto: usize, big_samples: usize, mut emit: impl FnMut(Case)) {
    for &n in ns {
        for kind in 0..3i128 {
            let mut lens: Vec<usize> = vec![n, n + 1, 0];
            if n > 0 {
                lens.push(n - 1)
            }
            lens.sort();
            lens.dedup();
            let base = |op: i128| Case { op, kind, n, l: n, spare: 0, pan: -1, fail: -1, aux: 0 };
            let pans = |op: i128, l: usize| -> Vec<i64> {
                let calls = calls_of(op, n, l);
                let mut v: Vec<i64> = vec![-1];
                if calls <= all_pans_upto {
                    v.extend(0..calls as i64);
                } else {
                    v.extend([0, 1, (calls / 2) as i64, calls as i64 - 2, calls as i64 - 1]);
                    for j in 1..big_samples {
                        v.push((j * calls / big_samples) as i64);
                    }
                    v.sort();
                    v.dedup();
                }
                v
            };
            for &l in &lens {
                for spare in [0usize, 1, 5] {
                    emit(Case { l, spare, ..base(0) });
                    emit(Case { l, spare, ..base(4) });
                }
                emit(Case { l, ..base(3) });
                emit(Case { l, ..base(8) });
                for aux in [0i128, 1] {
                    for op in [7i128, 12] {
                        for pan in pans(op, l) {
                            emit(Case { l, pan, aux, ..base(op) });
                        }
                    }
                }
            }
            for op in [1i128, 2, 9, 10, 14] {
                emit(base(op));
            }
            if LIST_LENGTHS.contains(&n) {
                emit(base(13));
            }
            let mut ks = vec![0usize, n / 2, n];
            ks.dedup();
            for k in ks {
                emit(Case { aux: k as i128, ..base(11) });
            }
            for op in [5i128, 6, 15, 16, 17, 18] {
                for pan in pans(op, n) {
                    emit(Case { pan, ..base(op) });
                }
            }
        }
    }
}

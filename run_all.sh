#!/bin/bash
# run_all.sh [tier] : run every registered check once, print the summary lines
tier=${1:-quick}
cd "$(dirname "$0")"
for p in $(python3 -c "import json;print(' '.join(c['property_id'] for c in json.load(open('MANIFEST.json'))['checks']))"); do
  ./check $p --tier $tier 2>&1 | grep -E "^(VIOLATION|KNOWN-FINDING|C[0-9]+ )" 
done

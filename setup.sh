#!/bin/bash
# setup.sh -- build the framework from files on disk only (offline).
set -u
cd "$(dirname "$0")"
export CARGO_NET_OFFLINE=true
mkdir -p .build out evidence
python3 lib/gen.py >/dev/null
( cd coq && coq_makefile -f _CoqProject -o Makefile >/dev/null 2>&1 && timeout 3000 make -j16 >/dev/null 2>.make.err ) || { echo "coq build failed"; tail -30 coq/.make.err; }
python3 - <<'PY'
import sys, os
sys.path.insert(0, "lib")
import core
import props
for pid in sorted(props.PROPS):
    exe, err = core.model_build(pid)
    if exe is None:
        print("model runner %s:" % pid, err)
r = core.regen()
print("regen:", r.get("status"))
PY
if [ -d tools/ga2coq ]; then
  ( cd tools/ga2coq && CARGO_TARGET_DIR=../../.build/ga2coq-target timeout 900 cargo build --offline --release >/dev/null 2>&1 ) || echo "ga2coq build failed"
fi
( cd harness && CARGO_TARGET_DIR=../.build/harness-target timeout 3000 cargo build --offline --bins 2>&1 | grep -E "^error" -A8 | head -40 )
( cd harness && CARGO_TARGET_DIR=../.build/harness-target-forms timeout 3000 cargo build --offline --features forms --bin c04 --bin c08 2>&1 | grep -E "^error" -A8 | head -40 )
echo "setup done"
exit 0

(* Extraction of the hub model for the correspondence check.
   ExtrOcamlBasic only: bool, option, unit, list, prod, sumbool, sumor map to the
   OCaml types; all numbers stay Coq's positive/Z/N/nat datatypes. *)
From Coq Require Import Extraction ExtrOcamlBasic ZArith.
From GA Require Import Corr.
Extraction Language OCaml.
Extraction "model.ml" run_case Z.add Z.mul Z.opp Z.div_eucl Z.of_nat Z.to_nat Z.eqb Z.ltb.

(* SeqOps.v -- hub model of src/sequence.rs: Lengthen (append, prepend), Shorten
   (pop_back, pop_front), Split (owned, &, &mut), Concat, Remove (remove,
   swap_remove, remove_unchecked, swap_remove_unchecked).  Definitions only.

   Each operation is the crate's pointer program in ELEMENT units over an
   element-granular memory: a block is a list of cells (Uninit | Init id); every
   read is bounds- and initialisation-checked, every write and copy is
   bounds-checked; a failed access is the distinguished outcome [Fault], never a
   silent default.  The stride of a pointer typed `*mut GenericArray<T,N>` is N
   cells, of a `*mut T` one cell (justified by C01: size = N * size T, no padding).
   A cell keeps its bits after `ptr::read` (physical state): a program that reads
   a cell twice duplicates the identity, which the ownership theorems exclude.

   Type-level lengths (Add1/Sub1/Diff/Sum) are computed here on nat; where typenum
   has no solution (Sub1<U0>, Diff<N,K> with K > N) the impl does not exist and the
   outcome is [NoInst] (the call does not compile). *)
From GA Require Import Base.

(* ------------------------------------------------------------------ memory *)

Inductive cell : Type := Uninit | Init (x : Z).
Definition block := list cell.

(* MaybeUninit::<GenericArray<T, n>>::uninit() *)
Definition fresh (n : nat) : block := repeat Uninit n.
(* the storage of an owned array holding l *)
Definition of_list (l : list Z) : block := map Init l.

Fixpoint cells_vals (c : list cell) : option (list Z) :=
  match c with
  | [] => Some []
  | Uninit :: _ => None
  | Init x :: r => match cells_vals r with Some v => Some (x :: v) | None => None end
  end.

Definition in_bounds (b : block) (off k : nat) : bool := off + k <=? length b.

(* ptr::read(p.add(off) as *const GenericArray<T,k>): k cells, in bounds and initialised *)
Definition mread (b : block) (off k : nat) : option (list Z) :=
  if in_bounds b off k then cells_vals (firstn k (skipn off b)) else None.

(* ptr::read(p.add(off)) of one T *)
Definition mread1 (b : block) (off : nat) : option Z :=
  match mread b off 1 with Some [x] => Some x | _ => None end.

(* ptr::write(p.add(off) as *mut GenericArray<T,k>, vs) with k = length vs *)
Definition mwrite (b : block) (off : nat) (vs : list Z) : option block :=
  if in_bounds b off (length vs)
  then Some (firstn off b ++ map Init vs ++ skipn (off + length vs) b)
  else None.

(* ptr::copy(p.add(src), p.add(dst), cnt): memmove -- the source range is read
   before anything is written; both ranges in bounds; untyped (cells copied as is) *)
Definition mcopy (b : block) (src dst cnt : nat) : option block :=
  if in_bounds b src cnt && in_bounds b dst cnt
  then Some (firstn dst b ++ firstn cnt (skipn src b) ++ skipn (dst + cnt) b)
  else None.

(* <[T]>::swap(i, j): both indices bounds-checked (None = the slice index panic) *)
Definition mswap (b : block) (i j : nat) : option block :=
  match nth_error b i, nth_error b j with
  | Some ci, Some cj => Some (upd j ci (upd i cj b))
  | _, _ => None
  end.

(* MaybeUninit::assume_init on the whole block: every cell must be initialised *)
Definition assume_init (b : block) : option (list Z) := mread b 0 (length b).

(* ------------------------------------------------------- type-level lengths *)

Definition add1 (n : nat) : nat := n + 1.
Definition sub1 (n : nat) : option nat := if n =? 0 then None else Some (n - 1).
Definition diff (n k : nat) : option nat := if k <=? n then Some (n - k) else None.
Definition sum (n m : nat) : nat := n + m.

(* usize subtraction; None = underflow (debug: panic, release: wrap -- either way
   outside what the code relies on) *)
Definition zsub (a b : Z) : option Z := if (b <=? a)%Z then Some (a - b)%Z else None.

(* ----------------------------------------------------------------- outcomes *)

Inductive outcome (A : Type) : Type :=
| Ok (a : A)
| PanicBounds      (* the `assert!(idx < N::USIZE, "Index out of bounds ...")` of remove/swap_remove *)
| PanicOther       (* any other panic (slice index check inside <[T]>::swap) *)
| Fault            (* an access outside the block / of an uninitialised cell / unreachable_unchecked / usize underflow *)
| NoInst.          (* the type-level length has no solution: the call does not compile *)
Arguments Ok {A} a.
Arguments PanicBounds {A}.
Arguments PanicOther {A}.
Arguments Fault {A}.
Arguments NoInst {A}.

Definition access {A B} (o : option A) (k : A -> outcome B) : outcome B :=
  match o with Some a => k a | None => Fault end.
Notation "'acc' x <- e ; k" := (access e (fun x => k))
  (at level 200, x ident, e at level 100, k at level 200, right associativity).

(* every operation returns its outcome and the destructor runs it causes *)
Definition result (A : Type) : Type := outcome A * list ev.

(* ----------------------------------------------------------------- Lengthen *)

(* append (sequence.rs:211-225):
     longer = MaybeUninit<GenericArray<T, Add1<N>>>;  out_ptr = longer as *mut Self   (stride N)
     ptr::write(out_ptr, self); ptr::write(out_ptr.add(1) as *mut T, last); assume_init *)
Definition append (l : list Z) (last : Z) : result (list Z) :=
  let N := length l in
  let longer := fresh (add1 N) in
  (acc b1 <- mwrite longer 0 l;
   acc b2 <- mwrite b1 (1 * N) [last];
   acc r <- assume_init b2;
   Ok r, []).

(* prepend (sequence.rs:228-242): out_ptr = longer as *mut T (stride 1)
     ptr::write(out_ptr, first); ptr::write(out_ptr.add(1) as *mut Self, self) *)
Definition prepend (l : list Z) (first : Z) : result (list Z) :=
  let N := length l in
  let longer := fresh (add1 N) in
  (acc b1 <- mwrite longer 0 [first];
   acc b2 <- mwrite b1 (1 * 1) l;
   acc r <- assume_init b2;
   Ok r, []).

(* ------------------------------------------------------------------ Shorten *)

(* pop_back (sequence.rs:255-264): whole = ManuallyDrop::new(self)  (no destructor runs)
     init = ptr::read(whole.as_ptr() as *const GenericArray<T, Sub1<N>>)
     last = ptr::read(whole.as_ptr().add(Sub1::<N>::USIZE)) *)
Definition pop_back (l : list Z) : result (list Z * Z) :=
  match sub1 (length l) with
  | None => (NoInst, [])
  | Some n1 =>
    let whole := of_list l in
    (acc init <- mread whole 0 n1;
     acc last <- mread1 whole n1;
     Ok (init, last), [])
  end.

(* pop_front (sequence.rs:267-277): head = ptr::read(whole.as_ptr());
     tail = ptr::read(whole.as_ptr().offset(1) as *const GenericArray<T, Sub1<N>>)
   as_ptr() is *const T, so offset(1) is ONE element *)
Definition pop_front (l : list Z) : result (Z * list Z) :=
  match sub1 (length l) with
  | None => (NoInst, [])
  | Some n1 =>
    let whole := of_list l in
    (acc head <- mread1 whole 0;
     acc tail <- mread whole (1 * 1) n1;
     Ok (head, tail), [])
  end.

(* -------------------------------------------------------------------- Split *)

(* owned split (sequence.rs:306-316): head = ptr::read(whole.as_ptr() as *const GenericArray<T,K>);
     tail = ptr::read(whole.as_ptr().add(K::USIZE) as *const GenericArray<T, Diff<N,K>>) *)
Definition split (K : nat) (l : list Z) : result (list Z * list Z) :=
  match diff (length l) K with
  | None => (NoInst, [])
  | Some d =>
    let whole := of_list l in
    (acc head <- mread whole 0 K;
     acc tail <- mread whole K d;
     Ok (head, tail), [])
  end.

(* by-reference split (sequence.rs:330-337, 351-358): both references are derived from
   the one base pointer of the source; nothing is read, written or copied.
   A view is (offset from the source's first element, length), in elements. *)
Definition view : Type := nat * nat.

Definition split_ref (N K : nat) : outcome (view * view) :=
  match diff N K with
  | None => NoInst
  | Some d =>
    let ptr_to_first := 0 in
    Ok ((ptr_to_first, K), (ptr_to_first + K, d))
  end.

(* what a `&GenericArray<T,len>` at that place shows / what writing through a `&mut` does *)
Definition view_read (b : block) (v : view) : option (list Z) := mread b (fst v) (snd v).
Definition view_write (b : block) (v : view) (vs : list Z) : option block :=
  if length vs =? snd v then mwrite b (fst v) vs else None.

(* ------------------------------------------------------------------- Concat *)

(* concat (sequence.rs:387-400): output = MaybeUninit<GenericArray<T, Sum<N,M>>>;
     out_ptr = output as *mut Self (stride N); ptr::write(out_ptr, self);
     ptr::write(out_ptr.add(1) as *mut GenericArray<T,M>, rest) *)
Definition concat (l m : list Z) : result (list Z) :=
  let N := length l in
  let output := fresh (sum N (length m)) in
  (acc b1 <- mwrite output 0 l;
   acc b2 <- mwrite b1 (1 * N) m;
   acc r <- assume_init b2;
   Ok r, []).

(* ------------------------------------------------------------------- Remove *)

(* the copy count `N::USIZE - idx - 1` of remove_unchecked, as two usize subtractions *)
Definition remove_count (N idx : Z) : option Z :=
  match zsub N idx with Some d => zsub d 1 | None => None end.

(* remove_unchecked (sequence.rs:500-516):
     if idx >= N || N == 0 { unreachable_unchecked() }
     array = ManuallyDrop::new(self); dst = array.as_mut_ptr().add(idx);
     removed = ptr::read(dst); ptr::copy(dst.add(1), dst, N - idx - 1);
     (removed, transmute_copy(&array))        -- reads the first Sub1<N> elements *)
Definition remove_unchecked (idx : Z) (l : list Z) : outcome (Z * list Z) :=
  let N := zlen l in
  match sub1 (length l) with
  | None => NoInst
  | Some n1 =>
    if (N <=? idx)%Z || (N =? 0)%Z then Fault
    else
      let array := of_list l in
      let dst := Z.to_nat idx in
      acc removed <- mread1 array dst;
      acc cnt <- remove_count N idx;
      acc array' <- mcopy array (dst + 1) dst (Z.to_nat cnt);
      acc out <- mread array' 0 n1;
      Ok (removed, out)
  end.

(* swap_remove_unchecked (sequence.rs:519-533):
     array.swap(idx, N - 1); removed = ptr::read(array.as_ptr().add(N - 1));
     (removed, transmute_copy(&array)) *)
Definition swap_remove_unchecked (idx : Z) (l : list Z) : outcome (Z * list Z) :=
  let N := zlen l in
  match sub1 (length l) with
  | None => NoInst
  | Some n1 =>
    if (N <=? idx)%Z || (N =? 0)%Z then Fault
    else
      let array := of_list l in
      acc last <- zsub N 1;
      match mswap array (Z.to_nat idx) (Z.to_nat last) with
      | None => PanicOther
      | Some array' =>
        acc removed <- mread1 array' (Z.to_nat last);
        acc out <- mread array' 0 n1;
        Ok (removed, out)
      end
  end.

(* remove / swap_remove (sequence.rs:433-469): `assert!(idx < N::USIZE, ...)` while `self`
   is still an ordinary owned argument: the unwinding drops it (each element once);
   past the assert the array is inside ManuallyDrop and no destructor runs. *)
Definition remove (idx : Z) (l : list Z) : result (Z * list Z) :=
  match sub1 (length l) with
  | None => (NoInst, [])
  | Some _ =>
    if (idx <? zlen l)%Z then (remove_unchecked idx l, [])
    else (PanicBounds, map EDrop l)
  end.

Definition swap_remove (idx : Z) (l : list Z) : result (Z * list Z) :=
  match sub1 (length l) with
  | None => (NoInst, [])
  | Some _ =>
    if (idx <? zlen l)%Z then (swap_remove_unchecked idx l, [])
    else (PanicBounds, map EDrop l)
  end.

(* ------------------------------------------------- specification: Vec as lists *)

(* Vec::remove(i): the element at i, and the vector without position i *)
Definition vec_remove (i : nat) (l : list Z) : option (Z * list Z) :=
  match nth_error l i with
  | Some x => Some (x, firstn i l ++ skipn (S i) l)
  | None => None
  end.

(* Vec::swap_remove(i): the element at i; the last element takes its place and the
   vector loses its last position *)
Definition vec_swap_remove (i : nat) (l : list Z) : option (Z * list Z) :=
  match nth_error l i, nth_error l (length l - 1) with
  | Some x, Some y => Some (x, firstn (length l - 1) (upd i y l))
  | _, _ => None
  end.

(* Vec::pop / Vec::remove(0) *)
Definition vec_pop (l : list Z) : option (list Z * Z) :=
  match nth_error l (length l - 1) with
  | Some x => Some (firstn (length l - 1) l, x)
  | None => None
  end.
Definition vec_pop_front (l : list Z) : option (Z * list Z) :=
  match l with x :: r => Some (x, r) | [] => None end.

(* ------------------------------------------------ mutants (for _refuted lemmas) *)

(* pop_front with offset(1) typed at the array pointee (stride N) *)
Definition pop_front_wrong_stride (l : list Z) : result (Z * list Z) :=
  match sub1 (length l) with
  | None => (NoInst, [])
  | Some n1 =>
    let whole := of_list l in
    (acc head <- mread1 whole 0;
     acc tail <- mread whole (1 * length l) n1;
     Ok (head, tail), [])
  end.

(* remove_unchecked shifting N - idx elements: reads one element past the array and
   discards it -- the right answer, from an out-of-bounds read *)
Definition remove_unchecked_overcopy (idx : Z) (l : list Z) : outcome (Z * list Z) :=
  let N := zlen l in
  match sub1 (length l) with
  | None => NoInst
  | Some n1 =>
    if (N <=? idx)%Z || (N =? 0)%Z then Fault
    else
      let array := of_list l in
      let dst := Z.to_nat idx in
      acc removed <- mread1 array dst;
      acc cnt <- zsub N idx;
      acc array' <- mcopy array (dst + 1) dst (Z.to_nat cnt);
      acc out <- mread array' 0 n1;
      Ok (removed, out)
  end.

(* split reading the tail at K + 1 *)
Definition split_off_by_one (K : nat) (l : list Z) : result (list Z * list Z) :=
  match diff (length l) K with
  | None => (NoInst, [])
  | Some d =>
    let whole := of_list l in
    (acc head <- mread whole 0 K;
     acc tail <- mread whole (K + 1) d;
     Ok (head, tail), [])
  end.

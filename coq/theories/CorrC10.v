(* CorrC10.v -- correspondence entry point for C10: decode a case, run the hub
   model (Chunks.v), encode the observables exactly as harness/src/bin/c10.rs does.

   Case: [form; ty; N; p; L; G; mode]
     form 0 chunks_from_slice        1 chunks_from_slice_mut
          4 slice_from_chunks        5 slice_from_chunks_mut
          6 from_chunks, into_chunks 7 from_chunks_mut, into_chunks_mut
          form + 10: the same calls evaluated inside a `const` item
     ty   0 u8, 1 u32, 2 (), 3 (u8,u16)
     forms 0,1: the source object has p + L + G elements, the slice is [p, p+L)
     forms 4-7: the source object has p + L + G arrays of N elements, the chunk
                slice is the L arrays starting at array p
     mode 0: contents are printed in full; 1: as (count, weighted sum)
   Element i of the source object initially holds (3 + 7 i) mod 251 (0 for the
   zero-sized type); the mutable forms write (11 + 5 t) mod 251 to element t of
   the chunk view (t = array index * N + index in the array) and
   (101 + 13 t) mod 251 to element t of the remainder. *)
From GA Require Import Base Codec Chunks.
Local Open Scope Z_scope.

(* start, start+step, ... modulo 251, without division *)
Fixpoint ramp (n : nat) (cur step : Z) : list Z :=
  match n with
  | O => []
  | S n' => cur :: ramp n' (let x := cur + step in if 251 <=? x then x - 251 else x) step
  end.

Definition pattern (zst : bool) (n : nat) (start step : Z) : list Z :=
  if zst then repeat 0 n else ramp n start step.

Fixpoint group (N : nat) (cnt : nat) (l : list Z) : list (list Z) :=
  match cnt with
  | O => []
  | S c => firstn N l :: group N c (skipn N l)
  end.

Definition digest (l : list Z) : Z :=
  snd (fold_left (fun '(k, acc) x => (k + 1, acc + k * (x + 1))) l (1, 0)).

Definition enc_vals (mode : Z) (l : list Z) : list Z :=
  if mode =? 0 then zlen l :: l else [zlen l; digest l].

Definition enc_ptr (zst : bool) (q : ptr) : Z :=
  if zst then 0 else match q with At o => o | Dangling => -1 end.

Definition fail : list Z := [-7].

(* forms 0, 1 *)
Definition run_chunks (mutf zst : bool) (N p L G mode : Z) : list Z :=
  let mem := pattern zst (Z.to_nat (p + L + G)) 3 7 in
  match chunks_from_slice N (mkS (At p) L) with
  | Panicked => [1]
  | UB => fail
  | Ret (c, r) =>
    match read_chunks mem N c, read mem r with
    | Some chs, Some rem =>
      let head := [0; enc_ptr zst (cptr c); ccnt c; enc_ptr zst (sptr r); slen r]
                  ++ enc_vals mode (concat chs) ++ enc_vals mode rem in
      let mem' :=
        if mutf then
          let newc := pattern zst (Z.to_nat (ccnt c * N)) 11 5 in
          let newr := pattern zst (Z.to_nat (slen r)) 101 13 in
          match write_chunks mem N c (group (Z.to_nat N) (Z.to_nat (ccnt c)) newc) with
          | Some m1 => write m1 r newr
          | None => None
          end
        else Some mem in
      match mem', slice_from_chunks N c with
      | Some m2, Ret f =>
        match read m2 f with
        | Some fl => head ++ [enc_ptr zst (sptr f); slen f] ++ enc_vals mode fl
                     ++ (if mutf then enc_vals mode m2 else [])
        | None => fail
        end
      | _, _ => fail
      end
    | _, _ => fail
    end
  end.

(* forms 4, 5 *)
Definition run_flatten (mutf zst : bool) (N a C G mode : Z) : list Z :=
  let mem := pattern zst (Z.to_nat ((a + C + G) * N)) 3 7 in
  match slice_from_chunks N (mkC (At (a * N)) C) with
  | Ret f =>
    match read mem f with
    | Some fl =>
      let mem' := if mutf then write mem f (pattern zst (Z.to_nat (slen f)) 11 5) else Some mem in
      match mem', chunks_from_slice N f with
      | Some m2, Ret (c2, r2) =>
          [enc_ptr zst (sptr f); slen f] ++ enc_vals mode fl
          ++ [0; enc_ptr zst (cptr c2); ccnt c2; enc_ptr zst (sptr r2); slen r2]
          ++ (if mutf then enc_vals mode m2 else [])
      | Some m2, Panicked => [enc_ptr zst (sptr f); slen f] ++ enc_vals mode fl ++ [1]
      | _, _ => fail
      end
    | None => fail
    end
  | _ => fail
  end.

(* forms 6, 7 *)
Definition run_native (mutf zst : bool) (N a C G mode : Z) : list Z :=
  let mem := pattern zst (Z.to_nat ((a + C + G) * N)) 3 7 in
  let g := from_chunks (mkC (At (a * N)) C) in
  match read_chunks mem N g with
  | Some chs =>
    let mem' :=
      if mutf then write_chunks mem N g
                     (group (Z.to_nat N) (Z.to_nat C) (pattern zst (Z.to_nat (C * N)) 11 5))
      else Some mem in
    match mem' with
    | Some m2 =>
      let h := into_chunks g in
      match read_chunks m2 N h with
      | Some chs2 =>
          [enc_ptr zst (cptr g); ccnt g] ++ enc_vals mode (concat chs)
          ++ [enc_ptr zst (cptr h); ccnt h] ++ enc_vals mode (concat chs2)
          ++ (if mutf then enc_vals mode m2 else [])
      | None => fail
      end
    | None => fail
    end
  | None => fail
  end.

Definition run_c10 (case : list Z) : list Z :=
  match case with
  | [form0; ty; N; p; L; G; mode] =>
    let form := if 10 <=? form0 then form0 - 10 else form0 in
    let zst_t := ty =? 2 in
    (* forms 4-7 with N = 0: the source object has no extent whatever T is *)
    let zst_a := zst_t || (N =? 0) in
    if form =? 0 then run_chunks false zst_t N p L G mode
    else if form =? 1 then run_chunks true zst_t N p L G mode
    else if form =? 4 then run_flatten false zst_a N p L G mode
    else if form =? 5 then run_flatten true zst_a N p L G mode
    else if form =? 6 then run_native false zst_a N p L G mode
    else if form =? 7 then run_native true zst_a N p L G mode
    else [-1]
  | _ => [-1]
  end.

(* HeapOpsProofs.v -- proofs about the heap model (Alloc.v) and the crate's alloc-feature
   operations (HeapOps.v): C15 (contents, exact length, same block with zero allocator
   events) and C16 (valid requests, paired releases, no leak, allocation failure). *)
From Coq Require Import Permutation.
From GA Require Import Base Builder BuilderProofs Functional FunctionalProofs Alloc HeapOps.
Local Open Scope Z_scope.

Lemma zlen_nonneg {A} (l : list A) : 0 <= zlen l.
Proof. unfold zlen. lia. Qed.

(* the whole-run statement: heap_ok, and block identities are never reused *)
Definition rep_ok fails h0 n k (r : report) : Prop :=
  heap_ok fails h0 k (r_code r) (r_final r) /\ (n <= next (r_final r))%nat.

Ltac brk :=
  match goal with
  | |- context [if ?c then _ else _] => destruct c eqn:?
  end.

Ltac expose := cbv beta iota zeta delta [run_scn scn_build mk_vec mk_box vec_with_capacity try_from_vec vec_into_boxed_slice try_from_boxed_slice
  std_alloc std_realloc std_free raw_alloc val_drop arr_drop box_drop vec_drop bind ret stop emitA emitE init opt_val vlen blen box_new
  box_new_uninit vec_lit vec_from_elem vec_from_box vec_to_array into_boxed_slice into_vec boxed_slice_to_array array_to_boxed_slice array_to_vec
  boxed_into_iter box_arr_list box_arr_repeat boxed_pipeline boxed_map boxed_zip boxed_generate default_boxed HeapOps.try_boxed_from_iter boxed_from_iter
  val_contents val_block code_of map_ zip_
  vblk vcap vel bblk bel next nallocs atr etr].
Ltac expose_leaf := cbv beta iota zeta delta [rep_ok heap_ok r_code r_final atr nallocs next pred].

Ltac pose_zlen :=
  repeat match goal with
  | |- context [zlen ?x] =>
    lazymatch goal with H : 0 <= zlen x |- _ => fail | _ => pose proof (zlen_nonneg x) end
  | _ : context [zlen ?x] |- _ =>
    lazymatch goal with H : 0 <= zlen x |- _ => fail | _ => pose proof (zlen_nonneg x) end
  end.

Ltac norm_hyps :=
  unfold bytes, blen, vlen, zlen in *; cbn [length] in *;
  repeat match goal with
  | H : true = true |- _ => clear H
  | H : false = false |- _ => clear H
  | H : true = false |- _ => discriminate H
  | H : false = true |- _ => discriminate H
  | H : negb _ = true |- _ => apply negb_true_iff in H
  | H : negb _ = false |- _ => apply negb_false_iff in H
  | H : _ && _ = true |- _ => apply andb_true_iff in H; destruct H
  | H : _ && _ = false |- _ => apply andb_false_iff in H; destruct H
  | H : _ || _ = false |- _ => apply orb_false_iff in H; destruct H
  | H : (_ =? _) = true |- _ => apply Z.eqb_eq in H
  | H : (_ =? _) = false |- _ => apply Z.eqb_neq in H
  | H : (_ <? _) = true |- _ => apply Z.ltb_lt in H
  | H : (_ <? _) = false |- _ => apply Z.ltb_ge in H
  | H : _ * _ = 0 |- _ => apply Z.mul_eq_0 in H; destruct H
  | H : _ * _ <> 0 |- _ => apply Z.neq_mul_0 in H; destruct H
  end.

Ltac arith := solve [ lia | apply Z.mul_pos_pos; lia | f_equal; lia | congruence | nia ].

Section Proofs.
Variable fails : nat -> bool.

Ltac oracle_goal :=
  let j := fresh "j" in let Hj := fresh "Hj" in
  intros j Hj;
  repeat match goal with
  | H : fails ?x = _ |- _ => destruct (Nat.eq_dec j x); [subst; assumption|]; clear H
  end; lia.

Ltac heap_goal Hf :=
  repeat match goal with
  | |- exists t' sz al, _ = t' ++ [EAllocFail sz al] /\ _ =>
    do 3 eexists; split; [reflexivity | cbn [app nfail]; reflexivity]
  | |- exists _, _ => eexists
  | |- _ /\ _ => split
  | |- valid _ _ _ => progress cbn [app valid hfind hdel]
  | |- nfail _ = _ => cbn [app nfail]; reflexivity
  | |- context [Nat.eqb ?a ?a] => rewrite (Nat.eqb_refl a); cbn [hfind hdel valid]
  | |- context [Nat.eqb ?a ?b] => destruct (Nat.eqb_spec a b); [lia|]; cbn [hfind hdel valid]
  | |- hfind _ _ = None => apply Hf; lia
  | |- Some _ = Some _ => f_equal
  | |- (_, _) = (_, _) => f_equal
  | |- False => arith
  | |- (_ < _)%Z => arith
  | |- (_ < _)%nat => lia
  | |- (_ <= _)%nat => lia
  | |- @eq Z _ _ => arith
  | |- @eq heap _ _ => reflexivity
  | |- fails _ = _ => assumption
  | |- forall j, _ -> fails j = false => oracle_goal
  end.

Ltac crunch Hf :=
  expose; repeat (brk; expose); expose_leaf; norm_hyps;
  try solve [exfalso; lia];
  try (heap_goal Hf; fail).

Ltac crunch_with E Hf :=
  expose; repeat (first [rewrite E | brk]; expose); expose_leaf; norm_hyps;
  try solve [exfalso; lia];
  try (heap_goal Hf; fail).

Definition ok_from (T : elt) (sc : scn) : Prop :=
  forall n k h0, fresh n h0 ->
    rep_ok fails h0 n k (run_scn fails T sc (init n k)).

Lemma ok_vec_to_array T N l spare : elt_ok T -> 0 <= spare -> ok_from T (SVecToArray N l spare).
Proof. intros [Hs Ha] Hsp n k h0 Hf. crunch Hf. Qed.

Lemma ok_try_from_vec T N l spare : elt_ok T -> 0 <= spare -> ok_from T (STryFromVec N l spare).
Proof. intros [Hs Ha] Hsp n k h0 Hf. crunch Hf. Qed.

Lemma ok_into_boxed_slice T l : elt_ok T -> ok_from T (SIntoBoxedSlice l).
Proof. intros [Hs Ha] n k h0 Hf. crunch Hf. Qed.
Lemma ok_into_vec T l : elt_ok T -> ok_from T (SIntoVec l).
Proof. intros [Hs Ha] n k h0 Hf. crunch Hf. Qed.
Lemma ok_try_from_boxed_slice T N l : elt_ok T -> ok_from T (STryFromBoxedSlice N l).
Proof. intros [Hs Ha] n k h0 Hf. crunch Hf. Qed.
Lemma ok_boxed_slice_to_array T N l : elt_ok T -> ok_from T (SBoxedSliceToArray N l).
Proof. intros [Hs Ha] n k h0 Hf. crunch Hf. Qed.
Lemma ok_array_to_boxed_slice T l : elt_ok T -> ok_from T (SArrayToBoxedSlice l).
Proof. intros [Hs Ha] n k h0 Hf. crunch Hf. Qed.
Lemma ok_array_to_vec T l : elt_ok T -> ok_from T (SArrayToVec l).
Proof. intros [Hs Ha] n k h0 Hf. crunch Hf. Qed.
Lemma ok_boxed_into_iter T l j : elt_ok T -> ok_from T (SBoxedIntoIter l j).
Proof. intros [Hs Ha] n k h0 Hf. crunch Hf. Qed.

Lemma ok_box_arr_list T l : elt_ok T -> ok_from T (SBoxArrList l).
Proof. intros [Hs Ha] n k h0 Hf. destruct l as [|x l]; crunch Hf. Qed.

Lemma ok_box_arr_repeat T x N cl : elt_ok T -> ok_from T (SBoxArrRepeat x N cl).
Proof.
  intros [Hs Ha] n k h0 Hf. destruct N as [|m].
  - crunch Hf.
  - assert (Hl : length (map cl (seq 0 m) ++ [x]) = S m)
      by (rewrite app_length, map_length, seq_length; cbn; lia).
    crunch Hf.
Qed.

Lemma generate_cases N f pan :
  (exists e c, generate_ N f pan = (Panic, e, c)) \/
  (exists e c built, generate_ N f pan = (Ok built, e, c) /\ length built = N).
Proof.
  unfold generate_. rewrite zipmap_spec.
  assert (Hp : length (produced f 0 (repeat [] N)) = N) by (rewrite produced_length; apply repeat_length).
  destruct pan as [k|]; [destruct (k <? length (repeat [] N))%nat|]; eauto 8.
Qed.

Lemma ok_generate T N f pan : elt_ok T -> ok_from T (SGenerate N f pan).
Proof.
  intros [Hs Ha] n k h0 Hf.
  destruct (generate_cases N f pan) as [(e & c & E)|(e & c & built & E & Hl)];
    crunch_with E Hf.
Qed.

Lemma ok_default_boxed T N f pan : elt_ok T -> ok_from T (SDefaultBoxed N f pan).
Proof.
  intros [Hs Ha] n k h0 Hf.
  destruct (generate_cases N f pan) as [(e & c & E)|(e & c & built & E & Hl)];
    crunch_with E Hf.
Qed.

Lemma ok_try_boxed_from_iter T N s : elt_ok T -> ok_from T (STryBoxedFromIter N s).
Proof.
  intros [Hs Ha] n k h0 Hf.
  destruct (Builder.try_boxed_from_iter N s) as [[o e] p] eqn:E.
  destruct o as [built| |].
  - pose proof E as E'. unfold Builder.try_boxed_from_iter in E'. apply ok_only_exact in E'.
    destruct E' as [[Hl _] _].
    crunch_with E Hf.
  - unfold run_scn, scn_build, HeapOps.try_boxed_from_iter. rewrite E. crunch Hf.
  - unfold run_scn, scn_build, HeapOps.try_boxed_from_iter. rewrite E. crunch Hf.
Qed.

Lemma ok_boxed_from_iter T N s : elt_ok T -> ok_from T (SBoxedFromIter N s).
Proof.
  intros [Hs Ha] n k h0 Hf.
  destruct (Builder.try_boxed_from_iter N s) as [[o e] p] eqn:E.
  destruct o as [built| |].
  - pose proof E as E'. unfold Builder.try_boxed_from_iter in E'. apply ok_only_exact in E'.
    destruct E' as [[Hl _] _].
    crunch_with E Hf.
  - unfold run_scn, scn_build, boxed_from_iter, HeapOps.try_boxed_from_iter. rewrite E. crunch Hf.
  - unfold run_scn, scn_build, boxed_from_iter, HeapOps.try_boxed_from_iter. rewrite E. crunch Hf.
Qed.

Lemma zipmap_cases own f pan rows :
  (exists e c, zipmap own f pan rows = (Panic, e, c)) \/
  (exists e c built, zipmap own f pan rows = (Ok built, e, c) /\ length built = length rows).
Proof.
  rewrite zipmap_spec.
  assert (Hp : length (produced f 0 rows) = length rows) by apply produced_length.
  destruct pan as [k|]; [destruct (k <? length rows)%nat|]; eauto 8.
Qed.

Lemma ok_boxed_map T U f pan l : elt_ok T -> elt_ok U -> ok_from T (SBoxedMap U f pan l).
Proof.
  intros [Hs Ha] [HsU HaU] n k h0 Hf.
  destruct (zipmap_cases [true] f pan (map (fun x => [x]) l)) as [(e & c & E)|(e & c & built & E & Hl)];
    rewrite ?map_length in *; crunch_with E Hf.
Qed.

Lemma ok_boxed_zip T B U f pan l r : elt_ok T -> elt_ok B -> elt_ok U -> length l = length r ->
  ok_from T (SBoxedZip B U f pan l r).
Proof.
  intros [Hs Ha] [HsB HaB] [HsU HaU] Hlr n k h0 Hf.
  assert (Hc : length (combine l r) = length l) by (rewrite combine_length; lia).
  destruct (zipmap_cases [true; true] f pan (map (fun p : Z * Z => [fst p; snd p]) (combine l r)))
    as [(e & c & E)|(e & c & built & E & Hl)];
    rewrite ?map_length in *; crunch_with E Hf.
Qed.

Theorem scn_heap_ok T sc : elt_ok T -> scn_ok sc -> ok_from T sc.
Proof.
  intros HT Hsc. destruct sc; cbn [scn_ok] in Hsc.
  - now apply ok_vec_to_array.
  - now apply ok_into_boxed_slice.
  - now apply ok_into_vec.
  - now apply ok_try_from_boxed_slice.
  - now apply ok_try_from_vec.
  - now apply ok_generate.
  - now apply ok_default_boxed.
  - now apply ok_try_boxed_from_iter.
  - now apply ok_boxed_from_iter.
  - now apply ok_boxed_slice_to_array.
  - now apply ok_array_to_boxed_slice.
  - now apply ok_array_to_vec.
  - now apply ok_boxed_into_iter.
  - now apply ok_box_arr_list.
  - now apply ok_box_arr_repeat.
  - now apply ok_boxed_map.
  - destruct Hsc as (HB & HU & Hl). now apply ok_boxed_zip.
Qed.
End Proofs.

(* FunctionalProofs.v -- C08 (once per index, in order, same for every form) and
   C04 (a panic in caller-supplied code loses / double-drops nothing), for every
   length, every call index, every ownership form. *)
From Coq Require Import Permutation.
From GA Require Import Base Builder BuilderProofs Iter IterProofs Functional.

Definition hits (pan : option nat) (i : nat) : bool :=
  match pan with Some k => i =? k | None => false end.

Lemma pipe_resp_at f pan pre x rest :
  pipe_resp f pan (pre ++ x :: rest) (length pre) =
  if hits pan (length pre) then PanicNow else Item (f (length pre) x).
Proof.
  unfold pipe_resp, hits. rewrite nth_error_app2 by lia. rewrite Nat.sub_diag. reflexivity.
Qed.

Lemma pipe_resp_end f pan rows : pipe_resp f pan rows (length rows) = End.
Proof.
  unfold pipe_resp. destruct (nth_error rows (length rows)) eqn:E; [|reflexivity].
  assert (nth_error rows (length rows) <> None) as H by congruence.
  apply nth_error_Some in H. lia.
Qed.

Definition no_hit (pan : option nat) (i n : nat) : Prop :=
  forall j, i <= j < i + n -> hits pan j = false.

Lemma no_hit_tail pan i n : no_hit pan i (S n) -> hits pan i = false /\ no_hit pan (S i) n.
Proof. intros H. split; [apply H; lia|]. intros j Hj. apply H. lia. Qed.

Lemma fill_pipe_ok f pan : forall rest pre acc,
  no_hit pan (length pre) (length rest) ->
  fill (length rest) (pipe_resp f pan (pre ++ rest)) (length pre) acc =
  (FFull, acc ++ produced f (length pre) rest, length pre + length rest).
Proof.
  induction rest as [|x rest IH]; intros pre acc Hn; cbn [length fill produced].
  - now rewrite app_nil_r, Nat.add_0_r.
  - apply no_hit_tail in Hn. destruct Hn as [H0 Hn]. rewrite pipe_resp_at, H0.
    specialize (IH (pre ++ [x]) (acc ++ [f (length pre) x])).
    rewrite <- app_assoc in IH. cbn [app] in IH. rewrite app_length in IH. cbn [length] in IH.
    replace (length pre + 1) with (S (length pre)) in IH by lia.
    rewrite IH by exact Hn. rewrite <- app_assoc. cbn [app]. f_equal. lia.
Qed.

Lemma fill_pipe_panic f k : forall d rest pre acc,
  k = length pre + d -> d < length rest ->
  fill (length rest) (pipe_resp f (Some k) (pre ++ rest)) (length pre) acc =
  (FPanicked, acc ++ produced f (length pre) (firstn d rest), S k).
Proof.
  induction d as [|d IH]; intros rest pre acc Hk Hd; destruct rest as [|x rest]; cbn [length] in Hd; try lia;
    cbn [length fill]; rewrite pipe_resp_at; unfold hits.
  - replace (length pre =? k) with true by (symmetry; apply Nat.eqb_eq; lia).
    cbn [firstn produced]. rewrite app_nil_r. f_equal. lia.
  - replace (length pre =? k) with false by (symmetry; apply Nat.eqb_neq; lia).
    specialize (IH rest (pre ++ [x]) (acc ++ [f (length pre) x])).
    rewrite <- app_assoc in IH. cbn [app] in IH. rewrite app_length in IH. cbn [length] in IH.
    replace (length pre + 1) with (S (length pre)) in IH by lia.
    rewrite IH by lia. cbn [firstn produced]. now rewrite <- app_assoc.
Qed.

Lemma precheck_pipe f pan rows : precheck_reject (length rows) (pipe_src f pan rows) = false.
Proof.
  unfold precheck_reject, pipe_src. cbn. apply orb_false_iff. split; apply Z.ltb_ge; lia.
Qed.

Definition moves (own : list bool) (rows : list (list Z)) : list ev :=
  flat_map (fun r => map EMove (owned_ids own r)) rows.
Definition drops (own : list bool) (rows : list (list Z)) : list ev :=
  flat_map (fun r => map EDrop (owned_ids own r)) rows.

(* the list-level meaning of every map/zip/generate/clone form *)
Theorem zipmap_spec own f pan rows :
  zipmap own f pan rows =
  match pan with
  | Some k =>
    if k <? length rows then
      (Panic,
       moves own (firstn (S k) rows) ++ drops own (skipn (S k) rows) ++
       map EDrop (produced f 0 (firstn k rows)),
       firstn (S k) rows)
    else (Ok (produced f 0 rows), moves own rows, rows)
  | None => (Ok (produced f 0 rows), moves own rows, rows)
  end.
Proof.
  unfold zipmap, try_from_iter. rewrite precheck_pipe. cbn [resp pipe_src].
  assert (Hok : no_hit pan 0 (length rows) ->
    (let '(o, e, p) :=
       match fill (length rows) (pipe_resp f pan rows) 0 [] with
       | (FPanicked, built, p) => (Panic, map EDrop built, p)
       | (FEnded, built, p) => (Err, map EDrop built, p)
       | (FFull, built, p) =>
         match pipe_resp f pan rows p with
         | Item y => (Err, EDrop y :: map EDrop built, S p)
         | End => (Ok built, [], S p)
         | PanicNow => (Panic, map EDrop built, S p)
         end
       end in
     (o, flat_map (fun r => map EMove (owned_ids own r)) (firstn (Nat.min p (length rows)) rows) ++
         flat_map (fun r => map EDrop (owned_ids own r)) (skipn (Nat.min p (length rows)) rows) ++ e,
      firstn (Nat.min p (length rows)) rows)) = (Ok (produced f 0 rows), moves own rows, rows)).
  { intros Hn. pose proof (fill_pipe_ok f pan rows [] [] Hn) as Hf. cbn [app length Nat.add] in Hf.
    rewrite Hf, pipe_resp_end. rewrite Nat.min_r by lia. rewrite firstn_all, skipn_all. cbn.
    now rewrite app_nil_r. }
  destruct pan as [k|].
  - destruct (k <? length rows) eqn:E.
    + apply Nat.ltb_lt in E.
      pose proof (fill_pipe_panic f k k rows [] [] eq_refl E) as Hf. cbn [app length] in Hf.
      rewrite Hf. rewrite Nat.min_l by lia. reflexivity.
    + apply Nat.ltb_ge in E. apply Hok. intros j Hj. cbn. apply Nat.eqb_neq. lia.
  - apply Hok. intros j Hj. reflexivity.
Qed.

Lemma releases_moves own rows : releases (moves own rows) = flat_map (owned_ids own) rows.
Proof.
  unfold moves. induction rows as [|r rows IH]; cbn [flat_map]; [reflexivity|].
  now rewrite releases_app, releases_moved, IH.
Qed.

Lemma releases_drops_rows own rows : releases (drops own rows) = flat_map (owned_ids own) rows.
Proof.
  unfold drops. induction rows as [|r rows IH]; cbn [flat_map]; [reflexivity|].
  now rewrite releases_app, releases_drops, IH.
Qed.

(* ---------- C04: everything that existed is released exactly once ----------
   "existed": the elements of the owned inputs and the values f returned;
   "released": dropped by the crate, handed to the caller's code, or part of the result. *)
Theorem zipmap_accounted own f pan rows :
  let '(o, e, _) := zipmap own f pan rows in
  flat_map (owned_ids own) rows ++ produced f 0 (firstn (completed pan (length rows)) rows)
  = releases e ++ match o with Ok a => a | _ => [] end.
Proof.
  rewrite zipmap_spec. unfold completed. destruct pan as [k|].
  - destruct (k <? length rows) eqn:E.
    + apply Nat.ltb_lt in E. rewrite Nat.min_l by lia.
      rewrite !releases_app, releases_moves, releases_drops_rows, releases_drops, app_nil_r.
      rewrite <- (firstn_skipn (S k) rows) at 1. rewrite flat_map_app. now rewrite <- app_assoc.
    + apply Nat.ltb_ge in E. rewrite Nat.min_r by lia. rewrite firstn_all. now rewrite releases_moves.
  - rewrite firstn_all. now rewrite releases_moves.
Qed.

(* the panic propagates: a panicking call never yields an array; without a panic the
   result is complete (all N slots) *)
Theorem zipmap_panic_propagates own f k rows : k < length rows ->
  fst (fst (zipmap own f (Some k) rows)) = Panic.
Proof. intros H. rewrite zipmap_spec. apply Nat.ltb_lt in H. now rewrite H. Qed.

Lemma produced_length f : forall rows i, length (produced f i rows) = length rows.
Proof. induction rows as [|r rows IH]; intros i; cbn; [reflexivity|]. now rewrite IH. Qed.

Theorem zipmap_no_partial own f pan rows a :
  fst (fst (zipmap own f pan rows)) = Ok a -> length a = length rows.
Proof.
  rewrite zipmap_spec. destruct pan as [k|]; [destruct (k <? length rows)|]; cbn; try discriminate;
    intros H; injection H as <-; apply produced_length.
Qed.

(* ---------- C08: once per index, ascending, result i = f i (row i) ---------- *)
Theorem zipmap_ok own f rows :
  zipmap own f None rows = (Ok (produced f 0 rows), moves own rows, rows).
Proof. now rewrite zipmap_spec. Qed.

Lemma produced_nth f : forall rows i k r,
  nth_error rows k = Some r -> nth_error (produced f i rows) k = Some (f (i + k) r).
Proof.
  induction rows as [|x rows IH]; intros i k r H; [destruct k; discriminate|].
  destruct k as [|k]; cbn in *.
  - injection H as ->. now rewrite Nat.add_0_r.
  - rewrite (IH (S i) k r H). f_equal. f_equal. lia.
Qed.

(* result and call order do not depend on the receiver / argument form *)
Theorem zipmap_forms_agree own own' f pan rows :
  fst (fst (zipmap own f pan rows)) = fst (fst (zipmap own' f pan rows)) /\
  snd (zipmap own f pan rows) = snd (zipmap own' f pan rows).
Proof.
  rewrite !zipmap_spec. destruct pan as [k|]; [destruct (k <? length rows)|]; auto.
Qed.

(* fold *)
Definition fold_acc (g : nat -> Z -> Z -> Z) (i : nat) (acc : Z) (l : list Z) : Z :=
  snd (fold_left (fun (st : nat * Z) x => (S (fst st), g (fst st) (snd st) x)) l (i, acc)).

Lemma fold_loop_ok g pan : forall l i acc, no_hit pan i (length l) ->
  fold_loop g pan i acc l = (FoldOk (fold_acc g i acc l), i + length l).
Proof.
  induction l as [|x l IH]; intros i acc Hn; cbn [fold_loop length].
  - unfold fold_acc. cbn. now rewrite Nat.add_0_r.
  - apply no_hit_tail in Hn. destruct Hn as [H0 Hn]. unfold hits in H0. rewrite H0.
    rewrite IH by exact Hn. unfold fold_acc. cbn [fold_left fst snd]. f_equal. lia.
Qed.

Lemma fold_loop_panic g k : forall d l i acc, k = i + d -> d < length l ->
  fold_loop g (Some k) i acc l = (FoldPanic, S k).
Proof.
  induction d as [|d IH]; intros l i acc Hk Hd; destruct l as [|x l]; cbn [length] in Hd; try lia;
    cbn [fold_loop].
  - replace (i =? k) with true by (symmetry; apply Nat.eqb_eq; lia). f_equal. lia.
  - replace (i =? k) with false by (symmetry; apply Nat.eqb_neq; lia). apply IH; lia.
Qed.

Theorem fold_accounted owned g pan init a :
  let '(_, e, _) := fold_ owned g pan init a in
  releases e = if owned then a else [].
Proof.
  unfold fold_. destruct (fold_loop g pan 0 init a) as [o calls]. destruct owned; [|reflexivity].
  now rewrite releases_app, releases_moved, releases_drops, firstn_skipn.
Qed.

Theorem fold_ok owned g init a :
  fold_ owned g None init a =
  (FoldOk (fold_acc g 0 init a), (if owned then map EMove a else []), a).
Proof.
  unfold fold_. rewrite fold_loop_ok by (intros j Hj; reflexivity). cbn [Nat.add].
  rewrite firstn_all, skipn_all. cbn [map]. now rewrite app_nil_r.
Qed.

Theorem fold_panic owned g k init a : k < length a ->
  fold_ owned g (Some k) init a =
  (FoldPanic, (if owned then map EMove (firstn (S k) a) ++ map EDrop (skipn (S k) a) else []), firstn (S k) a).
Proof.
  intros Hk. unfold fold_. now rewrite (fold_loop_panic g k k a 0 init eq_refl Hk).
Qed.

(* GenericArrayIter::clone *)
Definition clones_of (cl : nat -> Z -> Z) (i : nat) (l : list Z) : list Z :=
  produced (fun j r => cl j (hd 0%Z r)) i (map (fun x => [x]) l).

Lemma clone_loop_ok cl pan : forall l i acc, no_hit pan i (length l) ->
  clone_loop cl pan i l acc = (Some (acc ++ clones_of cl i l), acc ++ clones_of cl i l).
Proof.
  induction l as [|x l IH]; intros i acc Hn; cbn [clone_loop length].
  - unfold clones_of. cbn. now rewrite app_nil_r.
  - apply no_hit_tail in Hn. destruct Hn as [H0 Hn]. unfold hits in H0. rewrite H0.
    rewrite IH by exact Hn. unfold clones_of. cbn [map produced hd]. now rewrite <- app_assoc.
Qed.

Lemma clone_loop_panic cl k : forall d l i acc, k = i + d -> d < length l ->
  clone_loop cl (Some k) i l acc = (None, acc ++ clones_of cl i (firstn d l)).
Proof.
  induction d as [|d IH]; intros l i acc Hk Hd; destruct l as [|x l]; cbn [length] in Hd; try lia;
    cbn [clone_loop].
  - replace (i =? k) with true by (symmetry; apply Nat.eqb_eq; lia). unfold clones_of. cbn.
    now rewrite app_nil_r.
  - replace (i =? k) with false by (symmetry; apply Nat.eqb_neq; lia).
    rewrite (IH l (S i)) by lia. unfold clones_of. cbn [firstn map produced hd]. now rewrite <- app_assoc.
Qed.

(* a panicking Clone during GenericArrayIter::clone: every clone already made is dropped
   exactly once, nothing else is touched (the original keeps all its elements) *)
Theorem iter_clone_accounted cl k s : k < length (live s) ->
  let '(r, e) := iter_clone cl (Some k) s in
  r = None /\ releases e = clones_of cl 0 (firstn k (live s)).
Proof.
  intros Hk. unfold iter_clone. rewrite (clone_loop_panic cl k k (live s) 0 [] eq_refl Hk). cbn [app].
  split; [reflexivity|]. now rewrite releases_drops.
Qed.

Theorem iter_clone_ok cl s : Inv s ->
  exists c, iter_clone cl None s = (Some c, []) /\ Inv c /\ live c = clones_of cl 0 (live s).
Proof.
  intros HI. unfold iter_clone. rewrite clone_loop_ok by (intros j Hj; reflexivity). cbn [app].
  set (cs := clones_of cl 0 (live s)). eexists; split; [reflexivity|].
  assert (Hlen : length cs = len s).
  { unfold cs, clones_of. rewrite produced_length, map_length. now apply live_length. }
  split.
  - unfold Inv; cbn. rewrite app_length, skipn_length. destruct HI as [Hi Hb]. unfold len in *. lia.
  - unfold live; cbn. unfold range. rewrite Nat.sub_0_r. cbn [skipn].
    rewrite firstn_app, Nat.sub_diag. cbn [firstn]. now rewrite app_nil_r, firstn_all.
Qed.

(* 614d235 refuted: U5 whose third clone panics -- the two clones already made are never released *)
Lemma iter_clone_buggy_refuted :
  exists cl k s, k < length (live s) /\
    let '(_, e) := iter_clone_buggy cl (Some k) s in
    releases e <> clones_of cl 0 (firstn k (live s)).
Proof.
  exists (fun j _ => Z.of_nat (100 + j)), 2, (into_iter [0; 1; 2; 3; 4]%Z). split.
  - cbn. lia.
  - vm_compute. discriminate.
Qed.

(* non-vacuity *)
Example zip_panic_example :
  zip_ true true (fun k _ => Z.of_nat (100 + k)) (Some 1) [1; 2; 3]%Z [11; 12; 13]%Z
  = (Panic,
     [EMove 1; EMove 11; EMove 2; EMove 12; EDrop 3; EDrop 13; EDrop 100]%Z,
     [[1; 11]; [2; 12]]%Z).
Proof. reflexivity. Qed.

(* dst.clone_from(&src): the destination is released only after the complete clone exists; when a clone() panics
   it keeps every old element (none is dropped), and nothing but the clones made so far is released *)
Lemma clone_from_spec tracked cl pan dst src :
  let '(o, e, c) := clone_from_ tracked cl pan dst src in
  let '(o', e', c') := clone_ cl pan src in
  o = o' /\ c = c' /\
  match o with
  | Ok _ => e = (e' ++ (if tracked then map EDrop dst else []))%list
  | _ => e = e'
  end.
Proof.
  unfold clone_from_. destruct (clone_ cl pan src) as [[o' e'] c']. destruct o'; repeat split.
Qed.

(* OwnTie.v -- the list-level meaning that the pool model of C03 (Own.v) gives to each
   operation is the meaning PROVED of the corresponding low-level hub model:
   SeqOps.v (pointer programs of sequence.rs), Functional.v / Builder.v (consumer/builder
   pipelines of map / zip / fold / clone / collect), Flatten.v (const_transmute regrouping).
   The by-value iterator operations of Own.v use the functions of Iter.v directly. *)
From Coq Require Import Permutation.
From GA Require Import Base Iter Own OwnProofs Builder BuilderProofs Functional FunctionalProofs.
From GA Require SeqOps SeqOpsProofs Flatten FlattenProofs Views.

(* ---- append / prepend / concat / pop / split / remove: what Own.step appends to the pool
        is what the pointer program returns, and no destructor runs ---- *)
Lemma tie_append l x : SeqOps.append l x = (SeqOps.Ok (l ++ [x]), []).
Proof. apply SeqOpsProofs.append_spec. Qed.

Lemma tie_prepend l x : SeqOps.prepend l x = (SeqOps.Ok (x :: l), []).
Proof. apply SeqOpsProofs.prepend_spec. Qed.

Lemma tie_concat l m : SeqOps.concat l m = (SeqOps.Ok (l ++ m), []).
Proof. apply SeqOpsProofs.concat_spec. Qed.

(* Own.step (PPopBack): rev l = x :: r  ==>  new objects  OArr (rev r), OElem x *)
Lemma tie_pop_back l x r : rev l = x :: r -> SeqOps.pop_back l = (SeqOps.Ok (rev r, x), []).
Proof.
  intros H. assert (l = rev r ++ [x]) as -> by (rewrite <- (rev_involutive l), H; reflexivity).
  apply SeqOpsProofs.pop_back_spec.
Qed.

Lemma tie_pop_front x r : SeqOps.pop_front (x :: r) = (SeqOps.Ok (x, r), []).
Proof. apply SeqOpsProofs.pop_front_spec. Qed.

Lemma tie_split k l : k <= length l -> SeqOps.split k l = (SeqOps.Ok (firstn k l, skipn k l), []).
Proof. apply SeqOpsProofs.split_spec. Qed.

(* Own.step (PRemove): nth_error l idx = Some x  ==>  OElem x, OArr (list_remove idx l) *)
Lemma tie_remove l idx x : nth_error l idx = Some x ->
  SeqOps.remove (Z.of_nat idx) l = (SeqOps.Ok (x, list_remove idx l), []).
Proof.
  intros Hx. assert (Hlt : idx < length l) by (apply nth_error_Some; congruence).
  destruct (SeqOpsProofs.remove_in_range l (Z.of_nat idx)) as (r & Hv & Hr); [unfold zlen; lia|].
  rewrite Nat2Z.id in Hv. unfold SeqOps.vec_remove in Hv. rewrite Hx in Hv. injection Hv as <-.
  exact Hr.
Qed.

(* Own.step (PSwapRemove): the removed value and the remaining elements are exactly the
   array's elements, each once (the exact order is compared by the correspondence) *)
Lemma tie_swap_remove l idx x : nth_error l idx = Some x ->
  exists rest, SeqOps.swap_remove (Z.of_nat idx) l = (SeqOps.Ok (x, rest), []) /\
               Permutation (x :: rest) l /\ Permutation (x :: list_swap_remove idx l) l.
Proof.
  intros Hx. assert (Hlt : idx < length l) by (apply nth_error_Some; congruence).
  destruct (SeqOpsProofs.swap_remove_in_range l (Z.of_nat idx)) as ([y rest] & Hv & Hr); [unfold zlen; lia|].
  rewrite Nat2Z.id in Hv. unfold SeqOps.vec_swap_remove in Hv. rewrite Hx in Hv.
  destruct (nth_error l (length l - 1)); [|discriminate]. injection Hv as <- <-.
  eexists. split; [exact Hr|]. split.
  - eapply (SeqOpsProofs.swap_remove_moves_each_once l (Z.of_nat idx)); [lia|exact Hr].
  - apply Permutation_sym. now apply list_swap_remove_perm.
Qed.

(* ---- map / zip / clone / generate: the new array holds the fresh identities in order, every
        element of an owned input is handed to the caller's function (which drops it) ---- *)
Definition fresh_fn (z : Z) (k : nat) (_ : list Z) : Z := (z + Z.of_nat k)%Z.

Lemma produced_fresh z : forall rows i,
  produced (fresh_fn z) i rows = map (fun k => (z + Z.of_nat k)%Z) (seq i (length rows)).
Proof. induction rows as [|r rows IH]; intros i; cbn; [reflexivity|]. now rewrite IH. Qed.

Lemma moves_owned1 l : moves [true] (map (fun x => [x]) l) = map EMove l.
Proof. unfold moves. induction l as [|x l IH]; [reflexivity|]. cbn [map flat_map]. rewrite IH. reflexivity. Qed.

Lemma moves_borrowed1 l : moves [false] (map (fun x => [x]) l) = [].
Proof. unfold moves. induction l as [|x l IH]; [reflexivity|]. cbn [map flat_map]. rewrite IH. reflexivity. Qed.

Lemma tie_map p l :
  map_ true (fresh_fn (next_id p)) None l =
  (Ok (fresh p (length l)), map EMove l, map (fun x => [x]) l).
Proof.
  unfold map_. rewrite zipmap_ok, produced_fresh, map_length, moves_owned1. reflexivity.
Qed.

Lemma tie_zip p l m : length l = length m ->
  exists calls,
  zip_ true true (fresh_fn (next_id p)) None l m = (Ok (fresh p (length l)), calls, map (fun q : Z * Z => [fst q; snd q]) (combine l m)) /\
  Permutation (releases calls) (l ++ m).
Proof.
  intros Hlen. unfold zip_. rewrite zipmap_ok, produced_fresh, map_length, combine_length, <- Hlen, Nat.min_id.
  eexists. split; [reflexivity|].
  rewrite releases_moves. clear p. revert m Hlen. induction l as [|x l IH]; intros [|y m] Hlen; cbn in *; try discriminate; [constructor|].
  injection Hlen as Hlen. specialize (IH m Hlen). constructor.
  apply Permutation_sym. eapply Permutation_trans; [apply Permutation_sym, Permutation_middle|].
  constructor. now apply Permutation_sym.
Qed.

Lemma tie_clone p l :
  clone_ (fresh_fn (next_id p)) None l = (Ok (fresh p (length l)), [], map (fun x => [x]) l).
Proof.
  unfold clone_, map_. rewrite zipmap_ok, produced_fresh, map_length, moves_borrowed1. reflexivity.
Qed.

Lemma tie_generate p n :
  fst (fst (generate_ n (fresh_fn (next_id p)) None)) = Ok (fresh p n).
Proof.
  unfold generate_. rewrite zipmap_ok, produced_fresh, repeat_length. reflexivity.
Qed.

Lemma tie_fold g init l :
  let '(_, e, _) := fold_ true g None init l in releases e = l.
Proof. rewrite fold_ok. cbn. apply releases_moved. Qed.

(* ---- collecting: exactly N items -> the array; any other count -> LengthError with every
        pulled item dropped ---- *)
Definition vec_src (l : list Z) : src :=
  mkSrc 0 None (fun i => match nth_error l i with Some x => Item x | None => End end).

Lemma vec_src_exact l : exact_source (length l) (vec_src l) l.
Proof.
  repeat split; cbn.
  - intros i y H. now rewrite H.
  - destruct (nth_error l (length l)) eqn:E; [|reflexivity].
    assert (nth_error l (length l) <> None) as H by congruence. apply nth_error_Some in H. lia.
Qed.

Lemma tie_collect l : try_from_iter (length l) (vec_src l) = (Ok l, [], S (length l)).
Proof.
  apply exact_is_ok; [apply vec_src_exact|]. unfold precheck_reject, vec_src; cbn.
  rewrite orb_false_r. apply Z.ltb_ge. lia.
Qed.

Lemma tie_try_collect_wrong l n : n <> length l ->
  let '(o, e, p) := try_from_iter n (vec_src l) in
  o = Err /\ Permutation (pulled (resp (vec_src l)) 0 p) (releases e).
Proof.
  intros Hn. pose proof (pulled_accounted n (vec_src l)) as Hacc.
  pose proof (not_exact_is_err n (vec_src l)) as Herr.
  destruct (try_from_iter n (vec_src l)) as [[o e] p]. cbn [fst] in Herr.
  assert (Ho : o = Err).
  { apply Herr.
    - intros j _. cbn. destruct (nth_error l j); discriminate.
    - intros (_ & a & Hl & Hit & Hend). apply Hn.
      (* a source yielding exactly n items then End has length n *)
      cbn in Hend. destruct (nth_error l n) eqn:E; [discriminate|]. apply nth_error_None in E.
      destruct (Nat.lt_ge_cases n (length l)) as [Hlt|Hge]; [lia|].
      destruct (Nat.eq_dec n (length l)) as [->|Hne]; [reflexivity|]. exfalso.
      assert (Hlt : length l < n) by lia.
      destruct (nth_error_Some_lt a (length l)) as [y Hy]; [lia|].
      specialize (Hit _ _ Hy). cbn in Hit.
      destruct (nth_error l (length l)) eqn:E2; [|discriminate].
      assert (nth_error l (length l) <> None) as H by congruence. apply nth_error_Some in H. lia. }
  subst o. split; [reflexivity|]. now rewrite app_nil_r in Hacc.
Qed.

(* ---- flatten2 / unflatten: the regrouping is the identity on the element list ---- *)
Lemma tie_flatten2 s l m : length l = length m ->
  Flatten.flatten_owned s (length l) 2 [l; m] = Ret (l ++ m).
Proof.
  intros H. unfold Flatten.flatten_owned, Views.const_transmute, Flatten.prod_len, Flatten.cells_of_nested.
  cbn [concat]. rewrite app_nil_r.
  replace (2 * (length l * s) =? length l * 2 * s)%nat with true by (symmetry; apply Nat.eqb_eq; lia).
  reflexivity.
Qed.

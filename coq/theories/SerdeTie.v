(* SerdeTie.v -- tier T3 tie for C17: visit_seq as tools/ga2coq regenerates it (coq/gen/GenSerde.v),
   run by the interpreter of SerdeProg.v over an arbitrary scripted SeqAccess, IS Serde.visit_seq --
   result, number of next_element calls and destructor runs -- for every N and every script. *)
From Coq Require Import String Lia.
From GA Require Import Base Serde Pipe SerdeProg.
From GAGen Require Import GenSerde.
Local Open Scope string_scope.

Lemma vfill_is_fill s : forall slots k bd,
  vfill s "dst" "el" "position" [CWrite "dst" (XAtom (AVar "el")); CBump "position"] slots k bd =
  Some (fill s slots k bd).
Proof.
  induction slots as [|r IH]; intros k bd; cbn [vfill fill]; [reflexivity|].
  destruct (items s k); try reflexivity. cbn. apply IH.
Qed.

Theorem tie_visit_seq n s : vrun n s gen_visit_seq = Some (visit_seq n s).
Proof.
  unfold vrun, gen_visit_seq, visit_seq. cbn [vexec].
  destruct (hint_rejects n (hint0 s)); [reflexivity|].
  rewrite vfill_is_fill. destruct (fill s n 0 b_new) as [[x bd] k].
  destruct x; try reflexivity.
  - destruct (Nat.eqb (position bd) n); [|reflexivity]. cbn [vexec andb].
    destruct (hint_allows_probe (hint_after s k)); cbn; [|reflexivity].
    destruct (items s k); reflexivity.
  - destruct (Nat.eqb (position bd) n); [|reflexivity]. cbn [vexec andb].
    destruct (hint_allows_probe (hint_after s k)); cbn; [|reflexivity].
    destruct (items s k); reflexivity.
Qed.

(* the serializer: one serialize_tuple(N), one serialize_element per element in index order, end() *)
Theorem tie_serialize a : ser_run gen_serialize a = Some (serialize a).
Proof. reflexivity. Qed.

(* Deserialize::deserialize hands a visitor made of PhantomData only to deserialize_tuple(N::USIZE, ..) *)
Lemma tie_deserialize :
  gen_deserialize = ("deserialize_tuple", "N :: USIZE", ["_t : PhantomData"; "_n : PhantomData"]).
Proof. reflexivity. Qed.

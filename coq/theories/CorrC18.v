(* CorrC18.v -- correspondence entry point for C18 (harness/src/bin/c18.rs).
   case: [fn; N; L; ty; form]
     fn   0 len | 1 as_slice/as_mut_slice | 2 from_slice/from_mut_slice
          3 try_from_slice/try_from_mut_slice | 4 chunks_from_slice(_mut)
          5 slice_from_chunks(_mut) (L = number of chunks) | 6 from_chunks(_mut) (L = chunks)
          7 into_chunks(_mut) (L = chunks) | 8 from_array | 9 into_array
          10 uninit + assume_init (form 2: element L is left unwritten: negative control)
          11 const_transmute [T; N] -> GenericArray<T, U_L> (form 1: from the byte image of the
          same values, form 2: to a byte array, bytes observed) | 12 arr! (form 0 list, 1 typenum
          repeat, 2 expression repeat, 3 / 4 the repeat forms over a non-Copy const item) | 13 const_default | 14 ArrayBuilder::new/is_full
          (/assume_init for N = 0) | 15 IntrusiveArrayBuilder::new/is_full (/finish for N = 0)
          16 ArrayConsumer::new
     ty   0 u8 | 1 u32 | 2 (u8,u16) | 3 ()          form 0 shared, 1 mutable
   The case is the generated program: build the input object, call the const fn, observe
   through the result (offsets relative to the source object, lengths, every element; the
   mutable forms then write through the result and re-read the source natively).
   The program is run under the STRICT (const evaluator) interpretation.
   obs: [1; values...] evaluated | [2] evaluation panicked | [0] rejected as UB. *)
From GA Require Import Base Codec ConstEval.
Local Open Scope Z_scope.

Definition val (ty i : Z) : Z :=
  if ty =? 0 then (i * 7 + 3) mod 251
  else if ty =? 1 then (i * 2654435761 + 12345) mod 4294967296
  else if ty =? 2 then ((i * 5 + 1) mod 256) * 65536 + (i * 9 + 2) mod 65536
  else 0.
Definition esz_of (ty : Z) : Z := if ty =? 0 then 1 else if ty =? 3 then 0 else 4.

Definition zseq (a n : Z) : list Z := map (fun i => a + Z.of_nat i) (seq 0 (znat n)).
Definition vals (ty a n : Z) : list Z := map (val ty) (zseq a n).
Definition wvals (ty a n : Z) : list Z := map (fun i => val ty (i + 1000)) (zseq a n).

Notation "x <- e ;; k" := (bind e (fun x => k)) (at level 61, e at next level, right associativity).

Fixpoint bytes_le (k : nat) (v : Z) : list Z :=
  match k with O => [] | S k' => (v mod 256) :: bytes_le k' (v / 256) end.

Section Prog.
  Variable e : Z.     (* size of T *)
  Variable ty : Z.

  Definition P0 : ptr := mkPtr (Blk 0%nat) 0.
  Definition off_of (p : ptr) : Z :=
    match pbase p with Dangling => -1 | Blk _ => if e =? 0 then 0 else poff p end.
  Definition rdn (m : mem) (p : ptr) (n : Z) : res (list Z) := rd_range true 0 e m p (znat n).
  Definition block0 (m : mem) : list cell := match m with b :: _ => b | [] => [] end.

  (* reading a by-value [T; n] natively *)
  Fixpoint cells_vals (c : list cell) : res (list Z) :=
    match c with
    | [] => Ret []
    | Init v :: r => x <- cells_vals r ;; Ret ((if e =? 0 then 0 else v) :: x)
    | Uninit :: r => if e =? 0 then x <- cells_vals r ;; Ret (0 :: x) else UB
    end.

  (* [GenericArray::from_array(S_0), .., GenericArray::from_array(S_{C-1})] as one allocation *)
  Fixpoint ga_chunks (N : Z) (c : nat) (from : Z) : res (list cell) :=
    match c with
    | O => Ret []
    | S c' => g <- from_array true e true N (map Init (vals ty from N)) ;;
              r <- ga_chunks N c' (from + N) ;; Ret (g ++ r)
    end.

  (* for every item c of [s]: view it with as_slice(N) and read its N elements *)
  Fixpoint read_items (via_as_slice : bool) (m : mem) (N : Z) (s : slice) (c : nat) (i : Z)
    : res (list Z) :=
    match c with
    | O => Ret []
    | S c' =>
      p <- item s i ;;
      x <- (if via_as_slice then (v <- as_slice true e m N p ;; rdn m (sp v) (slen v)) else rdn m p N) ;;
      r <- read_items via_as_slice m N s c' (i + 1) ;; Ret (x ++ r)
    end.

  (* for every item c of [s]: write N fresh values through as_mut_slice(N) (or natively) *)
  Fixpoint write_items (via_as_slice : bool) (m : mem) (N : Z) (s : slice) (c : nat) (i : Z)
    : res mem :=
    match c with
    | O => Ret m
    | S c' =>
      p <- item s i ;;
      m' <- (if via_as_slice
             then (v <- as_mut_slice true e m N p ;; wr_range true e m (sp v) (wvals ty (i * N) (slen v)))
             else wr_range true e m p (wvals ty (i * N) N)) ;;
      write_items via_as_slice m' N s c' (i + 1)
    end.

  Definition whole (n stride : Z) : slice := mkSlice P0 n stride.

  Definition prog (fn N L form : Z) : res (list Z) :=
    let mut := form =? 1 in
    match fn with
    | 0 => n <- ga_len N ;; Ret [n]
    | 1 =>
      g <- from_array true e true N (map Init (vals ty 0 N)) ;;
      let m := [g] in
      s <- as_slice true e m N P0 ;;
      els <- rdn m (sp s) (slen s) ;;
      if mut then
        m' <- wr_range true e m (sp s) (wvals ty 0 (slen s)) ;;
        a <- into_array true e true N (block0 m') ;;
        back <- cells_vals a ;;
        Ret ([off_of (sp s); slen s] ++ els ++ back)
      else Ret ([off_of (sp s); slen s] ++ els)
    | 2 =>
      let m := [map Init (vals ty 0 L)] in
      r <- (if mut then from_mut_slice true e m N (whole L 1) else from_slice true e m N (whole L 1)) ;;
      s <- as_slice true e m N (sp r) ;;
      els <- rdn m (sp s) (slen s) ;;
      if mut then
        m' <- wr_range true e m (sp s) (wvals ty 0 (slen s)) ;;
        back <- rdn m' P0 L ;;
        Ret ([off_of (sp r); slen s] ++ els ++ back)
      else Ret ([off_of (sp r); slen s] ++ els)
    | 3 =>
      let m := [map Init (vals ty 0 L)] in
      o <- (if mut then try_from_mut_slice true e m N (whole L 1) else try_from_slice true e m N (whole L 1)) ;;
      match o with
      | None => Ret [0]
      | Some r =>
        s <- as_slice true e m N (sp r) ;;
        els <- rdn m (sp s) (slen s) ;;
        if mut then
          m' <- wr_range true e m (sp s) (wvals ty 0 (slen s)) ;;
          back <- rdn m' P0 L ;;
          Ret ([1; off_of (sp r); slen s] ++ els ++ back)
        else Ret ([1; off_of (sp r); slen s] ++ els)
      end
    | 4 =>
      let m := [map Init (vals ty 0 L)] in
      cr <- chunks_from_slice true e m N (whole L 1) ;;
      let '(ch, rem) := cr in
      els <- read_items true m N ch (znat (slen ch)) 0 ;;
      rels <- rdn m (sp rem) (slen rem) ;;
      let hd := [slen ch; off_of (sp ch); off_of (sp rem); slen rem] in
      if mut then
        m1 <- write_items true m N ch (znat (slen ch)) 0 ;;
        m2 <- wr_range true e m1 (sp rem) (wvals ty (slen ch * N) (slen rem)) ;;
        back <- rdn m2 P0 L ;;
        Ret (hd ++ els ++ rels ++ back)
      else Ret (hd ++ els ++ rels)
    | 5 =>
      src <- ga_chunks N (znat L) 0 ;;
      let m := [src] in
      s <- slice_from_chunks true e m N (whole L N) ;;
      els <- rdn m (sp s) (slen s) ;;
      if mut then
        m' <- wr_range true e m (sp s) (wvals ty 0 (slen s)) ;;
        back <- read_items true m' N (whole L N) (znat L) 0 ;;
        Ret ([off_of (sp s); slen s] ++ els ++ back)
      else Ret ([off_of (sp s); slen s] ++ els)
    | 6 =>
      let m := [map Init (vals ty 0 (L * N))] in
      r <- from_chunks true e m N (whole L N) ;;
      els <- read_items true m N r (znat (slen r)) 0 ;;
      if mut then
        m' <- write_items true m N r (znat (slen r)) 0 ;;
        back <- rdn m' P0 (L * N) ;;
        Ret ([off_of (sp r); slen r] ++ els ++ back)
      else Ret ([off_of (sp r); slen r] ++ els)
    | 7 =>
      src <- ga_chunks N (znat L) 0 ;;
      let m := [src] in
      r <- into_chunks true e m N (whole L N) ;;
      els <- read_items false m N r (znat (slen r)) 0 ;;
      if mut then
        m' <- write_items false m N r (znat (slen r)) 0 ;;
        back <- read_items true m' N (whole L N) (znat L) 0 ;;
        Ret ([off_of (sp r); slen r] ++ els ++ back)
      else Ret ([off_of (sp r); slen r] ++ els)
    | 8 =>
      g <- from_array true e true N (map Init (vals ty 0 N)) ;;
      s <- as_slice true e [g] N P0 ;; rdn [g] (sp s) (slen s)
    | 9 =>
      g <- from_array true e true N (map Init (vals ty 0 N)) ;;
      a <- into_array true e true N g ;; cells_vals a
    | 10 =>
      a <- uninit true e N ;;
      let m := [a] in
      s <- as_mut_slice true e m N P0 ;;
      m1 <- wr_range true e m (sp s) (vals ty 0 (if form =? 2 then L else N)) ;;
      m2 <- (if form =? 2
             then wr_range true e m1 (mkPtr (Blk 0%nat) (L + 1)) (vals ty (L + 1) (N - L - 1))
             else Ret m1) ;;
      g <- assume_init true e true N (block0 m2) ;;
      v <- as_slice true e [g] N P0 ;; rdn [g] (sp v) (slen v)
    | 11 =>
      (* form 1: the argument is the byte image [u8; N*e] of the same values; form 2: the result is
         typed GenericArray<u8, U(L*e)> and its bytes are observed.  const_transmute compares sizes
         only (N*e against L*e) and copies the object representation, so the cells are the same. *)
      g <- const_transmute true e true L (map Init (vals ty 0 N)) ;;
      s <- as_slice true e [g] L P0 ;;
      x <- rdn [g] (sp s) (slen s) ;;
      Ret (if form =? 2 then flat_map (bytes_le (znat e)) x else x)
    | 12 =>
      (* forms 3 / 4: the repeat forms with a const item of a non-Copy type as operand; form 5: the expression
         repeat form inside a const fn generic over the length *)
      g <- (if form =? 0 then arr_list true e (vals ty 0 N)
            else if (form =? 1) || (form =? 3) then arr_repeat_ty true e (val ty 0) N
            else arr_repeat_expr true e (val ty 0) N) ;;
      s <- as_slice true e [g] N P0 ;; rdn [g] (sp s) (slen s)
    | 13 =>
      g <- const_default 0 N ;;
      s <- as_slice true e [g] N P0 ;; rdn [g] (sp s) (slen s)
    | 14 =>
      b <- builder_new true e N ;;
      let full := builder_is_full N b in
      if N =? 0 then g <- builder_assume_init true e true true N b ;; Ret [enc_bool full; zlen g]
      else Ret [enc_bool full]
    | 15 =>
      a <- uninit true e N ;;
      ib <- ibuilder_new P0 ;;
      let full := ibuilder_is_full N ib in
      if N =? 0 then _ <- ibuilder_finish true N ib ;; Ret [enc_bool full; 0]
      else Ret [enc_bool full]
    | 16 =>
      g <- from_array true e true N (map Init (vals ty 0 N)) ;;
      c <- consumer_new g ;; Ret [zlen (b_array c)]
    | _ => Ret [-1]
    end.
End Prog.

Definition run_c18 (case : list Z) : list Z :=
  match case with
  | [fn; N; L; ty; form] =>
    match prog (esz_of ty) ty fn N L form with
    | Ret l => 1 :: l
    | Panicked => [2]
    | UB => [0]
    end
  | _ => [-1]
  end.

(* CorrC01.v -- correspondence entry point for C01: decode a case, evaluate the layout
   model on the crate's declarations (LayoutDecls.crate_decls), encode the
   observables exactly as harness/src/bin/c01.rs prints them.

   kinds 0 / 2   [k, s, a, nd, d_0.., mode, nidx, i_0..]         element = Prim s a
                 -> [size, align, len, offsets..]   (mode 2: [size, align])
   kind 1        [1, s, a, nd1, inner digits.., nd2, outer digits.., mode, nidx, i_0..]
                 -> [size, align, outer len, inner elements, flat offsets..]
   kind 3        [3, A, B] -> [1 if const_transmute panics else 0]
   mode 0: the listed indices (offset_at), mode 1: all elements (offsets), mode 2: size
   and alignment only (lengths above 4096 or objects too big to allocate).
   -1: no such element; a leading -1/-2: the model assigns no layout / no type. *)
From GA Require Import Base Codec Layout LayoutDecls.
Local Open Scope Z_scope.

Definition digits_of (l : list Z) : list bool := map (fun z => negb (z =? 0)) l.

Definition enc_off (o : option Z) : Z := match o with Some x => x | None => -1 end.

(* the part after the digit lists: mode, nidx, indices *)
Definition enc_elems (d : nat) (G : ty) (rest : list Z) : list Z :=
  match rest with
  | mode :: nidx :: idx =>
      if mode =? 1 then
        match offsets d G 0 with Some os => os | None => [-1] end
      else if mode =? 0 then
        map (fun i => enc_off (offset_at d G 0 i)) (firstn (znat nidx) idx)
      else []
  | _ => [-3]
  end.

Definition mode_of (rest : list Z) : Z := match rest with m :: _ => m | [] => -3 end.

Definition run_flat (s a : Z) (r : list Z) : list Z :=
  match r with
  | nd :: r1 =>
      let '(dz, rest) := take_list (znat nd) r1 in
      if mode_of rest =? 2 then
        (* deep digit lists: linear-time evaluation, equal to the layout of the real
           type by LayoutProofs.generic_array_ph_ok *)
        match generic_array_ph crate_decls (Prim s a) (digits_of dz) with
        | Some G => match layout G with Some l => [sz l; al l] | None => [-1] end
        | None => [-2]
        end
      else
      match generic_array crate_decls (Prim s a) (digits_of dz) with
      | Some G =>
          match layout G with
          | Some l => [sz l; al l; count 0 G] ++ enc_elems 0 G rest
          | None => [-1]
          end
      | None => [-2]
      end
  | [] => [-3]
  end.

Definition run_nested (s a : Z) (r : list Z) : list Z :=
  match r with
  | nd1 :: r1 =>
      let '(d1, r2) := take_list (znat nd1) r1 in
      match r2 with
      | nd2 :: r3 =>
          let '(d2, rest) := take_list (znat nd2) r3 in
          match generic_array crate_decls (Prim s a) (digits_of d1) with
          | Some G1 =>
              match generic_array crate_decls G1 (digits_of d2) with
              | Some G2 =>
                  match layout G2 with
                  | Some l => [sz l; al l; count 0 G2; count 1 G2] ++ enc_elems 1 G2 rest
                  | None => [-1]
                  end
              | None => [-2]
              end
          | None => [-2]
          end
      | [] => [-3]
      end
  | [] => [-3]
  end.

Definition run_c01 (case : list Z) : list Z :=
  match case with
  | 0 :: s :: a :: r => run_flat s a r
  | 2 :: s :: a :: r => run_flat s a r
  | 1 :: s :: a :: r => run_nested s a r
  | [3; sa; sb] => [enc_bool (const_transmute_panics sa sb)]
  | _ => [-3]
  end.

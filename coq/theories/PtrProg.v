(* PtrProg.v -- a small typed language of straight-line raw-pointer programs, the target of
   tools/ga2coq for the bodies of src/sequence.rs (Lengthen, Shorten, Split, Concat, Remove),
   and its interpreter over the element-granular memory of SeqOps.v.  Definitions only.

   A program is what the Rust body says, statement by statement:
     MaybeUninit::uninit(), ManuallyDrop::new(self), pointer derivations (as_ptr / as_mut_ptr,
     .add / .offset in units of the pointee, `as *mut X` casts), ptr::write, ptr::read,
     ptr::copy, <[T]>::swap, &*p / &mut *p, the unreachable_unchecked guard, assert!,
     assume_init, transmute_copy, and the tuple it returns.
   Every `as _` / `*const _` is resolved by the translator from the types the body is checked
   against (argument types, the declared return type, the impl's associated types), so a
   program is fully typed; the interpreter re-checks each access against the block it
   touches (bounds, initialisation) and faults otherwise -- never a default value. *)
From Coq Require Import String.
From GA Require Import Base SeqOps.
Local Open Scope string_scope.

(* type-level lengths over the impl's parameters: LN = the length of Self's array,
   LK = the second length parameter (K of Split, M of Concat) *)
Inductive lenx : Type :=
| LN | LK
| LAdd1 (a : lenx) | LSub1 (a : lenx)
| LDiff (a b : lenx) | LSum (a b : lenx).

(* what a raw pointer points at: one T, or a GenericArray<T, n> (stride n elements) *)
Inductive pointee : Type := PT | PArr (n : lenx).

(* usize expressions *)
Inductive zx : Type :=
| ZLit (z : Z)
| ZLen (n : lenx)            (* <n>::USIZE *)
| ZVar (s : string)          (* a usize argument *)
| ZSub (a b : zx).           (* usize subtraction: underflow is outside what the code may rely on *)

Inductive cx : Type :=
| CGe (a b : zx) | CLt (a b : zx) | CEq (a b : zx)
| COr (a b : cx).

(* pointer expressions *)
Inductive px : Type :=
| PBase (b : string) (pt : pointee)   (* b.as_ptr() / b.as_mut_ptr(): the start of block b, typed *mut pt *)
| PVar (p : string)
| PAdd (p : px) (k : zx)              (* p.add(k) / p.offset(k): k strides of p's pointee *)
| PCast (p : px) (pt : pointee).

Inductive stmt : Type :=
| SUninit (b : string) (n : lenx)            (* let b: MaybeUninit<GenericArray<T, n>> = MaybeUninit::uninit() *)
| SManuallyDrop (b : string) (v : string)    (* let b = ManuallyDrop::new(v): v's storage, no destructor will run *)
| SBorrow (b : string) (v : string)          (* b names the storage behind the reference argument v *)
| SLetPtr (p : string) (e : px)
| SWrite (e : px) (v : string)               (* ptr::write(e, v) *)
| SRead (v : string) (e : px)                (* let v = ptr::read(e), at e's pointee type *)
| SCopy (src dst : px) (cnt : zx)            (* ptr::copy(src, dst, cnt) *)
| SSwap (b : string) (i j : zx)              (* b.swap(i, j) *)
| SRef (v : string) (e : px)                 (* let v = &*e / &mut *e, at e's pointee type *)
| SUnreachableIf (c : cx)                    (* if c { unreachable_unchecked() } *)
| SAssert (c : cx).                          (* assert!(c, ..) while the arguments are still owned *)

Inductive rx : Type :=
| RVar (v : string)
| RAssumeInit (b : string)                   (* b.assume_init() *)
| RTransmuteCopy (b : string) (n : lenx)     (* mem::transmute_copy(&b) at GenericArray<T, n> *)
| RTail (f : string).                        (* unsafe { self.f(args) }: the whole result is f's *)

Record prog : Type := mkProg {
  p_requires : list lenx;     (* the lengths the impl's where-clauses / associated types need to exist *)
  p_body : list stmt;
  p_ret : list rx
}.

(* ------------------------------------------------------------------ interpretation *)

Inductive val : Type :=
| VElem (x : Z)
| VArr (l : list Z)
| VUsize (z : Z)
| VView (v : view).          (* a reference to a GenericArray inside the borrowed source *)

Definition ptrv : Type := (string * nat * pointee)%type.   (* block, offset in elements, pointee *)

Record env : Type := mkEnv {
  e_n : nat;                           (* N::USIZE *)
  e_k : nat;                           (* K::USIZE / M::USIZE *)
  e_vals : list (string * val);
  e_blocks : list (string * block);
  e_ptrs : list (string * ptrv)
}.

Fixpoint lookup {A} (k : string) (l : list (string * A)) : option A :=
  match l with
  | [] => None
  | (k', a) :: r => if String.eqb k k' then Some a else lookup k r
  end.

Fixpoint len_eval (n k : nat) (e : lenx) : option nat :=
  match e with
  | LN => Some n
  | LK => Some k
  | LAdd1 a => option_map add1 (len_eval n k a)
  | LSub1 a => match len_eval n k a with Some x => sub1 x | None => None end
  | LDiff a b => match len_eval n k a, len_eval n k b with Some x, Some y => diff x y | _, _ => None end
  | LSum a b => match len_eval n k a, len_eval n k b with Some x, Some y => Some (sum x y) | _, _ => None end
  end.

Definition elen (E : env) (e : lenx) : option nat := len_eval (e_n E) (e_k E) e.

Fixpoint zeval (E : env) (e : zx) : option Z :=
  match e with
  | ZLit z => Some z
  | ZLen n => option_map Z.of_nat (elen E n)
  | ZVar s => match lookup s (e_vals E) with Some (VUsize z) => Some z | _ => None end
  | ZSub a b => match zeval E a, zeval E b with Some x, Some y => zsub x y | _, _ => None end
  end.

Fixpoint ceval (E : env) (c : cx) : option bool :=
  match c with
  | CGe a b => match zeval E a, zeval E b with Some x, Some y => Some (y <=? x)%Z | _, _ => None end
  | CLt a b => match zeval E a, zeval E b with Some x, Some y => Some (x <? y)%Z | _, _ => None end
  | CEq a b => match zeval E a, zeval E b with Some x, Some y => Some (x =? y)%Z | _, _ => None end
  | COr a b => match ceval E a, ceval E b with Some x, Some y => Some (x || y) | _, _ => None end
  end.

Definition stride (E : env) (pt : pointee) : option nat :=
  match pt with PT => Some 1 | PArr n => elen E n end.

Fixpoint peval (E : env) (e : px) : option ptrv :=
  match e with
  | PBase b pt => match lookup b (e_blocks E) with Some _ => Some (b, 0, pt) | None => None end
  | PVar p => lookup p (e_ptrs E)
  | PAdd p k =>
    match peval E p, zeval E k with
    | Some (b, off, pt), Some z =>
      match stride E pt with
      | Some s => if (0 <=? z)%Z then Some (b, off + Z.to_nat z * s, pt) else None
      | None => None
      end
    | _, _ => None
    end
  | PCast p pt => match peval E p with Some (b, off, _) => Some (b, off, pt) | None => None end
  end.

Fixpoint set {A} (k : string) (a : A) (l : list (string * A)) : list (string * A) :=
  match l with
  | [] => [(k, a)]
  | (k', a') :: r => if String.eqb k k' then (k, a) :: r else (k', a') :: set k a r
  end.

Definition set_val (E : env) (k : string) (v : val) : env :=
  mkEnv (e_n E) (e_k E) (set k v (e_vals E)) (e_blocks E) (e_ptrs E).
Definition set_block (E : env) (k : string) (b : block) : env :=
  mkEnv (e_n E) (e_k E) (e_vals E) (set k b (e_blocks E)) (e_ptrs E).
Definition set_ptr (E : env) (k : string) (p : ptrv) : env :=
  mkEnv (e_n E) (e_k E) (e_vals E) (e_blocks E) (set k p (e_ptrs E)).

(* how a statement ends *)
Inductive sres : Type :=
| SOk (E : env)
| SFault
| SPanicBounds
| SPanicOther.

Definition sacc {A} (o : option A) (k : A -> sres) : sres :=
  match o with Some a => k a | None => SFault end.

Definition exec (E : env) (s : stmt) : sres :=
  match s with
  | SUninit b n => sacc (elen E n) (fun len => SOk (set_block E b (fresh len)))
  | SManuallyDrop b v | SBorrow b v =>
    match lookup v (e_vals E) with
    | Some (VArr l) => SOk (set_block E b (of_list l))
    | _ => SFault
    end
  | SLetPtr p e => sacc (peval E e) (fun pv => SOk (set_ptr E p pv))
  | SWrite e v =>
    sacc (peval E e) (fun '(b, off, pt) =>
    sacc (lookup b (e_blocks E)) (fun blk =>
      match lookup v (e_vals E), pt with
      | Some (VElem x), PT => sacc (mwrite blk off [x]) (fun blk' => SOk (set_block E b blk'))
      | Some (VArr l), PArr n =>
        sacc (elen E n) (fun len =>
          if Nat.eqb len (length l) then sacc (mwrite blk off l) (fun blk' => SOk (set_block E b blk')) else SFault)
      | _, _ => SFault
      end))
  | SRead v e =>
    sacc (peval E e) (fun '(b, off, pt) =>
    sacc (lookup b (e_blocks E)) (fun blk =>
      match pt with
      | PT => sacc (mread1 blk off) (fun x => SOk (set_val E v (VElem x)))
      | PArr n => sacc (elen E n) (fun len => sacc (mread blk off len) (fun l => SOk (set_val E v (VArr l))))
      end))
  | SCopy src dst cnt =>
    sacc (peval E src) (fun '(b1, o1, pt1) =>
    sacc (peval E dst) (fun '(b2, o2, pt2) =>
    sacc (zeval E cnt) (fun c =>
    sacc (lookup b1 (e_blocks E)) (fun blk =>
      match pt1, pt2 with
      | PT, PT =>
        if String.eqb b1 b2 && (0 <=? c)%Z
        then sacc (mcopy blk o1 o2 (Z.to_nat c)) (fun blk' => SOk (set_block E b1 blk'))
        else SFault
      | _, _ => SFault
      end))))
  | SSwap b i j =>
    sacc (lookup b (e_blocks E)) (fun blk =>
    sacc (zeval E i) (fun zi =>
    sacc (zeval E j) (fun zj =>
      match mswap blk (Z.to_nat zi) (Z.to_nat zj) with
      | Some blk' => SOk (set_block E b blk')
      | None => SPanicOther
      end)))
  | SRef v e =>
    sacc (peval E e) (fun '(b, off, pt) =>
      match pt with
      | PArr n => sacc (elen E n) (fun len => SOk (set_val E v (VView (off, len))))
      | PT => SFault
      end)
  | SUnreachableIf c => sacc (ceval E c) (fun t => if t then SFault else SOk E)
  | SAssert c => sacc (ceval E c) (fun t => if t then SOk E else SPanicBounds)
  end.

Fixpoint exec_all (E : env) (l : list stmt) : sres :=
  match l with
  | [] => SOk E
  | s :: r => match exec E s with SOk E' => exec_all E' r | other => other end
  end.

Definition reval (E : env) (r : rx) : option val :=
  match r with
  | RVar v => lookup v (e_vals E)
  | RAssumeInit b => match lookup b (e_blocks E) with Some blk => option_map VArr (assume_init blk) | None => None end
  | RTransmuteCopy b n =>
    match lookup b (e_blocks E), elen E n with
    | Some blk, Some len => option_map VArr (mread blk 0 len)
    | _, _ => None
    end
  | RTail _ => None
  end.

Fixpoint revals (E : env) (l : list rx) : option (list val) :=
  match l with
  | [] => Some []
  | r :: t => match reval E r, revals E t with Some v, Some vs => Some (v :: vs) | _, _ => None end
  end.

Definition requires_ok (n k : nat) (l : list lenx) : bool :=
  forallb (fun e => match len_eval n k e with Some _ => true | None => false end) l.

(* the identities an argument list owns (what unwinding out of an assert! drops) *)
Definition owned_ids (args : list (string * val)) : list Z :=
  flat_map (fun p => match snd p with VElem x => [x] | VArr l => l | _ => [] end) args.

(* run a program that does not end in a tail call *)
Definition run (p : prog) (n k : nat) (args : list (string * val)) : result (list val) :=
  if requires_ok n k (p_requires p) then
    match exec_all (mkEnv n k args [] []) (p_body p) with
    | SOk E => (match revals E (p_ret p) with Some vs => Ok vs | None => Fault end, [])
    | SFault => (Fault, [])
    | SPanicBounds => (PanicBounds, map EDrop (owned_ids args))
    | SPanicOther => (PanicOther, [])
    end
  else (NoInst, []).

(* a wrapper: its own statements (the assert), then `unsafe { self.callee(args) }` *)
Definition run_tail (w : prog) (callee_name : string) (callee : prog) (n k : nat) (args : list (string * val))
  : result (list val) :=
  if requires_ok n k (p_requires w) then
    match p_ret w with
    | [RTail f] =>
      if String.eqb f callee_name then
        match exec_all (mkEnv n k args [] []) (p_body w) with
        | SOk _ => run callee n k args
        | SFault => (Fault, [])
        | SPanicBounds => (PanicBounds, map EDrop (owned_ids args))
        | SPanicOther => (PanicOther, [])
        end
      else (Fault, [])
    | _ => (Fault, [])
    end
  else (NoInst, []).

(* GuardTieRemove.v -- tier T2 tie (part of the former GuardTie.v, split so that a change of one function only reaches the
   properties whose theorems are stated over that function's regenerated guards): remove / swap_remove (C09) *)
From Coq Require Import String.
From GA Require Import Base Guards.
From GA Require Views Chunks SeqOps Builder Hex HeapOps ConstEval Serde.
From GAGen Require Import GenGuards GenConstFns.
Local Open Scope Z_scope.

Lemma of_nat_eqb a b : (Z.of_nat a =? Z.of_nat b) = Nat.eqb a b.
Proof.
  destruct (Nat.eqb_spec a b) as [->|H]; [apply Z.eqb_refl|]. apply Z.eqb_neq. lia.
Qed.

(* ---------------- C09: remove / swap_remove (src/sequence.rs) ---------------- *)

Lemma tie_remove_guard idx N :
  rejects remove_guard (env1 "idx" idx) N = negb (idx <? N) /\ fails_by_panic remove_guard = true /\
  rejects swap_remove_guard (env1 "idx" idx) N = negb (idx <? N) /\ fails_by_panic swap_remove_guard = true.
Proof. repeat split. Qed.

Lemma tie_remove_count idx N :
  SeqOps.remove_count N idx =
  (if (idx <=? N) && (1 <=? N - idx) then Some (geval (env1 "idx" idx) N remove_copy_count) else None).
Proof.
  unfold SeqOps.remove_count, SeqOps.zsub. cbn [geval remove_copy_count env1 String.eqb Ascii.eqb Bool.eqb].
  destruct (idx <=? N); cbn [andb]; reflexivity.
Qed.


(* CorrC206.v -- C06 histories with the first-order methods executed through the regenerated programs *)
From GA Require Import Base GenRun.
Definition run_c206 (case : list Z) : list Z := GenRun.run_c206 case.

(* CorrC08.v -- C08 uses the shared forms entry (harness/src/bin/c08.rs) *)
From GA Require Import Base CorrForms.
Definition run_c08 (case : list Z) : list Z := run_forms case.

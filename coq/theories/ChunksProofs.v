(* ChunksProofs.v -- lemmas about the chunk regrouping model (Chunks.v). *)
From GA Require Import Base Chunks.
Local Open Scope Z_scope.

Lemma U64_val : U64 = 18446744073709551616.
Proof. reflexivity. Qed.

Lemma ISIZE_MAX_val : ISIZE_MAX = 9223372036854775807.
Proof. reflexivity. Qed.

(* ---------- integer facts ---------- *)

Lemma div_facts L N : 0 <= L -> 0 < N ->
  0 <= L / N /\ L / N * N <= L /\ L - L / N * N = L mod N /\ 0 <= L mod N < N.
Proof.
  intros HL HN.
  pose proof (Z.div_mod L N ltac:(lia)) as Hdm.
  pose proof (Z.mod_pos_bound L N HN) as Hm.
  pose proof (Z.div_pos L N HL HN) as Hd.
  repeat split; lia.
Qed.

(* the side conditions of the three arithmetic operations hold *)
Lemma arith_side_conditions L N : 0 < N -> 0 <= L < U64 ->
  L / N * N < U64 /\ L / N * N <= L.
Proof. intros HN HL. destruct (div_facts L N) as (H0 & H1 & H2 & H3); lia. Qed.

(* ---------- values: floor and mod ---------- *)

Lemma chunks_values N q L : 0 < N -> 0 <= L < U64 ->
  chunks_from_slice N (mkS q L) =
  Ret (mkC q (L / N), mkS (padd q (L / N * N)) (L mod N)).
Proof.
  intros HN HL. unfold chunks_from_slice. cbn [slen sptr].
  destruct (div_facts L N) as (H0 & H1 & H2 & H3); [lia | lia |].
  replace (N =? 0) with false by (symmetry; apply Z.eqb_neq; lia).
  replace (U64 <=? L / N * N) with false by (symmetry; apply Z.leb_gt; lia).
  replace (L <? L / N * N) with false by (symmetry; apply Z.ltb_ge; lia).
  rewrite H2. reflexivity.
Qed.

Lemma chunks_floor_mod N s M c r : 0 < N -> valid_slice M s ->
  chunks_from_slice N s = Ret (c, r) ->
  ccnt c = slen s / N /\ slen r = slen s mod N /\
  cptr c = sptr s /\ sptr r = padd (sptr s) (slen s / N * N) /\
  ccnt c * N + slen r = slen s /\ 0 <= slen r < N /\ 0 <= ccnt c.
Proof.
  intros HN (p & Hp & Hp0 & HL0 & HM & HU) H. destruct s as [q L]. cbn [sptr slen] in *.
  rewrite chunks_values in H by lia. injection H as <- <-. cbn [ccnt cptr sptr slen].
  destruct (div_facts L N) as (H0 & H1 & H2 & H3); [lia | lia |].
  repeat split; try reflexivity; lia.
Qed.

Lemma chunks_no_ub N s : 0 <= N -> 0 <= slen s < U64 -> chunks_from_slice N s <> UB.
Proof.
  intros HN HL. destruct s as [q L]. cbn [slen] in HL.
  destruct (Z.eq_dec N 0) as [-> | Hne].
  - unfold chunks_from_slice. cbn [slen]. replace (0 =? 0) with true by reflexivity.
    destruct (L =? 0); discriminate.
  - rewrite chunks_values by lia. discriminate.
Qed.

(* ---------- N = 0 ---------- *)

Lemma chunks_n0_empty q : chunks_from_slice 0 (mkS q 0) = Ret (mkC Dangling 0, mkS Dangling 0).
Proof. reflexivity. Qed.

Lemma chunks_n0_panics q L : L <> 0 -> chunks_from_slice 0 (mkS q L) = Panicked.
Proof.
  intros HL. unfold chunks_from_slice. cbn [slen].
  replace (0 =? 0) with true by reflexivity.
  replace (L =? 0) with false by (symmetry; apply Z.eqb_neq; exact HL). reflexivity.
Qed.

(* ---------- geometry: the two parts partition the slice ---------- *)

Lemma At_inj a b : At a = At b -> a = b.
Proof. intros H. injection H as H. exact H. Qed.

Lemma chunks_partition N s M c r : 0 < N -> valid_slice M s ->
  chunks_from_slice N s = Ret (c, r) ->
  (forall k x, slice_elem s k x ->
      (k < ccnt c * N /\ chunk_elem N c (k / N) (k mod N) x) \/
      (ccnt c * N <= k /\ slice_elem r (k - ccnt c * N) x))
  /\ (forall i k x, chunk_elem N c i k x -> slice_elem s (i * N + k) x)
  /\ (forall k x, slice_elem r k x -> slice_elem s (ccnt c * N + k) x)
  /\ (forall k x, slice_elem s k x -> 0 <= x < M).
Proof.
  intros HN (p & Hp & Hp0 & HL0 & HM & HU) H. destruct s as [q L]. cbn [sptr slen] in *. subst q.
  rewrite chunks_values in H by lia. injection H as <- <-.
  destruct (div_facts L N) as (H0 & H1 & H2 & H3); [lia | lia |].
  unfold slice_elem, chunk_elem. cbn [ccnt cptr sptr slen padd].
  set (C := L / N) in *.
  split; [| split; [| split]].
  - intros k x (Hk & Hx). apply At_inj in Hx.
    destruct (Z_lt_ge_dec k (C * N)) as [Hlt | Hge].
    + left. split; [exact Hlt|].
      pose proof (Z.div_mod k N ltac:(lia)) as Hdm.
      pose proof (Z.mod_pos_bound k N HN) as Hm.
      assert (0 <= k / N) by (apply Z.div_pos; lia).
      assert (k / N < C) by (apply Z.div_lt_upper_bound; lia).
      split; [lia|]. split; [lia|]. f_equal. lia.
    + right. split; [lia|]. split; [lia|]. f_equal. lia.
  - intros i k x (Hi & Hk & Hx). apply At_inj in Hx.
    assert ((i + 1) * N <= C * N) by (apply Z.mul_le_mono_nonneg_r; lia).
    split; [lia|]. f_equal. lia.
  - intros k x (Hk & Hx). apply At_inj in Hx. split; [lia|]. f_equal. lia.
  - intros k x (Hk & Hx). apply At_inj in Hx. lia.
Qed.

(* a view element is one element of the source object, and one only *)
Lemma slice_elem_fun s k k' x : slice_elem s k x -> slice_elem s k' x -> k = k'.
Proof.
  intros (_ & H1) (_ & H2). rewrite H1 in H2. apply At_inj in H2. lia.
Qed.

Lemma chunk_index_unique N i k i' k' : 0 < N -> 0 <= k < N -> 0 <= k' < N ->
  i * N + k = i' * N + k' -> i = i' /\ k = k'.
Proof.
  intros HN Hk Hk' E.
  assert (i = (i * N + k) / N) as E1 by (apply Z.div_unique with k; lia).
  assert (i' = (i' * N + k') / N) as E2 by (apply Z.div_unique with k'; lia).
  rewrite E in E1. assert (i = i') by congruence. subst i'. split; [reflexivity | lia].
Qed.

Lemma chunks_no_overlap N s M c r : 0 < N -> valid_slice M s ->
  chunks_from_slice N s = Ret (c, r) ->
  (forall i k i' k' x, chunk_elem N c i k x -> chunk_elem N c i' k' x -> i = i' /\ k = k')
  /\ (forall i k k' x, chunk_elem N c i k x -> slice_elem r k' x -> False)
  /\ (forall k k' x, slice_elem r k x -> slice_elem r k' x -> k = k').
Proof.
  intros HN Hv H.
  destruct (chunks_partition N s M c r HN Hv H) as (_ & Hb & Hc & _).
  split; [| split].
  - intros i k i' k' x H1 H2.
    pose proof (slice_elem_fun _ _ _ _ (Hb _ _ _ H1) (Hb _ _ _ H2)) as E.
    destruct H1 as (_ & Hk & _), H2 as (_ & Hk' & _).
    apply (chunk_index_unique N); assumption.
  - intros i k k' x H1 H2.
    pose proof (slice_elem_fun _ _ _ _ (Hb _ _ _ H1) (Hc _ _ H2)) as E.
    destruct H1 as (Hi & Hk & _), H2 as (Hk' & _).
    assert ((i + 1) * N <= ccnt c * N) by (apply Z.mul_le_mono_nonneg_r; lia). lia.
  - intros k k' x H1 H2. exact (slice_elem_fun _ _ _ _ H1 H2).
Qed.

(* same order: later view elements lie at higher addresses *)
Lemma chunks_order N s M c r : 0 < N -> valid_slice M s ->
  chunks_from_slice N s = Ret (c, r) ->
  (forall i k x i' k' x', chunk_elem N c i k x -> chunk_elem N c i' k' x' ->
      (i < i' \/ (i = i' /\ k < k')) -> x < x')
  /\ (forall i k x k' x', chunk_elem N c i k x -> slice_elem r k' x' -> x < x')
  /\ (forall k x k' x', slice_elem r k x -> slice_elem r k' x' -> k < k' -> x < x').
Proof.
  intros HN Hv H.
  destruct (chunks_partition N s M c r HN Hv H) as (_ & Hb & Hc & _).
  destruct Hv as (p & Hp & _).
  assert (forall k x, slice_elem s k x -> x = p + k) as Hloc.
  { intros k x (_ & Hx). rewrite Hp in Hx. apply At_inj in Hx. lia. }
  split; [| split].
  - intros i k x i' k' x' H1 H2 Hlt.
    pose proof (Hloc _ _ (Hb _ _ _ H1)). pose proof (Hloc _ _ (Hb _ _ _ H2)).
    destruct H1 as (Hi & Hk & _), H2 as (Hi' & Hk' & _).
    destruct Hlt as [Hlt | (-> & Hlt)]; [| lia].
    assert ((i + 1) * N <= i' * N) by (apply Z.mul_le_mono_nonneg_r; lia). lia.
  - intros i k x k' x' H1 H2.
    pose proof (Hloc _ _ (Hb _ _ _ H1)). pose proof (Hloc _ _ (Hc _ _ H2)).
    destruct H1 as (Hi & Hk & _), H2 as (Hk' & _).
    assert ((i + 1) * N <= ccnt c * N) by (apply Z.mul_le_mono_nonneg_r; lia). lia.
  - intros k x k' x' H1 H2 Hlt.
    pose proof (Hloc _ _ (Hc _ _ H1)). pose proof (Hloc _ _ (Hc _ _ H2)). lia.
Qed.

(* ---------- slice_from_chunks and the inverse laws ---------- *)

Lemma flatten_value N q C : C * N < U64 ->
  slice_from_chunks N (mkC q C) = Ret (mkS q (C * N)).
Proof.
  intros H. unfold slice_from_chunks. cbn [ccnt cptr].
  replace (U64 <=? C * N) with false by (symmetry; apply Z.leb_gt; lia). reflexivity.
Qed.

Lemma flatten_overflow N q C : U64 <= C * N -> slice_from_chunks N (mkC q C) = UB.
Proof.
  intros H. unfold slice_from_chunks. cbn [ccnt cptr].
  replace (U64 <=? C * N) with true by (symmetry; apply Z.leb_le; lia). reflexivity.
Qed.

(* for an element type of non-zero size the product bound follows from the
   chunk slice being a Rust object (at most isize::MAX bytes) *)
Lemma product_bound_sized C N sz : 0 <= C -> 0 <= N -> 0 < sz ->
  C * N * sz <= ISIZE_MAX -> C * N < U64.
Proof.
  intros HC HN Hs Hb. rewrite ISIZE_MAX_val in Hb. rewrite U64_val.
  assert (0 <= C * N) by (apply Z.mul_nonneg_nonneg; lia).
  assert (C * N * 1 <= C * N * sz) by (apply Z.mul_le_mono_nonneg_l; lia). lia.
Qed.

(* chunks_from_slice then slice_from_chunks: the flattened chunks followed by
   the remainder are the source slice (as regions of the source object) *)
Lemma inverse_flatten N s M c r : 0 < N -> valid_slice M s ->
  chunks_from_slice N s = Ret (c, r) ->
  exists f, slice_from_chunks N c = Ret f /\ sptr f = sptr s /\
            sptr r = padd (sptr f) (slen f) /\ slen f + slen r = slen s.
Proof.
  intros HN Hv H.
  destruct (chunks_floor_mod N s M c r HN Hv H) as (Hc & Hr & Hcp & Hrp & Hsum & Hrb & Hc0).
  destruct Hv as (p & Hp & Hp0 & HL0 & HM & HU).
  destruct c as [cq C]. cbn [ccnt cptr] in *.
  exists (mkS cq (C * N)). rewrite flatten_value by lia. cbn [sptr slen].
  repeat split; try assumption. - rewrite Hrp, Hcp, Hc. reflexivity.
Qed.

(* slice_from_chunks then chunks_from_slice: the same chunks, empty remainder at the end *)
Lemma inverse_chunks N q C : 0 < N -> 0 <= C -> C * N < U64 ->
  slice_from_chunks N (mkC q C) = Ret (mkS q (C * N)) /\
  chunks_from_slice N (mkS q (C * N)) = Ret (mkC q C, mkS (padd q (C * N)) 0).
Proof.
  intros HN HC HU. split; [apply flatten_value; exact HU|].
  assert (0 <= C * N) by (apply Z.mul_nonneg_nonneg; lia).
  rewrite chunks_values by lia.
  rewrite Z.div_mul by lia. rewrite Z.mod_mul by lia. reflexivity.
Qed.

(* ---------- from_chunks / into_chunks ---------- *)

Lemma from_into_same c :
  cptr (from_chunks c) = cptr c /\ ccnt (from_chunks c) = ccnt c /\
  cptr (into_chunks c) = cptr c /\ ccnt (into_chunks c) = ccnt c /\
  into_chunks (from_chunks c) = c /\ from_chunks (into_chunks c) = c.
Proof. repeat split. Qed.

Lemma from_into_contents mem N c :
  read_chunks mem N (from_chunks c) = read_chunks mem N c /\
  read_chunks mem N (into_chunks c) = read_chunks mem N c.
Proof. split; reflexivity. Qed.

(* ---------- contents ---------- *)

Lemma zlen_range {A} a b (l : list A) : (a <= b)%nat -> (b <= length l)%nat ->
  zlen (range a b l) = Z.of_nat b - Z.of_nat a.
Proof. intros H1 H2. unfold zlen. rewrite range_length by exact H2. lia. Qed.

Lemma read_At mem p L : 0 <= p -> 0 <= L -> p + L <= zlen mem ->
  read mem (mkS (At p) L) = Some (range (Z.to_nat p) (Z.to_nat (p + L)) mem).
Proof.
  intros H1 H2 H3. unfold read. cbn [sptr slen].
  replace (0 <=? p) with true by (symmetry; apply Z.leb_le; lia).
  replace (0 <=? L) with true by (symmetry; apply Z.leb_le; lia).
  replace (p + L <=? zlen mem) with true by (symmetry; apply Z.leb_le; lia).
  reflexivity.
Qed.

Lemma read_At_inv mem p L l : read mem (mkS (At p) L) = Some l ->
  0 <= p /\ 0 <= L /\ p + L <= zlen mem /\
  l = range (Z.to_nat p) (Z.to_nat (p + L)) mem /\ zlen l = L.
Proof.
  unfold read. cbn [sptr slen]. intros H.
  destruct (0 <=? p) eqn:E1; [| discriminate].
  destruct (0 <=? L) eqn:E2; [| discriminate].
  destruct (p + L <=? zlen mem) eqn:E3; [| discriminate].
  apply Z.leb_le in E1, E2, E3. cbn in H. injection H as <-.
  repeat split; try lia.
  rewrite zlen_range; unfold zlen in *; lia.
Qed.

Lemma read_split mem p a b l : 0 <= a -> 0 <= b ->
  read mem (mkS (At p) (a + b)) = Some l ->
  exists l1 l2, read mem (mkS (At p) a) = Some l1 /\ read mem (mkS (At (p + a)) b) = Some l2 /\
                l = l1 ++ l2.
Proof.
  intros Ha Hb H. apply read_At_inv in H. destruct H as (H1 & H2 & H3 & -> & _).
  exists (range (Z.to_nat p) (Z.to_nat (p + a)) mem),
         (range (Z.to_nat (p + a)) (Z.to_nat (p + a + b)) mem).
  split; [apply read_At; lia|]. split; [apply read_At; lia|].
  replace (p + (a + b)) with (p + a + b) by lia.
  apply range_split; lia.
Qed.

Lemma read_arrays_spec mem N : 0 < N -> forall cnt p R els, 0 <= R ->
  read mem (mkS (At p) (Z.of_nat cnt * N + R)) = Some els ->
  exists chs rem,
    read_arrays mem N (At p) cnt = Some chs /\
    read mem (mkS (At (p + Z.of_nat cnt * N)) R) = Some rem /\
    concat chs ++ rem = els /\ Forall (fun a => zlen a = N) chs /\ length chs = cnt.
Proof.
  intros HN. induction cnt as [|cnt IH]; intros p R els HR H.
  - exists [], els. replace (Z.of_nat 0 * N + R) with R in H by lia.
    replace (p + Z.of_nat 0 * N) with p by lia.
    repeat split; auto.
  - replace (Z.of_nat (S cnt) * N + R) with (N + (Z.of_nat cnt * N + R)) in H by lia.
    apply read_split in H; [| lia | lia].
    destruct H as (l1 & l2 & R1 & R2 & ->).
    destruct (IH (p + N) R l2 HR R2) as (chs & rem & A1 & A2 & A3 & A4 & A5).
    exists (l1 :: chs), rem. cbn [read_arrays padd]. rewrite R1, A1.
    replace (p + Z.of_nat (S cnt) * N) with (p + N + Z.of_nat cnt * N) by lia.
    split; [reflexivity|]. split; [exact A2|]. split.
    + cbn [concat]. rewrite <- app_assoc, A3. reflexivity.
    + split; [| cbn; lia]. constructor; [| exact A4].
      apply read_At_inv in R1. tauto.
Qed.

Lemma chunks_contents mem N s c r : 0 < N -> valid_slice (zlen mem) s ->
  chunks_from_slice N s = Ret (c, r) ->
  exists els chs rem,
    read mem s = Some els /\ read_chunks mem N c = Some chs /\ read mem r = Some rem /\
    concat chs ++ rem = els /\
    Forall (fun a => zlen a = N) chs /\ zlen chs = slen s / N /\ zlen rem = slen s mod N.
Proof.
  intros HN Hv H.
  destruct (chunks_floor_mod N s _ c r HN Hv H) as (Hc & Hr & Hcp & Hrp & Hsum & Hrb & Hc0).
  destruct Hv as (p & Hp & Hp0 & HL0 & HM & HU).
  destruct s as [q L], c as [cq C], r as [rq R]. cbn [sptr slen cptr ccnt] in *. subst q cq.
  pose proof (read_At mem p L Hp0 HL0 HM) as Hread.
  remember (range (Z.to_nat p) (Z.to_nat (p + L)) mem) as els.
  assert (L = Z.of_nat (Z.to_nat C) * N + R) as EL by lia.
  pose proof Hread as Hread'. rewrite EL in Hread'.
  destruct (read_arrays_spec mem N HN (Z.to_nat C) p R els ltac:(lia) Hread') as (chs & rem & A1 & A2 & A3 & A4 & A5).
  exists els, chs, rem. split; [exact Hread|].
  split.
  { unfold read_chunks. cbn [ccnt cptr].
    replace (0 <=? C) with true by (symmetry; apply Z.leb_le; lia). exact A1. }
  split.
  { rewrite Hrp. cbn [padd]. rewrite <- Hc. rewrite Z2Nat.id in A2 by lia. exact A2. }
  split; [exact A3|]. split; [exact A4|]. split.
  - unfold zlen. rewrite A5. lia.
  - apply read_At_inv in A2. lia.
Qed.

(* ---------- write-through (the mutable form) ---------- *)

Lemma zlen_app {A} (l1 l2 : list A) : zlen (l1 ++ l2) = zlen l1 + zlen l2.
Proof. unfold zlen. rewrite app_length. lia. Qed.

Lemma zlen_nonneg {A} (l : list A) : 0 <= zlen l.
Proof. unfold zlen. lia. Qed.

Lemma write_At mem p L v : 0 <= p -> zlen v = L -> p + L <= zlen mem ->
  write mem (mkS (At p) L) v =
  Some (firstn (Z.to_nat p) mem ++ v ++ skipn (Z.to_nat (p + L)) mem).
Proof.
  intros H1 H2 H3. unfold write. cbn [sptr slen].
  replace (0 <=? p) with true by (symmetry; apply Z.leb_le; lia).
  replace (zlen v =? L) with true by (symmetry; apply Z.eqb_eq; lia).
  replace (p + L <=? zlen mem) with true by (symmetry; apply Z.leb_le; lia).
  reflexivity.
Qed.

Lemma splice_length {A} (mem : list A) p (v : list A) : 0 <= p -> p + zlen v <= zlen mem ->
  zlen (firstn (Z.to_nat p) mem ++ v ++ skipn (Z.to_nat (p + zlen v)) mem) = zlen mem.
Proof.
  intros H1 H2. unfold zlen in *. rewrite !app_length, firstn_length, skipn_length. lia.
Qed.

(* two adjacent writes are one write of the concatenation *)
Lemma write_split mem p v1 v2 : 0 <= p -> p + zlen v1 + zlen v2 <= zlen mem ->
  exists m1, write mem (mkS (At p) (zlen v1)) v1 = Some m1 /\
             write m1 (mkS (At (p + zlen v1)) (zlen v2)) v2 =
             write mem (mkS (At p) (zlen v1 + zlen v2)) (v1 ++ v2).
Proof.
  intros Hp Hb.
  pose proof (zlen_nonneg v1) as Hv1. pose proof (zlen_nonneg v2) as Hv2.
  eexists. split; [apply write_At; lia|].
  set (m1 := firstn (Z.to_nat p) mem ++ v1 ++ skipn (Z.to_nat (p + zlen v1)) mem).
  assert (zlen m1 = zlen mem) as Hm1 by (apply splice_length; lia).
  rewrite write_At by lia.
  rewrite write_At by (try rewrite zlen_app; lia).
  f_equal.
  assert (length (firstn (Z.to_nat p) mem) = Z.to_nat p) as Lf
    by (rewrite firstn_length; unfold zlen in *; lia).
  (* the prefix *)
  assert (firstn (Z.to_nat (p + zlen v1)) m1 = firstn (Z.to_nat p) mem ++ v1) as E1.
  { unfold m1. rewrite app_assoc. rewrite firstn_app.
    replace (Z.to_nat (p + zlen v1) - length (firstn (Z.to_nat p) mem ++ v1))%nat with 0%nat
      by (rewrite app_length, Lf; unfold zlen; lia).
    rewrite firstn_O, app_nil_r. apply firstn_all2.
    rewrite app_length, Lf. unfold zlen. lia. }
  (* the suffix *)
  assert (skipn (Z.to_nat (p + zlen v1 + zlen v2)) m1 =
          skipn (Z.to_nat (p + (zlen v1 + zlen v2))) mem) as E2.
  { unfold m1. rewrite app_assoc. rewrite skipn_app.
    rewrite skipn_all2 by (rewrite app_length, Lf; unfold zlen; lia).
    rewrite app_length, Lf. cbn [app]. rewrite skipn_skipn. f_equal.
    unfold zlen in *. lia. }
  rewrite E1, E2. rewrite <- !app_assoc. reflexivity.
Qed.

Lemma write_arrays_spec N : 0 <= N -> forall vs mem p, 0 <= p ->
  Forall (fun a => zlen a = N) vs -> p + zlen vs * N <= zlen mem ->
  write_arrays mem N (At p) vs = write mem (mkS (At p) (zlen vs * N)) (concat vs)
  /\ zlen (concat vs) = zlen vs * N.
Proof.
  intros HN. induction vs as [|a vs IH]; intros mem p Hp Hall Hb.
  - cbn [write_arrays concat]. replace (zlen (@nil (list Z)) * N) with 0 by (unfold zlen; cbn; lia).
    split; [| reflexivity].
    rewrite write_At by (try reflexivity; unfold zlen in *; cbn in *; lia).
    cbn [app]. replace (p + 0) with p by lia. rewrite firstn_skipn. reflexivity.
  - pose proof (Forall_inv Hall) as Ha. pose proof (Forall_inv_tail Hall) as Hall'.
    cbn beta in Ha.
    assert (zlen (a :: vs) = 1 + zlen vs) as Ez by (unfold zlen; cbn [length]; lia).
    rewrite Ez in *. pose proof (zlen_nonneg vs) as Hvs.
    assert (0 <= zlen vs * N) by (apply Z.mul_nonneg_nonneg; lia).
    destruct (IH mem p Hp Hall') as (_ & Hc0); [lia|].
    destruct (write_split mem p a (concat vs) Hp) as (m1 & W1 & W2); [lia|].
    assert (zlen m1 = zlen mem) as Hm1.
    { rewrite write_At in W1 by lia. injection W1 as <-. apply splice_length; lia. }
    rewrite Ha in W1, W2. rewrite Hc0 in W2.
    cbn [write_arrays concat padd]. rewrite W1.
    destruct (IH m1 (p + N)) as (E & _); [lia | exact Hall' | lia |].
    rewrite E, W2. rewrite zlen_app, Hc0, Ha.
    replace ((1 + zlen vs) * N) with (N + zlen vs * N) by lia.
    split; reflexivity.
Qed.

Lemma read_write mem p v : 0 <= p -> p + zlen v <= zlen mem ->
  forall m, write mem (mkS (At p) (zlen v)) v = Some m ->
  read m (mkS (At p) (zlen v)) = Some v /\ zlen m = zlen mem /\
  firstn (Z.to_nat p) m = firstn (Z.to_nat p) mem /\
  skipn (Z.to_nat (p + zlen v)) m = skipn (Z.to_nat (p + zlen v)) mem.
Proof.
  intros Hp Hb m W. pose proof (zlen_nonneg v) as Hv.
  rewrite write_At in W by lia. injection W as <-.
  assert (length (firstn (Z.to_nat p) mem) = Z.to_nat p) as Lf
    by (rewrite firstn_length; unfold zlen in *; lia).
  pose proof (splice_length mem p v Hp Hb) as Hlen.
  split; [| split; [exact Hlen | split]].
  - rewrite read_At by lia. f_equal. unfold range.
    rewrite skipn_app, Lf, Nat.sub_diag. cbn [skipn].
    rewrite skipn_all2 by lia. cbn [app].
    rewrite firstn_app.
    replace (Z.to_nat (p + zlen v) - Z.to_nat p - length v)%nat with 0%nat by (unfold zlen; lia).
    rewrite firstn_O, app_nil_r. apply firstn_all2. unfold zlen. lia.
  - rewrite firstn_app, Lf, Nat.sub_diag, firstn_O, app_nil_r.
    apply firstn_all2. lia.
  - rewrite app_assoc, skipn_app.
    rewrite skipn_all2 by (rewrite app_length, Lf; unfold zlen; lia).
    rewrite app_length, Lf. cbn [app].
    replace (Z.to_nat (p + zlen v) - (Z.to_nat p + length v))%nat with 0%nat by (unfold zlen; lia).
    reflexivity.
Qed.

(* writing every array of the chunk view and the remainder, then reading
   through the ORIGINAL slice: exactly the written values, in order; everything
   outside the slice is untouched *)
Lemma chunks_write_through mem N s c r vs rv : 0 < N -> valid_slice (zlen mem) s ->
  chunks_from_slice N s = Ret (c, r) ->
  Forall (fun a => zlen a = N) vs -> zlen vs = ccnt c -> zlen rv = slen r ->
  exists p m1 m2,
    sptr s = At p /\
    write_chunks mem N c vs = Some m1 /\ write m1 r rv = Some m2 /\
    read m2 s = Some (concat vs ++ rv) /\ zlen m2 = zlen mem /\
    firstn (Z.to_nat p) m2 = firstn (Z.to_nat p) mem /\
    skipn (Z.to_nat (p + slen s)) m2 = skipn (Z.to_nat (p + slen s)) mem.
Proof.
  intros HN Hv H Hall Hcnt Hrv.
  destruct (chunks_floor_mod N s _ c r HN Hv H) as (Hc & Hr & Hcp & Hrp & Hsum & Hrb & Hc0).
  destruct Hv as (p & Hp & Hp0 & HL0 & HM & HU).
  destruct s as [q L], c as [cq C], r as [rq R]. cbn [sptr slen cptr ccnt] in *. subst q cq.
  destruct (write_arrays_spec N ltac:(lia) vs mem p Hp0 Hall ltac:(lia)) as (E & Hcz).
  assert (0 <= C * N) by (apply Z.mul_nonneg_nonneg; lia).
  destruct (write_split mem p (concat vs) rv Hp0 ltac:(lia)) as (m1 & W1 & W2).
  assert (write mem (mkS (At p) L) (concat vs ++ rv) <> None -> True) as _ by trivial.
  assert (zlen (concat vs) + zlen rv = L) as EL by lia.
  rewrite EL in W2.
  destruct (write mem (mkS (At p) L) (concat vs ++ rv)) as [m2|] eqn:W.
  2:{ rewrite write_At in W by (try rewrite zlen_app; lia). discriminate. }
  exists p, m1, m2. split; [reflexivity|]. split.
  { unfold write_chunks. cbn [ccnt cptr].
    replace (zlen vs =? C) with true by (symmetry; apply Z.eqb_eq; lia).
    rewrite E, <- Hcz. exact W1. }
  split.
  { rewrite Hrp. cbn [padd]. rewrite <- Hc, <- Hcnt, <- Hcz, <- Hrv. exact W2. }
  assert (zlen (concat vs ++ rv) = L) as ELv by (rewrite zlen_app; lia).
  rewrite <- ELv in W.
  destruct (read_write mem p (concat vs ++ rv) Hp0 ltac:(lia) m2 W) as (R1 & R2 & R3 & R4).
  rewrite ELv in *. auto.
Qed.

(* ---------- the seeded defects are refuted ---------- *)

Lemma bad_rem_refuted : exists N s, 0 < N /\ valid_slice 16 s /\
  chunks_from_slice_bad_rem N s <> chunks_from_slice N s.
Proof.
  exists 3, (mkS (At 2) 10). split; [lia|]. split.
  - exists 2. cbn [sptr slen]. rewrite U64_val. repeat split; lia.
  - vm_compute. discriminate.
Qed.

Lemma bad_add_refuted : exists N s, 0 < N /\ valid_slice 16 s /\
  chunks_from_slice_bad_add N s <> chunks_from_slice N s.
Proof.
  exists 3, (mkS (At 2) 10). split; [lia|]. split.
  - exists 2. cbn [sptr slen]. rewrite U64_val. repeat split; lia.
  - vm_compute. discriminate.
Qed.

(* ---------- non-vacuity: concrete states satisfying the hypotheses of the main theorems ---------- *)

Example ex_floor_mod_ex :
  valid_slice 16 (mkS (At 2) 11) /\
  chunks_from_slice 3 (mkS (At 2) 11) = Ret (mkC (At 2) 3, mkS (At 11) 2).
Proof.
  split; [exists 2; cbn [sptr slen]; rewrite U64_val; repeat split; lia | reflexivity].
Qed.

Example ex_partition_ex :
  slice_elem (mkS (At 2) 11) 7 9 /\ chunk_elem 3 (mkC (At 2) 3) 2 1 9 /\
  slice_elem (mkS (At 11) 2) 1 12 /\ slice_elem (mkS (At 2) 11) 10 12.
Proof. unfold slice_elem, chunk_elem. cbn [sptr slen cptr ccnt]. repeat split; lia. Qed.

Example ex_zst_overflow_ex : slice_from_chunks 16 (mkC (At 0) (2 ^ 60)) = UB.
Proof. reflexivity. Qed.

Example ex_inverse_ex :
  slice_from_chunks 3 (mkC (At 2) 3) = Ret (mkS (At 2) 9) /\
  chunks_from_slice 3 (mkS (At 2) 9) = Ret (mkC (At 2) 3, mkS (At 11) 0).
Proof. split; reflexivity. Qed.

Example ex_contents_ex :
  let mem := [10; 11; 12; 13; 14; 15; 16; 17; 18; 19] in
  read mem (mkS (At 1) 8) = Some [11; 12; 13; 14; 15; 16; 17; 18] /\
  read_chunks mem 3 (mkC (At 1) 2) = Some [[11; 12; 13]; [14; 15; 16]] /\
  read mem (mkS (At 7) 2) = Some [17; 18].
Proof. repeat split. Qed.

Example ex_write_through_ex :
  let mem := [10; 11; 12; 13; 14; 15; 16; 17; 18; 19] in
  match write_chunks mem 3 (mkC (At 1) 2) [[1; 2; 3]; [4; 5; 6]] with
  | Some m1 => write m1 (mkS (At 7) 2) [7; 8] = Some [10; 1; 2; 3; 4; 5; 6; 7; 8; 19]
  | None => False
  end.
Proof. reflexivity. Qed.


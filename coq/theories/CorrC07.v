(* CorrC07.v -- correspondence entry point for C07 (harness/src/bin/c07.rs).
   case: [form; N; hint_lo; hint_hi (-1 = None); r_0; r_1; ...]
   r_i: -1 = End (None), -2 = the source panics, >= 0 = Item with that identity;
   past the script the source keeps answering End.
   form: 0 try_from_iter, 1 try_boxed_from_iter, 2 from_iter, 3 boxed from_iter *)
From GA Require Import Base Codec Builder.
Local Open Scope Z_scope.

Definition script_resp (l : list Z) (i : nat) : response :=
  match nth_error l i with
  | Some r => if r =? -1 then End else if r =? -2 then PanicNow else Item r
  | None => End
  end.

Definition drops_of (e : list ev) : list Z :=
  sortZ (flat_map (fun x => match x with EDrop i => [i] | _ => [] end) e).

Definition run_c07 (case : list Z) : list Z :=
  match case with
  | form :: n :: lo :: hi :: script =>
    let N := znat n in
    let s := mkSrc lo (if hi <? 0 then None else Some hi) (script_resp script) in
    let '(o, e, p) := if (form =? 1) || (form =? 3) then try_boxed_from_iter N s else try_from_iter N s in
    let lenfail := (form =? 2) || (form =? 3) in
    (match o with
     | Ok a => 0 :: zlen a :: a
     | Err => [if lenfail then 3 else 1; 0]
     | Panic => [2; 0]
     end) ++ [Z.of_nat p] ++ (zlen (drops_of e) :: drops_of e)
  | _ => []
  end.

(* GuardTieHex.v -- tier T2 tie (part of the former GuardTie.v, split so that a change of one function only reaches the
   properties whose theorems are stated over that function's regenerated guards): hex constants and the table encoder (C14) *)
From Coq Require Import String.
From GA Require Import Base Guards.
From GA Require Views Chunks SeqOps Builder Hex HeapOps ConstEval Serde.
From GAGen Require Import GenGuards GenConstFns.
Local Open Scope Z_scope.

Lemma of_nat_eqb a b : (Z.of_nat a =? Z.of_nat b) = Nat.eqb a b.
Proof.
  destruct (Nat.eqb_spec a b) as [->|H]; [apply Z.eqb_refl|]. apply Z.eqb_neq. lia.
Qed.

(* ---------------- C14: hex formatting constants (src/hex.rs) ---------------- *)

Lemma tie_hex_constants :
  hex_strategy_conds = [CLe GN (GInt 1024); CLt GN (GInt 16)] /\
  hex_chunk_sizes = [GInt 1024] /\ hex_buffer_sizes = [GInt 2048].
Proof. repeat split. Qed.

Lemma tie_hex_arith d n :
  geval (env1 "max_digits" d) n hex_max_bytes = Hex.max_bytes_of d /\
  geval (env1 "max_digits" d) n hex_max_digits_full = n * 2.
Proof. split; reflexivity. Qed.

(* hex_encode_fallback as it stands in the source: the alphabets, the shape of the loop (chunks of two
   destination bytes zipped with the source bytes, destination first) and the two digit indices are
   those of Hex.enc_loop; the unreachable hint is Hex.hex_encode_fallback's test *)
Lemma tie_hex_fallback :
  (forall up, List.find (fun p => Bool.eqb (fst p) up) hex_alphabets = Some (up, Hex.alphabet up)) /\
  hex_fallback_shape = (GInt 2, true, "c"%string) /\
  (forall c n, map (fun p => (geval (env1 "c" c) n (fst p), geval (env1 "c" c) n (snd p))) hex_fallback_digits
               = [(0, Z.shiftr c 4); (1, Z.land c 15)]) /\
  (forall ld ls n, ctest (env2 "dst.len" ld "src.len" ls) n hex_fallback_guard = (ld <? ls * 2)).
Proof. repeat split; try reflexivity. intros []; reflexivity. Qed.


(* GuardTieConstFns.v -- tier T2 tie (part of the former GuardTie.v, split so that a change of one function only reaches the
   properties whose theorems are stated over that function's regenerated guards): the list of const fns (C18) *)
From Coq Require Import String.
From GA Require Import Base Guards.
From GA Require Views Chunks SeqOps Builder Hex HeapOps ConstEval Serde.
From GAGen Require Import GenGuards GenConstFns.
Local Open Scope Z_scope.

Lemma of_nat_eqb a b : (Z.of_nat a =? Z.of_nat b) = Nat.eqb a b.
Proof.
  destruct (Nat.eqb_spec a b) as [->|H]; [apply Z.eqb_refl|]. apply Z.eqb_neq. lia.
Qed.

(* ---------------- C18: the const API ---------------- *)

Definition is_macro_name (n : string) : bool := String.prefix "arr!" n.

(* every function the model treats as const IS declared `const fn` in the source ... *)
Lemma tie_const_fns_declared :
  forallb (fun n => is_macro_name n || existsb (String.eqb n) source_const_fns)
          (map fst ConstEval.const_fns) = true.
Proof. vm_compute. reflexivity. Qed.

(* ... and every `const fn` of the source is covered by the model *)
Lemma tie_const_fns_covered :
  forallb (fun n => existsb (String.eqb n) (map fst ConstEval.const_fns)) source_const_fns = true.
Proof. vm_compute. reflexivity. Qed.


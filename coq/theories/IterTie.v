(* IterTie.v -- the regenerated programs of coq/gen/GenIter.v (translated from
   /repo/src/iter.rs and /repo/src/internal.rs on every run) compute exactly the hub
   functions of Iter.v, for every state satisfying the invariant.  A semantic change
   of the source changes the generated term and these proofs no longer go through. *)
From Coq Require Import String.
From GA Require Import Base Iter IterProofs MuRust.
From GAGen Require Import GenIter.
Local Open Scope Z_scope.

Definition DEPTH : nat := 3.

Definition bounded (s : it) : Prop := Z.of_nat (length (slots s)) < two64.

Definition lift_val (o : option Z) : val := match o with Some x => VSome (VId x) | None => VNone end.

Definition lift_res (r : res (option Z)) : mres val :=
  match r with Ret o => MRet (lift_val o) | Panicked => MPanic | UB => MUB end.

Definition lift3 (x : res (option Z) * it * list ev) (b : option Z) : out val :=
  let '(r, s', e) := x in (lift_res r, embed s', b, e).

Definition lift4 (x : R (option Z)) : out val :=
  let '(r, s', b', e) := x in (lift_res r, embed s', b', e).

Ltac mu_compute :=
  lazy beta iota zeta delta
    [String.eqb Ascii.eqb Bool.eqb combine call call_depth DEPTH
     iter_table iter_next iter_next_back iter_nth iter_nth_back iter_len iter_size_hint
     iter_count iter_last iter_as_slice iter_as_mut_slice iter_drop
     builder_table ibuilder_table consumer_table builder_drop builder_is_full ibuilder_drop
     ibuilder_is_full consumer_drop
     m_body m_self m_params exec exec_stmt eval bind ret ub lookup getf setf embed
     m_index m_back m_slots m_pos upd_field slen abandon map].

Ltac zcase :=
  match goal with
  | |- context [(?a <? ?b)%Z] => destruct (Z.ltb_spec a b)
  | |- context [(?a <=? ?b)%Z] => destruct (Z.leb_spec a b)
  | |- context [(?a =? ?b)%Z] => destruct (Z.eqb_spec a b)
  | |- context [(?a <? ?b)%nat] => destruct (Nat.ltb_spec a b)
  | |- context [(?a <=? ?b)%nat] => destruct (Nat.leb_spec a b)
  end; try (exfalso; unfold two64 in *; lia).

Ltac mu_run := repeat (mu_compute; cbn [andb]; zcase).

Ltac finish_state :=
  unfold lift3, lift4, lift_res, lift_val, embed, set_index, set_back;
  cbn [slots index back app]; rewrite ?app_nil_r; cbn [app]; repeat f_equal; try lia.

Ltac start_tie :=
  let Hi := fresh "Hi" in let Hb := fresh "Hb" in let Hbd := fresh "Hbd" in
  intros [Hi Hb] Hbd; unfold bounded, two64 in Hbd.

Ltac read_slot s i :=
  let x := fresh "x" in let Hx := fresh "Hx" in
  destruct (nth_error (slots s) i) as [x|] eqn:Hx;
  [|exfalso; apply nth_error_None in Hx; lia].

Lemma tie_next s b : Inv s -> bounded s ->
  call iter_table DEPTH "next" [] (embed s) b = lift3 (next s) b.
Proof.
  start_tie. unfold next. mu_run. all: rewrite ?Nat2Z.id.
  - read_slot s (index s). mu_run. mu_compute. finish_state.
  - mu_compute. finish_state.
Qed.

Lemma tie_next_back s b : Inv s -> bounded s ->
  call iter_table DEPTH "next_back" [] (embed s) b = lift3 (next_back s) b.
Proof.
  start_tie. unfold next_back. mu_run.
  all: try replace (Z.to_nat (Z.of_nat (back s) - 1)) with (back s - 1)%nat by lia.
  - read_slot s (back s - 1)%nat. mu_run. mu_compute. finish_state.
  - mu_compute. finish_state.
Qed.

Lemma tie_len s b : Inv s -> bounded s ->
  call iter_table DEPTH "len" [] (embed s) b = (MRet (VInt (Z.of_nat (len s))), embed s, b, []).
Proof. start_tie. unfold len. mu_run. mu_compute. cbn [app]. repeat f_equal. lia. Qed.

Lemma tie_size_hint s b : Inv s -> bounded s ->
  call iter_table DEPTH "size_hint" [] (embed s) b =
  (MRet (VPair (VInt (Z.of_nat (len s))) (VSome (VInt (Z.of_nat (len s))))), embed s, b, []).
Proof. start_tie. unfold len. mu_run. mu_compute. cbn [app]. repeat f_equal; lia. Qed.

Lemma tie_as_slice s b : Inv s -> bounded s ->
  call iter_table DEPTH "as_slice" [] (embed s) b =
  (MRet (VSlice (Z.of_nat (index s)) (Z.of_nat (back s))), embed s, b, []) /\
  call iter_table DEPTH "as_mut_slice" [] (embed s) b =
  (MRet (VSlice (Z.of_nat (index s)) (Z.of_nat (back s))), embed s, b, []).
Proof. start_tie. split; mu_run; mu_compute; cbn [app]; reflexivity. Qed.

(* the live range as the interpreter addresses it *)
Lemma range_embed s : range (Z.to_nat (Z.of_nat (index s))) (Z.to_nat (Z.of_nat (back s))) (slots s) = live s.
Proof. now rewrite !Nat2Z.id. Qed.

Definition drop3 (o : out val) : mres val * option Z * list ev := let '(r, _, b, e) := o in (r, b, e).

Lemma tie_drop s b : Inv s -> bounded s ->
  drop3 (call iter_table DEPTH "drop" [] (embed s) b) =
  (let '(fired, b', e) := drop_it b s in ((if fired then MPanic else MRet VUnit), b', e)).
Proof.
  start_tie. unfold drop_it. mu_run. rewrite range_embed.
  destruct (drop_list b (live s)) as [[fired b'] e]. destruct fired; mu_compute; cbn [drop3 app]; rewrite ?app_nil_r; reflexivity.
Qed.

Lemma clampn_Z n m : 0 <= n -> Z.of_nat (clampn n m) = Z.min n (Z.of_nat m).
Proof. intros H. unfold clampn. lia. Qed.

Lemma tie_nth s b n : Inv s -> bounded s -> 0 <= n < two64 ->
  call iter_table DEPTH "nth" [VInt n] (embed s) b = lift4 (nth_ b s n).
Proof.
  intros HI Hbd Hn. pose proof HI as [Hi Hb]. unfold bounded, two64 in Hbd. unfold two64 in Hn.
  unfold nth_. pose proof (clampn_le n (len s)) as Hk. pose proof (clampn_Z n (len s) (proj1 Hn)) as HkZ.
  set (k := clampn n (len s)) in *. unfold len in Hk, HkZ.
  mu_run.
  all: try match goal with |- context [range (Z.to_nat ?a) (Z.to_nat ?c) _] =>
         replace (Z.to_nat a) with (index s) by lia;
         replace (Z.to_nat c) with (index s + k)%nat by lia end.
  all: destruct (drop_list b (range (index s) (index s + k) (slots s))) as [[fired b'] e1];
       destruct fired.
  all: try (mu_compute; finish_state; fail).
  all: unfold next; cbn [index back slots set_index]; mu_run.
  all: rewrite ?Nat2Z.id.
  all: try match goal with |- context [nth_error _ (Z.to_nat ?a)] =>
         replace (Z.to_nat a) with (index s + k)%nat by lia end.
  all: try (read_slot s (index s + k)%nat; mu_run).
  all: mu_compute; finish_state.
Qed.

Lemma tie_nth_back s b n : Inv s -> bounded s -> 0 <= n < two64 ->
  call iter_table DEPTH "nth_back" [VInt n] (embed s) b = lift4 (nth_back_ b s n).
Proof.
  intros HI Hbd Hn. pose proof HI as [Hi Hb]. unfold bounded, two64 in Hbd. unfold two64 in Hn.
  unfold nth_back_. pose proof (clampn_le n (len s)) as Hk. pose proof (clampn_Z n (len s) (proj1 Hn)) as HkZ.
  set (k := clampn n (len s)) in *. unfold len in Hk, HkZ.
  mu_run.
  all: try match goal with |- context [range (Z.to_nat ?a) (Z.to_nat ?c) _] =>
         replace (Z.to_nat a) with (back s - k)%nat by lia;
         replace (Z.to_nat c) with (back s) by lia end.
  all: destruct (drop_list b (range (back s - k) (back s) (slots s))) as [[fired b'] e1];
       destruct fired.
  all: try (mu_compute; finish_state; fail).
  all: unfold next_back; cbn [index back slots set_back]; mu_run.
  all: try match goal with |- context [nth_error _ (Z.to_nat ?a)] =>
         replace (Z.to_nat a) with (back s - k - 1)%nat by lia end.
  all: try (read_slot s (back s - k - 1)%nat; mu_run).
  all: mu_compute; finish_state.
Qed.

(* by-value methods: the iterator is gone afterwards *)
Lemma tie_count s b : Inv s -> bounded s ->
  drop3 (call iter_table DEPTH "count" [] (embed s) b) =
  (let '(r, b', e) := count_ b s in
   (match r with Ret n => MRet (VInt (Z.of_nat n)) | Panicked => MPanic | UB => MUB end, b', e)).
Proof.
  start_tie. unfold count_, drop_it, len. mu_run. rewrite range_embed.
  destruct (drop_list b (live s)) as [[fired b'] e]. destruct fired; mu_compute; cbn [drop3 app];
    rewrite ?app_nil_r; repeat f_equal; lia.
Qed.

Lemma tie_last s b : Inv s -> bounded s ->
  drop3 (call iter_table DEPTH "last" [] (embed s) b) =
  (let '(r, b', e) := last_ b s in (lift_res r, b', e)).
Proof.
  start_tie. unfold last_, next_back, drop_it. mu_run.
  all: try replace (Z.to_nat (Z.of_nat (back s) - 1)) with (back s - 1)%nat by lia.
  - read_slot s (back s - 1)%nat. mu_run.
    replace (range (Z.to_nat (Z.of_nat (index s))) (Z.to_nat (Z.of_nat (back s) - 1)) (slots s))
      with (live (set_back s (back s - 1))) by (unfold live; cbn [index back slots set_back]; f_equal; lia).
    destruct (drop_list b (live (set_back s (back s - 1)))) as [[fired b'] e]. destruct fired;
      mu_compute; cbn [drop3 app lift_res lift_val]; rewrite ?app_nil_r; reflexivity.
  - rewrite range_embed. destruct (drop_list b (live s)) as [[fired b'] e]. destruct fired;
      mu_compute; cbn [drop3 app lift_res lift_val]; rewrite ?app_nil_r; reflexivity.
Qed.

(* internal.rs: builder / consumer Drop and is_full, over a receiver with `position` *)
Definition with_pos (slots0 : list Z) (p : nat) : mst := mkM slots0 0 0 (Z.of_nat p).

Lemma tie_builder_drop slots0 p b : (p <= length slots0)%nat ->
  drop3 (call builder_table DEPTH "drop" [] (with_pos slots0 p) b) =
  (let '(fired, b', e) := drop_list b (firstn p slots0) in ((if fired then MPanic else MRet VUnit), b', e)) /\
  drop3 (call ibuilder_table DEPTH "drop" [] (with_pos slots0 p) b) =
  (let '(fired, b', e) := drop_list b (firstn p slots0) in ((if fired then MPanic else MRet VUnit), b', e)).
Proof.
  intros Hp. unfold with_pos.
  assert (Hr : range (Z.to_nat 0) (Z.to_nat (Z.of_nat p)) slots0 = firstn p slots0).
  { unfold range. rewrite Nat2Z.id. cbn. now rewrite Nat.sub_0_r. }
  split; mu_run; rewrite Hr; destruct (drop_list b (firstn p slots0)) as [[fired b'] e]; destruct fired;
    mu_compute; cbn [drop3 app]; rewrite ?app_nil_r; reflexivity.
Qed.

Lemma tie_consumer_drop slots0 p b : (p <= length slots0)%nat ->
  drop3 (call consumer_table DEPTH "drop" [] (with_pos slots0 p) b) =
  (let '(fired, b', e) := drop_list b (skipn p slots0) in ((if fired then MPanic else MRet VUnit), b', e)).
Proof.
  intros Hp. unfold with_pos.
  assert (Hr : range (Z.to_nat (Z.of_nat p)) (Z.to_nat (Z.of_nat (length slots0))) slots0 = skipn p slots0).
  { unfold range. rewrite !Nat2Z.id. apply firstn_all2. rewrite skipn_length. lia. }
  mu_run; rewrite Hr; destruct (drop_list b (skipn p slots0)) as [[fired b'] e]; destruct fired;
    mu_compute; cbn [drop3 app]; rewrite ?app_nil_r; reflexivity.
Qed.

Lemma tie_is_full slots0 p b :
  call builder_table DEPTH "is_full" [] (with_pos slots0 p) b =
    (MRet (VBool (Z.of_nat p =? Z.of_nat (length slots0))), with_pos slots0 p, b, []) /\
  call ibuilder_table DEPTH "is_full" [] (with_pos slots0 p) b =
    (MRet (VBool (Z.of_nat p =? Z.of_nat (length slots0))), with_pos slots0 p, b, []).
Proof. unfold with_pos. split; mu_compute; cbn [app]; reflexivity. Qed.

(* into_iter: the iterator starts with index 0 and index_back N *)
Lemma tie_into_iter : into_iter_init = [(FIndex, EInt 0); (FIndexBack, ELenN)].
Proof. reflexivity. Qed.

(* MemProofs.v -- lemmas about the element-granular memory of Mem.v. *)
From GA Require Import Base Mem.

Lemma nth_error_upd_eq {A} (l : list A) i v : i < length l -> nth_error (upd i v l) i = Some v.
Proof.
  revert i; induction l as [|x l IH]; intros [|i] H; cbn in *; try lia; [reflexivity|].
  apply IH. lia.
Qed.

Lemma nth_error_upd_ne {A} (l : list A) i j v : i <> j -> nth_error (upd i v l) j = nth_error l j.
Proof.
  revert i j; induction l as [|x l IH]; intros [|i] [|j] H; cbn; try reflexivity; try lia.
  apply IH. lia.
Qed.

Lemma upd_nth_error_other {A} (l : list A) i j v x :
  i <> j -> nth_error l j = Some x -> nth_error (upd i v l) j = Some x.
Proof. intros H1 H2. now rewrite nth_error_upd_ne. Qed.

Lemma ptr_eq (p q : ptr) : pblk p = pblk q -> poff p = poff q -> p = q.
Proof. destruct p, q; cbn; intros -> ->; reflexivity. Qed.

Lemma padd_0 p : padd p 0 = p.
Proof. apply ptr_eq; cbn; lia. Qed.

Lemma padd_padd p i j : padd (padd p i) j = padd p (i + j).
Proof. apply ptr_eq; cbn; lia. Qed.

Lemma padd_inj p i j : padd p i = padd p j -> i = j.
Proof. unfold padd. intros H. injection H as H. lia. Qed.

(* element j of inner array i of an array of N-arrays is leaf i*N + j *)
Lemma padd_arr_padd N p i j : padd (padd_arr N p i) j = padd p (i * N + j).
Proof. apply ptr_eq; cbn; lia. Qed.

Lemma store_inv m p v m' : store m p v = Ret m' ->
  exists b, nth_error m (pblk p) = Some b /\ poff p < length b /\
            m' = upd (pblk p) (upd (poff p) (Init v) b) m.
Proof.
  unfold store. destruct (nth_error m (pblk p)) as [b|] eqn:E; [|discriminate].
  destruct (poff p <? length b) eqn:L; [|discriminate].
  intros H; injection H as <-. exists b. apply Nat.ltb_lt in L. auto.
Qed.

Lemma store_ok m p v : cell_at m p <> None -> exists m', store m p v = Ret m'.
Proof.
  unfold cell_at, store. destruct (nth_error m (pblk p)) as [b|] eqn:E; [|congruence].
  intros H. apply nth_error_Some in H. apply Nat.ltb_lt in H. rewrite H. eauto.
Qed.

Lemma cell_at_store_same m p v m' : store m p v = Ret m' -> cell_at m' p = Some (Init v).
Proof.
  intros H. destruct (store_inv _ _ _ _ H) as (b & Hb & Hlt & ->).
  unfold cell_at. rewrite nth_error_upd_eq.
  - apply nth_error_upd_eq. exact Hlt.
  - apply nth_error_Some. congruence.
Qed.

Lemma cell_at_store_other m p v m' q : store m p v = Ret m' -> q <> p -> cell_at m' q = cell_at m q.
Proof.
  intros H Hne. destruct (store_inv _ _ _ _ H) as (b & Hb & Hlt & ->).
  unfold cell_at. destruct (Nat.eq_dec (pblk p) (pblk q)) as [Eb|Eb].
  - rewrite <- Eb. rewrite nth_error_upd_eq by (apply nth_error_Some; congruence).
    rewrite Hb. apply nth_error_upd_ne. intro Eo. apply Hne. symmetry. now apply ptr_eq.
  - now rewrite nth_error_upd_ne.
Qed.

Lemma load_store_same m p v m' : store m p v = Ret m' -> load m' p = Ret v.
Proof. intros H. unfold load. now rewrite (cell_at_store_same _ _ _ _ H). Qed.

Lemma load_store_other m p v m' q : store m p v = Ret m' -> q <> p -> load m' q = load m q.
Proof. intros H Hne. unfold load. now rewrite (cell_at_store_other _ _ _ _ _ H Hne). Qed.

Lemma load_Ret_cell m p x : load m p = Ret x -> cell_at m p = Some (Init x).
Proof.
  unfold load. destruct (cell_at m p) as [[|y]|]; try discriminate. now intros [= ->].
Qed.

(* assignment through a reference to an initialised place succeeds *)
Lemma assign_ok m p v x : load m p = Ret x -> exists m', assign m p v = Ret m'.
Proof.
  intros H. unfold assign. rewrite H. cbn. apply store_ok.
  rewrite (load_Ret_cell _ _ _ H). discriminate.
Qed.

Lemma assign_inv m p v m' : assign m p v = Ret m' -> store m p v = Ret m'.
Proof. unfold assign. destruct (load m p); cbn; auto; discriminate. Qed.

Lemma load_assign_same m p v m' : assign m p v = Ret m' -> load m' p = Ret v.
Proof. intros H. apply assign_inv in H. eapply load_store_same; eauto. Qed.

Lemma load_assign_other m p v m' q : assign m p v = Ret m' -> q <> p -> load m' q = load m q.
Proof. intros H. apply assign_inv in H. eapply load_store_other; eauto. Qed.

Lemma cell_at_assign_other m p v m' q : assign m p v = Ret m' -> q <> p -> cell_at m' q = cell_at m q.
Proof. intros H. apply assign_inv in H. eapply cell_at_store_other; eauto. Qed.

Lemma nth_error_upd_inv {A} (l : list A) i v j x : nth_error (upd i v l) j = Some x ->
  (j = i /\ x = v /\ i < length l) \/ (j <> i /\ nth_error l j = Some x).
Proof.
  intros H. destruct (Nat.eq_dec j i) as [->|Hne].
  - left. assert (Hl : i < length l).
    { rewrite <- (upd_length i v l). apply nth_error_Some. congruence. }
    rewrite nth_error_upd_eq in H by exact Hl. now injection H as <-.
  - right. rewrite nth_error_upd_ne in H by auto. auto.
Qed.

(* a held range after an assignment inside it *)
Lemma holds_assign m p a i v m' : holds m p a -> assign m (padd p i) v = Ret m' ->
  holds m' p (upd i v a).
Proof.
  intros Hh Ha j x Hj. destruct (nth_error_upd_inv _ _ _ _ _ Hj) as [(-> & -> & _)|(Hne & Hj')].
  - eapply load_assign_same; eauto.
  - rewrite (load_assign_other _ _ _ _ _ Ha).
    + apply Hh; auto.
    + intro E. apply padd_inj in E. auto.
Qed.

(* a held range that an assignment does not touch *)
Lemma holds_frame m p a q v m' : holds m p a -> assign m q v = Ret m' ->
  (forall i, i < length a -> padd p i <> q) -> holds m' p a.
Proof.
  intros Hh Ha Hd j x Hj. rewrite (load_assign_other _ _ _ _ _ Ha).
  - apply Hh; auto.
  - apply Hd. apply nth_error_Some. congruence.
Qed.

Lemma holds_app m p a b : holds m p (a ++ b) <-> holds m p a /\ holds m (padd p (length a)) b.
Proof.
  split.
  - intros H. split; intros i x Hi.
    + apply H. rewrite nth_error_app1; auto. apply nth_error_Some. congruence.
    + rewrite padd_padd. apply H. rewrite nth_error_app2 by lia.
      replace (length a + i - length a) with i by lia. exact Hi.
  - intros [H1 H2] i x Hi. destruct (Nat.lt_ge_cases i (length a)) as [L|L].
    + rewrite nth_error_app1 in Hi by exact L. auto.
    + rewrite nth_error_app2 in Hi by exact L.
      replace i with (length a + (i - length a)) by lia. rewrite <- padd_padd. auto.
Qed.

Lemma nth_error_skipn_add {A} (l : list A) o i : nth_error (skipn o l) i = nth_error l (o + i).
Proof.
  revert l; induction o as [|o IH]; intros l; [reflexivity|].
  destruct l as [|x l]; cbn; [now destruct i|]. apply IH.
Qed.

Lemma nth_error_firstn_lt {A} (l : list A) n i : i < n -> nth_error (firstn n l) i = nth_error l i.
Proof.
  revert l i; induction n as [|n IH]; intros l i H; [lia|].
  destruct l as [|x l]; cbn; [reflexivity|]. destruct i as [|i]; cbn; [reflexivity|].
  apply IH. lia.
Qed.

(* a concrete memory: one block made of initialised cells *)
Lemma holds_init_block (l : list Z) o : o <= length l ->
  holds [map Init l] (mkptr 0 o) (skipn o l).
Proof.
  intros Ho i x Hi. unfold load, cell_at. cbn [nth_error pblk padd poff].
  rewrite nth_error_map. rewrite nth_error_skipn_add in Hi. rewrite Hi. reflexivity.
Qed.

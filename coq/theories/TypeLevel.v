(* TypeLevel.v -- the MEANING of the length bounds the crate declares (C12).
   Definitions only.

   typenum's operators on unsigned type-level integers are partial functions on
   the naturals (binary naturals [N], so that 2^63 is as cheap as 3):

     N: Add<B1>, Add1<N>          total,           N + 1
     N: Sub<B1>, Sub1<N>          iff 1 <= N,      N - 1
     N: Add<M>,  Sum<N, M>        total,           N + M
     N: Sub<K>,  Diff<N, K>       iff K <= N,      N - K
     N: Mul<M>,  Prod<N, M>       total,           N * M
     NM: Div<N>, Quot<NM, N>      iff N <> 0,      floor (NM / N)
     Const<U>: IntoArrayLength    iff U is in typenum's ToUInt table; ArrayLength = U
     X<Length = Y> / the same type variable at two positions     iff equal

   An impl header (or fn signature) is a list of such constraints over its
   length parameters plus the lengths of its associated / result types; it is
   plain data (SigDecls.v).  [sat] says for a valuation of the length
   parameters whether the bounds hold and, if so, which lengths the result
   types have.  What rustc does with the declarations is not proved here: it is
   compared with [sat] on a generated corpus (harness/src/bin/c12.rs). *)
From GA Require Import Base.
From Coq Require Import NArith.
Local Open Scope N_scope.

(* type-level length expressions *)
Inductive lexp : Type :=
| LVar (i : nat)                 (* i-th length parameter of the header (type N, or const U) *)
| LLit (n : N)                   (* typenum::consts::U<n> *)
| LAdd1 (e : lexp)               (* Add1<e> *)
| LSub1 (e : lexp)               (* Sub1<e> *)
| LSum (a b : lexp)              (* Sum<a, b> *)
| LDiff (a b : lexp)             (* Diff<a, b> *)
| LProd (a b : lexp)             (* Prod<a, b> *)
| LQuot (a b : lexp)             (* Quot<a, b> *)
| LOfConst (u : lexp).           (* ConstArrayLength<u> = <Const<u> as IntoArrayLength>::ArrayLength *)

Inductive constraint : Type :=
| CLen (e : lexp)                (* e: ArrayLength  (the type expression must be defined) *)
| CAddB1 (e : lexp)              (* e: Add<B1> *)
| CSubB1 (e : lexp)              (* e: Sub<B1> *)
| CAdd (a b : lexp)              (* a: Add<b> *)
| CSub (a b : lexp)              (* a: Sub<b> *)
| CMul (a b : lexp)              (* a: Mul<b> *)
| CDiv (a b : lexp)              (* a: Div<b> *)
| CAddB1Out (e o : lexp)         (* e: Add<B1, Output = o> *)
| CSubB1Out (e o : lexp)         (* e: Sub<B1, Output = o> *)
| CLenEq (a b : lexp)            (* associated-type equality bound: Length = .., Mapped = .. *)
| CSame (a b : lexp)             (* type identity: the same type must stand at both positions *)
| CConst (u : lexp)              (* Const<u>: IntoArrayLength *)
| CConstIs (u n : lexp).         (* Const<u>: IntoArrayLength<ArrayLength = n> *)

Definition valuation := list N.

(* typenum's generic_const_mappings table (typenum 1.20, 64-bit target):
   0..=1024, 2^k and 2^k - 1 for every k < 64 (and 2^64 - 1), 10^k < 2^64, 3600 *)
Definition pow2s : list N := map (fun k => 2 ^ N.of_nat k) (seq 0%nat 64%nat).
Definition pow10s : list N := map (fun k => 10 ^ N.of_nat k) (seq 0%nat 20%nat).
Definition in_touint (u : N) : bool :=
  (u <=? 1024) || existsb (N.eqb u) pow2s || existsb (fun p => u =? p - 1) pow2s
  || (u =? 2 ^ 64 - 1) || existsb (N.eqb u) pow10s || (u =? 3600).

Definition bind2 (f : N -> N -> option N) (x y : option N) : option N :=
  match x, y with Some a, Some b => f a b | _, _ => None end.

Fixpoint eval (v : valuation) (e : lexp) : option N :=
  match e with
  | LVar i => nth_error v i
  | LLit n => Some n
  | LAdd1 a => match eval v a with Some x => Some (x + 1) | None => None end
  | LSub1 a => match eval v a with Some x => if 1 <=? x then Some (x - 1) else None | None => None end
  | LSum a b => bind2 (fun x y => Some (x + y)) (eval v a) (eval v b)
  | LDiff a b => bind2 (fun x y => if y <=? x then Some (x - y) else None) (eval v a) (eval v b)
  | LProd a b => bind2 (fun x y => Some (x * y)) (eval v a) (eval v b)
  | LQuot a b => bind2 (fun x y => if y =? 0 then None else Some (x / y)) (eval v a) (eval v b)
  | LOfConst u => match eval v u with Some x => if in_touint x then Some x else None | None => None end
  end.

Definition defined (v : valuation) (e : lexp) : bool :=
  match eval v e with Some _ => true | None => false end.

Definition eval_eq (v : valuation) (a b : lexp) : bool :=
  match eval v a, eval v b with Some x, Some y => x =? y | _, _ => false end.

Definition holds (v : valuation) (c : constraint) : bool :=
  match c with
  | CLen e => defined v e
  | CAddB1 e => defined v (LAdd1 e)
  | CSubB1 e => defined v (LSub1 e)
  | CAdd a b => defined v (LSum a b)
  | CSub a b => defined v (LDiff a b)
  | CMul a b => defined v (LProd a b)
  | CDiv a b => defined v (LQuot a b)
  | CAddB1Out e o => eval_eq v (LAdd1 e) o
  | CSubB1Out e o => eval_eq v (LSub1 e) o
  | CLenEq a b => eval_eq v a b
  | CSame a b => eval_eq v a b
  | CConst u => defined v (LOfConst u)
  | CConstIs u n => eval_eq v (LOfConst u) n
  end.

Fixpoint eval_all (v : valuation) (es : list lexp) : option (list N) :=
  match es with
  | [] => Some []
  | e :: r =>
    match eval v e, eval_all v r with
    | Some x, Some l => Some (x :: l)
    | _, _ => None
    end
  end.

(* bounds hold => the lengths of the result types; otherwise the use is a type error *)
Definition sat (cs : list constraint) (outs : list lexp) (v : valuation) : option (list N) :=
  if forallb (holds v) cs then eval_all v outs else None.

(* one impl header / fn signature relating lengths *)
Record decl : Type := mkDecl {
  d_op : Z;                      (* operation code, shared with the harness *)
  d_variant : Z;                 (* which of the impls / methods of that operation *)
  d_arity : nat;                 (* number of length parameters *)
  d_where : list constraint;
  d_out : list lexp              (* lengths of the associated / result types *)
}.

Definition sat_decl (d : decl) (v : valuation) : option (list N) :=
  if Nat.eqb (length v) (d_arity d) then sat (d_where d) (d_out d) v else None.

Definition accepted (d : decl) (v : valuation) (r : list N) : Prop := sat_decl d v = Some r.
Definition accepts (d : decl) (v : valuation) : Prop := exists r, accepted d v r.

(* a use site may also ascribe a type to the i-th result (`let r: GenericArray<_, Uc> = ..`):
   type identity between the inferred and the written length *)
Definition ascribe (r : option (list N)) (claim : option (nat * N)) : option (list N) :=
  match r, claim with
  | Some l, Some (i, c) =>
    match nth_error l i with
    | Some x => if x =? c then Some l else None
    | None => None
    end
  | _, _ => r
  end.

(* several impls of one trait (the tuple table): the use is accepted by the
   first impl whose header matches; impls are non-overlapping so at most one does *)
Fixpoint sat_any (ds : list decl) (v : valuation) : option (list N) :=
  match ds with
  | [] => None
  | d :: r => match sat_decl d v with Some l => Some l | None => sat_any r v end
  end.

(* CmpHashProofs.v -- lemmas about CmpHash.v.
   A. the GenericArray impls return what the slice specification returns
   B. map lookups through the Borrow<[T]> form
   C. what the slice specification means (so that A is not agreement with an
      arbitrary function): first difference decides, abstract lexicographic order,
      eq <-> partial_cmp = Some Eq, partial_cmp/cmp consistency, antisymmetry,
      transitivity, prefixes, length prefix of the hash feed
   D. non-vacuity examples and a refuted mutant *)
From GA Require Import Base CmpHash.
Local Open Scope Z_scope.

(* ------------------------------------------------------------------ *)
(* A. delegation                                                       *)

Section Agreement.
  Context {T : Type}.
  Variable eqT : T -> T -> bool.
  Variable pcmpT : T -> T -> option comparison.
  Variable cmpT : T -> T -> comparison.
  Variable h : hasht T.
  Variable dbgT : fmtspec -> T -> list Z.

  Lemma ga_eq_slice a b :
    ga_eq eqT a b = slice_eq eqT (storage a) (storage b) /\
    ga_ne eqT a b = slice_ne eqT (storage a) (storage b).
  Proof. split; reflexivity. Qed.

  Lemma ga_partial_cmp_slice a b :
    ga_partial_cmp pcmpT a b = slice_partial_cmp pcmpT (storage a) (storage b) /\
    ga_lt pcmpT a b = is_lt (slice_partial_cmp pcmpT (storage a) (storage b)) /\
    ga_le pcmpT a b = is_le (slice_partial_cmp pcmpT (storage a) (storage b)) /\
    ga_gt pcmpT a b = is_gt (slice_partial_cmp pcmpT (storage a) (storage b)) /\
    ga_ge pcmpT a b = is_ge (slice_partial_cmp pcmpT (storage a) (storage b)).
  Proof. repeat split; reflexivity. Qed.

  Lemma ga_cmp_slice a b : ga_cmp cmpT a b = slice_cmp cmpT (storage a) (storage b).
  Proof. reflexivity. Qed.

  Lemma ga_hash_slice a : ga_hash h a = slice_hash h (storage a).
  Proof. reflexivity. Qed.

  Lemma ga_debug_slice f a : ga_debug dbgT f a = slice_debug dbgT f (storage a).
  Proof. reflexivity. Qed.

  Lemma ga_views (a : garr T) :
    ga_borrow a = storage a /\ ga_borrow_mut a = storage a /\
    ga_as_ref a = storage a /\ ga_as_mut a = storage a /\ deref a = storage a.
  Proof. repeat split; reflexivity. Qed.
End Agreement.

(* ------------------------------------------------------------------ *)
(* feed equality is decidable by feed_eqb                              *)

Lemma listZ_eqb_spec a b : listZ_eqb a b = true <-> a = b.
Proof.
  revert b; induction a as [|x a IH]; intros [|y b]; cbn; try (split; congruence).
  rewrite andb_true_iff, Z.eqb_eq, IH. split; [intros [-> ->]; reflexivity|].
  intros E; injection E; auto.
Qed.

Lemma tok_eqb_spec s t : tok_eqb s t = true <-> s = t.
Proof.
  destruct s, t; cbn; try (split; congruence).
  - rewrite Z.eqb_eq. split; congruence.
  - rewrite andb_true_iff, Z.eqb_eq, listZ_eqb_spec. split; [intros [-> ->]; reflexivity|].
    intros E; injection E; auto.
  - rewrite listZ_eqb_spec. split; congruence.
Qed.

Lemma feed_eqb_spec a b : feed_eqb a b = true <-> a = b.
Proof.
  revert b; induction a as [|x a IH]; intros [|y b]; cbn; try (split; congruence).
  rewrite andb_true_iff, tok_eqb_spec, IH. split; [intros [-> ->]; reflexivity|].
  intros E; injection E; auto.
Qed.

Lemma feed_eqb_refl a : feed_eqb a a = true.
Proof. apply feed_eqb_spec. reflexivity. Qed.

(* ------------------------------------------------------------------ *)
(* C. the slice specification                                          *)

Lemma Forall2_len {A B} (R : A -> B -> Prop) a b : Forall2 R a b -> length a = length b.
Proof. intros H; induction H; cbn; congruence. Qed.

Lemma Forall2_imp {A B} (R S : A -> B -> Prop) a b :
  (forall x y, R x y -> S x y) -> Forall2 R a b -> Forall2 S a b.
Proof. intros HI H; induction H; constructor; auto. Qed.

Section SliceFacts.
  Context {T : Type}.
  Variable eqT : T -> T -> bool.
  Variable pcmpT : T -> T -> option comparison.
  Variable cmpT : T -> T -> comparison.

  Definition EqR (x y : T) : Prop := pcmpT x y = Some Eq.

  (* == *)
  Lemma all2_Forall2 a b : length a = length b ->
    (all2 eqT a b = true <-> Forall2 (fun x y => eqT x y = true) a b).
  Proof.
    revert b; induction a as [|x a IH]; intros [|y b] Hl; cbn in *; try discriminate.
    - split; [constructor | reflexivity].
    - injection Hl as Hl. destruct (eqT x y) eqn:E.
      + rewrite (IH b Hl). split; [intros H; constructor; assumption|].
        intros H; inversion H; assumption.
      + split; [discriminate|]. intros H; inversion H; congruence.
  Qed.

  Lemma slice_eq_Forall2 a b :
    slice_eq eqT a b = true <-> Forall2 (fun x y => eqT x y = true) a b.
  Proof.
    unfold slice_eq. destruct (Nat.eqb (length a) (length b)) eqn:E.
    - apply Nat.eqb_eq in E. apply all2_Forall2. exact E.
    - apply Nat.eqb_neq in E. split; [discriminate|].
      intros H. apply Forall2_len in H. contradiction.
  Qed.

  Lemma slice_eq_length a b : slice_eq eqT a b = true -> length a = length b.
  Proof. intros H. apply slice_eq_Forall2 in H. eapply Forall2_len; eassumption. Qed.

  Lemma slice_eq_refl a : Forall (fun x => eqT x x = true) a -> slice_eq eqT a a = true.
  Proof.
    intros H. apply slice_eq_Forall2. induction H; constructor; assumption.
  Qed.

  (* an array holding an element that is not equal to itself (NaN) is not equal to itself *)
  Lemma slice_eq_irrefl a x : In x a -> eqT x x = false -> slice_eq eqT a a = false.
  Proof.
    intros Hin Hx. destruct (slice_eq eqT a a) eqn:E; [|reflexivity].
    apply slice_eq_Forall2 in E. exfalso.
    induction a as [|y a IH]; [contradiction|].
    inversion E; subst. destruct Hin as [->|Hin]; [congruence|auto].
  Qed.

  (* partial_cmp: the first pair that is not Some Eq decides, whatever follows *)
  Lemma pcmp_first_difference p q x y r r' :
    Forall2 EqR p q -> pcmpT x y <> Some Eq ->
    slice_partial_cmp pcmpT (p ++ x :: r) (q ++ y :: r') = pcmpT x y.
  Proof.
    intros H Hne. unfold slice_partial_cmp.
    induction H as [|u v p q Huv H IH]; cbn.
    - destruct (pcmpT x y) as [[]|]; try reflexivity. congruence.
    - unfold EqR in Huv. rewrite Huv. exact IH.
  Qed.

  (* the general slice rule for a proper prefix: Less (Greater the other way round) *)
  Lemma pcmp_prefix_lt p q y r :
    Forall2 EqR p q -> slice_partial_cmp pcmpT p (q ++ y :: r) = Some Lt.
  Proof.
    intros H. unfold slice_partial_cmp.
    induction H as [|u v p q Huv H IH]; cbn; [reflexivity|].
    unfold EqR in Huv. rewrite Huv.
    destruct (pcmp_loop pcmpT p (q ++ y :: r)); [exact IH|].
    cbn in IH |- *. exact IH.
  Qed.

  Lemma pcmp_prefix_gt p q x r :
    Forall2 EqR p q -> slice_partial_cmp pcmpT (p ++ x :: r) q = Some Gt.
  Proof.
    intros H. unfold slice_partial_cmp.
    induction H as [|u v p q Huv H IH]; cbn; [reflexivity|].
    unfold EqR in Huv. rewrite Huv.
    destruct (pcmp_loop pcmpT (p ++ x :: r) q); [exact IH|].
    cbn in IH |- *. exact IH.
  Qed.

  Lemma pcmp_all_equal p q : Forall2 EqR p q -> slice_partial_cmp pcmpT p q = Some Eq.
  Proof.
    intros H. unfold slice_partial_cmp.
    induction H as [|u v p q Huv H IH]; cbn; [reflexivity|].
    unfold EqR in Huv. rewrite Huv.
    destruct (pcmp_loop pcmpT p q); [exact IH|]. cbn in IH |- *. exact IH.
  Qed.

  (* ... and every pair of slices has exactly one of these four shapes: the three
     lemmas above determine partial_cmp completely *)
  Lemma pcmp_shapes a b : exists p q, Forall2 EqR p q /\
    ((a = p /\ b = q) \/
     (a = p /\ exists y r, b = q ++ y :: r) \/
     (b = q /\ exists x r, a = p ++ x :: r) \/
     (exists x y r r', a = p ++ x :: r /\ b = q ++ y :: r' /\ pcmpT x y <> Some Eq)).
  Proof.
    revert b; induction a as [|x a IH]; intros b.
    - exists [], []. split; [constructor|]. destruct b as [|y b]; [left; auto|].
      right; left. split; [reflexivity|]. exists y, b. reflexivity.
    - destruct b as [|y b].
      + exists [], []. split; [constructor|]. right; right; left. split; [reflexivity|].
        exists x, a. reflexivity.
      + destruct (pcmpT x y) as [[]|] eqn:E.
        * destruct (IH b) as (p & q & HF & Hs). exists (x :: p), (y :: q).
          split; [constructor; assumption|].
          destruct Hs as [[-> ->]|[[-> (y' & r & ->)]|[[-> (x' & r & ->)]|(x' & y' & r & r' & -> & -> & Hne)]]].
          -- left; auto.
          -- right; left. split; [reflexivity|]. exists y', r. reflexivity.
          -- right; right; left. split; [reflexivity|]. exists x', r. reflexivity.
          -- right; right; right. exists x', y', r, r'. auto.
        * exists [], []. split; [constructor|]. right; right; right.
          exists x, y, a, b. repeat split. congruence.
        * exists [], []. split; [constructor|]. right; right; right.
          exists x, y, a, b. repeat split. congruence.
        * exists [], []. split; [constructor|]. right; right; right.
          exists x, y, a, b. repeat split. congruence.
  Qed.

  (* for arrays of the same type (equal lengths) the length tie-break never decides *)
  Lemma pcmp_loop_None_lengths a b : length a = length b ->
    pcmp_loop pcmpT a b = None -> Nat.compare (length a) (length b) = Eq.
  Proof. intros -> _. apply Nat.compare_refl. Qed.

  Lemma pcmp_same_length a b : length a = length b ->
    slice_partial_cmp pcmpT a b =
    match pcmp_loop pcmpT a b with Some r => r | None => Some Eq end.
  Proof.
    intros Hl. unfold slice_partial_cmp. destruct (pcmp_loop pcmpT a b); [reflexivity|].
    rewrite Hl, Nat.compare_refl. reflexivity.
  Qed.

  (* partial_cmp = Some Less is the abstract lexicographic order *)
  Lemma pcmp_lt_lex a b :
    slice_partial_cmp pcmpT a b = Some Lt <->
    lex_lt (fun x y => pcmpT x y = Some Lt) EqR a b.
  Proof.
    unfold slice_partial_cmp. revert b; induction a as [|x a IH]; intros [|y b]; cbn.
    - split; [discriminate|]. intros H; inversion H.
    - split; [constructor | reflexivity].
    - split; [discriminate|]. intros H; inversion H.
    - destruct (pcmpT x y) as [[]|] eqn:E.
      + specialize (IH b). destruct (pcmp_loop pcmpT a b) as [r|] eqn:EL.
        * rewrite IH. split; [intros H; apply lex_next; assumption|].
          intros H; inversion H; subst; [congruence|assumption].
        * cbn in IH |- *. rewrite IH. split; [intros H; apply lex_next; assumption|].
          intros H; inversion H; subst; [congruence|assumption].
      + split; [intros _; apply lex_here; assumption | reflexivity].
      + split; [discriminate|]. intros H; inversion H; subst; unfold EqR in *; congruence.
      + split; [discriminate|]. intros H; inversion H; subst; unfold EqR in *; congruence.
  Qed.

  (* == agrees with partial_cmp = Some Equal when the elements' do (the PartialOrd contract) *)
  Hypothesis eq_pcmp : forall x y, eqT x y = true <-> pcmpT x y = Some Eq.

  Lemma slice_eq_iff_pcmp_eq a b :
    slice_eq eqT a b = true <-> slice_partial_cmp pcmpT a b = Some Eq.
  Proof.
    rewrite slice_eq_Forall2. split.
    - intros H. apply pcmp_all_equal.
      eapply Forall2_imp; [|exact H]. intros x y; apply eq_pcmp.
    - intros H. destruct (pcmp_shapes a b) as (p & q & HF & Hs).
      assert (HF' : Forall2 (fun x y => eqT x y = true) p q).
      { eapply Forall2_imp; [|exact HF]. intros x y; apply eq_pcmp. }
      destruct Hs as [[-> ->]|[[-> (y' & r & ->)]|[[-> (x' & r & ->)]|(x' & y' & r & r' & -> & -> & Hne)]]].
      + exact HF'.
      + rewrite (pcmp_prefix_lt p q y' r HF) in H. discriminate.
      + rewrite (pcmp_prefix_gt p q x' r HF) in H. discriminate.
      + rewrite (pcmp_first_difference p q x' y' r r' HF Hne) in H. contradiction.
  Qed.
End SliceFacts.

Section OrdFacts.
  Context {T : Type}.
  Variable pcmpT : T -> T -> option comparison.
  Variable cmpT : T -> T -> comparison.

  (* partial_cmp = Some(cmp) when the elements' are (the Ord contract) *)
  Lemma pcmp_loop_cmp_loop a b : (forall x y, pcmpT x y = Some (cmpT x y)) ->
    pcmp_loop pcmpT a b = option_map Some (cmp_loop cmpT a b).
  Proof.
    intros Hc. revert b; induction a as [|x a IH]; intros [|y b]; cbn; try reflexivity.
    rewrite Hc. destruct (cmpT x y); try reflexivity. apply IH.
  Qed.

  Lemma slice_pcmp_is_cmp a b : (forall x y, pcmpT x y = Some (cmpT x y)) ->
    slice_partial_cmp pcmpT a b = Some (slice_cmp cmpT a b).
  Proof.
    intros Hc. unfold slice_partial_cmp, slice_cmp. rewrite (pcmp_loop_cmp_loop a b Hc).
    destruct (cmp_loop cmpT a b); reflexivity.
  Qed.

  (* antisymmetry: swapping the operands reverses the result *)
  Lemma nat_compare_opp n m : Nat.compare m n = CompOpp (Nat.compare n m).
  Proof. apply Nat.compare_antisym. Qed.

  Lemma slice_cmp_antisym a b : (forall x y, cmpT y x = CompOpp (cmpT x y)) ->
    slice_cmp cmpT b a = CompOpp (slice_cmp cmpT a b).
  Proof.
    intros Ha. unfold slice_cmp. revert b; induction a as [|x a IH]; intros [|y b]; cbn; try reflexivity.
    rewrite (Ha x y). destruct (cmpT x y); cbn; try reflexivity.
    specialize (IH b). destruct (cmp_loop cmpT a b), (cmp_loop cmpT b a); cbn in *; exact IH.
  Qed.

  Definition opp_opt (o : option comparison) : option comparison := option_map CompOpp o.

  Lemma slice_pcmp_antisym a b : (forall x y, pcmpT y x = opp_opt (pcmpT x y)) ->
    slice_partial_cmp pcmpT b a = opp_opt (slice_partial_cmp pcmpT a b).
  Proof.
    intros Ha. unfold slice_partial_cmp.
    revert b; induction a as [|x a IH]; intros [|y b]; cbn; try reflexivity.
    rewrite (Ha x y). destruct (pcmpT x y) as [[]|]; cbn; try reflexivity.
    specialize (IH b). destruct (pcmp_loop pcmpT a b), (pcmp_loop pcmpT b a); cbn in *; exact IH.
  Qed.

  (* cmp = Less is the abstract lexicographic order, which is transitive *)
  Definition LtR (x y : T) : Prop := cmpT x y = Lt.
  Definition EqC (x y : T) : Prop := cmpT x y = Eq.

  Lemma cmp_lt_lex a b : slice_cmp cmpT a b = Lt <-> lex_lt LtR EqC a b.
  Proof.
    unfold slice_cmp. revert b; induction a as [|x a IH]; intros [|y b]; cbn.
    - split; [discriminate|]. intros H; inversion H.
    - split; [constructor | reflexivity].
    - split; [discriminate|]. intros H; inversion H.
    - destruct (cmpT x y) eqn:E.
      + specialize (IH b). destruct (cmp_loop cmpT a b) as [r|] eqn:EL.
        * rewrite IH. split; [intros H; apply lex_next; assumption|].
          intros H; inversion H; subst; unfold LtR in *; [congruence|assumption].
        * cbn in IH |- *. rewrite IH. split; [intros H; apply lex_next; assumption|].
          intros H; inversion H; subst; unfold LtR in *; [congruence|assumption].
      + split; [intros _; apply lex_here; assumption | reflexivity].
      + split; [discriminate|]. intros H; inversion H; subst; unfold LtR, EqC in *; congruence.
  Qed.

  Lemma cmp_eq_pointwise a b : slice_cmp cmpT a b = Eq <-> Forall2 EqC a b.
  Proof.
    unfold slice_cmp. revert b; induction a as [|x a IH]; intros [|y b]; cbn.
    - split; [constructor | reflexivity].
    - split; [discriminate|]. intros H; inversion H.
    - split; [discriminate|]. intros H; inversion H.
    - destruct (cmpT x y) eqn:E.
      + specialize (IH b). destruct (cmp_loop cmpT a b) as [r|] eqn:EL.
        * rewrite IH. split; [intros H; constructor; assumption|]. intros H; inversion H; assumption.
        * cbn in IH |- *. rewrite IH. split; [intros H; constructor; assumption|]. intros H; inversion H; assumption.
      + split; [discriminate|]. intros H; inversion H; subst; unfold EqC in *; congruence.
      + split; [discriminate|]. intros H; inversion H; subst; unfold EqC in *; congruence.
  Qed.

  Section Trans.
    Hypothesis lt_trans : forall x y z, cmpT x y = Lt -> cmpT y z = Lt -> cmpT x z = Lt.
    Hypothesis eq_trans : forall x y z, cmpT x y = Eq -> cmpT y z = Eq -> cmpT x z = Eq.
    Hypothesis eq_lt : forall x y z, cmpT x y = Eq -> cmpT y z = Lt -> cmpT x z = Lt.
    Hypothesis lt_eq : forall x y z, cmpT x y = Lt -> cmpT y z = Eq -> cmpT x z = Lt.

    Lemma lex_lt_trans a b c : lex_lt LtR EqC a b -> lex_lt LtR EqC b c -> lex_lt LtR EqC a c.
    Proof.
      intros H; revert c; induction H as [y b|x y a b Hxy|x y a b Hxy H IH]; intros c Hc;
        inversion Hc; subst; unfold LtR, EqC in *.
      - constructor.
      - constructor.
      - apply lex_here. eapply lt_trans; eassumption.
      - apply lex_here. eapply lt_eq; eassumption.
      - apply lex_here. eapply eq_lt; eassumption.
      - apply lex_next; [eapply eq_trans; eassumption | apply IH; assumption].
    Qed.

    Lemma slice_cmp_lt_trans a b c :
      slice_cmp cmpT a b = Lt -> slice_cmp cmpT b c = Lt -> slice_cmp cmpT a c = Lt.
    Proof. rewrite !cmp_lt_lex. apply lex_lt_trans. Qed.
  End Trans.
End OrdFacts.

(* hash feed: the length prefix separates slices of different lengths, whatever
   the elements feed *)
Lemma slice_hash_length {T} (h : hasht T) a b :
  slice_hash h a = slice_hash h b -> length a = length b.
Proof. unfold slice_hash, zlen. intros E. injection E as E _. lia. Qed.

(* with the provided hash_slice the feed is the length followed by the elements' feeds in order *)
Lemma slice_hash_provided {T} (one : T -> list tok) l :
  slice_hash (Hasht one (provided_hash_slice one)) l = TLen (zlen l) :: flat_map one l.
Proof. reflexivity. Qed.

(* ------------------------------------------------------------------ *)
(* B. lookups                                                          *)

Section Lookup.
  Context {T V : Type}.
  Variable eqT : T -> T -> bool.
  Variable cmpT : T -> T -> comparison.
  Variable h : hasht T.

  (* looking a key up through its Borrow<[T]> form is looking the key up *)
  Lemma hm_lookup_borrow (m : list (garr T * V)) k :
    hm_get_slice eqT h m (ga_borrow k) = hm_get_key eqT h m k.
  Proof. reflexivity. Qed.

  Lemma bt_lookup_borrow (m : list (garr T * V)) k :
    bt_get_slice cmpT m (ga_borrow k) = bt_get_key cmpT m k.
  Proof. reflexivity. Qed.

  (* ... and a key that is in the map is found that way (elements equal to
     themselves: the Eq contract) *)
  Lemma hm_found (m : list (garr T * V)) k v :
    Forall (fun x => eqT x x = true) (storage k) -> In (k, v) m ->
    exists e, hm_get_slice eqT h m (ga_borrow k) = Some e /\ ga_eq eqT (fst e) k = true.
  Proof.
    intros Hr Hin. unfold hm_get_slice.
    set (P := fun e : garr T * V => feed_eqb (ga_hash h (fst e)) (slice_hash h (ga_borrow k))
                && slice_eq eqT (ga_borrow (fst e)) (ga_borrow k)).
    assert (HP : P (k, v) = true).
    { unfold P. cbn [fst]. apply andb_true_iff. split.
      - apply feed_eqb_refl.
      - apply slice_eq_refl. exact Hr. }
    destruct (find P m) as [e|] eqn:E.
    - exists e. split; [reflexivity|]. apply find_some in E. destruct E as [_ E].
      unfold P in E. apply andb_true_iff in E. exact (proj2 E).
    - exfalso. pose proof (find_none P m E (k, v) Hin) as Hn. congruence.
  Qed.

  Lemma bt_found (m : list (garr T * V)) k v :
    slice_cmp cmpT (storage k) (storage k) = Eq -> In (k, v) m ->
    exists e, bt_get_slice cmpT m (ga_borrow k) = Some e /\ ga_cmp cmpT (fst e) k = Eq.
  Proof.
    intros Hr Hin. unfold bt_get_slice.
    set (P := fun e : garr T * V =>
                match slice_cmp cmpT (ga_borrow (fst e)) (ga_borrow k) with Eq => true | _ => false end).
    assert (HP : P (k, v) = true).
    { unfold P. cbn [fst]. unfold ga_borrow, as_slice. rewrite Hr. reflexivity. }
    destruct (find P m) as [e|] eqn:E.
    - exists e. split; [reflexivity|]. apply find_some in E. destruct E as [_ E].
      unfold P in E. unfold ga_cmp. unfold ga_borrow in E.
      destruct (slice_cmp cmpT (as_slice (fst e)) (as_slice k)); congruence.
    - exfalso. pose proof (find_none P m E (k, v) Hin) as Hn. congruence.
  Qed.

  (* after insert(k, v), get(k.borrow()) returns v *)
  Lemma hm_insert_get (m : list (garr T * V)) k v :
    Forall (fun x => eqT x x = true) (storage k) ->
    exists k', hm_get_slice eqT h (hm_insert eqT h m k v) (ga_borrow k) = Some (k', v)
               /\ ga_eq eqT k' k = true.
  Proof.
    intros Hr. unfold hm_get_slice. induction m as [|e r IH]; cbn [hm_insert].
    - exists k. cbn [find fst]. rewrite feed_eqb_refl. cbn [andb].
      assert (E : slice_eq eqT (ga_borrow k) (ga_borrow k) = true) by (apply slice_eq_refl; exact Hr).
      rewrite E. split; [reflexivity | exact E].
    - destruct (feed_eqb (ga_hash h (fst e)) (ga_hash h k) && ga_eq eqT (fst e) k) eqn:E.
      + exists (fst e). cbn [find fst]. change (slice_hash h (ga_borrow k)) with (ga_hash h k).
        change (slice_eq eqT (ga_borrow (fst e)) (ga_borrow k)) with (ga_eq eqT (fst e) k).
        rewrite E. split; [reflexivity|]. apply andb_true_iff in E. exact (proj2 E).
      + destruct IH as (k' & IH1 & IH2). exists k'. cbn [find].
        change (slice_hash h (ga_borrow k)) with (ga_hash h k) in *.
        change (slice_eq eqT (ga_borrow (fst e)) (ga_borrow k)) with (ga_eq eqT (fst e) k).
        rewrite E. split; assumption.
  Qed.

  Lemma bt_insert_get (m : list (garr T * V)) k v :
    slice_cmp cmpT (storage k) (storage k) = Eq ->
    exists k', bt_get_slice cmpT (bt_insert cmpT m k v) (ga_borrow k) = Some (k', v)
               /\ ga_cmp cmpT k' k = Eq.
  Proof.
    intros Hr. unfold bt_get_slice. induction m as [|e r IH]; cbn [bt_insert].
    - exists k. cbn [find fst]. unfold ga_borrow, as_slice, ga_cmp, as_slice. rewrite Hr. auto.
    - change (slice_cmp cmpT (ga_borrow (fst e)) (ga_borrow k)) with (ga_cmp cmpT (fst e) k) in *.
      destruct (ga_cmp cmpT (fst e) k) eqn:E.
      + exists (fst e). cbn [find fst].
        change (slice_cmp cmpT (ga_borrow (fst e)) (ga_borrow k)) with (ga_cmp cmpT (fst e) k).
        rewrite E. auto.
      + destruct IH as (k' & IH1 & IH2). exists k'. cbn [find].
        change (slice_cmp cmpT (ga_borrow (fst e)) (ga_borrow k)) with (ga_cmp cmpT (fst e) k).
        rewrite E. auto.
      + destruct IH as (k' & IH1 & IH2). exists k'. cbn [find].
        change (slice_cmp cmpT (ga_borrow (fst e)) (ga_borrow k)) with (ga_cmp cmpT (fst e) k).
        rewrite E. auto.
  Qed.
End Lookup.

(* reflexivity of cmp on a slice from reflexivity on its elements *)
Lemma slice_cmp_refl {T} (cmpT : T -> T -> comparison) a :
  Forall (fun x => cmpT x x = Eq) a -> slice_cmp cmpT a a = Eq.
Proof.
  intros H. apply cmp_eq_pointwise. induction H; constructor; assumption.
Qed.

(* ------------------------------------------------------------------ *)
(* D. the theorems discriminate                                        *)

(* hashing the elements without the length prefix never gives the slice's feed *)
Lemma noprefix_refuted {T} (h : hasht T) (a : garr T) :
  ga_hash_noprefix h a <> slice_hash h (storage a).
Proof.
  unfold ga_hash_noprefix, slice_hash, as_slice. intros E.
  apply (f_equal (@length tok)) in E. cbn in E. lia.
Qed.

(* ... and with it a map keyed by the array's hash loses its key when queried by slice *)
Definition hm_get_slice_noprefix {T V} (eqT : T -> T -> bool) (h : hasht T) (m : list (garr T * V)) (q : list T) :=
  find (fun e => feed_eqb (ga_hash_noprefix h (fst e)) (slice_hash h q) && slice_eq eqT (ga_borrow (fst e)) q) m.

Lemma noprefix_lookup_fails :
  hm_get_slice_noprefix int_eq u8_hasht [(GA [1; 2], 7)] [1; 2] = None /\
  hm_get_slice int_eq u8_hasht [(GA [1; 2], 7)] [1; 2] = Some (GA [1; 2], 7).
Proof. split; reflexivity. Qed.

(* concrete values *)
Definition nan := FNan.
Definition fl (k : Z) := FNum k false.

Example ex_nan_ne : ga_eq f64_eq (GA [nan]) (GA [nan]) = false /\ ga_ne f64_eq (GA [nan]) (GA [nan]) = true.
Proof. split; reflexivity. Qed.
Example ex_nan_incomparable :
  ga_partial_cmp f64_pcmp (GA [fl 1; nan]) (GA [fl 1; fl 2]) = None /\
  ga_partial_cmp f64_pcmp (GA [fl 1; nan]) (GA [fl 2; nan]) = Some Lt /\
  ga_le f64_pcmp (GA [nan]) (GA [nan]) = false /\ ga_ge f64_pcmp (GA [nan]) (GA [nan]) = false.
Proof. repeat split; reflexivity. Qed.
Example ex_signed_zero : ga_eq f64_eq (GA [FNum 0 true]) (GA [FNum 0 false]) = true.
Proof. reflexivity. Qed.
Example ex_cmp : ga_cmp int_cmp (GA [1; 2; 3]) (GA [1; 3; 0]) = Lt /\ slice_cmp int_cmp [1; 2] [1; 2; 0] = Lt.
Proof. split; reflexivity. Qed.
Example ex_hash_u8 : ga_hash u8_hasht (GA [7; 9]) = [TLen 2; TCall 0 [7; 9]].
Proof. reflexivity. Qed.
Example ex_hash_nested :
  ga_hash nest_hasht (GA [GA [1; 2]; GA [3; 4]]) = [TLen 2; TLen 2; TCall 0 [1; 2]; TLen 2; TCall 0 [3; 4]].
Proof. reflexivity. Qed.
(* "[7, 9]" and "[\n    7,\n    9,\n]" with digits as the elements' Debug *)
Example ex_debug :
  ga_debug (fun _ x => [48 + x]) (Fmt false 0) (GA [7; 9]) = [91; 55; 44; 32; 57; 93] /\
  ga_debug (fun _ x => [48 + x]) (Fmt true 0) (GA [7; 9]) = [91; 10; 32; 32; 32; 32; 55; 44; 10; 32; 32; 32; 32; 57; 44; 10; 93] /\
  ga_debug (fun _ x => [48 + x]) (Fmt true 0) (GA []) = [91; 93].
Proof. repeat split; reflexivity. Qed.
(* hypotheses of the contract lemmas hold for the integer elements *)
Example ex_int_contract :
  (forall x y, int_eq x y = true <-> int_pcmp x y = Some Eq) /\
  (forall x y, int_pcmp x y = Some (int_cmp x y)) /\
  (forall x y, int_cmp y x = CompOpp (int_cmp x y)).
Proof.
  unfold int_eq, int_pcmp, int_cmp. repeat split.
  - intros H. apply Z.eqb_eq in H. subst. now rewrite Z.compare_refl.
  - intros H. injection H as H. apply Z.compare_eq in H. subst. apply Z.eqb_refl.
  - intros. apply Z.compare_antisym.
Qed.
(* ... and for f64, where == is not reflexive *)
Example ex_f64_contract :
  (forall x y, f64_eq x y = true <-> f64_pcmp x y = Some Eq) /\
  (forall x y, f64_pcmp y x = opp_opt (f64_pcmp x y)).
Proof.
  split.
  - intros [|a na] [|b nb]; cbn; try (split; discriminate).
    rewrite Z.eqb_eq. split.
    + intros ->. now rewrite Z.compare_refl.
    + intros H. injection H as H. now apply Z.compare_eq.
  - intros [|a na] [|b nb]; cbn; try reflexivity. now rewrite Z.compare_antisym.
Qed.

(* MacrosProofs.v -- lemmas and proofs for C20 over Macros.v / MacroDecls.v. *)
From GA Require Import Base Macros MacroDecls.
Local Open Scope Z_scope.

(* ---------------------------------------------------------------- lists of caller expressions *)
Lemma users_parse (us : list uexpr) : forallb (parses_as FSExpr) (map mk_user us) = true.
Proof. induction us as [|[[t v] c] us IH]; cbn; [reflexivity|exact IH]. Qed.

Lemma seq_app_nil s : seq_app s SNil = s.
Proof. induction s as [| t r IH | x b r IH]; cbn; congruence. Qed.

Lemma seq_len_of l : seq_len (seq_of l) = length l.
Proof. induction l as [|t l IH]; cbn; congruence. Qed.

Lemma seq_terms_of l : seq_terms (seq_of l) = Some l.
Proof. induction l as [|t l IH]; cbn; [reflexivity|now rewrite IH]. Qed.

(* $($x),* with $x bound to the list es is the list es *)
Lemma map_subst_var b es :
  map (fun e => subst (upd_bind b MVx (One e)) (MV MVx)) es = es.
Proof. induction es as [|e es IH]; cbn [map]; [reflexivity|]. rewrite IH. reflexivity. Qed.

Lemma subst_rep_var b es :
  b MVx = Some (Many es) ->
  subst_seq b (SRep MVx (MV MVx) SNil) = seq_of es.
Proof.
  intros Hb. cbn [subst_seq]. rewrite Hb. rewrite seq_app_nil. now rewrite map_subst_var.
Qed.

(* $(box_arr_helper!(@unit $x)),* is one helper call per element *)
Lemma subst_rep_helper b es :
  b MVx = Some (Many es) ->
  subst_seq b (SRep MVx (MacroCall MBoxArrHelper kw_unit (SCons (MV MVx) SNil)) SNil)
  = seq_of (map (fun e => MacroCall MBoxArrHelper kw_unit (SCons e SNil)) es).
Proof.
  intros Hb. cbn [subst_seq]. rewrite Hb. rewrite seq_app_nil. reflexivity.
Qed.

(* caller expressions contain no macro call of ours *)
Lemma map_calls_users h us :
  map_calls_seq h (seq_of (map mk_user us)) = seq_of (map mk_user us).
Proof.
  induction us as [|[[t v] c] us IH]; cbn [map seq_of map_calls_seq]; [reflexivity|].
  rewrite IH. reflexivity.
Qed.

(* box_arr_helper!(@unit e) is () whatever e is: e does not occur in the expansion *)
Lemma helper_unit e :
  parses_as FSExpr e = true ->
  expand1 crate_decls MBoxArrHelper (InAt kw_unit e) = Some UnitLit.
Proof.
  intros Hp. unfold expand1. cbn [arms_of crate_decls box_arr_helper_arms first_match arm_matcher
    arm_body match_arm]. rewrite Hp. cbn. reflexivity.
Qed.

Lemma resolve_unit d f : resolve d f UnitLit = UnitLit.
Proof. destruct f; reflexivity. Qed.

Lemma map_calls_helpers f us :
  map_calls_seq
    (fun m kw s =>
       match input_of_call kw s with
       | Some i => match expand1 crate_decls m i with
                   | Some t' => resolve crate_decls f t'
                   | None => MacroCall m kw s
                   end
       | None => MacroCall m kw s
       end)
    (seq_of (map (fun e => MacroCall MBoxArrHelper kw_unit (SCons e SNil)) (map mk_user us)))
  = seq_of (map (fun _ => UnitLit) us).
Proof.
  induction us as [|[[t v] c] us IH]; cbn [map seq_of map_calls_seq]; [reflexivity|].
  rewrite IH. f_equal. cbn [map_calls mk_user].
  unfold input_of_call. cbn [seq_terms]. cbn [kw_unit Z.eqb].
  rewrite helper_unit by reflexivity. apply resolve_unit.
Qed.

(* one-step unfoldings of the substitution, used instead of cbn so that the
   repetition nodes stay folded for the lemmas above *)
Lemma subst_Call b f s : subst b (Call f None s) = Call f None (subst_seq b s).
Proof. reflexivity. Qed.
Lemma subst_ArrayLit b s : subst b (ArrayLit s) = ArrayLit (subst_seq b s).
Proof. reflexivity. Qed.
Lemma subst_VecLit b s : subst b (VecLit s) = VecLit (subst_seq b s).
Proof. reflexivity. Qed.
Lemma subst_SCons b t r : subst_seq b (SCons t r) = SCons (subst b t) (subst_seq b r).
Proof. reflexivity. Qed.
Lemma subst_SNil b : subst_seq b SNil = SNil.
Proof. reflexivity. Qed.

Lemma resolve_S d f t :
  resolve d (S f) t =
  map_calls (fun m kw s =>
        match input_of_call kw s with
        | Some i => match expand1 d m i with
                    | Some t' => resolve d f t'
                    | None => MacroCall m kw s
                    end
        | None => MacroCall m kw s
        end) t.
Proof. reflexivity. Qed.

(* ---------------------------------------------------------------- expansions *)
Lemma expand_arr_list us trailing :
  expand crate_decls MArr (InList (map mk_user us) trailing)
  = Some (Call FFromArray None (SCons (ArrayLit (seq_of (map mk_user us))) SNil)).
Proof.
  unfold expand, expand1. cbn [arms_of crate_decls arr_arms first_match arm_matcher arm_body match_arm].
  rewrite users_parse.
  rewrite subst_Call, subst_SCons, subst_ArrayLit, subst_SNil.
  rewrite (subst_rep_var _ (map mk_user us)) by reflexivity.
  unfold recursion_limit. rewrite resolve_S. cbn [map_calls map_calls_seq].
  rewrite map_calls_users. reflexivity.
Qed.

Lemma expand_box_list us trailing :
  expand crate_decls MBoxArr (InList (map mk_user us) trailing)
  = Some (Call FFromVecHelper None
            (SCons (ArrayLit (seq_of (map (fun _ => UnitLit) us)))
            (SCons (VecLit (seq_of (map mk_user us))) SNil))).
Proof.
  unfold expand, expand1.
  cbn [arms_of crate_decls box_arr_arms first_match arm_matcher arm_body match_arm].
  rewrite users_parse.
  rewrite subst_Call, !subst_SCons, subst_ArrayLit, subst_VecLit, subst_SNil.
  rewrite (subst_rep_var _ (map mk_user us)) by reflexivity.
  rewrite (subst_rep_helper _ (map mk_user us)) by reflexivity.
  unfold recursion_limit. rewrite resolve_S. cbn [map_calls map_calls_seq].
  rewrite map_calls_users. rewrite map_calls_helpers. reflexivity.
Qed.

(* ---------------------------------------------------------------- evaluation of argument lists *)
Lemma zlen_vals us : zlen (vals us) = zlen us.
Proof. unfold zlen, vals. now rewrite map_length. Qed.

Lemma eval_users_runtime d w e us lg :
  eval_seq d w Runtime e (seq_of (map mk_user us)) lg = Done (vals us, lg ++ evals us).
Proof.
  revert lg; induction us as [|[[t v] c] us IH]; intros lg; cbn [map seq_of eval_seq].
  - now rewrite app_nil_r.
  - cbn [mk_user eval]. rewrite IH. unfold vals, evals. cbn [map u_val u_tag fst snd].
    rewrite <- app_assoc. reflexivity.
Qed.

Lemma eval_users_const d w e us lg :
  forallb u_const us = true ->
  eval_seq d w Const e (seq_of (map mk_user us)) lg = Done (vals us, lg).
Proof.
  revert lg; induction us as [|[[t v] c] us IH]; intros lg Hc; cbn [map seq_of eval_seq].
  - reflexivity.
  - cbn [forallb u_const snd] in Hc. apply andb_true_iff in Hc as [Hc1 Hc2]. subst c.
    cbn [mk_user eval]. rewrite IH by exact Hc2. reflexivity.
Qed.

(* the first caller expression that is not a constant expression is rejected in a const *)
Lemma eval_users_const_reject d w e us lg :
  forallb u_const us = false ->
  eval_seq d w Const e (seq_of (map mk_user us)) lg = CompileError ENotConst.
Proof.
  revert lg; induction us as [|[[t v] c] us IH]; intros lg Hc; cbn [map seq_of eval_seq].
  - discriminate.
  - cbn [forallb u_const snd] in Hc. cbn [mk_user eval]. destruct c.
    + cbn [andb] in Hc. rewrite IH by exact Hc. reflexivity.
    + reflexivity.
Qed.

Definition units (us : list uexpr) : list value := map (fun _ => VUnit) us.

Lemma eval_units d w cx e (us : list uexpr) lg :
  eval_seq d w cx e (seq_of (map (fun _ => UnitLit) us)) lg = Done (units us, lg).
Proof.
  revert lg; induction us as [|u us IH]; intros lg; cbn [map seq_of eval_seq]; [reflexivity|].
  cbn [eval]. rewrite IH. reflexivity.
Qed.

Lemma units_are_units us : forallb is_unit (units us) = true.
Proof. induction us as [|u us IH]; cbn; auto. Qed.

Lemma zlen_units us : zlen (units us) = zlen us.
Proof. unfold zlen, units. now rewrite map_length. Qed.

Lemma const_transmute_same w l : const_transmute w l (zlen l) = Done (VGA (zlen l) l).
Proof. unfold const_transmute. now rewrite !Z.eqb_refl. Qed.

Lemma try_from_vec_same l : try_from_vec (zlen l) l = VOk (VBox (zlen l) l).
Proof. unfold try_from_vec. now rewrite Z.eqb_refl. Qed.

(* ---------------------------------------------------------------- list forms *)
Theorem arr_list_full w us trailing :
  run crate_decls w Runtime MArr (InList (map mk_user us) trailing)
  = if csup w (zlen us) then Done (VGA (zlen us) (vals us), evals us)
    else CompileError ENoConstLen.
Proof.
  unfold run. rewrite expand_arr_list. cbn [eval eval_seq]. rewrite eval_users_runtime.
  unfold call. cbn [const_ok]. unfold const_len. rewrite zlen_vals.
  destruct (csup w (zlen us)); [|reflexivity].
  rewrite <- (zlen_vals us) at 1. rewrite const_transmute_same. now rewrite zlen_vals.
Qed.

Theorem arr_list_const_full w us trailing :
  run crate_decls w Const MArr (InList (map mk_user us) trailing)
  = if forallb u_const us
    then if csup w (zlen us) then Done (VGA (zlen us) (vals us), []) else CompileError ENoConstLen
    else CompileError ENotConst.
Proof.
  unfold run. rewrite expand_arr_list. cbn [eval eval_seq].
  destruct (forallb u_const us) eqn:Hc.
  - rewrite eval_users_const by exact Hc.
    unfold call. cbn [const_ok crate_decls fn_is_const crate_fn_const]. unfold const_len.
    rewrite zlen_vals. destruct (csup w (zlen us)); [|reflexivity].
    rewrite <- (zlen_vals us) at 1. rewrite const_transmute_same. now rewrite zlen_vals.
  - rewrite eval_users_const_reject by exact Hc. reflexivity.
Qed.

Theorem box_list_full w us trailing :
  run crate_decls w Runtime MBoxArr (InList (map mk_user us) trailing)
  = if csup w (zlen us) then Done (VBox (zlen us) (vals us), evals us)
    else CompileError ENoConstLen.
Proof.
  unfold run. rewrite expand_box_list. cbn [eval eval_seq]. rewrite eval_units.
  rewrite eval_users_runtime.
  unfold call. cbn [const_ok]. rewrite units_are_units. unfold const_len. rewrite zlen_units.
  destruct (csup w (zlen us)); [|reflexivity].
  rewrite <- (zlen_vals us) at 1. rewrite try_from_vec_same. now rewrite zlen_vals.
Qed.

Theorem box_list_not_const w us trailing :
  run crate_decls w Const MBoxArr (InList (map mk_user us) trailing) = CompileError ENotConst.
Proof.
  unfold run. rewrite expand_box_list. cbn [eval eval_seq]. rewrite eval_units. reflexivity.
Qed.

(* ---------------------------------------------------------------- repeat forms *)
Lemma zlen_repeat {A} (v : A) k : 0 <= k -> zlen (repeat v (Z.to_nat k)) = k.
Proof. intros H. unfold zlen. rewrite repeat_length. lia. Qed.

Definition copies (v k : Z) : list value := repeat (VE v) (Z.to_nat k).

Lemma expand_arr_rep_ty tag v c k :
  expand crate_decls MArr (InSemi (User tag v c) (TyLen k))
  = Some (ConstItem CInputLength (Usize (TyLen k))
            (LocalFn true (CRef CInputLength)
               (UnsafeBlk (Call FConstTransmute (Some TyParamN) (SCons Param SNil)))
               (Call FLocal (Some (TyLen k))
                  (SCons (ArrayRepeat (User tag v c) (CRef CInputLength)) SNil)))).
Proof. reflexivity. Qed.

Lemma expand_arr_rep_expr tag v c tn n cn :
  expand crate_decls MArr (InSemi (User tag v c) (User tn n cn))
  = Some (Call FFromArray None (SCons (ArrayRepeat (User tag v c) (User tn n cn)) SNil)).
Proof. reflexivity. Qed.

Lemma expand_box_rep_ty tag v c k :
  expand crate_decls MBoxArr (InSemi (User tag v c) (TyLen k))
  = Some (Unwrap (Call FTryFromVec (Some (TyLen k))
                    (SCons (VecRepeat (User tag v c) (Usize (TyLen k))) SNil))).
Proof. reflexivity. Qed.

Lemma expand_box_rep_expr tag v c tn n cn :
  expand crate_decls MBoxArr (InSemi (User tag v c) (User tn n cn))
  = Some (ConstItem CLen (User tn n cn)
            (Unwrap (Call FTryFromVec (Some (ConstLen (CRef CLen)))
                       (SCons (VecRepeat (User tag v c) (CRef CLen)) SNil)))).
Proof. reflexivity. Qed.

Local Arguments call : simpl never.
Local Arguments const_transmute : simpl never.
Local Arguments try_from_vec : simpl never.
Local Arguments clone_events : simpl never.
Local Arguments Z.to_nat : simpl never.
Local Arguments Z.leb : simpl never.
Local Arguments Z.eqb : simpl never.
Local Arguments Z.mul : simpl never.
Local Arguments Z.sub : simpl never.
Local Arguments repeat : simpl never.

(* arr![x; N], N a type: any Unsigned length, the Const table is not involved *)
Theorem arr_rep_ty_full w tag v c k : 0 <= k ->
  run crate_decls w Runtime MArr (InSemi (User tag v c) (TyLen k))
  = if (k <=? 1) || copyT w then Done (VGA k (copies v k), [LEval tag])
    else CompileError ENotCopy.
Proof.
  intros Hk. unfold run. rewrite expand_arr_rep_ty.
  cbn. 
  destruct ((k <=? 1) || copyT w); [|reflexivity].
  unfold call at 1. cbn [set_fn localfn const_ok]. rewrite (zlen_repeat _ k Hk), Z.eqb_refl.
  unfold call. cbn [const_ok crate_decls fn_is_const crate_fn_const].
  unfold copies. rewrite <- (zlen_repeat (VE v) k Hk) at 2 3. rewrite const_transmute_same.
  rewrite (zlen_repeat _ k Hk). reflexivity.
Qed.

(* arr![x; n], n a constant expression: the length goes through Const<n> *)
Theorem arr_rep_expr_full w tag v c tn n : 0 <= n ->
  run crate_decls w Runtime MArr (InSemi (User tag v c) (User tn n true))
  = if (n <=? 1) || copyT w
    then if csup w n then Done (VGA n (copies v n), [LEval tag]) else CompileError ENoConstLen
    else CompileError ENotCopy.
Proof.
  intros Hn. unfold run. rewrite expand_arr_rep_expr. cbn.
  destruct ((n <=? 1) || copyT w); [|reflexivity].
  unfold call. cbn [const_ok]. unfold const_len. rewrite (zlen_repeat _ n Hn).
  destruct (csup w n); [|reflexivity].
  unfold copies. rewrite <- (zlen_repeat (VE v) n Hn) at 2 3. rewrite const_transmute_same.
  rewrite (zlen_repeat _ n Hn). reflexivity.
Qed.

(* the same in a const position: x must be a constant expression, nothing is logged *)
Theorem arr_rep_ty_const_full w tag v k : 0 <= k ->
  run crate_decls w Const MArr (InSemi (User tag v true) (TyLen k))
  = if (k <=? 1) || copyT w then Done (VGA k (copies v k), []) else CompileError ENotCopy.
Proof.
  intros Hk. unfold run. rewrite expand_arr_rep_ty. cbn.
  destruct ((k <=? 1) || copyT w); [|reflexivity].
  unfold call at 1. cbn [set_fn localfn const_ok]. rewrite (zlen_repeat _ k Hk), Z.eqb_refl.
  unfold call. cbn [const_ok crate_decls fn_is_const crate_fn_const].
  unfold copies. rewrite <- (zlen_repeat (VE v) k Hk) at 2 3. rewrite const_transmute_same.
  rewrite (zlen_repeat _ k Hk). reflexivity.
Qed.

Theorem arr_rep_expr_const_full w tag v tn n : 0 <= n ->
  run crate_decls w Const MArr (InSemi (User tag v true) (User tn n true))
  = if (n <=? 1) || copyT w
    then if csup w n then Done (VGA n (copies v n), []) else CompileError ENoConstLen
    else CompileError ENotCopy.
Proof.
  intros Hn. unfold run. rewrite expand_arr_rep_expr. cbn.
  destruct ((n <=? 1) || copyT w); [|reflexivity].
  unfold call. cbn [const_ok crate_decls fn_is_const crate_fn_const].
  unfold const_len. rewrite (zlen_repeat _ n Hn).
  destruct (csup w n); [|reflexivity].
  unfold copies. rewrite <- (zlen_repeat (VE v) n Hn) at 2 3. rewrite const_transmute_same.
  rewrite (zlen_repeat _ n Hn). reflexivity.
Qed.

(* box_arr![x; N] / box_arr![x; n]: Clone is enough; x evaluated once, then N-1 clones *)
Theorem box_rep_ty_full w tag v c k : 0 <= k ->
  run crate_decls w Runtime MBoxArr (InSemi (User tag v c) (TyLen k))
  = Done (VBox k (copies v k), LEval tag :: clone_events w (VE v) k).
Proof.
  intros Hk. unfold run. rewrite expand_box_rep_ty. cbn.
  unfold call. cbn [const_ok].
  unfold copies. rewrite <- (zlen_repeat (VE v) k Hk) at 1 3. rewrite try_from_vec_same.
  rewrite (zlen_repeat _ k Hk). reflexivity.
Qed.

Theorem box_rep_expr_full w tag v c tn n : 0 <= n ->
  run crate_decls w Runtime MBoxArr (InSemi (User tag v c) (User tn n true))
  = if csup w n then Done (VBox n (copies v n), LEval tag :: clone_events w (VE v) n)
    else CompileError ENoConstLen.
Proof.
  intros Hn. unfold run. rewrite expand_box_rep_expr. cbn.
  unfold const_len. destruct (csup w n); [|reflexivity]. cbn.
  unfold call. cbn [const_ok].
  unfold copies. rewrite <- (zlen_repeat (VE v) n Hn) at 1 3. rewrite try_from_vec_same.
  rewrite (zlen_repeat _ n Hn). reflexivity.
Qed.

Theorem box_rep_not_const w tag v c r :
  (exists k, r = TyLen k) \/ (exists tn n cn, r = User tn n cn) ->
  run crate_decls w Const MBoxArr (InSemi (User tag v c) r) = CompileError ENotConst.
Proof.
  intros [[k ->] | (tn & n & cn & ->)]; unfold run.
  - rewrite expand_box_rep_ty. reflexivity.
  - rewrite expand_box_rep_expr. cbn. destruct cn; reflexivity.
Qed.

(* the repeat operand is a path to a `const` item of the element type: accepted for every
   length also when the element type is not Copy; nothing is evaluated at run time, so nothing
   is logged; usable in a const position *)
Theorem arr_rep_const_operand_ty w cx v k : 0 <= k ->
  run crate_decls w cx MArr (InSemi (ConstPath v) (TyLen k)) = Done (VGA k (copies v k), []).
Proof.
  intros Hk. unfold run.
  replace (expand crate_decls MArr (InSemi (ConstPath v) (TyLen k)))
    with (Some (ConstItem CInputLength (Usize (TyLen k))
            (LocalFn true (CRef CInputLength)
               (UnsafeBlk (Call FConstTransmute (Some TyParamN) (SCons Param SNil)))
               (Call FLocal (Some (TyLen k))
                  (SCons (ArrayRepeat (ConstPath v) (CRef CInputLength)) SNil))))) by reflexivity.
  cbn.
  unfold call at 1. cbn [set_fn localfn const_ok]. rewrite (zlen_repeat _ k Hk), Z.eqb_refl.
  destruct cx; unfold call; cbn [const_ok crate_decls fn_is_const crate_fn_const];
    unfold copies; rewrite <- (zlen_repeat (VE v) k Hk) at 2 3; rewrite const_transmute_same;
    rewrite (zlen_repeat _ k Hk); reflexivity.
Qed.

Theorem arr_rep_const_operand_expr w cx v tn n : 0 <= n ->
  run crate_decls w cx MArr (InSemi (ConstPath v) (User tn n true))
  = if csup w n then Done (VGA n (copies v n), []) else CompileError ENoConstLen.
Proof.
  intros Hn. unfold run.
  replace (expand crate_decls MArr (InSemi (ConstPath v) (User tn n true)))
    with (Some (Call FFromArray None (SCons (ArrayRepeat (ConstPath v) (User tn n true)) SNil))) by reflexivity.
  cbn. destruct cx; unfold call; cbn [const_ok crate_decls fn_is_const crate_fn_const];
    unfold const_len; rewrite (zlen_repeat _ n Hn); (destruct (csup w n); [|reflexivity]);
    unfold copies; rewrite <- (zlen_repeat (VE v) n Hn) at 2 3; rewrite const_transmute_same;
    rewrite (zlen_repeat _ n Hn); reflexivity.
Qed.

(* a const item named by a bare path is taken for a type: no arm accepts it *)
Theorem rep_constpath_rejected w cx m tag v c k :
  m = MArr \/ m = MBoxArr ->
  exists e, run crate_decls w cx m (InSemi (User tag v c) (ConstPath k)) = CompileError e.
Proof.
  intros [-> | ->]; unfold run.
  - replace (expand crate_decls MArr (InSemi (User tag v c) (ConstPath k)))
      with (Some (ConstItem CInputLength (Usize (ConstPath k))
            (LocalFn true (CRef CInputLength)
               (UnsafeBlk (Call FConstTransmute (Some TyParamN) (SCons Param SNil)))
               (Call FLocal (Some (ConstPath k))
                  (SCons (ArrayRepeat (User tag v c) (CRef CInputLength)) SNil))))) by reflexivity.
    eexists; reflexivity.
  - replace (expand crate_decls MBoxArr (InSemi (User tag v c) (ConstPath k)))
      with (Some (Unwrap (Call FTryFromVec (Some (ConstPath k))
                    (SCons (VecRepeat (User tag v c) (Usize (ConstPath k))) SNil)))) by reflexivity.
    destruct cx; eexists; reflexivity.
Qed.

(* ---------------------------------------------------------------- box_arr! against arr! *)
(* what a caller can write: opaque element expressions; a length that is a type,
   a constant expression, or a bare path to a const item *)
Inductive user_input : input -> Prop :=
| UIList us trailing : user_input (InList (map mk_user us) trailing)
| UIRepTy tag v c k : 0 <= k -> user_input (InSemi (User tag v c) (TyLen k))
| UIRepExpr tag v c tn n : 0 <= n -> user_input (InSemi (User tag v c) (User tn n true))
| UIRepPath tag v c k : user_input (InSemi (User tag v c) (ConstPath k)).

Lemma clone_events_nil w v k : (k <=? 1) || copyT w = true -> clone_events w v k = [].
Proof.
  unfold clone_events. destruct (copyT w); [reflexivity|]. rewrite orb_false_r.
  intros H. apply Z.leb_le in H. replace (Z.to_nat (k - 1)) with 0%nat by lia. reflexivity.
Qed.

Theorem box_equals_arr w i n l lg : user_input i ->
  run crate_decls w Runtime MArr i = Done (VGA n l, lg) ->
  run crate_decls w Runtime MBoxArr i = Done (VBox n l, lg).
Proof.
  intros Hi. destruct Hi as [us t | tag v c k Hk | tag v c tn k Hk | tag v c k].
  - rewrite arr_list_full, box_list_full. destruct (csup w (zlen us)); [|discriminate].
    intros H; injection H as <- <- <-. reflexivity.
  - rewrite (arr_rep_ty_full _ _ _ _ _ Hk), (box_rep_ty_full _ _ _ _ _ Hk).
    destruct ((k <=? 1) || copyT w) eqn:Hc; [|discriminate].
    intros H; injection H as <- <- <-. now rewrite clone_events_nil.
  - rewrite (arr_rep_expr_full _ _ _ _ _ _ Hk), (box_rep_expr_full _ _ _ _ _ _ Hk).
    destruct ((k <=? 1) || copyT w) eqn:Hc; [|discriminate].
    destruct (csup w k); [|discriminate].
    intros H; injection H as <- <- <-. now rewrite clone_events_nil.
  - destruct (rep_constpath_rejected w Runtime MArr tag v c k (or_introl eq_refl)) as [e ->].
    discriminate.
Qed.

(* the result is well formed: the type-level length is the number of elements *)
Theorem result_well_formed w m i r lg : user_input i -> m = MArr \/ m = MBoxArr ->
  run crate_decls w Runtime m i = Done (r, lg) ->
  exists n l, (r = VGA n l \/ r = VBox n l) /\ zlen l = n.
Proof.
  intros Hi Hm. destruct Hi as [us t | tag v c k Hk | tag v c tn k Hk | tag v c k];
    destruct Hm as [-> | ->].
  - rewrite arr_list_full. destruct (csup w (zlen us)); [|discriminate].
    intros H; injection H as <- <-. do 2 eexists; split; [left; reflexivity|apply zlen_vals].
  - rewrite box_list_full. destruct (csup w (zlen us)); [|discriminate].
    intros H; injection H as <- <-. do 2 eexists; split; [right; reflexivity|apply zlen_vals].
  - rewrite (arr_rep_ty_full _ _ _ _ _ Hk). destruct ((k <=? 1) || copyT w); [|discriminate].
    intros H; injection H as <- <-. do 2 eexists; split; [left; reflexivity|now apply zlen_repeat].
  - rewrite (box_rep_ty_full _ _ _ _ _ Hk).
    intros H; injection H as <- <-. do 2 eexists; split; [right; reflexivity|now apply zlen_repeat].
  - rewrite (arr_rep_expr_full _ _ _ _ _ _ Hk). destruct ((k <=? 1) || copyT w); [|discriminate].
    destruct (csup w k); [|discriminate].
    intros H; injection H as <- <-. do 2 eexists; split; [left; reflexivity|now apply zlen_repeat].
  - rewrite (box_rep_expr_full _ _ _ _ _ _ Hk). destruct (csup w k); [|discriminate].
    intros H; injection H as <- <-. do 2 eexists; split; [right; reflexivity|now apply zlen_repeat].
  - destruct (rep_constpath_rejected w Runtime MArr tag v c k (or_introl eq_refl)) as [e ->].
    discriminate.
  - destruct (rep_constpath_rejected w Runtime MBoxArr tag v c k (or_intror eq_refl)) as [e ->].
    discriminate.
Qed.

(* no invocation reaches the size-mismatch panic of const_transmute, the unwrap
   panic, or the unwrap_unchecked on Err: it builds the array or does not compile *)
Theorem never_panics_never_ub w m i : user_input i -> m = MArr \/ m = MBoxArr ->
  run crate_decls w Runtime m i <> Panic /\ run crate_decls w Runtime m i <> UBhit.
Proof.
  intros Hi Hm. destruct Hi as [us t | tag v c k Hk | tag v c tn k Hk | tag v c k];
    destruct Hm as [-> | ->].
  - rewrite arr_list_full. destruct (csup w (zlen us)); split; discriminate.
  - rewrite box_list_full. destruct (csup w (zlen us)); split; discriminate.
  - rewrite (arr_rep_ty_full _ _ _ _ _ Hk). destruct ((k <=? 1) || copyT w); split; discriminate.
  - rewrite (box_rep_ty_full _ _ _ _ _ Hk). split; discriminate.
  - rewrite (arr_rep_expr_full _ _ _ _ _ _ Hk).
    destruct ((k <=? 1) || copyT w); destruct (csup w k); split; discriminate.
  - rewrite (box_rep_expr_full _ _ _ _ _ _ Hk). destruct (csup w k); split; discriminate.
  - destruct (rep_constpath_rejected w Runtime MArr tag v c k (or_introl eq_refl)) as [e ->].
    split; discriminate.
  - destruct (rep_constpath_rejected w Runtime MBoxArr tag v c k (or_intror eq_refl)) as [e ->].
    split; discriminate.
Qed.

(* the unit array that box_arr! builds to deduce the length: as long as the vec!,
   and evaluating it evaluates none of the caller's expressions *)
Theorem box_list_unit_array w us trailing :
  exists unitsq elemsq,
    expand crate_decls MBoxArr (InList (map mk_user us) trailing)
      = Some (Call FFromVecHelper None (SCons (ArrayLit unitsq) (SCons (VecLit elemsq) SNil)))
    /\ seq_len unitsq = length us /\ seq_len elemsq = length us
    /\ (forall cx e lg, eval_seq crate_decls w cx e unitsq lg = Done (units us, lg))
    /\ (forall e lg, eval_seq crate_decls w Runtime e elemsq lg = Done (vals us, lg ++ evals us)).
Proof.
  do 2 eexists. split; [apply expand_box_list|]. rewrite !seq_len_of, !map_length.
  repeat split.
  - intros cx e lg. apply eval_units.
  - intros e lg. apply eval_users_runtime.
Qed.

(* __from_vec_helper on a unit array and a vec of the same length is try_from_vec's Ok;
   on different lengths it is undefined behaviour (the model can tell) *)
Lemma from_vec_helper_needs_equal_lengths w e us l lg :
  forallb is_unit us = true -> csup w (zlen us) = true ->
  call crate_decls w Runtime e FFromVecHelper None [VArr us; VVec l] lg
  = if zlen l =? zlen us then Done (VBox (zlen us) l, lg) else UBhit.
Proof.
  intros Hu Hc. unfold call. cbn [const_ok]. rewrite Hu. unfold const_len. rewrite Hc.
  unfold try_from_vec. destruct (zlen l =? zlen us); reflexivity.
Qed.

(* ---------------------------------------------------------------- non-vacuity *)
Definition w_u32 : world := mkWorld 4 true (fun k => (0 <=? k) && (k <=? 1024)).
Definition w_string : world := mkWorld 24 false (fun k => (0 <=? k) && (k <=? 1024)).
Definition w_zst : world := mkWorld 0 true (fun k => (0 <=? k) && (k <=? 1024)).

Example ex_arr_list :
  run crate_decls w_u32 Runtime MArr (InList (map mk_user [(0, 3, false); (1, 10, false); (2, 17, false)]) 1)
  = Done (VGA 3 [VE 3; VE 10; VE 17], [LEval 0; LEval 1; LEval 2]).
Proof. rewrite arr_list_full. reflexivity. Qed.

Example ex_arr_empty_commas :
  run crate_decls w_string Runtime MArr (InList [] 2) = Done (VGA 0 [], []).
Proof. reflexivity. Qed.

Example ex_box_list :
  run crate_decls w_string Runtime MBoxArr (InList (map mk_user [(0, 3, false); (1, 10, false)]) 0)
  = Done (VBox 2 [VE 3; VE 10], [LEval 0; LEval 1]).
Proof. reflexivity. Qed.

Example ex_arr_rep_ty :
  run crate_decls w_u32 Runtime MArr (InSemi (User 0 7 false) (TyLen 1025))
  = Done (VGA 1025 (copies 7 1025), [LEval 0]).
Proof. rewrite arr_rep_ty_full by lia. reflexivity. Qed.

Example ex_arr_rep_expr_unsupported :
  run crate_decls w_u32 Runtime MArr (InSemi (User 0 7 false) (User 1 1025 true))
  = CompileError ENoConstLen.
Proof. rewrite arr_rep_expr_full by lia. reflexivity. Qed.

Example ex_box_rep_clones :
  run crate_decls w_string Runtime MBoxArr (InSemi (User 0 7 false) (TyLen 3))
  = Done (VBox 3 [VE 7; VE 7; VE 7], [LEval 0; LClone (VE 7); LClone (VE 7)]).
Proof. reflexivity. Qed.

(* mutant declarations, to show that the theorems discriminate *)
(* (1) a helper arm that transcribes its argument, `(@unit $e:expr) => { $e }`:
       the elements would be evaluated twice and the "unit" array is not one *)
Definition decls_helper_evaluates : decls :=
  mkDecls (fun m => match m with
                    | MBoxArrHelper => [mkArm (MAt kw_unit MVe FSExpr) (MV MVe)]
                    | _ => arms_of crate_decls m
                    end) crate_fn_const.
Example helper_evaluates_refuted :
  run decls_helper_evaluates w_u32 Runtime MBoxArr (InList [User 0 3 false; User 1 10 false] 0)
  <> Done (VBox 2 [VE 3; VE 10], [LEval 0; LEval 1]).
Proof. vm_compute. discriminate. Qed.

(* (2) a unit array that is one short: unwrap_unchecked meets Err *)
Definition decls_unit_array_short : decls :=
  mkDecls (fun m => match m with
                    | MBoxArr => [mkArm (MSepList MVx FSExpr)
                        (Call FFromVecHelper None
                           (SCons (ArrayLit (SCons UnitLit SNil))
                           (SCons (VecLit (SRep MVx (MV MVx) SNil)) SNil)))]
                    | _ => arms_of crate_decls m
                    end) crate_fn_const.
Example unit_array_short_refuted :
  run decls_unit_array_short w_u32 Runtime MBoxArr (InList [User 0 3 false; User 1 10 false] 0)
  = UBhit.
Proof. vm_compute. reflexivity. Qed.

(* (3) try_from_vec with `<` for `!=` in the length test would accept a longer vec;
       const_transmute without its size test is undefined behaviour on a mismatch:
       the hub functions tell the cases apart *)
Example const_transmute_mismatch_panics : const_transmute w_u32 [VE 1; VE 2] 3 = Panic.
Proof. reflexivity. Qed.
Example const_transmute_zst_mismatch_is_ub : const_transmute w_zst [VE 0; VE 0] 3 = UBhit.
Proof. reflexivity. Qed.

Example ex_user_input : user_input (InSemi (User 0 7 false) (User 1 16 true)).
Proof. constructor. lia. Qed.

Example ex_box_equals_arr :
  run crate_decls w_u32 Runtime MArr (InSemi (User 0 7 false) (User 1 2 true))
    = Done (VGA 2 [VE 7; VE 7], [LEval 0])
  /\ run crate_decls w_u32 Runtime MBoxArr (InSemi (User 0 7 false) (User 1 2 true))
    = Done (VBox 2 [VE 7; VE 7], [LEval 0]).
Proof. split; reflexivity. Qed.

(* a non-Copy element type: arr![x; 2] is rejected, box_arr![x; 2] clones once *)
Example ex_non_copy_repeat :
  run crate_decls w_string Runtime MArr (InSemi (User 0 7 false) (TyLen 2)) = CompileError ENotCopy
  /\ run crate_decls w_string Runtime MBoxArr (InSemi (User 0 7 false) (TyLen 2))
     = Done (VBox 2 [VE 7; VE 7], [LEval 0; LClone (VE 7)]).
Proof. split; reflexivity. Qed.

(* ---------------------------------------------------------------- unsafe hygiene
   No fragment written by the caller ends up inside an `unsafe { }` block of an expansion: the caller's element
   and length expressions are compiled in the safety context the caller wrote them in.  (The one unsafe block of
   the arms, around const_transmute, sits in the body of the local fn and contains only that fn's parameter.) *)
Definition is_caller (t : term) : bool :=
  match t with User _ _ _ | TyLen _ | ConstPath _ => true | _ => false end.

Lemma exposed_users inu us : exposed_seq inu (seq_of (map mk_user us)) = inu && negb (match us with [] => true | _ => false end).
Proof.
  induction us as [|[[t v] c] us IH]; cbn [map seq_of exposed_seq mk_user exposed].
  - now rewrite Bool.andb_false_r.
  - rewrite IH. destruct inu, us; reflexivity.
Qed.

Lemma exposed_units inu (us : list uexpr) : exposed_seq inu (seq_of (map (fun _ => UnitLit) us)) = false.
Proof. induction us as [|u us IH]; cbn [map seq_of exposed_seq exposed]; [reflexivity|exact IH]. Qed.

Theorem unsafe_hygiene_lists us trailing :
  (exists t, expand crate_decls MArr (InList (map mk_user us) trailing) = Some t /\ exposed false t = false) /\
  (exists t, expand crate_decls MBoxArr (InList (map mk_user us) trailing) = Some t /\ exposed false t = false).
Proof.
  split; eexists; (split; [first [apply expand_arr_list | apply expand_box_list]|]).
  - cbn [exposed exposed_seq]. rewrite exposed_users. reflexivity.
  - cbn [exposed exposed_seq]. rewrite exposed_users, exposed_units. reflexivity.
Qed.

Theorem unsafe_hygiene_repeat m tag v c n : is_caller n = true ->
  match expand crate_decls m (InSemi (User tag v c) n) with
  | Some t => exposed false t = false
  | None => True
  end.
Proof.
  intros Hn. destruct n; try discriminate Hn; destruct m; try exact I; reflexivity.
Qed.

(* the arms as data: no metavariable occurs under an unsafe block *)
Theorem arms_hygienic :
  forallb (fun a => negb (exposed false (arm_body a)))
          (arms_of crate_decls MArr ++ arms_of crate_decls MBoxArr ++ arms_of crate_decls MBoxArrHelper) = true.
Proof. reflexivity. Qed.

(* discrimination: wrapping the CALL of the local fn in `unsafe { }` (a `const unsafe fn` helper) puts $x inside *)
Definition arr_rep_ty_arm_unsafe_call : term :=
  ConstItem CInputLength (Usize (MV MVN))
    (LocalFn true (CRef CInputLength)
       (Call FConstTransmute (Some TyParamN) (SCons Param SNil))
       (UnsafeBlk (Call FLocal (Some (MV MVN)) (SCons (ArrayRepeat (MV MVx) (CRef CInputLength)) SNil)))).

Lemma unsafe_call_refuted :
  exposed false arr_rep_ty_arm_unsafe_call = true /\
  forall tag v c k, exposed false (subst (upd_bind (upd_bind no_bind MVx (One (User tag v c))) MVN (One (TyLen k)))
                                         arr_rep_ty_arm_unsafe_call) = true.
Proof. split; [reflexivity|intros; reflexivity]. Qed.

(* ---------------------------------------------------------------- an element compiled out by cfg
   `#[cfg(any())] e` in a list position is not there: arr! (like the native literal) denotes the list without it.
   box_arr! deduces its length from one `box_arr_helper!(@unit $x)` per written element, and that expansion is `()`
   whatever `$x` is -- the attribute is gone -- while the vec! literal loses the element: the lengths disagree and
   `__from_vec_helper` runs `unwrap_unchecked` on `Err(LengthError)`. *)
Definition w_all : world := mkWorld 4 true (fun _ => true).

Theorem box_list_cfg_out_refuted :
  run crate_decls w_all Runtime MArr (InList [CfgOut (User 0 3 false); User 1 10 false] 0)
    = Done (VGA 1 [VE 10], [LEval 1]) /\
  run crate_decls w_all Runtime MBoxArr (InList [User 1 10 false] 0)
    = Done (VBox 1 [VE 10], [LEval 1]) /\
  run crate_decls w_all Runtime MBoxArr (InList [CfgOut (User 0 3 false); User 1 10 false] 0) = UBhit.
Proof. repeat split; vm_compute; reflexivity. Qed.

(* CorrC05.v -- correspondence entry point for C05 (see harness/src/bin/c05.rs).
   case: [N; bomb (-1 = none); ops...; fin]   ops: 0 | 1 | 2 n | 3 n ; fin: 20 | 21 | 22
   or [N; bomb; 23] / [N; bomb; 24|25|26; p]: teardown of the array / builder / consumer at position p *)
From GA Require Import Base Codec Iter.
Local Open Scope Z_scope.

Fixpoint decode_dops (fuel : nat) (l : list Z) : list dop * dfin :=
  match fuel with
  | O => ([], FDrop)
  | S f =>
    match l with
    | 0 :: r => let '(o, fin) := decode_dops f r in (DNext :: o, fin)
    | 1 :: r => let '(o, fin) := decode_dops f r in (DNextBack :: o, fin)
    | 2 :: n :: r => let '(o, fin) := decode_dops f r in (DNth n :: o, fin)
    | 3 :: n :: r => let '(o, fin) := decode_dops f r in (DNthBack n :: o, fin)
    | 21 :: _ => ([], FCount)
    | 22 :: _ => ([], FLast)
    | _ => ([], FDrop)
    end
  end.

Definition drops_of (e : list ev) : list Z :=
  sortZ (flat_map (fun x => match x with EDrop i => [i] | _ => [] end) e).

Definition enc_res (r : res (option Z)) : list Z :=
  match r with Ret o => enc_opt o | Panicked => [6] | UB => [7] end.

Definition enc_step (p : res (option Z) * list ev) : list Z :=
  let '(r, e) := p in enc_res r ++ (zlen (drops_of e) :: drops_of e).

(* teardown of the other owners, dropped at position p with the same armed destructor:
   [23] the array itself; [24; p] ArrayBuilder, [26; p] IntrusiveArrayBuilder (prefix [0, p));
   [25; p] ArrayConsumer (suffix [p, N));
   [28; l] the partial / complete array inside try_from_iter when the source yields l <> N items *)
Definition teardown (bomb : option Z) (a : list Z) (rest : list Z) : option (list Z) :=
  let fin (l : list Z) :=
      let '(fired, _, e) := drop_list bomb l in
      Some ((if fired then [6] else [5]) ++ (zlen (drops_of e) :: drops_of e)) in
  match rest with
  | [23] => fin a
  | [24; p] | [26; p] => fin (firstn (znat p) a)
  | [25; p] => fin (skipn (znat p) a)
  | [28; l] =>
    (* try_from_iter over a source of l items with size_hint (0, None): l = N: the array is returned, nothing
       is released; otherwise the min l (N+1) items that were delivered (N of them written, one polled beyond)
       are each released exactly once inside the call, which panics iff the armed destructor is among them *)
    let n := zlen a in
    if l =? n then Some [7; 0]
    else fin (map Z.of_nat (seq 0 (znat (Z.min l (n + 1)))))
  | _ => None
  end.

Definition run_c05 (case : list Z) : list Z :=
  match case with
  | n :: b :: rest =>
    match teardown (if b <? 0 then None else Some b) (map Z.of_nat (seq 0 (znat n))) rest with
    | Some out => out
    | None =>
    let a := map Z.of_nat (seq 0 (znat n)) in
    let bomb := if b <? 0 then None else Some b in
    let '(ops, fin) := decode_dops (length rest) rest in
    let '(outs, s, bomb') := drun dstep bomb (into_iter a) ops in
    let '(r, e) := dfinish bomb' s fin in
    flat_map enc_step outs ++
    (match fin, r with
     | FCount, Ret (Some k) => [2; k]
     | FDrop, Ret _ => [5]
     | _, _ => enc_res r
     end) ++ (zlen (drops_of e) :: drops_of e)
    end
  | _ => []
  end.

(* Builder.v -- hub model of collecting into an array: GenericArray::try_from_iter /
   FromIterator::from_iter (src/lib.rs) over IntrusiveArrayBuilder::extend
   (src/internal.rs), and the boxed form try_boxed_from_iter (src/impl_alloc.rs).
   Definitions only.

   The source iterator is a SCRIPT: the i-th call of next() answers [resp i]
   (not necessarily fused: an Item may follow an End; the size hint is
   arbitrary, possibly lying).  Every response that is polled is an event the
   harness observes (number of next() calls). *)
From GA Require Import Base.

Inductive response : Type := Item (y : Z) | End | PanicNow.

Record src : Type := mkSrc { hint_lo : Z; hint_hi : option Z; resp : nat -> response }.

Inductive outcome : Type := Ok (a : list Z) | Err | Panic.

(* the two size-hint pre-checks of try_from_iter / try_boxed_from_iter *)
Definition precheck_reject (N : nat) (s : src) : bool :=
  (Z.of_nat N <? hint_lo s)%Z ||
  match hint_hi s with Some u => (u <? Z.of_nat N)%Z | None => false end.

(* builder.extend(&mut iter): destination.zip(source).for_each(write; position += 1).
   Zip polls the destination slots first, so a full builder never polls the
   source; it stops at the first None of the source.  [n] = free slots,
   [i] = index of the next poll, [acc] = slots written so far (position = length). *)
Inductive fillres : Type := FFull | FEnded | FPanicked.

Fixpoint fill (n : nat) (rs : nat -> response) (i : nat) (acc : list Z)
  : fillres * list Z * nat :=
  match n with
  | O => (FFull, acc, i)
  | S n' =>
    match rs i with
    | Item y => fill n' rs (S i) (acc ++ [y])
    | End => (FEnded, acc, S i)
    | PanicNow => (FPanicked, acc, S i)
    end
  end.

(* try_from_iter: outcome, events (drops of pulled items), number of next() calls.
   `!builder.is_full() || iter.next().is_some()` short-circuits: the one extra
   poll happens only when all N slots are written.  On the error paths and on
   unwinding the builder's Drop releases the written prefix. *)
Definition try_from_iter (N : nat) (s : src) : outcome * list ev * nat :=
  if precheck_reject N s then (Err, [], 0)
  else
    match fill N (resp s) 0 [] with
    | (FPanicked, built, p) => (Panic, map EDrop built, p)
    | (FEnded, built, p) => (Err, map EDrop built, p)
    | (FFull, built, p) =>
      match resp s p with
      | Item y => (Err, EDrop y :: map EDrop built, S p)
      | End => (Ok built, [], S p)
      | PanicNow => (Panic, map EDrop built, S p)
      end
    end.

(* FromIterator::from_iter: Err becomes the "expected N items" panic *)
Inductive outcome2 : Type := Ok2 (a : list Z) | LengthPanic | Panic2.
Definition from_iter (N : nat) (s : src) : outcome2 * list ev * nat :=
  let '(o, e, p) := try_from_iter N s in
  (match o with Ok a => Ok2 a | Err => LengthPanic | Panic => Panic2 end, e, p).

(* try_boxed_from_iter: same pre-checks; Vec::with_capacity(N);
   v.extend((&mut iter).take(N)) -- Take stops polling after N items, extend
   stops at the first None; then `v.len() != N || iter.next().is_some()`.
   The poll structure is the same as the stack form; the Vec's Drop releases
   the pulled items on the error paths.  (Allocation events: Alloc.v.) *)
Definition try_boxed_from_iter (N : nat) (s : src) : outcome * list ev * nat :=
  try_from_iter N s.

(* the items a run pulled out of the source: the Item answers among polls 0..p-1 *)
Fixpoint pulled (rs : nat -> response) (i p : nat) : list Z :=
  match p with
  | O => []
  | S p' => match rs i with Item y => y :: pulled rs (S i) p' | _ => pulled rs (S i) p' end
  end.

(* "exactly N items then the end" *)
Definition exact_source (N : nat) (s : src) (a : list Z) : Prop :=
  length a = N /\ (forall i y, nth_error a i = Some y -> resp s i = Item y) /\ resp s N = End.

(* IntrusiveArrayBuilder / ArrayBuilder dropped at position p releases exactly
   the written prefix; ArrayConsumer dropped at position p the suffix *)
Definition builder_drop (slots : list Z) (position : nat) : list ev :=
  map EDrop (firstn position slots).
Definition consumer_drop (slots : list Z) (position : nat) : list ev :=
  map EDrop (skipn position slots).

(* Base.v -- shared vocabulary of the hub model: results, ownership events,
   list ranges.  Stdlib only. *)
From Coq Require Export List ZArith Lia Bool Arith.
Export ListNotations.

(* Outcome of a modelled Rust operation.
   [Panicked]: unwinding left the operation (caller code, a destructor, a length check).
   [UB]: the operation touched memory its own bookkeeping does not cover
         (out of bounds / uninitialised / already moved).  Theorems exclude it. *)
Inductive res (A : Type) : Type := Ret (a : A) | Panicked | UB.
Arguments Ret {A} a.
Arguments Panicked {A}.
Arguments UB {A}.

(* Ownership events.  Elements are identities (Z). *)
Inductive ev : Type :=
| EDrop (x : Z)     (* the crate (or drop glue it triggers) runs the destructor of x *)
| EMove (x : Z)     (* x is handed to the caller by value: the caller now owns it *)
| EObs (x : Z)      (* x is observed through a reference handed to the caller *)
| ENew (x : Z)      (* x comes into existence (clone result, generated value) *)
| ELeak (x : Z).    (* x was moved out of its container and then abandoned by unwinding:
                       its destructor never runs (allowed: a leak, not a double drop) *)

Definition ev_id (e : ev) : Z :=
  match e with EDrop x | EMove x | EObs x | ENew x | ELeak x => x end.

Definition is_release (e : ev) : bool :=
  match e with EDrop _ | EMove _ | ELeak _ => true | _ => false end.

Definition releases (t : list ev) : list Z := map ev_id (filter is_release t).

(* [range a b l] = l[a..b] *)
Definition range {A} (a b : nat) (l : list A) : list A := firstn (b - a) (skipn a l).

Lemma skipn_skipn {A} a b (l : list A) : skipn a (skipn b l) = skipn (a + b) l.
Proof.
  revert l; induction b as [|b IH]; intros l; [now rewrite Nat.add_0_r|].
  destruct l; [now rewrite !skipn_nil|]. rewrite Nat.add_succ_r. cbn. apply IH.
Qed.

Lemma firstn_add_skip {A} (a b : nat) (l : list A) :
  firstn (a + b) l = firstn a l ++ firstn b (skipn a l).
Proof.
  revert l; induction a as [|a IH]; intros l; cbn; [reflexivity|].
  destruct l; cbn; [now rewrite firstn_nil|]. now rewrite IH.
Qed.

Lemma range_length {A} a b (l : list A) : b <= length l -> length (range a b l) = b - a.
Proof. intros H. unfold range. rewrite firstn_length, skipn_length. lia. Qed.

Lemma range_split {A} a m b (l : list A) : a <= m -> m <= b ->
  range a b l = range a m l ++ range m b l.
Proof.
  intros H1 H2. unfold range.
  replace (b - a) with ((m - a) + (b - m)) by lia.
  rewrite firstn_add_skip, skipn_skipn. replace (m - a + a) with m by lia. reflexivity.
Qed.

Lemma range_nil {A} a b (l : list A) : b <= a -> range a b l = [].
Proof. intros H. unfold range. replace (b - a) with 0 by lia. reflexivity. Qed.

Lemma firstn_S_skipn {A} (l : list A) a m x : nth_error l a = Some x ->
  firstn (S m) (skipn a l) = x :: firstn m (skipn (S a) l).
Proof.
  revert a; induction l as [|y l IH]; intros a Hx.
  - destruct a; discriminate.
  - destruct a as [|a]; cbn in Hx.
    + injection Hx as ->. reflexivity.
    + cbn [skipn]. apply IH. exact Hx.
Qed.

Lemma range_cons {A} a b (l : list A) x : a < b -> nth_error l a = Some x ->
  range a b l = x :: range (S a) b l.
Proof.
  intros Hlt Hx. unfold range. replace (b - a) with (S (b - S a)) by lia.
  apply firstn_S_skipn. exact Hx.
Qed.

Lemma range_snoc {A} a b (l : list A) x : a < b -> nth_error l (b - 1) = Some x ->
  range a b l = range a (b - 1) l ++ [x].
Proof.
  intros Hlt Hx. rewrite (range_split a (b - 1) b) by lia. f_equal.
  rewrite (range_cons (b - 1) b l x) by (try lia; exact Hx).
  rewrite range_nil by lia. reflexivity.
Qed.

Lemma range_all {A} (l : list A) : range 0 (length l) l = l.
Proof. unfold range. rewrite Nat.sub_0_r. cbn. apply firstn_all. Qed.

Lemma nth_error_Some_lt {A} (l : list A) i : i < length l -> exists x, nth_error l i = Some x.
Proof.
  intros H. destruct (nth_error l i) eqn:E; [eauto|].
  apply nth_error_None in E. lia.
Qed.

Lemma NoDup_app_l {A} (l l' : list A) : NoDup (l ++ l') -> NoDup l.
Proof.
  induction l as [|a l IH]; cbn; intros H; [constructor|].
  inversion H as [|? ? Hin Hnd]; subst. constructor.
  - intro Hc. apply Hin. apply in_or_app. now left.
  - auto.
Qed.

Lemma NoDup_app_r {A} (l l' : list A) : NoDup (l ++ l') -> NoDup l'.
Proof. induction l as [|a l IH]; cbn; [auto|]. intros H; inversion H; auto. Qed.

(* list update *)
Fixpoint upd {A} (i : nat) (v : A) (l : list A) : list A :=
  match l, i with
  | [], _ => []
  | _ :: r, 0 => v :: r
  | x :: r, S j => x :: upd j v r
  end.

Lemma upd_length {A} i (v : A) l : length (upd i v l) = length l.
Proof. revert i; induction l as [|x l IH]; intros [|i]; cbn; auto. Qed.

(* Z <-> nat helpers for the case encodings *)
Definition zlen {A} (l : list A) : Z := Z.of_nat (length l).

(* release bookkeeping *)
Lemma releases_app t u : releases (t ++ u) = releases t ++ releases u.
Proof. unfold releases. now rewrite filter_app, map_app. Qed.

Lemma releases_drops l : releases (map EDrop l) = l.
Proof. unfold releases. induction l as [|x l IH]; cbn; [reflexivity|]. now rewrite IH. Qed.

Lemma releases_moved l : releases (map EMove l) = l.
Proof. unfold releases. induction l as [|x l IH]; cbn; [reflexivity|]. now rewrite IH. Qed.

(* HeapOps.v -- hub model of the crate's alloc-feature code: src/impl_alloc.rs and
   box_arr! (src/arr.rs), over the heap model of Alloc.v.  Definitions only.

   Every function mirrors the body in /repo/src/impl_alloc.rs: the same tests, the
   same std calls in the same order, the same owner of every block at every point
   where unwinding can start.  Element-level behaviour (which items are pulled,
   which closure calls happen, what unwinding drops) is reused from Builder.v
   (try_boxed_from_iter) and Functional.v (generate / map / zip pipelines). *)
From GA Require Import Base Builder Functional Alloc.
Local Open Scope Z_scope.

Section Ops.
Variable fails : nat -> bool.

Notation std_alloc := (std_alloc fails).
Notation std_realloc := (std_realloc fails).
Notation raw_alloc := (raw_alloc fails).

(* impl TryFrom<Vec<T>> for GenericArray<T, N>: length test, then every element is moved
   into the (stack) destination through v.into_iter(); vec::IntoIter's drop releases the
   buffer.  On a length mismatch v is dropped. *)
Definition vec_to_array (T : elt) (N : nat) (v : hvec) : M (option (list Z)) :=
  if negb (vlen v =? Z.of_nat N) then vec_drop T v ;;; ret None
  else std_free (vblk v) (bytes T (vcap v)) (eal T) ;;; ret (Some (vel v)).

(* GenericArray::into_boxed_slice: Box::into_raw / slice_from_raw_parts_mut / Box::from_raw *)
Definition into_boxed_slice (b : hbox) : M hbox := ret (mkBox (bblk b) (bel b)).

(* GenericArray::into_vec = Vec::from(self.into_boxed_slice()) *)
Definition into_vec (b : hbox) : M hvec := s <- into_boxed_slice b ;; ret (vec_from_box s).

(* GenericArray::try_from_boxed_slice: length test, then a pointer cast *)
Definition try_from_boxed_slice (T : elt) (N : nat) (s : hbox) : M (option hbox) :=
  if negb (blen s =? Z.of_nat N) then box_drop T s ;;; ret None
  else ret (Some (mkBox (bblk s) (bel s))).

(* GenericArray::try_from_vec = try_from_boxed_slice(vec.into_boxed_slice()) *)
Definition try_from_vec (T : elt) (N : nat) (v : hvec) : M (option hbox) :=
  s <- vec_into_boxed_slice fails T v ;; try_from_boxed_slice T N s.

(* impl GenericSequence for Box<GenericArray<T, N>>: generate -- the FIXED function:
   the block is owned by a Box<MaybeUninit<..>> (Box::new_uninit) while the builder fills
   it; unwinding drops the builder (the elements written so far: [generate_]'s events)
   and then that box (the block, not the elements). *)
Definition boxed_generate (T : elt) (N : nat) (f : nat -> list Z -> Z) (pan : option nat)
  : M hbox :=
  blk <- box_new_uninit fails T N ;;
  let '(o, e, _) := generate_ N f pan in
  emitE e ;;;
  match o with
  | Ok built => ret (mkBox blk built)
  | Panic => std_free blk (bytes T (Z.of_nat N)) (eal T) ;;; stop MPanic
  | Err => stop MUB   (* a builder over N slots fed N values: not reachable (generate_never_err) *)
  end.

(* the function as it is in /repo at 614d235: the test is on the ELEMENT size only, the
   result of alloc::alloc::alloc is dereferenced unchecked, and the block is a raw pointer
   until Box::from_raw at the very end *)
Definition boxed_generate_buggy (T : elt) (N : nat) (f : nat -> list Z -> Z) (pan : option nat)
  : M hbox :=
  blk <- (if esz T =? 0 then ret None
          else p <- raw_alloc (bytes T (Z.of_nat N)) (eal T) ;;
               match p with
               | Some b => ret (Some b)
               | None => emitA ENullDeref ;;; stop MUB      (* &mut *ptr with ptr = null *)
               end) ;;
  let '(o, e, _) := generate_ N f pan in
  emitE e ;;;
  match o with
  | Ok built => ret (mkBox blk built)
  | Panic => stop MPanic                                      (* nobody owns the block *)
  | Err => stop MUB
  end.

(* GenericArray::default_boxed = Box::<GenericArray<T, N>>::generate(|_| T::default()) *)
Definition default_boxed (T : elt) (N : nat) (d : nat -> list Z -> Z) (pan : option nat) : M hbox :=
  boxed_generate T N d pan.

(* GenericArray::try_boxed_from_iter: size-hint pre-checks (no allocation yet);
   Vec::with_capacity(N); v.extend(iter.take(N)) never grows the buffer; on a short or
   long source, or when the source panics, v is dropped (items, then buffer); otherwise
   try_from_vec(v).unwrap().  Polls and item drops: Builder.try_boxed_from_iter. *)
Definition try_boxed_from_iter (T : elt) (N : nat) (s : src) : M (option hbox) :=
  if precheck_reject N s then ret None
  else
    v <- vec_with_capacity fails T (Z.of_nat N) ;;
    let '(o, e, _) := Builder.try_boxed_from_iter N s in
    emitE e ;;;
    match o with
    | Ok built =>
      r <- try_from_vec T N (mkVec (vblk v) (vcap v) built) ;;
      match r with Some b => ret (Some b) | None => stop MLenPanic end
    | Err => std_free (vblk v) (bytes T (vcap v)) (eal T) ;;; ret None
    | Panic => std_free (vblk v) (bytes T (vcap v)) (eal T) ;;; stop MPanic
    end.

(* impl FromIterator<T> for Box<GenericArray<T, N>> *)
Definition boxed_from_iter (T : elt) (N : nat) (s : src) : M hbox :=
  r <- try_boxed_from_iter T N s ;;
  match r with Some b => ret b | None => stop MLenPanic end.

(* impl TryFrom<Box<[T]>> for GenericArray<T, N> = Vec::from(value).try_into() *)
Definition boxed_slice_to_array (T : elt) (N : nat) (s : hbox) : M (option (list Z)) :=
  vec_to_array T N (vec_from_box s).

(* impl From<GenericArray<T, N>> for Box<[T]> = Box::new(value).into_boxed_slice() *)
Definition array_to_boxed_slice (T : elt) (a : list Z) : M hbox :=
  b <- box_new fails T a ;; into_boxed_slice b.

(* impl From<GenericArray<T, N>> for Vec<T> = Box::<[T]>::from(value).into() *)
Definition array_to_vec (T : elt) (a : list Z) : M hvec :=
  s <- array_to_boxed_slice T a ;; ret (vec_from_box s).

(* impl IntoIterator for Box<GenericArray<T, N>> = into_vec(self).into_iter(): a
   vec::IntoIter owning the buffer; [k] items are taken by the caller, then the iterator
   is dropped (the rest of the items, then the buffer) *)
Definition boxed_into_iter (T : elt) (b : hbox) (k : nat) : M (list Z) :=
  v <- into_vec b ;;
  emitE (map EDrop (skipn k (vel v))) ;;;
  std_free (vblk v) (bytes T (vcap v)) (eal T) ;;;
  ret (firstn k (vel v)).

(* box_arr![a, b, c] = __from_vec_helper([(); k], vec![a, b, c]) = try_from_vec(..).unwrap_unchecked() *)
Definition box_arr_list (T : elt) (l : list Z) : M hbox :=
  v <- vec_lit fails T l ;;
  r <- try_from_vec T (length l) v ;;
  match r with Some b => ret b | None => stop MUB end.

(* box_arr![x; N] = try_from_vec(vec![x; N::USIZE]).unwrap() *)
Definition box_arr_repeat (T : elt) (x : Z) (N : nat) (cl : nat -> Z) : M hbox :=
  v <- vec_from_elem fails T x N cl ;;
  r <- try_from_vec T N v ;;
  match r with Some b => ret b | None => stop MLenPanic end.

(* FunctionalSequence for Box<GenericArray<T, N>>, trait-default bodies:
   map = FromIterator::from_iter(self.into_iter().map(f)) with the boxed collector:
   the source vec::IntoIter owns the input block; locals of try_boxed_from_iter are
   [iter] then [v], so unwinding releases v's buffer first, then the input's.  The
   size hint of Map<vec::IntoIter> is exact, the extra poll finds the iterator empty
   (f is not called).  Element events: Functional.map_ / zip_ with owned inputs. *)
Definition boxed_pipeline (U : elt) (N : nat) (run : outcome * list ev * list (list Z))
           (release_inputs : M unit) : M hbox :=
  v <- vec_with_capacity fails U (Z.of_nat N) ;;
  let '(o, e, _) := run in
  emitE e ;;;
  match o with
  | Ok built =>
    r <- try_from_vec U N (mkVec (vblk v) (vcap v) built) ;;
    release_inputs ;;;
    match r with Some b => ret b | None => stop MLenPanic end
  | Panic => std_free (vblk v) (bytes U (vcap v)) (eal U) ;;; release_inputs ;;; stop MPanic
  | Err => std_free (vblk v) (bytes U (vcap v)) (eal U) ;;; release_inputs ;;; stop MLenPanic
  end.

Definition boxed_map (T U : elt) (f : nat -> list Z -> Z) (pan : option nat) (b : hbox) : M hbox :=
  boxed_pipeline U (length (bel b)) (map_ true f pan (bel b))
                 (std_free (bblk b) (bytes T (blen b)) (eal T)).

(* zip = rhs.inverted_zip2(self, f) = from_iter(lhs.into_iter().zip(rhs).map(..)); Zip drops
   its first iterator (lhs) first *)
Definition boxed_zip (T B U : elt) (f : nat -> list Z -> Z) (pan : option nat) (l r : hbox)
  : M hbox :=
  boxed_pipeline U (length (combine (bel l) (bel r))) (zip_ true true f pan (bel l) (bel r))
                 (std_free (bblk l) (bytes T (blen l)) (eal T) ;;;
                  std_free (bblk r) (bytes B (blen r)) (eal B)).

(* ---------------------------------------------------------------- scenarios *)
(* A scenario = build the source values with std, run one crate operation, then drop
   whatever it returned ("all values are gone").  The conversion window is the part of
   the allocator trace between the two marks. *)
Inductive hval : Type :=
| VStack (l : list Z)                      (* a GenericArray on the stack *)
| VItems (l : list Z)                      (* items handed to the caller one by one *)
| VArr (T : elt) (N : nat) (b : hbox)      (* Box<GenericArray<T, N>> *)
| VSlice (T : elt) (b : hbox)              (* Box<[T]> *)
| VVec (T : elt) (v : hvec)                (* Vec<T> *)
| VErr.                                    (* Err(LengthError) *)

Definition val_drop (y : hval) : M unit :=
  match y with
  | VStack l => emitE (map EDrop l)
  | VItems _ => ret tt                     (* the caller keeps them *)
  | VArr T N b => arr_drop T N b
  | VSlice T b => box_drop T b
  | VVec T v => vec_drop T v
  | VErr => ret tt
  end.

Definition val_contents (y : hval) : list Z :=
  match y with
  | VStack l | VItems l => l
  | VArr _ _ b | VSlice _ b => bel b
  | VVec _ v => vel v
  | VErr => []
  end.

(* the block the value owns, when it is a heap value *)
Definition val_block (y : hval) : option (option nat) :=
  match y with
  | VArr _ _ b | VSlice _ b => Some (bblk b)
  | VVec _ v => Some (vblk v)
  | _ => None
  end.

Inductive scn : Type :=
| SVecToArray (N : nat) (src : list Z) (spare : Z)
| SIntoBoxedSlice (src : list Z)
| SIntoVec (src : list Z)
| STryFromBoxedSlice (N : nat) (src : list Z)
| STryFromVec (N : nat) (src : list Z) (spare : Z)
| SGenerate (N : nat) (f : nat -> list Z -> Z) (pan : option nat)
| SDefaultBoxed (N : nat) (d : nat -> list Z -> Z) (pan : option nat)
| STryBoxedFromIter (N : nat) (s : src)
| SBoxedFromIter (N : nat) (s : src)
| SBoxedSliceToArray (N : nat) (src : list Z)
| SArrayToBoxedSlice (src : list Z)
| SArrayToVec (src : list Z)
| SBoxedIntoIter (src : list Z) (k : nat)
| SBoxArrList (l : list Z)
| SBoxArrRepeat (x : Z) (N : nat) (cl : nat -> Z)
| SBoxedMap (U : elt) (f : nat -> list Z -> Z) (pan : option nat) (src : list Z)
| SBoxedZip (B U : elt) (f : nat -> list Z -> Z) (pan : option nat) (l r : list Z).

(* a source Vec with [spare] unused slots: Vec::with_capacity(len + spare), then pushes *)
Definition mk_vec (T : elt) (l : list Z) (spare : Z) : M hvec :=
  v <- vec_with_capacity fails T (zlen l + spare) ;; ret (mkVec (vblk v) (vcap v) l).
(* a source Box<[T]> / Box<GenericArray>: one block of exactly the contents *)
Definition mk_box (T : elt) (l : list Z) : M hbox := box_new fails T l.

Definition opt_val {A} (f : A -> hval) (o : option A) : hval :=
  match o with Some a => f a | None => VErr end.

(* build: M (source blocks, continuation) *)
Definition scn_build (T : elt) (sc : scn) : M (list (option nat) * M hval) :=
  match sc with
  | SVecToArray N l spare =>
    v <- mk_vec T l spare ;; ret ([vblk v], r <- vec_to_array T N v ;; ret (opt_val VStack r))
  | SIntoBoxedSlice l =>
    b <- mk_box T l ;; ret ([bblk b], s <- into_boxed_slice b ;; ret (VSlice T s))
  | SIntoVec l =>
    b <- mk_box T l ;; ret ([bblk b], v <- into_vec b ;; ret (VVec T v))
  | STryFromBoxedSlice N l =>
    b <- mk_box T l ;; ret ([bblk b], r <- try_from_boxed_slice T N b ;; ret (opt_val (VArr T N) r))
  | STryFromVec N l spare =>
    v <- mk_vec T l spare ;; ret ([vblk v], r <- try_from_vec T N v ;; ret (opt_val (VArr T N) r))
  | SGenerate N f pan => ret ([], b <- boxed_generate T N f pan ;; ret (VArr T N b))
  | SDefaultBoxed N d pan => ret ([], b <- default_boxed T N d pan ;; ret (VArr T N b))
  | STryBoxedFromIter N s => ret ([], r <- try_boxed_from_iter T N s ;; ret (opt_val (VArr T N) r))
  | SBoxedFromIter N s => ret ([], b <- boxed_from_iter T N s ;; ret (VArr T N b))
  | SBoxedSliceToArray N l =>
    b <- mk_box T l ;; ret ([bblk b], r <- boxed_slice_to_array T N b ;; ret (opt_val VStack r))
  | SArrayToBoxedSlice l => ret ([], s <- array_to_boxed_slice T l ;; ret (VSlice T s))
  | SArrayToVec l => ret ([], v <- array_to_vec T l ;; ret (VVec T v))
  | SBoxedIntoIter l k =>
    b <- mk_box T l ;; ret ([bblk b], r <- boxed_into_iter T b k ;; ret (VItems r))
  | SBoxArrList l => ret ([], b <- box_arr_list T l ;; ret (VArr T (length l) b))
  | SBoxArrRepeat x N cl => ret ([], b <- box_arr_repeat T x N cl ;; ret (VArr T N b))
  | SBoxedMap U f pan l =>
    b <- mk_box T l ;; ret ([bblk b], r <- boxed_map T U f pan b ;; ret (VArr U (length l) r))
  | SBoxedZip B U f pan l r =>
    bl <- mk_box T l ;; br <- mk_box B r ;;
    ret ([bblk bl; bblk br],
         o <- boxed_zip T B U f pan bl br ;; ret (VArr U (length (combine l r)) o))
  end.

(* outcome codes of a scenario *)
Inductive rcode : Type := ROk | RLenErr | RPanic | RLenPanic | RAllocErr | RUB.

Definition code_of {A} (r : mres A) : rcode :=
  match r with
  | MRet _ => ROk | MPanic => RPanic | MLenPanic => RLenPanic | MAllocErr => RAllocErr | MUB => RUB
  end.

Record report : Type := mkReport {
  r_code : rcode;
  r_contents : list Z;           (* the elements of the result, in order *)
  r_events : list ev;            (* element events of the operation itself *)
  r_same : option bool;          (* heap result: does it own the (first) source block? *)
  r_win : nat * nat;             (* allocator events [fst, snd) happened during the operation *)
  r_final : ast                  (* everything, including the final drop of the result *)
}.

Definition opt_nat_eqb (a b : option nat) : bool :=
  match a, b with
  | Some x, Some y => Nat.eqb x y
  | None, None => true
  | _, _ => false
  end.

Definition run_scn (T : elt) (sc : scn) (st0 : ast) : report :=
  match scn_build T sc st0 with
  | (MRet (srcs, conv), st1) =>
    match conv st1 with
    | (MRet y, st2) =>
      let '(d, st3) := val_drop y st2 in
      mkReport (match d with MRet _ => match y with VErr => RLenErr | _ => ROk end | _ => RUB end)
               (val_contents y)
               (skipn (length (etr st1)) (etr st2))
               (match val_block y, srcs with
                | Some b, s :: _ => Some (opt_nat_eqb b s)
                | _, _ => None
                end)
               (length (atr st1), length (atr st2))
               st3
    | (r, st2) =>
      mkReport (code_of r) [] (skipn (length (etr st1)) (etr st2)) None
               (length (atr st1), length (atr st2)) st2
    end
  | (r, st1) => mkReport (code_of r) [] [] None (length (atr st1), length (atr st1)) st1
  end.

(* the scenario with the function as it is at 614d235 *)
Definition run_generate_buggy (T : elt) (N : nat) (f : nat -> list Z -> Z) (pan : option nat)
           (st0 : ast) : rcode * ast :=
  match boxed_generate_buggy T N f pan st0 with
  | (MRet b, st1) => let '(d, st2) := arr_drop T N b st1 in (match d with MRet _ => ROk | _ => RUB end, st2)
  | (r, st1) => (code_of r, st1)
  end.

(* ---------------------------------------------------------------- what C16 asks of a run *)
(* the identities of the live heap a run starts from are below the next fresh identity *)
Definition fresh (n : nat) (h : heap) : Prop := forall b, (n <= b)%nat -> hfind b h = None.

(* side conditions of a scenario: what the type system / the harness guarantees *)
Definition scn_ok (sc : scn) : Prop :=
  match sc with
  | SVecToArray _ _ spare | STryFromVec _ _ spare => 0 <= spare
  | SBoxedMap U _ _ _ => elt_ok U
  | SBoxedZip B U _ _ l r => elt_ok B /\ elt_ok U /\ length l = length r
  | _ => True
  end.

Fixpoint nfail (t : list aev) : nat :=
  match t with
  | [] => O
  | EAllocFail _ _ :: r => S (nfail r)
  | _ :: r => nfail r
  end.

(* A run that started from live heap h0 with k allocation calls already made:
   - never undefined behaviour (in particular no reference into the null block);
   - the allocator trace is valid from h0;
   - unless the process aborted through handle_alloc_error, the live heap is h0 again once
     all values are gone (also when the run ended in a caught panic);
   - the run ends in the allocation-error outcome exactly when one of the allocation calls
     it made (indices k .. k' - 1 of the oracle) failed, and that call is the last event. *)
Definition heap_ok (h0 : heap) (k : nat) (c : rcode) (st : ast) : Prop :=
  match c with
  | RUB => False
  | RAllocErr =>
    (exists h, valid h0 (atr st) h) /\
    (exists t' sz al, atr st = t' ++ [EAllocFail sz al] /\ nfail t' = O) /\
    (k < nallocs st)%nat /\ fails (pred (nallocs st)) = true /\
    (forall j, (k <= j < pred (nallocs st))%nat -> fails j = false)
  | _ =>
    valid h0 (atr st) h0 /\ nfail (atr st) = O /\
    (forall j, (k <= j < nallocs st)%nat -> fails j = false)
  end.

End Ops.

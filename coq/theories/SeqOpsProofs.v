(* SeqOpsProofs.v -- lemmas and proofs about the hub model of src/sequence.rs
   (SeqOps.v): every operation, run as the crate's pointer program over the
   checked element-granular memory, returns what the corresponding Vec operation
   returns, for every length and every valid position; no access fails; nothing
   is duplicated or lost; out-of-range indices panic with the array dropped. *)
From Coq Require Import Permutation.
From GA Require Import Base SeqOps.

(* ------------------------------------------------------------ list helpers *)

Lemma firstn_app_len {A} (a b : list A) n : n = length a -> firstn n (a ++ b) = a.
Proof.
  intros ->. rewrite firstn_app, Nat.sub_diag, firstn_all. cbn. apply app_nil_r.
Qed.

Lemma skipn_app_len {A} (a b : list A) n : n = length a -> skipn n (a ++ b) = b.
Proof.
  intros ->. rewrite skipn_app, Nat.sub_diag, skipn_all. reflexivity.
Qed.

Lemma upd_map {A B} (f : A -> B) i v l : upd i (f v) (map f l) = map f (upd i v l).
Proof. revert i; induction l as [|x l IH]; intros [|i]; cbn; auto. now rewrite IH. Qed.

Lemma nth_error_upd_eq {A} i (v : A) l : i < length l -> nth_error (upd i v l) i = Some v.
Proof.
  revert i; induction l as [|x l IH]; intros [|i] H; cbn in *; try lia; auto.
  apply IH. lia.
Qed.

Lemma firstn_upd_same {A} i (v : A) l : firstn i (upd i v l) = firstn i l.
Proof. revert i; induction l as [|x l IH]; intros [|i]; cbn; auto. now rewrite IH. Qed.

Lemma upd_mid {A} (a c : list A) x v i : i = length a -> upd i v (a ++ x :: c) = a ++ v :: c.
Proof. intros ->. induction a as [|y a IH]; cbn; auto. now rewrite IH. Qed.

Lemma upd_app_l {A} (a b : list A) v i : i < length a -> upd i v (a ++ b) = upd i v a ++ b.
Proof.
  revert i; induction a as [|y a IH]; intros [|i] H; cbn in *; try lia; auto.
  rewrite IH by lia. reflexivity.
Qed.

Lemma upd_same {A} i (v : A) l : nth_error l i = Some v -> upd i v l = l.
Proof.
  revert i; induction l as [|x l IH]; intros [|i] H; cbn in *; try discriminate; auto.
  - now injection H as ->.
  - now rewrite IH.
Qed.

Lemma snoc_cases {A} (l : list A) : l = [] \/ exists init x, l = init ++ [x].
Proof.
  induction l as [|y l IH]; [now left|]. right.
  destruct IH as [->|(init & x & ->)].
  - exists [], y. reflexivity.
  - exists (y :: init), x. reflexivity.
Qed.

Lemma zlen_nat {A} (l : list A) : Z.to_nat (zlen l) = length l.
Proof. unfold zlen. apply Nat2Z.id. Qed.

(* ------------------------------------------------------------ memory lemmas *)

Lemma cells_vals_init l : cells_vals (map Init l) = Some l.
Proof. induction l as [|x l IH]; cbn; [reflexivity|]. now rewrite IH. Qed.

Lemma mread_of_list l off k : off + k <= length l ->
  mread (of_list l) off k = Some (firstn k (skipn off l)).
Proof.
  intros H. unfold mread, in_bounds, of_list. rewrite map_length.
  destruct (Nat.leb_spec (off + k) (length l)); [|lia].
  rewrite skipn_map, firstn_map. apply cells_vals_init.
Qed.

Lemma mread1_of_list l i x : nth_error l i = Some x -> mread1 (of_list l) i = Some x.
Proof.
  intros H. unfold mread1.
  assert (Hlt : i < length l) by (apply nth_error_Some; congruence).
  rewrite mread_of_list by lia.
  rewrite (firstn_S_skipn l i 0 x H). reflexivity.
Qed.

Lemma assume_init_of_list l : assume_init (of_list l) = Some l.
Proof.
  unfold assume_init. rewrite mread_of_list by (unfold of_list; rewrite map_length; lia).
  unfold of_list. rewrite map_length. cbn [skipn]. now rewrite firstn_all.
Qed.

(* a read that sees only the initialised prefix of a block *)
Lemma mread_prefix p (junk : block) k : k = length p ->
  mread (of_list p ++ junk) 0 k = Some p.
Proof.
  intros ->. unfold mread, in_bounds, of_list. rewrite app_length, map_length.
  destruct (Nat.leb_spec (0 + length p) (length p + length junk)); [|lia].
  cbn [skipn]. rewrite firstn_app_len by now rewrite map_length.
  apply cells_vals_init.
Qed.

Lemma mwrite_mid (a m c : block) vs off : off = length a -> length m = length vs ->
  mwrite (a ++ m ++ c) off vs = Some (a ++ map Init vs ++ c).
Proof.
  intros -> Hm. unfold mwrite, in_bounds. rewrite !app_length.
  destruct (Nat.leb_spec (length a + length vs) (length a + (length m + length c))); [|lia].
  rewrite firstn_app_len by reflexivity.
  rewrite (app_assoc a m c), skipn_app_len by (rewrite app_length; lia). reflexivity.
Qed.

Lemma mcopy_shift (a c : list Z) x :
  mcopy (of_list (a ++ x :: c)) (length a + 1) (length a) (length c)
  = Some (of_list (a ++ c) ++ skipn (length a + length c) (of_list (a ++ x :: c))).
Proof.
  unfold mcopy, in_bounds, of_list. rewrite map_length, app_length. cbn [length].
  destruct (Nat.leb_spec (length a + 1 + length c) (length a + S (length c))); [|lia].
  destruct (Nat.leb_spec (length a + length c) (length a + S (length c))); [|lia].
  cbn [andb]. f_equal.
  rewrite !map_app. cbn [map].
  rewrite firstn_app_len by now rewrite map_length.
  replace (map Init a ++ Init x :: map Init c) with ((map Init a ++ [Init x]) ++ map Init c)
    by (now rewrite <- app_assoc).
  rewrite (skipn_app_len (map Init a ++ [Init x])) by (rewrite app_length, map_length; cbn; lia).
  rewrite firstn_all2 by (rewrite map_length; lia).
  rewrite <- !app_assoc. reflexivity.
Qed.

Lemma mswap_of_list l i j x y : nth_error l i = Some x -> nth_error l j = Some y ->
  mswap (of_list l) i j = Some (of_list (upd j x (upd i y l))).
Proof.
  intros Hi Hj. unfold mswap, of_list.
  rewrite (map_nth_error Init _ _ Hi), (map_nth_error Init _ _ Hj).
  now rewrite !upd_map.
Qed.

(* ------------------------------------------------------------ type-level lengths *)

Lemma sub1_snoc {A} (l : list A) x : sub1 (length (l ++ [x])) = Some (length l).
Proof.
  unfold sub1. rewrite app_length. cbn [length].
  destruct (Nat.eqb_spec (length l + 1) 0); [lia|]. f_equal. lia.
Qed.

Lemma sub1_cons {A} (l : list A) x : sub1 (length (x :: l)) = Some (length l).
Proof. unfold sub1. cbn [length Nat.eqb]. f_equal. lia. Qed.

Lemma sub1_nonempty {A} (l : list A) : l <> [] -> sub1 (length l) = Some (length l - 1).
Proof. intros H. destruct l; [congruence|]. rewrite sub1_cons. f_equal. cbn. lia. Qed.

(* ------------------------------------------------------------------ Lengthen *)

Lemma append_spec l x : append l x = (Ok (l ++ [x]), []).
Proof.
  unfold append, add1. f_equal.
  replace (fresh (length l + 1)) with ([] ++ repeat Uninit (length l) ++ [Uninit])
    by (unfold fresh; now rewrite repeat_app).
  rewrite (mwrite_mid [] (repeat Uninit (length l)) [Uninit] l 0)
    by (rewrite ?repeat_length; reflexivity).
  cbn [access app]. rewrite Nat.mul_1_l.
  replace (map Init l ++ [Uninit]) with (map Init l ++ [Uninit] ++ []) by reflexivity.
  rewrite (mwrite_mid (map Init l) [Uninit] [] [x]) by (rewrite ?map_length; reflexivity).
  cbn [access].
  replace (map Init l ++ map Init [x] ++ []) with (of_list (l ++ [x]))
    by (unfold of_list; now rewrite map_app, app_nil_r).
  now rewrite assume_init_of_list.
Qed.

Lemma prepend_spec l x : prepend l x = (Ok (x :: l), []).
Proof.
  unfold prepend, add1. f_equal.
  replace (fresh (length l + 1)) with ([] ++ [Uninit] ++ repeat Uninit (length l))
    by (unfold fresh; rewrite Nat.add_comm; reflexivity).
  rewrite (mwrite_mid [] [Uninit] (repeat Uninit (length l)) [x] 0) by reflexivity.
  cbn [access app map]. rewrite Nat.mul_1_l.
  replace (Init x :: repeat Uninit (length l)) with ([Init x] ++ repeat Uninit (length l) ++ [])
    by (now rewrite app_nil_r).
  rewrite (mwrite_mid [Init x] (repeat Uninit (length l)) [] l 1)
    by (rewrite ?repeat_length; reflexivity).
  cbn [access].
  replace ([Init x] ++ map Init l ++ []) with (of_list (x :: l))
    by (unfold of_list; now rewrite app_nil_r).
  now rewrite assume_init_of_list.
Qed.

Lemma concat_spec l m : concat l m = (Ok (l ++ m), []).
Proof.
  unfold concat, sum. f_equal.
  replace (fresh (length l + length m))
    with ([] ++ repeat Uninit (length l) ++ repeat Uninit (length m))
    by (unfold fresh; now rewrite repeat_app).
  rewrite (mwrite_mid [] (repeat Uninit (length l)) _ l 0)
    by (rewrite ?repeat_length; reflexivity).
  cbn [access app]. rewrite Nat.mul_1_l.
  replace (map Init l ++ repeat Uninit (length m))
    with (map Init l ++ repeat Uninit (length m) ++ []) by (now rewrite app_nil_r).
  rewrite (mwrite_mid (map Init l) (repeat Uninit (length m)) [] m)
    by (rewrite ?map_length, ?repeat_length; reflexivity).
  cbn [access].
  replace (map Init l ++ map Init m ++ []) with (of_list (l ++ m))
    by (unfold of_list; now rewrite map_app, app_nil_r).
  now rewrite assume_init_of_list.
Qed.

(* ------------------------------------------------------------------- Shorten *)

Lemma pop_back_spec l x : pop_back (l ++ [x]) = (Ok (l, x), []).
Proof.
  unfold pop_back. rewrite sub1_snoc. f_equal.
  rewrite mread_of_list by (rewrite app_length; lia).
  cbn [access skipn]. rewrite firstn_app_len by reflexivity.
  rewrite (mread1_of_list (l ++ [x]) (length l) x).
  - reflexivity.
  - rewrite nth_error_app2 by lia. now rewrite Nat.sub_diag.
Qed.

Lemma pop_front_spec l x : pop_front (x :: l) = (Ok (x, l), []).
Proof.
  unfold pop_front. rewrite sub1_cons. f_equal.
  rewrite (mread1_of_list (x :: l) 0 x) by reflexivity.
  cbn [access]. rewrite Nat.mul_1_l.
  rewrite mread_of_list by (cbn [length]; lia).
  cbn [access skipn]. now rewrite firstn_all.
Qed.

Lemma pop_empty : pop_back [] = (NoInst, []) /\ pop_front [] = (NoInst, []).
Proof. split; reflexivity. Qed.

Lemma vec_pop_snoc l x : vec_pop (l ++ [x]) = Some (l, x).
Proof.
  unfold vec_pop. rewrite app_length. cbn [length].
  replace (length l + 1 - 1) with (length l) by lia.
  rewrite nth_error_app2 by lia. rewrite Nat.sub_diag. cbn [nth_error].
  now rewrite firstn_app_len.
Qed.

Lemma pop_back_vec l r : vec_pop l = Some r -> pop_back l = (Ok r, []).
Proof.
  intros H. destruct (snoc_cases l) as [->|(init & x & ->)]; [discriminate|].
  rewrite vec_pop_snoc in H. injection H as <-. apply pop_back_spec.
Qed.

Lemma pop_front_vec l r : vec_pop_front l = Some r -> pop_front l = (Ok r, []).
Proof.
  intros H. destruct l as [|x l]; [discriminate|]. injection H as <-. apply pop_front_spec.
Qed.

(* --------------------------------------------------------------------- Split *)

Lemma split_spec K l : K <= length l -> split K l = (Ok (firstn K l, skipn K l), []).
Proof.
  intros H. unfold split, diff.
  destruct (Nat.leb_spec K (length l)); [|lia]. f_equal.
  rewrite mread_of_list by lia. cbn [access skipn].
  rewrite mread_of_list by lia. cbn [access].
  rewrite (firstn_all2 (skipn K l)) by (rewrite skipn_length; lia). reflexivity.
Qed.

Lemma split_no_inst K l : length l < K -> split K l = (NoInst, []).
Proof.
  intros H. unfold split, diff. destruct (Nat.leb_spec K (length l)); [lia|]. reflexivity.
Qed.

Lemma split_concat_inverse K l : K <= length l ->
  forall h t, split K l = (Ok (h, t), []) -> concat h t = (Ok l, []).
Proof.
  intros H h t E. rewrite split_spec in E by exact H. injection E as <- <-.
  rewrite concat_spec. now rewrite firstn_skipn.
Qed.

(* by-reference split *)
Lemma split_ref_spec N K : K <= N -> split_ref N K = Ok ((0, K), (K, N - K)).
Proof. intros H. unfold split_ref, diff. destruct (Nat.leb_spec K N); [|lia]. reflexivity. Qed.

Lemma split_ref_no_inst N K : N < K -> split_ref N K = NoInst.
Proof. intros H. unfold split_ref, diff. destruct (Nat.leb_spec K N); [lia|]. reflexivity. Qed.

(* disjoint, adjacent, covering: the halves tile [0, N) *)
Lemma split_ref_geometry N K h t : split_ref N K = Ok (h, t) ->
  fst h = 0 /\ snd h = K /\ fst h + snd h = fst t /\ fst t + snd t = N /\ K <= N.
Proof.
  unfold split_ref, diff. destruct (Nat.leb_spec K N); [|discriminate].
  intros E. injection E as <- <-. cbn. lia.
Qed.

(* the references show the source's own cells: reading the source block through
   the views gives the two sub-ranges (nothing was copied: split_ref has no
   memory effect at all -- it does not even take the block) *)
Lemma split_ref_contents K l h t : split_ref (length l) K = Ok (h, t) ->
  view_read (of_list l) h = Some (firstn K l) /\ view_read (of_list l) t = Some (skipn K l).
Proof.
  intros E. pose proof (split_ref_geometry _ _ _ _ E) as (_ & _ & _ & _ & HK).
  rewrite split_ref_spec in E by exact HK. injection E as <- <-.
  unfold view_read. cbn [fst snd]. split.
  - rewrite mread_of_list by lia. reflexivity.
  - rewrite mread_of_list by lia.
    now rewrite (firstn_all2 (skipn K l)) by (rewrite skipn_length; lia).
Qed.

(* the two exclusive references do not interfere: writing through the first leaves
   what the second shows unchanged, and after writing through both the source holds
   exactly the two written halves *)
Lemma split_ref_frame K l h t hs ts : split_ref (length l) K = Ok (h, t) ->
  length hs = K -> length ts = length l - K ->
  exists b1, view_write (of_list l) h hs = Some b1 /\
             view_read b1 t = Some (skipn K l) /\
             view_write b1 t ts = Some (of_list (hs ++ ts)).
Proof.
  intros E Hh Ht. pose proof (split_ref_geometry _ _ _ _ E) as (_ & _ & _ & _ & HK).
  rewrite split_ref_spec in E by exact HK. injection E as <- <-.
  exists (of_list (hs ++ skipn K l)).
  assert (Hl : of_list l = [] ++ of_list (firstn K l) ++ of_list (skipn K l)).
  { unfold of_list. cbn [app]. now rewrite <- map_app, firstn_skipn. }
  unfold view_write, view_read. cbn [fst snd].
  rewrite Hh, Nat.eqb_refl, Ht, Nat.eqb_refl. repeat split.
  - rewrite Hl. rewrite mwrite_mid; [| reflexivity |].
    + cbn [app]. unfold of_list. now rewrite map_app.
    + unfold of_list. rewrite map_length, firstn_length. lia.
  - rewrite mread_of_list by (rewrite app_length, skipn_length; lia).
    rewrite skipn_app_len by (symmetry; exact Hh).
    now rewrite firstn_all2 by (rewrite skipn_length; lia).
  - unfold of_list. rewrite map_app.
    replace (map Init hs ++ map Init (skipn K l)) with (map Init hs ++ map Init (skipn K l) ++ [])
      by now rewrite app_nil_r.
    rewrite mwrite_mid.
    + now rewrite app_nil_r, map_app.
    + now rewrite map_length.
    + rewrite map_length, skipn_length. lia.
Qed.

(* -------------------------------------------------------------------- Remove *)

Lemma remove_count_ok N idx : (0 <= idx < N)%Z ->
  remove_count N idx = Some (N - idx - 1)%Z /\ (0 <= N - idx - 1)%Z.
Proof.
  intros H. unfold remove_count, zsub.
  destruct (Z.leb_spec idx N); [|lia].
  destruct (Z.leb_spec 1 (N - idx)); [|lia]. split; [reflexivity|lia].
Qed.

(* without the bounds assert the subtraction would underflow *)
Lemma remove_count_underflow N idx : (N <= idx)%Z -> remove_count N idx = None.
Proof.
  intros H. unfold remove_count, zsub.
  destruct (Z.leb_spec idx N); [|reflexivity].
  destruct (Z.leb_spec 1 (N - idx)); [lia|reflexivity].
Qed.

Lemma vec_remove_mid a x c : vec_remove (length a) (a ++ x :: c) = Some (x, a ++ c).
Proof.
  unfold vec_remove. rewrite nth_error_app2 by lia. rewrite Nat.sub_diag. cbn [nth_error].
  rewrite firstn_app_len by reflexivity.
  replace (a ++ x :: c) with ((a ++ [x]) ++ c) by now rewrite <- app_assoc.
  rewrite skipn_app_len by (rewrite app_length; cbn; lia). reflexivity.
Qed.

Lemma remove_unchecked_mid a x c :
  remove_unchecked (zlen a) (a ++ x :: c) = Ok (x, a ++ c).
Proof.
  unfold remove_unchecked.
  assert (HN : zlen (a ++ x :: c) = (zlen a + zlen c + 1)%Z).
  { unfold zlen. rewrite app_length. cbn [length]. lia. }
  rewrite sub1_nonempty by (destruct a; discriminate).
  rewrite HN.
  destruct (Z.leb_spec (zlen a + zlen c + 1) (zlen a)); [unfold zlen in *; lia|].
  destruct (Z.eqb_spec (zlen a + zlen c + 1) 0); [unfold zlen in *; lia|].
  cbn [orb]. rewrite zlen_nat.
  rewrite (mread1_of_list (a ++ x :: c) (length a) x)
    by (rewrite nth_error_app2 by lia; now rewrite Nat.sub_diag).
  cbn [access].
  destruct (remove_count_ok (zlen a + zlen c + 1) (zlen a)) as [-> _]; [unfold zlen; lia|].
  cbn [access].
  replace (Z.to_nat (zlen a + zlen c + 1 - zlen a - 1)) with (length c)
    by (unfold zlen; lia).
  rewrite mcopy_shift. cbn [access].
  rewrite mread_prefix by (rewrite !app_length; cbn [length]; lia).
  reflexivity.
Qed.

Lemma remove_unchecked_spec l idx : (0 <= idx < zlen l)%Z ->
  exists r, vec_remove (Z.to_nat idx) l = Some r /\ remove_unchecked idx l = Ok r.
Proof.
  intros H.
  destruct (nth_error_Some_lt l (Z.to_nat idx)) as [x Hx]; [unfold zlen in H; lia|].
  destruct (nth_error_split l _ Hx) as (a & c & -> & Ha).
  replace idx with (zlen a) by (unfold zlen; lia).
  rewrite zlen_nat. exists (x, a ++ c). split; [apply vec_remove_mid|apply remove_unchecked_mid].
Qed.

Lemma remove_in_range l idx : (0 <= idx < zlen l)%Z ->
  exists r, vec_remove (Z.to_nat idx) l = Some r /\ remove idx l = (Ok r, []).
Proof.
  intros H. destruct (remove_unchecked_spec l idx H) as (r & Hv & Hr).
  exists r. split; [exact Hv|]. unfold remove.
  rewrite sub1_nonempty by (intros ->; unfold zlen in H; cbn in H; lia).
  destruct (Z.ltb_spec idx (zlen l)); [|lia]. now rewrite Hr.
Qed.

Lemma remove_out_of_range l idx : l <> [] -> (zlen l <= idx)%Z ->
  remove idx l = (PanicBounds, map EDrop l).
Proof.
  intros Hne H. unfold remove. rewrite sub1_nonempty by exact Hne.
  destruct (Z.ltb_spec idx (zlen l)); [lia|reflexivity].
Qed.

Lemma vec_swap_remove_some l i : i < length l ->
  exists x y, nth_error l i = Some x /\ nth_error l (length l - 1) = Some y /\
              vec_swap_remove i l = Some (x, firstn (length l - 1) (upd i y l)).
Proof.
  intros H. destruct (nth_error_Some_lt l i H) as [x Hx].
  destruct (nth_error_Some_lt l (length l - 1)) as [y Hy]; [lia|].
  exists x, y. unfold vec_swap_remove. now rewrite Hx, Hy.
Qed.

Lemma swap_remove_unchecked_spec l idx : (0 <= idx < zlen l)%Z ->
  exists r, vec_swap_remove (Z.to_nat idx) l = Some r /\ swap_remove_unchecked idx l = Ok r.
Proof.
  intros H.
  assert (Hi : Z.to_nat idx < length l) by (unfold zlen in H; lia).
  destruct (vec_swap_remove_some l _ Hi) as (x & y & Hx & Hy & Hv).
  eexists. split; [exact Hv|].
  unfold swap_remove_unchecked.
  rewrite sub1_nonempty by (intros ->; cbn in Hi; lia).
  destruct (Z.leb_spec (zlen l) idx); [lia|].
  destruct (Z.eqb_spec (zlen l) 0); [lia|]. cbn [orb].
  unfold zsub. destruct (Z.leb_spec 1 (zlen l)); [|lia]. cbn [access].
  replace (Z.to_nat (zlen l - 1)) with (length l - 1) by (unfold zlen; lia).
  rewrite (mswap_of_list l _ _ x y Hx Hy).
  rewrite (mread1_of_list _ (length l - 1) x)
    by (apply nth_error_upd_eq; rewrite upd_length; lia).
  cbn [access].
  rewrite mread_of_list by (rewrite !upd_length; lia).
  cbn [access skipn]. now rewrite firstn_upd_same.
Qed.

Lemma swap_remove_in_range l idx : (0 <= idx < zlen l)%Z ->
  exists r, vec_swap_remove (Z.to_nat idx) l = Some r /\ swap_remove idx l = (Ok r, []).
Proof.
  intros H. destruct (swap_remove_unchecked_spec l idx H) as (r & Hv & Hr).
  exists r. split; [exact Hv|]. unfold swap_remove.
  rewrite sub1_nonempty by (intros ->; unfold zlen in H; cbn in H; lia).
  destruct (Z.ltb_spec idx (zlen l)); [|lia]. now rewrite Hr.
Qed.

Lemma swap_remove_out_of_range l idx : l <> [] -> (zlen l <= idx)%Z ->
  swap_remove idx l = (PanicBounds, map EDrop l).
Proof.
  intros Hne H. unfold swap_remove. rewrite sub1_nonempty by exact Hne.
  destruct (Z.ltb_spec idx (zlen l)); [lia|reflexivity].
Qed.

Lemma remove_empty idx : remove idx [] = (NoInst, []) /\ swap_remove idx [] = (NoInst, []).
Proof. split; reflexivity. Qed.

(* every element dropped exactly once on the bounds panic *)
Lemma out_of_range_drops_all l idx : l <> [] -> (zlen l <= idx)%Z ->
  releases (snd (remove idx l)) = l /\ releases (snd (swap_remove idx l)) = l.
Proof.
  intros Hne H. rewrite remove_out_of_range, swap_remove_out_of_range by assumption.
  cbn [snd]. now rewrite releases_drops.
Qed.

(* ----------------------------------------------------------------- ownership *)

Lemma vec_remove_perm i l x rest : vec_remove i l = Some (x, rest) -> Permutation (x :: rest) l.
Proof.
  intros H. destruct (nth_error l i) as [y|] eqn:E.
  2:{ unfold vec_remove in H. rewrite E in H. discriminate. }
  destruct (nth_error_split l i E) as (a & c & -> & Ha). subst i.
  rewrite vec_remove_mid in H. injection H as <- <-. apply Permutation_middle.
Qed.

Lemma vec_swap_remove_perm i l x rest :
  vec_swap_remove i l = Some (x, rest) -> Permutation (x :: rest) l.
Proof.
  unfold vec_swap_remove.
  destruct (nth_error l i) as [x'|] eqn:Ex; [|discriminate].
  destruct (nth_error l (length l - 1)) as [y|] eqn:Ey; [|discriminate].
  intros H. injection H as <- <-.
  destruct (snoc_cases l) as [->|(init & z & ->)]; [destruct i; discriminate|].
  rewrite app_length in *. cbn [length] in *.
  replace (length init + 1 - 1) with (length init) in * by lia.
  rewrite nth_error_app2 in Ey by lia. rewrite Nat.sub_diag in Ey. injection Ey as ->.
  assert (Hi : i < length (init ++ [y])) by (apply nth_error_Some; congruence).
  rewrite app_length in Hi. cbn [length] in Hi.
  destruct (Nat.eq_dec i (length init)) as [->|Hne].
  - rewrite nth_error_app2 in Ex by lia. rewrite Nat.sub_diag in Ex. injection Ex as ->.
    rewrite upd_mid by reflexivity.
    rewrite firstn_app_len by reflexivity.
    apply Permutation_cons_append.
  - assert (Hlt : i < length init) by lia.
    rewrite nth_error_app1 in Ex by exact Hlt.
    destruct (nth_error_split init i Ex) as (a & c & -> & Ha). subst i.
    rewrite upd_app_l by exact Hlt.
    rewrite firstn_app_len by (rewrite upd_length; reflexivity).
    rewrite upd_mid by reflexivity.
    (* x' :: a ++ y :: c   ~   (a ++ x' :: c) ++ [y] *)
    etransitivity; [|apply Permutation_cons_append].
    (* x' :: a ++ y :: c ~ y :: a ++ x' :: c *)
    etransitivity; [apply perm_skip; symmetry; apply Permutation_middle|].
    etransitivity; [apply perm_swap|]. apply perm_skip. apply Permutation_middle.
Qed.

(* the removed value plus the shortened array is a permutation of the input: every
   source cell is moved out exactly once, and no destructor runs *)
Lemma remove_moves_each_once l idx x rest e : (0 <= idx)%Z ->
  remove idx l = (Ok (x, rest), e) -> Permutation (x :: rest) l /\ e = [].
Proof.
  intros H0 E. destruct (Z.ltb_spec idx (zlen l)) as [Hlt|Hge].
  - destruct (remove_in_range l idx (conj H0 Hlt)) as (r & Hv & Hr).
    rewrite Hr in E. injection E as -> <-. split; [|reflexivity].
    eapply vec_remove_perm; exact Hv.
  - destruct l as [|y l]; [discriminate|].
    rewrite remove_out_of_range in E by (try discriminate; exact Hge). discriminate.
Qed.

Lemma swap_remove_moves_each_once l idx x rest e : (0 <= idx)%Z ->
  swap_remove idx l = (Ok (x, rest), e) -> Permutation (x :: rest) l /\ e = [].
Proof.
  intros H0 E. destruct (Z.ltb_spec idx (zlen l)) as [Hlt|Hge].
  - destruct (swap_remove_in_range l idx (conj H0 Hlt)) as (r & Hv & Hr).
    rewrite Hr in E. injection E as -> <-. split; [|reflexivity].
    eapply vec_swap_remove_perm; exact Hv.
  - destruct l as [|y l]; [discriminate|].
    rewrite swap_remove_out_of_range in E by (try discriminate; exact Hge). discriminate.
Qed.

(* for the other operations the output IS the input (plus the new element), in order:
   pop/split re-concatenate to the source, so nothing is duplicated or lost *)
Lemma shorten_split_conserve :
  (forall l init x e, pop_back l = (Ok (init, x), e) -> init ++ [x] = l /\ e = []) /\
  (forall l x tail e, pop_front l = (Ok (x, tail), e) -> x :: tail = l /\ e = []) /\
  (forall K l h t e, split K l = (Ok (h, t), e) -> h ++ t = l /\ e = []).
Proof.
  repeat split.
  - destruct (snoc_cases l) as [->|(i0 & x0 & ->)]; [discriminate|].
    rewrite pop_back_spec in H. now injection H as <- <- <-.
  - destruct (snoc_cases l) as [->|(i0 & x0 & ->)]; [discriminate|].
    rewrite pop_back_spec in H. now injection H.
  - destruct l as [|y l]; [discriminate|].
    rewrite pop_front_spec in H. now injection H as <- <- <-.
  - destruct l as [|y l]; [discriminate|].
    rewrite pop_front_spec in H. now injection H.
  - destruct (Nat.le_gt_cases K (length l)) as [HK|HK].
    + rewrite split_spec in H by exact HK. injection H as <- <- <-. apply firstn_skipn.
    + rewrite split_no_inst in H by exact HK. discriminate.
  - destruct (Nat.le_gt_cases K (length l)) as [HK|HK].
    + rewrite split_spec in H by exact HK. now injection H.
    + rewrite split_no_inst in H by exact HK. discriminate.
Qed.

(* ------------------------------------------------------------ no access fails *)

Lemma no_access_fails :
  (forall l x, fst (append l x) <> Fault) /\
  (forall l x, fst (prepend l x) <> Fault) /\
  (forall l, fst (pop_back l) <> Fault) /\
  (forall l, fst (pop_front l) <> Fault) /\
  (forall K l, fst (split K l) <> Fault) /\
  (forall l m, fst (concat l m) <> Fault) /\
  (forall l idx, (0 <= idx)%Z -> fst (remove idx l) <> Fault) /\
  (forall l idx, (0 <= idx)%Z -> fst (swap_remove idx l) <> Fault) /\
  (forall l idx, (0 <= idx < zlen l)%Z -> remove_unchecked idx l <> Fault) /\
  (forall l idx, (0 <= idx < zlen l)%Z -> swap_remove_unchecked idx l <> Fault).
Proof.
  repeat split.
  - intros l x. now rewrite append_spec.
  - intros l x. now rewrite prepend_spec.
  - intros l. destruct (snoc_cases l) as [->|(i0 & x0 & ->)]; [discriminate|].
    now rewrite pop_back_spec.
  - intros [|y l]; [discriminate|]. now rewrite pop_front_spec.
  - intros K l. destruct (Nat.le_gt_cases K (length l)) as [HK|HK].
    + now rewrite split_spec by exact HK.
    + now rewrite split_no_inst by exact HK.
  - intros l m. now rewrite concat_spec.
  - intros l idx H0. destruct l as [|y l]; [discriminate|].
    destruct (Z.ltb_spec idx (zlen (y :: l))) as [Hlt|Hge].
    + destruct (remove_in_range _ idx (conj H0 Hlt)) as (r & _ & ->). discriminate.
    + rewrite remove_out_of_range by (try discriminate; exact Hge). discriminate.
  - intros l idx H0. destruct l as [|y l]; [discriminate|].
    destruct (Z.ltb_spec idx (zlen (y :: l))) as [Hlt|Hge].
    + destruct (swap_remove_in_range _ idx (conj H0 Hlt)) as (r & _ & ->). discriminate.
    + rewrite swap_remove_out_of_range by (try discriminate; exact Hge). discriminate.
  - intros l idx H. destruct (remove_unchecked_spec l idx H) as (r & _ & ->). discriminate.
  - intros l idx H. destruct (swap_remove_unchecked_spec l idx H) as (r & _ & ->). discriminate.
Qed.

(* --------------------------------------------------------------- non-vacuity *)

Example append_example : append [1; 2; 3]%Z 9%Z = (Ok [1; 2; 3; 9]%Z, []).
Proof. reflexivity. Qed.
Example split_example : split 1 [1; 2; 3]%Z = (Ok ([1]%Z, [2; 3]%Z), []).
Proof. reflexivity. Qed.
Example remove_example :
  (0 <= 1 < zlen [1; 2; 3; 4])%Z /\ remove 1 [1; 2; 3; 4]%Z = (Ok (2, [1; 3; 4])%Z, []).
Proof. split; [unfold zlen; cbn; lia|reflexivity]. Qed.
Example swap_remove_example : swap_remove 1 [1; 2; 3; 4]%Z = (Ok (2, [1; 4; 3])%Z, []).
Proof. reflexivity. Qed.
Example remove_panic_example :
  remove 18446744073709551615 [1; 2]%Z = (PanicBounds, [EDrop 1%Z; EDrop 2%Z]).
Proof. reflexivity. Qed.
Example split_ref_example : split_ref 5 2 = Ok ((0, 2), (2, 3)).
Proof. reflexivity. Qed.

(* the memory model discriminates: the mutants of SeqOps.v are refuted *)

(* offset(1) typed at the array pointee reads past the array for every N >= 2 ... *)
Lemma pop_front_wrong_stride_refuted :
  fst (pop_front_wrong_stride [1; 2; 3]%Z) = Fault.
Proof. reflexivity. Qed.
(* ... and for N = 1 returns the right answer from a (zero-length) read at the wrong place:
   the length-1 case alone cannot tell *)
Lemma pop_front_wrong_stride_n1 : pop_front_wrong_stride [1]%Z = pop_front [1]%Z.
Proof. reflexivity. Qed.

(* copy count N - idx: the value read past the end is discarded, the result would be
   right -- the checked memory reports the access *)
Lemma remove_overcopy_refuted : forall idx, (0 <= idx < 4)%Z ->
  remove_unchecked_overcopy idx [1; 2; 3; 4]%Z = Fault.
Proof.
  intros idx H.
  assert (C : (idx = 0 \/ idx = 1 \/ idx = 2 \/ idx = 3)%Z) by lia.
  destruct C as [E|[E|[E|E]]]; subst idx; reflexivity.
Qed.

Lemma split_off_by_one_refuted : fst (split_off_by_one 1 [1; 2; 3]%Z) = Fault.
Proof. reflexivity. Qed.

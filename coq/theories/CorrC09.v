(* CorrC09.v -- correspondence entry point for C09 (harness/src/bin/c09.rs).
   case: [op; kind; N; p; e_0 .. e_{N-1}; extra ...]
     op   0 append(p = the new element)   1 prepend(p)      2 pop_back        3 pop_front
          4 split at K = p (owned)        5 split (&)       6 split (&mut), then both halves
          reversed in place through the returned references
          7 concat (p = M, extra = the M elements of the right operand)
          8 remove(p)  9 swap_remove(p)  10 remove_unchecked(p)  11 swap_remove_unchecked(p)
     kind 0 Tz (size 0, tracked, all identities 0)  1 u8  2 u64  3 [u64;3]  4 Tr (size 8, tracked)  5 Tb (size 1, tracked)
   observables: status (0 ok | 1 bounds panic | 2 other panic | 8 does not compile | 9 bad access)
     ok: the parts of the result (see enc_* below), then for every status < 8 the sorted
     identities whose destructor ran DURING the operation (tracked kinds only: [count; ids]).
     by-reference halves: byte offset from the source's first element, length, elements seen. *)
From GA Require Import Base Codec SeqOps.
Local Open Scope Z_scope.

Definition sz_of (kind : Z) : Z :=
  if kind =? 0 then 0 else if (kind =? 1) || (kind =? 5) then 1 else if kind =? 2 then 8 else if kind =? 3 then 24 else 8.

Definition tracked (kind : Z) : bool := (kind =? 0) || (kind =? 4) || (kind =? 5).

Definition drops_of (e : list ev) : list Z :=
  sortZ (flat_map (fun x => match x with EDrop i => [i] | _ => [] end) e).

Definition enc_drops (kind : Z) (e : list ev) : list Z :=
  if tracked kind then zlen (drops_of e) :: drops_of e else [0].

Definition enc_result {A} (enc : A -> list Z) (kind : Z) (r : result A) : list Z :=
  match fst r with
  | Ok a => 0 :: enc a ++ enc_drops kind (snd r)
  | PanicBounds => 1 :: enc_drops kind (snd r)
  | PanicOther => 2 :: enc_drops kind (snd r)
  | NoInst => [8]
  | Fault => [9]
  end.

Definition enc_arr (l : list Z) : list Z := zlen l :: l.
Definition enc_removed (r : Z * list Z) : list Z := fst r :: enc_arr (snd r).
Definition enc_pop_back (r : list Z * Z) : list Z := snd r :: enc_arr (fst r).
Definition enc_two (r : list Z * list Z) : list Z := enc_arr (fst r) ++ enc_arr (snd r).

Definition enc_view (sz : Z) (v : view) (seen : list Z) : list Z :=
  (Z.of_nat (fst v) * sz) :: enc_arr seen.

(* & split: what the two references show *)
Definition run_split_ref (sz : Z) (K : nat) (l : list Z) : result (list Z) :=
  (match split_ref (length l) K with
   | Ok (h, t) =>
     acc hs <- view_read (of_list l) h;
     acc ts <- view_read (of_list l) t;
     Ok (enc_view sz h hs ++ enc_view sz t ts)
   | PanicBounds => PanicBounds | PanicOther => PanicOther | Fault => Fault | NoInst => NoInst
   end, []).

(* &mut split: additionally reverse each half through its reference and look at the source *)
Definition run_split_mut (sz : Z) (K : nat) (l : list Z) : result (list Z) :=
  (match split_ref (length l) K with
   | Ok (h, t) =>
     acc hs <- view_read (of_list l) h;
     acc ts <- view_read (of_list l) t;
     acc b1 <- view_write (of_list l) h (rev hs);
     acc b2 <- view_write b1 t (rev ts);
     acc whole <- assume_init b2;
     Ok (enc_view sz h hs ++ enc_view sz t ts ++ enc_arr whole)
   | PanicBounds => PanicBounds | PanicOther => PanicOther | Fault => Fault | NoInst => NoInst
   end, []).

Definition run_c09 (case : list Z) : list Z :=
  match case with
  | op :: kind :: n :: p :: rest =>
    let '(l, extra) := take_list (znat n) rest in
    let sz := sz_of kind in
    if op =? 0 then enc_result enc_arr kind (append l p)
    else if op =? 1 then enc_result enc_arr kind (prepend l p)
    else if op =? 2 then enc_result enc_pop_back kind (pop_back l)
    else if op =? 3 then enc_result enc_removed kind (pop_front l)
    else if op =? 4 then enc_result enc_two kind (split (znat p) l)
    else if op =? 5 then enc_result (fun x => x) kind (run_split_ref sz (znat p) l)
    else if op =? 6 then enc_result (fun x => x) kind (run_split_mut sz (znat p) l)
    else if op =? 7 then enc_result enc_arr kind (concat l (firstn (znat p) extra))
    else if op =? 8 then enc_result enc_removed kind (remove p l)
    else if op =? 9 then enc_result enc_removed kind (swap_remove p l)
    else if op =? 10 then enc_result enc_removed kind (remove_unchecked p l, [])
    else if op =? 11 then enc_result enc_removed kind (swap_remove_unchecked p l, [])
    else [-1]
  | _ => [-1]
  end.

(* GuardTieTransmute.v -- tier T2 tie (part of the former GuardTie.v, split so that a change of one function only reaches the
   properties whose theorems are stated over that function's regenerated guards): const_transmute's size test (C02, C11) *)
From Coq Require Import String.
From GA Require Import Base Guards.
From GA Require Views Chunks SeqOps Builder Hex HeapOps ConstEval Serde.
From GAGen Require Import GenGuards GenConstFns.
Local Open Scope Z_scope.

Lemma of_nat_eqb a b : (Z.of_nat a =? Z.of_nat b) = Nat.eqb a b.
Proof.
  destruct (Nat.eqb_spec a b) as [->|H]; [apply Z.eqb_refl|]. apply Z.eqb_neq. lia.
Qed.

(* const_transmute: the size test lets exactly equal sizes through *)
Lemma tie_const_transmute a b :
  rejects const_transmute_guard (env2 "size_of_A" a "size_of_B" b) 0 = negb (a =? b) /\
  fails_by_panic const_transmute_guard = true.
Proof. split; reflexivity. Qed.


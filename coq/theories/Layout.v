(* Layout.v -- hub model for C01 (and the layout facts C11/C19 rely on): the size,
   alignment and element offsets rustc assigns to the types the crate declares.

   Modelled language rules (DESIGN.md section 9: stated as definitions, exercised by
   the correspondence matrix):
     repr(C) struct    fields in declaration order, each at the next offset rounded up
                       to its own alignment; struct alignment = max field alignment
                       (1 for no fields); size = end offset rounded up to the alignment
     repr(transparent) layout of the single field that is not a 1-ZST (size 0 and
                       alignment 1); (0,1) when every field is a 1-ZST; not a valid
                       declaration with two such fields
     repr(Rust)        unspecified: no layout is guaranteed ([None])
     [T; n]            n * size, alignment of T (also for n = 0)
     PhantomData<_>    size 0, alignment 1
   Definitions only; lemmas are in LayoutProofs.v, the crate's declarations (to be
   regenerated from the source) in LayoutDecls.v. *)
From GA Require Import Base.
Local Open Scope Z_scope.

(* x rounded up to a multiple of a (a > 0) *)
Definition round_up (x a : Z) : Z := ((x + a - 1) / a) * a.

Inductive repr := ReprC | ReprTransparent | ReprRust.

(* Types, as far as layout is concerned.  [Elem t] is t itself (same layout); it
   marks the position as one ELEMENT of the array, so that element offsets can be
   enumerated without confusing an element with a marker or base-case field. *)
Inductive ty :=
| Prim (size align : Z)
| Phantom
| Elem (t : ty)
| Arr (t : ty) (n : Z)
| Struct (r : repr) (fields : list ty).

Record lay := { sz : Z; al : Z }.

(* ---------------------------------------------------------------- struct rules *)

Definition reprc_step (acc : Z * Z) (l : lay) : Z * Z :=
  let '(off, a) := acc in (round_up off (al l) + sz l, Z.max a (al l)).

Definition reprc_layout (ls : list lay) : lay :=
  let '(off, a) := fold_left reprc_step ls (0, 1) in {| sz := round_up off a; al := a |}.

(* offsets of the fields of a repr(C) struct, [cur] = end of the previous field *)
Fixpoint reprc_offsets (cur : Z) (ls : list lay) : list Z :=
  match ls with
  | [] => []
  | l :: r => let o := round_up cur (al l) in o :: reprc_offsets (o + sz l) r
  end.

Definition is_1zst (l : lay) : bool := (sz l =? 0) && (al l =? 1).

Definition transparent_layout (ls : list lay) : option lay :=
  match filter (fun l => negb (is_1zst l)) ls with
  | [] => Some {| sz := 0; al := 1 |}
  | [l] => Some l
  | _ => None
  end.

Definition struct_layout (r : repr) (ls : list lay) : option lay :=
  match r with
  | ReprC => Some (reprc_layout ls)
  | ReprTransparent => transparent_layout ls
  | ReprRust => None
  end.

Definition field_offsets (r : repr) (ls : list lay) : option (list Z) :=
  match r with
  | ReprC => Some (reprc_offsets 0 ls)
  | ReprTransparent =>
      match transparent_layout ls with
      | Some _ => Some (map (fun _ => 0) ls)
      | None => None
      end
  | ReprRust => None
  end.

(* ---------------------------------------------------------------- layout *)

(* [None]: no layout is guaranteed (repr(Rust)), or the term is not a type rustc
   accepts (negative length, alignment <= 0, size not a multiple of the alignment,
   repr(transparent) with two non-trivial fields). *)
Fixpoint layout (t : ty) : option lay :=
  match t with
  | Prim s a =>
      if (0 <=? s) && (0 <? a) && (s mod a =? 0) then Some {| sz := s; al := a |} else None
  | Phantom => Some {| sz := 0; al := 1 |}
  | Elem t' => layout t'
  | Arr t' n =>
      if n <? 0 then None else
      match layout t' with
      | Some l => Some {| sz := n * sz l; al := al l |}
      | None => None
      end
  | Struct r fs =>
      match (fix go (fs : list ty) : option (list lay) :=
               match fs with
               | [] => Some []
               | f :: fs' =>
                   match layout f, go fs' with
                   | Some l, Some ls => Some (l :: ls)
                   | _, _ => None
                   end
               end) fs with
      | Some ls => struct_layout r ls
      | None => None
      end
  end.

Fixpoint layouts (fs : list ty) : option (list lay) :=
  match fs with
  | [] => Some []
  | f :: fs' =>
      match layout f, layouts fs' with
      | Some l, Some ls => Some (l :: ls)
      | _, _ => None
      end
  end.

(* ---------------------------------------------------------------- element offsets *)

Definition app_opt (x y : option (list Z)) : option (list Z) :=
  match x, y with Some a, Some b => Some (a ++ b) | _, _ => None end.

(* Byte offsets (from [base], the address of t) of the elements of t in memory
   order.  [d] = how many [Elem] markers to look through: at d = 0 the outermost
   elements, at d = 1 the elements of the elements (array of arrays), ... *)
Fixpoint offsets (d : nat) (t : ty) (base : Z) {struct t} : option (list Z) :=
  match t with
  | Prim _ _ => Some []
  | Phantom => Some []
  | Elem t' => match d with O => Some [base] | S d' => offsets d' t' base end
  | Arr t' n =>
      if n <? 0 then None else
      match layout t' with
      | Some l =>
          (fix rep (k : nat) (b : Z) : option (list Z) :=
             match k with
             | O => Some []
             | S k' => app_opt (offsets d t' b) (rep k' (b + sz l))
             end) (Z.to_nat n) base
      | None => None
      end
  | Struct r fs =>
      match layouts fs with
      | Some ls =>
          match field_offsets r ls with
          | Some os =>
              (fix go (fs : list ty) (os : list Z) : option (list Z) :=
                 match fs, os with
                 | [], _ => Some []
                 | f :: fs', o :: os' => app_opt (offsets d f (base + o)) (go fs' os')
                 | _ :: _, [] => None
                 end) fs os
          | None => None
          end
      | None => None
      end
  end.

Fixpoint offsets_fields (d : nat) (fs : list ty) (os : list Z) (base : Z) : option (list Z) :=
  match fs, os with
  | [], _ => Some []
  | f :: fs', o :: os' => app_opt (offsets d f (base + o)) (offsets_fields d fs' os' base)
  | _ :: _, [] => None
  end.

(* number of depth-d elements of t *)
Fixpoint count (d : nat) (t : ty) : Z :=
  match t with
  | Prim _ _ => 0
  | Phantom => 0
  | Elem t' => match d with O => 1 | S d' => count d' t' end
  | Arr t' n => n * count d t'
  | Struct _ fs =>
      (fix go (fs : list ty) : Z :=
         match fs with [] => 0 | f :: fs' => count d f + go fs' end) fs
  end.

(* offset of the i-th depth-d element of t (memory order), without enumerating the
   elements: usable for lengths like 2^62.  [None] outside 0 <= i < count d t. *)
Fixpoint offset_at (d : nat) (t : ty) (base i : Z) {struct t} : option Z :=
  match t with
  | Prim _ _ => None
  | Phantom => None
  | Elem t' =>
      match d with
      | O => if i =? 0 then Some base else None
      | S d' => offset_at d' t' base i
      end
  | Arr t' n =>
      match layout t' with
      | Some l =>
          let c := count d t' in
          if c <=? 0 then None else
          let q := i / c in
          if (0 <=? q) && (q <? n) then offset_at d t' (base + q * sz l) (i mod c) else None
      | None => None
      end
  | Struct r fs =>
      match layouts fs with
      | Some ls =>
          match field_offsets r ls with
          | Some os =>
              (fix go (fs : list ty) (os : list Z) (i : Z) : option Z :=
                 match fs, os with
                 | f :: fs', o :: os' =>
                     if i <? count d f then offset_at d f (base + o) i
                     else go fs' os' (i - count d f)
                 | _, _ => None
                 end) fs os i
          | None => None
          end
      | None => None
      end
  end.

Fixpoint offset_at_fields (d : nat) (fs : list ty) (os : list Z) (base i : Z) : option Z :=
  match fs, os with
  | f :: fs', o :: os' =>
      if i <? count d f then offset_at d f (base + o) i
      else offset_at_fields d fs' os' base (i - count d f)
  | _, _ => None
  end.

Fixpoint count_fields (d : nat) (fs : list ty) : Z :=
  match fs with [] => 0 | f :: fs' => count d f + count_fields d fs' end.

(* the arithmetic progression base, base+e, ..., base+(n-1)e *)
Fixpoint iota (e base : Z) (n : nat) : list Z :=
  match n with O => [] | S n' => base :: iota e (base + e) n' end.

(* ---------------------------------------------------------------- declarations *)

(* Field types of a generic declaration, over its type parameters. *)
Inductive texp :=
| XParam (i : nat)        (* the i-th type parameter *)
| XPhantom (x : texp)     (* PhantomData<x> *)
| XArr (x : texp) (n : Z) (* [x; n] *)
| XUnit                   (* () *)
| XPrim (s a : Z).        (* a concrete type of known size and alignment *)

(* struct declaration: repr attribute + ordered field list *)
Record decl := { d_repr : repr; d_fields : list texp }.

Inductive struct_name := SEven | SOdd.

(* What the source declares.  In the [ArrayLength] impls parameter 0 stands for T and
   parameter 1 for N::ArrayType<T>; in [dc_ga] parameter 0 is T and parameter 1 the
   type of the single field as written (N::ArrayType<T>). *)
Record decls := {
  dc_even  : decl;                        (* struct GenericArrayImplEven<T, U> *)
  dc_odd   : decl;                        (* struct GenericArrayImplOdd<T, U> *)
  dc_uterm : texp;                        (* <UTerm as ArrayLength>::ArrayType<T> *)
  dc_b0    : struct_name * list texp;     (* <UInt<N, B0> as ArrayLength>::ArrayType<T> *)
  dc_b1    : struct_name * list texp;     (* <UInt<N, B1> as ArrayLength>::ArrayType<T> *)
  dc_ga    : decl                         (* struct GenericArray<T, N> *)
}.

Fixpoint inst (args : list ty) (x : texp) : option ty :=
  match x with
  | XParam i => nth_error args i
  | XPhantom _ => Some Phantom
  | XArr x' n => match inst args x' with Some t => Some (Arr t n) | None => None end
  | XUnit => Some (Prim 0 1)
  | XPrim s a => Some (Prim s a)
  end.

Fixpoint inst_list (args : list ty) (xs : list texp) : option (list ty) :=
  match xs with
  | [] => Some []
  | x :: xs' =>
      match inst args x, inst_list args xs' with
      | Some t, Some ts => Some (t :: ts)
      | _, _ => None
      end
  end.

Definition inst_decl (args : list ty) (dc : decl) : option ty :=
  match inst_list args (d_fields dc) with
  | Some fs => Some (Struct (d_repr dc) fs)
  | None => None
  end.

Definition struct_of (D : decls) (n : struct_name) : decl :=
  match n with SEven => dc_even D | SOdd => dc_odd D end.

(* N::ArrayType<T> for the length whose binary digits are [ds], least significant
   first -- exactly the nesting of typenum's UInt<UInt<UTerm, B1>, B0> (= 2, digits
   [false; true]).  Leading zero digits (at the end of the list) are allowed: they
   are the non-normalised lengths such as UInt<UTerm, B0>. *)
(* one level of the recursion: <UInt<N, b> as ArrayLength>::ArrayType<T>, given
   U = N::ArrayType<T> *)
Definition node (D : decls) (T U : ty) (b : bool) : option ty :=
  let '(name, targs) := if b then dc_b1 D else dc_b0 D in
  match inst_list [Elem T; U] targs with
  | Some args => inst_decl args (struct_of D name)
  | None => None
  end.

Fixpoint storage (D : decls) (T : ty) (ds : list bool) : option ty :=
  match ds with
  | [] => inst [Elem T] (dc_uterm D)
  | b :: ds' =>
      match storage D T ds' with
      | Some U => node D T U b
      | None => None
      end
  end.

Definition wrap (D : decls) (T St : ty) : option ty := inst_decl [Elem T; St] (dc_ga D).

Definition generic_array (D : decls) (T : ty) (ds : list bool) : option ty :=
  match storage D T ds with
  | Some St => wrap D T St
  | None => None
  end.

(* The same types with every child replaced by an opaque placeholder of the child's
   layout: size and alignment of a struct depend on its fields only through their
   layouts (LayoutProofs.layout_ph), and evaluating [layout] on these terms is linear
   in the number of digits instead of exponential (the two children of a node are the
   same type, but [layout] visits both) -- needed for lengths like 2^62. *)
Definition ph_opt (o : option lay) : ty :=
  match o with Some l => Prim (sz l) (al l) | None => Prim 0 0 end.

Fixpoint storage_ph (D : decls) (T : ty) (ds : list bool) : option ty :=
  match ds with
  | [] => inst [Elem T] (dc_uterm D)
  | b :: ds' =>
      match storage_ph D T ds' with
      | Some U => node D T (ph_opt (layout U)) b
      | None => None
      end
  end.

Definition generic_array_ph (D : decls) (T : ty) (ds : list bool) : option ty :=
  match storage_ph D T ds with
  | Some St => wrap D T (ph_opt (layout St))
  | None => None
  end.

(* [None]: not a type; [Some None]: a type without guaranteed layout *)
Definition lay_of (o : option ty) : option (option lay) :=
  match o with Some t => Some (layout t) | None => None end.

(* the length a digit list denotes *)
Fixpoint val (ds : list bool) : Z :=
  match ds with [] => 0 | b :: ds' => 2 * val ds' + (if b then 1 else 0) end.

(* ---------------------------------------------------------------- const_transmute *)

(* src/lib.rs const_transmute: panics unless the two sizes are equal *)
Definition const_transmute_panics (size_a size_b : Z) : bool := negb (size_a =? size_b).

(* SerdeProg.v -- the body of GAVisitor::visit_seq (src/impl_serde.rs) as a list of steps, the target of
   tools/ga2coq (coq/gen/GenSerde.v), and its interpreter over the scripted SeqAccess and the
   builder bookkeeping of Serde.v.  Definitions only.

   Steps, in source order: the up-front size-hint arm that returns Err; the fill loop with its
   closure-like body (`dst.write(el)`, `*position += 1`), `?` on next_element and `break` on None;
   `if *position == N { .. }` with, inside, the surplus probe (its optional `size_hint() != Some(0) &&`
   guard evaluated first, then next_element::<Dummy>()?.is_some()) and the successful return; the
   final Err.  Every exit through Err runs the builder's Drop with the position as it is then. *)
From Coq Require Import String.
From GA Require Import Base Serde Pipe.
Local Open Scope string_scope.

Inductive vstep : Type :=
| VHintRejectNe                                  (* Some(n) if n != N::USIZE => return Err(..) *)
| VFillLoop (dst el pos : string) (body : list cst)
| VIfFull (inner : list vstep)                   (* if *position == N::USIZE { inner } *)
| VProbeErr (hint_guard : bool)                  (* if [hint != Some(0) &&] next_element::<Dummy>()?.is_some() { return Err } *)
| VReturnOk                                      (* return Ok({ builder.finish(); array_assume_init(dst) }) *)
| VErrPosition.                                  (* Err(invalid_length of the position) *)

Section Run.
  Variable n : nat.
  Variable s : script.

  (* the loop body on one (slot, element) *)
  Fixpoint vbody (dst el pos : string) (b : list cst) (x : Z) (held : bool) (bd : builder) : option builder :=
    match b with
    | [] => if held then None else Some bd       (* an element that is not written would be dropped here: not the crate's code *)
    | CWrite d (XAtom (AVar v)) :: r =>
      if String.eqb d dst && String.eqb v el && held then vbody dst el pos r x false (b_write x bd) else None
    | CBump p :: r => if String.eqb p pos then vbody dst el pos r x held (b_incr bd) else None
    | _ => None
    end.

  Fixpoint vfill (dst el pos : string) (body : list cst) (slots k : nat) (bd : builder)
    : option (exit * builder * nat) :=
    match slots with
    | O => Some (XDone, bd, k)
    | S r =>
      match items s k with
      | ParseError => Some (XErr, bd, S k)
      | Nothing => Some (XBreak, bd, S k)
      | Item x =>
        match vbody dst el pos body x true bd with
        | Some bd' => vfill dst el pos body r (S k) bd'
        | None => None
        end
      end
    end.

  Inductive vres : Type := VGo (bd : builder) (k : nat) | VDone (o : outcome) | VStuck.

  Fixpoint vexec (fuel : nat) (l : list vstep) (bd : builder) (k : nat) {struct fuel} : vres :=
    match fuel with
    | O => VStuck
    | S fu =>
      match l with
      | [] => VGo bd k
      | st :: rest =>
        let continue (bd' : builder) (k' : nat) := vexec fu rest bd' k' in
        match st with
        | VHintRejectNe => if hint_rejects n (hint0 s) then VDone (mkO DErr 0 []) else continue bd k
        | VFillLoop dst el pos body =>
          match vfill dst el pos body n k bd with
          | Some (XErr, bd', k') => VDone (leave_err bd' k')
          | Some (_, bd', k') => continue bd' k'
          | None => VStuck
          end
        | VIfFull inner =>
          if Nat.eqb (position bd) n then
            match vexec fu inner bd k with
            | VGo bd' k' => continue bd' k'
            | other => other
            end
          else continue bd k
        | VProbeErr guard =>
          if guard && negb (hint_allows_probe (hint_after s k)) then continue bd k
          else
            match items s k with
            | ParseError => VDone (leave_err bd (S k))
            | Item _ => VDone (leave_err bd (S k))
            | Nothing => continue bd (S k)
            end
        | VReturnOk => VDone (finish n bd k)
        | VErrPosition => VDone (leave_err bd k)
        end
      end
    end.

  Definition vrun (l : list vstep) : option outcome :=
    match vexec 16 l b_new 0 with VDone o => Some o | _ => None end.
End Run.

(* ---------------------------------------------------------------- the serializer side *)
(* Serialize::serialize of src/impl_serde.rs as steps, in source order.  Every step that ends in `?`
   returns the serializer's error at that point; against a serializer that does not fail (the one the
   token stream of Serde.v describes) the steps run to the end. *)
Inductive sstep : Type :=
| SerTuple (v : string) (len_is_n : bool)   (* let mut v = serializer.serialize_tuple(N::USIZE)?;  len_is_n: the
                                               argument is N::USIZE *)
| SerForEach (el src v : string)            (* for el in src { v.serialize_element(el)?; } *)
| SerEnd (v : string).                      (* v.end()  (the value of the function) *)

(* state: the name of the open tuple serializer, the tokens so far, whether end() has been called *)
Fixpoint srun (l : list sstep) (a : list Z) (open : option string) (out : list tok) (ended : bool)
  : option (list tok) :=
  match l with
  | [] => if ended then Some out else None          (* falling off the end without `end()` is not the crate's code *)
  | SerTuple v len_is_n :: r =>
    match open with
    | None => if len_is_n && negb ended then srun r a (Some v) (out ++ [TupleStart (zlen a)]) false else None
    | Some _ => None
    end
  | SerForEach el src v :: r =>
    match open with
    | Some w => if String.eqb v w && String.eqb src "self" && negb ended
                then srun r a open (ser_elems a out) false else None
    | None => None
    end
  | SerEnd v :: r =>
    match open with
    | Some w => if String.eqb v w && negb ended then srun r a None (out ++ [TupleEnd]) true else None
    | None => None
    end
  end.

Definition ser_run (l : list sstep) (a : list Z) : option (list tok) := srun l a None [] false.

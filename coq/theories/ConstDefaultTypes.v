(* ConstDefaultTypes.v -- vocabulary of the ConstDefault / storage declarations that the
   translator regenerates (coq/gen/GenConstDefaultDecls.v). *)
From GA Require Import Base.

(* fields of a storage node, by the role of their type:
     parent1 : U, parent2 : U, data : T, _marker : PhantomData<T> *)
Inductive field : Type := FParent1 | FParent2 | FData | FMarker.

Inductive node : Type := NEven | NOdd.

(* `X::DEFAULT` for a type parameter X, `ConstDefault::DEFAULT` (the type is
   inferred from the field), `core::marker::PhantomData` *)
Inductive tyvar : Type := TyU | TyT | TyInfer.
Inductive init : Type := DefaultOf (ty : tyvar) | PhantomLit.

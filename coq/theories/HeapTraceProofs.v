(* HeapTraceProofs.v -- what a valid allocator trace means (general lemmas about
   Alloc.valid), the C16 statements about every run of every alloc-feature operation
   derived from HeapOpsProofs.scn_heap_ok, histories of runs, and the refutation of the
   three C16 clauses by the boxed generate of 614d235 (boxed_generate_buggy). *)
From GA Require Import Base Builder Functional Alloc HeapOps HeapOpsProofs.
Local Open Scope Z_scope.

(* ---------------------------------------------------------------- valid traces *)
Lemma valid_app : forall t1 t2 h h',
  valid h (t1 ++ t2) h' <-> exists hm, valid h t1 hm /\ valid hm t2 h'.
Proof.
  induction t1 as [|e t1 IH]; intros t2 h h'; cbn [app valid].
  - split.
    + intros H. exists h. split; [reflexivity|exact H].
    + intros (hm & E & H). subst hm. exact H.
  - destruct e; cbn [valid]; try rewrite IH; firstorder.
Qed.

(* every request that reached the allocator had a non-zero size; nothing touched null *)
Definition request_ok (e : aev) : Prop :=
  match e with
  | EAlloc _ sz _ => 0 < sz
  | ERealloc _ _ _ nsz _ => 0 < nsz
  | EAllocFail sz _ => 0 < sz
  | ENullDeref => False
  | EDealloc _ _ _ => True
  end.

Lemma valid_requests : forall t h h', valid h t h' -> forall e, In e t -> request_ok e.
Proof.
  induction t as [|a t IH]; intros h h' Hv e Hin; [destruct Hin|].
  destruct Hin as [<-|Hin].
  - destruct a; cbn in *; tauto.
  - destruct a; cbn [valid] in Hv; try (now exfalso);
      repeat match goal with H : _ /\ _ |- _ => destruct H end; eapply IH; eauto.
Qed.

(* every release names a block that is live at that moment, with the size and alignment
   it was requested with *)
Lemma valid_release_live t1 b sz al t2 h h' :
  valid h (t1 ++ EDealloc b sz al :: t2) h' ->
  exists h1, valid h t1 h1 /\ hfind b h1 = Some (sz, al).
Proof.
  intros H. apply valid_app in H. destruct H as (hm & H1 & H2). cbn [valid] in H2.
  exists hm. tauto.
Qed.

Lemma valid_realloc_live t1 b osz al nsz b' t2 h h' :
  valid h (t1 ++ ERealloc b osz al nsz b' :: t2) h' ->
  exists h1, valid h t1 h1 /\ hfind b h1 = Some (osz, al).
Proof.
  intros H. apply valid_app in H. destruct H as (hm & H1 & H2). cbn [valid] in H2.
  exists hm. tauto.
Qed.

(* at most once: after its release a block is not live, so a second release of the same
   identity (without a new allocation returning it) cannot be valid *)
Definition hwf (h : heap) : Prop := NoDup (map fst h).

Lemma hfind_None_iff b h : hfind b h = None <-> ~ In b (map fst h).
Proof.
  induction h as [|[b' l] h IH]; cbn; [tauto|].
  destruct (Nat.eqb_spec b b') as [->|Hne].
  - split; [discriminate|]. intros H. exfalso. apply H. now left.
  - rewrite IH. split; intros H; [intros [E|Hin]; [congruence|tauto]|tauto].
Qed.

Lemma hdel_incl b x h : In x (map fst (hdel b h)) -> In x (map fst h).
Proof.
  induction h as [|[b' l] h IH]; cbn; [tauto|].
  destruct (Nat.eqb b b'); cbn; tauto.
Qed.

Lemma hwf_hdel b h : hwf h -> hwf (hdel b h).
Proof.
  unfold hwf. induction h as [|[b' l] h IH]; cbn; [auto|].
  intros H. inversion H as [|? ? Hn Hd]; subst.
  destruct (Nat.eqb b b'); [exact Hd|]. cbn. constructor.
  - intros Hin. apply Hn. eapply hdel_incl; eauto.
  - auto.
Qed.

Lemma hfind_hdel_same b h : hwf h -> hfind b (hdel b h) = None.
Proof.
  unfold hwf. induction h as [|[b' l] h IH]; cbn; [reflexivity|].
  intros H. inversion H as [|? ? Hn Hd]; subst.
  destruct (Nat.eqb_spec b b') as [->|Hne].
  - now apply hfind_None_iff.
  - cbn. destruct (Nat.eqb_spec b b'); [congruence|auto].
Qed.

Lemma valid_hwf : forall t h h', valid h t h' -> hwf h -> hwf h'.
Proof.
  induction t as [|a t IH]; intros h h' Hv Hw; cbn [valid] in Hv; [now subst|].
  destruct a; try (now exfalso); repeat match goal with H : _ /\ _ |- _ => destruct H end;
    eapply IH; eauto.
  - unfold hwf. cbn. constructor; [now apply hfind_None_iff|exact Hw].
  - now apply hwf_hdel.
  - unfold hwf. cbn. constructor; [now apply hfind_None_iff|now apply hwf_hdel].
Qed.

Lemma valid_released_once t1 b sz al h h1 :
  hwf h -> valid h (t1 ++ [EDealloc b sz al]) h1 -> hfind b h1 = None.
Proof.
  intros Hw H. apply valid_app in H. destruct H as (hm & H1 & H2). cbn [valid] in H2.
  destruct H2 as [_ ->]. apply hfind_hdel_same. eapply valid_hwf; eauto.
Qed.

Lemma fresh_mono n n' h : fresh n h -> (n <= n')%nat -> fresh n' h.
Proof. intros H Hle b Hb. apply H. lia. Qed.

(* ---------------------------------------------------------------- every run (C16) *)
Section Runs.
Variable fails : nat -> bool.
Variables (T : elt) (sc : scn) (n k : nat) (h0 : heap).
Hypothesis HT : elt_ok T.
Hypothesis Hsc : scn_ok sc.
Hypothesis Hfresh : fresh n h0.

Let r := run_scn fails T sc (init n k).
Let t := atr (r_final r).

Lemma run_ok : heap_ok fails h0 k (r_code r) (r_final r) /\ (n <= next (r_final r))%nat.
Proof. exact (scn_heap_ok fails T sc HT Hsc n k h0 Hfresh). Qed.

Lemma run_never_ub : r_code r <> RUB.
Proof. destruct run_ok as [H _]. intros E. rewrite E in H. exact H. Qed.

Lemma run_valid : exists h, valid h0 t h.
Proof.
  destruct run_ok as [H _]. unfold heap_ok in H. subst t.
  destruct (r_code r).
  1-4: exists h0; tauto.
  - tauto.
  - contradiction.
Qed.

Theorem run_requests_valid : forall e, In e t -> request_ok e.
Proof. destruct run_valid as [h H]. eapply valid_requests; eauto. Qed.

Theorem run_requests_nonzero : forall b sz al, In (EAlloc b sz al) t -> 0 < sz.
Proof. intros b sz al H. exact (run_requests_valid _ H). Qed.

Theorem run_never_touches_null : ~ In ENullDeref t.
Proof. intros H. exact (run_requests_valid _ H). Qed.

Theorem run_releases_paired : forall t1 b sz al t2, t = t1 ++ EDealloc b sz al :: t2 ->
  exists h1, valid h0 t1 h1 /\ hfind b h1 = Some (sz, al).
Proof.
  intros t1 b sz al t2 E. destruct run_valid as [h H]. rewrite E in H.
  eapply valid_release_live; eauto.
Qed.

Theorem run_released_at_most_once : hwf h0 -> forall t1 b sz al t2,
  t = t1 ++ EDealloc b sz al :: t2 ->
  exists h1, valid h0 (t1 ++ [EDealloc b sz al]) h1 /\ hfind b h1 = None.
Proof.
  intros Hw t1 b sz al t2 E. destruct run_valid as [h H]. rewrite E in H.
  replace (t1 ++ EDealloc b sz al :: t2) with ((t1 ++ [EDealloc b sz al]) ++ t2) in H
    by (rewrite <- app_assoc; reflexivity).
  apply valid_app in H. destruct H as (hm & H1 & _). exists hm. split; [exact H1|].
  eapply valid_released_once; eauto.
Qed.

Theorem run_no_leak : r_code r <> RAllocErr -> valid h0 t h0.
Proof.
  intros Hc. destruct run_ok as [H _]. unfold heap_ok in H. subst t.
  destruct (r_code r); tauto.
Qed.

(* allocation failure: the run ends in the standard allocation-error outcome exactly when
   one of the allocation calls it made failed; that failure is the last allocator event *)
Theorem run_alloc_failure :
  (r_code r = RAllocErr <-> exists j, (k <= j < nallocs (r_final r))%nat /\ fails j = true) /\
  (r_code r = RAllocErr -> exists t' sz al, t = t' ++ [EAllocFail sz al] /\ nfail t' = O) /\
  (r_code r <> RAllocErr -> nfail t = O).
Proof.
  destruct run_ok as [H _]. unfold heap_ok in H. subst t.
  destruct (r_code r) eqn:Ec; try contradiction.
  all: try (destruct H as (_ & Hnf & Hall); split; [|split]; try congruence; try (intros _; exact Hnf);
            split; [discriminate|]; intros (j & Hj & Hjf); rewrite (Hall j Hj) in Hjf; discriminate).
  destruct H as (_ & Hlast & Hlt & Htrue & _). split; [|split]; try congruence; try (intros _; exact Hlast).
  split; [|reflexivity]. intros _. exists (pred (nallocs (r_final r))). split; [lia|exact Htrue].
Qed.

End Runs.

(* ---------------------------------------------------------------- histories of runs *)
Section Histories.
Variable fails : nat -> bool.

(* operations one after the other in the same process; a caught panic does not end the
   history, an allocation error does (the process aborts) *)
Fixpoint history (l : list (elt * scn)) (n k : nat) : list aev * rcode :=
  match l with
  | [] => ([], ROk)
  | (T, sc) :: rest =>
    let r := run_scn fails T sc (init n k) in
    match r_code r with
    | RAllocErr => (atr (r_final r), RAllocErr)
    | RUB => (atr (r_final r), RUB)
    | _ =>
      let '(t, c) := history rest (next (r_final r)) (nallocs (r_final r)) in
      (atr (r_final r) ++ t, c)
    end
  end.

Theorem history_ok : forall l n k h0,
  Forall (fun p => elt_ok (fst p) /\ scn_ok (snd p)) l -> fresh n h0 ->
  let '(t, c) := history l n k in
  c <> RUB /\ (exists h, valid h0 t h) /\ (c <> RAllocErr -> valid h0 t h0).
Proof.
  induction l as [|[T sc] l IH]; intros n k h0 Hall Hf; cbn [history].
  - split; [discriminate|]. split; [exists h0; reflexivity|]. intros _. reflexivity.
  - inversion Hall as [|? ? [HT Hsc] Hrest]; subst. cbn [fst snd] in *.
    pose proof (run_ok fails T sc n k h0 HT Hsc Hf) as [Hok Hn].
    pose proof (run_valid fails T sc n k h0 HT Hsc Hf) as Hv.
    pose proof (run_no_leak fails T sc n k h0 HT Hsc Hf) as Hnl.
    pose proof (run_never_ub fails T sc n k h0 HT Hsc Hf) as Hub.
    destruct (r_code (run_scn fails T sc (init n k))) eqn:Ec; try contradiction.
    5: { split; [discriminate|]. split; [exact Hv|]. congruence. }
    all: specialize (IH (next (r_final (run_scn fails T sc (init n k))))
                        (nallocs (r_final (run_scn fails T sc (init n k)))) h0 Hrest
                        (fresh_mono _ _ _ Hf Hn));
      destruct (history l _ _) as [t c]; destruct IH as (Hc & (h & Hvt) & Hleak);
      (split; [exact Hc|]); assert (Hv0 : valid h0 (atr (r_final (run_scn fails T sc (init n k)))) h0)
        by (apply Hnl; discriminate);
      (split; [exists h; apply valid_app; exists h0; tauto|]);
      intros Hne; apply valid_app; exists h0; split; [exact Hv0|auto].
Qed.
End Histories.

(* ---------------------------------------------------------------- 614d235: boxed generate *)
Definition nofail (_ : nat) : bool := false.
Definition gen_id (i : nat) (_ : list Z) : Z := 1000 + Z.of_nat i.

Ltac eval_buggy :=
  match goal with
  | |- context [run_generate_buggy ?a ?b ?c ?d ?e ?f] =>
    let v := eval vm_compute in (run_generate_buggy a b c d e f) in
    change (run_generate_buggy a b c d e f) with v
  end; cbn [atr eal].

(* F4: U0 with a sized element: a zero-size request reaches the allocator, and that block
   is never released *)
Lemma boxed_generate_buggy_refuted_zero_size :
  exists T N f, elt_ok T /\
    let '(c, st) := run_generate_buggy nofail T N f None (init 0 0) in
    c = ROk /\ In (EAlloc 0 0 (eal T)) (atr st) /\
    ~ (forall e, In e (atr st) -> request_ok e) /\ ~ valid [] (atr st) [].
Proof.
  exists (mkElt 4 4), O, gen_id. split; [split; cbn; lia|]. eval_buggy.
  split; [reflexivity|]. split; [now left|]. split.
  - intros H. specialize (H (EAlloc 0 0 4) (or_introl eq_refl)). cbn in H. lia.
  - cbn [valid]. intros [H _]. lia.
Qed.

(* F5: the allocation fails: the null block is dereferenced; not the standard path *)
Lemma boxed_generate_buggy_refuted_null :
  exists T N f fails, elt_ok T /\
    let '(c, st) := run_generate_buggy fails T N f None (init 0 0) in
    fails O = true /\ c = RUB /\ c <> RAllocErr /\ In ENullDeref (atr st).
Proof.
  exists (mkElt 4 4), 4%nat, gen_id, (fun _ => true). split; [split; cbn; lia|]. eval_buggy.
  repeat split; try discriminate. right. now left.
Qed.

(* F6: the generator panics at call 2 of 4: the block stays allocated *)
Lemma boxed_generate_buggy_refuted_leak :
  exists T N f pan, elt_ok T /\
    let '(c, st) := run_generate_buggy nofail T N f pan (init 0 0) in
    c = RPanic /\ valid [] (atr st) [(O, (16, 4))] /\ ~ valid [] (atr st) [].
Proof.
  exists (mkElt 4 4), 4%nat, gen_id, (Some 2%nat). split; [split; cbn; lia|]. eval_buggy.
  split; [reflexivity|]. cbn [valid hfind]. split.
  - repeat split; lia.
  - intros (_ & _ & H). discriminate H.
Qed.

(* the same three inputs on the fixed function *)
Example boxed_generate_fixed_on_the_three_inputs :
  (let r := run_scn nofail (mkElt 4 4) (SGenerate 0 gen_id None) (init 0 0) in
   r_code r = ROk /\ atr (r_final r) = []) /\
  (let r := run_scn (fun _ => true) (mkElt 4 4) (SGenerate 4 gen_id None) (init 0 0) in
   r_code r = RAllocErr /\ atr (r_final r) = [EAllocFail 16 4]) /\
  (let r := run_scn nofail (mkElt 4 4) (SGenerate 4 gen_id (Some 2%nat)) (init 0 0) in
   r_code r = RPanic /\ atr (r_final r) = [EAlloc 0 16 4; EDealloc 0 16 4] /\
   r_events r = [EDrop 1000; EDrop 1001]).
Proof. vm_compute. repeat split. Qed.

(* non-vacuity of the run theorems: a concrete run with a source Vec with spare capacity,
   a realloc, from a non-empty starting heap *)
Example run_example :
  let h0 := [(7%nat, (24, 8))] in
  fresh 8 h0 /\
  let r := run_scn nofail (mkElt 8 8) (STryFromVec 2 [10; 11] 3) (init 8 5) in
  r_code r = ROk /\ r_contents r = [10; 11] /\
  atr (r_final r) = [EAlloc 8 40 8; ERealloc 8 40 8 16 9; EDealloc 9 16 8] /\
  valid h0 (atr (r_final r)) h0.
Proof.
  split.
  - intros b Hb. cbn. destruct (Nat.eqb_spec b 7); [lia|reflexivity].
  - match goal with
    | |- context [run_scn ?a ?b ?c ?d] =>
      let v := eval vm_compute in (run_scn a b c d) in change (run_scn a b c d) with v
    end.
    cbn [r_code r_contents r_final atr valid hfind hdel Nat.eqb]. repeat split; lia.
Qed.

(* a history: a conversion that fails on length, a boxed map whose closure panics at call 1,
   then a boxed collect -- the heap is back to the starting heap at the end *)
Example history_example :
  let l := [(mkElt 8 8, STryFromVec 2 [1; 2; 3] 2);
            (mkElt 8 8, SBoxedMap (mkElt 4 4) (fun _ r => fold_right Z.add 5000 r) (Some 1%nat) [1; 2; 3]);
            (mkElt 4 4, SBoxArrRepeat 7 3 (fun i => 7))] in
  Forall (fun p => elt_ok (fst p) /\ scn_ok (snd p)) l /\
  history nofail l 0 0 =
  ([EAlloc 0 40 8; ERealloc 0 40 8 24 1; EDealloc 1 24 8;
    EAlloc 2 24 8; EAlloc 3 12 4; EDealloc 3 12 4; EDealloc 2 24 8;
    EAlloc 4 12 4; EDealloc 4 12 4], ROk).
Proof.
  split.
  - repeat constructor; cbn; lia.
  - vm_compute. reflexivity.
Qed.

(* CorrC04.v -- C04 uses the shared forms entry (harness/src/bin/c04.rs) *)
From GA Require Import Base CorrForms.
Definition run_c04 (case : list Z) : list Z := run_forms case.

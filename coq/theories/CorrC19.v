(* CorrC19.v -- correspondence entry point for C19 (harness/src/bin/c19.rs).
   case: [op; ty; nd; b_0 .. b_{nd-1}; prior contents ...]
     b_i   the digits of the length TYPE, outermost (least significant) first,
           1 = B1 (as read off the type by the harness's Digits trait)
     op 0  zeroize() of an array holding the prior contents (N element codes)
     op 1  GenericArray::const_default() evaluated at run time
     op 2  <GenericArray<T, N> as ConstDefault>::DEFAULT evaluated in a const block
     op 3  Default::default()
     op 4  a `const` item initialised with GenericArray::const_default()
     ty    element type: 0 u8, 1 u64, 2 [u8; 3], 3 GenericArray<u8, U3>,
           4 Fd {a, b}     zeroize -> {0, 0},        DEFAULT = default() = {7, 9}
           5 Keep {id, s}  zeroize -> {id, 0},       DEFAULT = default() = {3, 5}
           6 W(u8)         zeroize -> 0,             DEFAULT = default() = 0x5A
           7 GenericArray<W, U3>
           8 KeepBig {id, s, key: [u8; 20]}  zeroize -> {id, 0, 0..},  DEFAULT = default() = {3, 5, 0..}
             (code as for Keep; key material left unwiped shows as a code >= 2^40)
           9 Inv(u8)       zeroize -> 0xFF,          DEFAULT = default() = 0
           10 Page {tag, fill: [u8; 4999]}  zeroize -> all zero, DEFAULT = default() = all zero
           11 Cnt(u8)      zeroize -> x + 1 (counts its wipes: not idempotent), DEFAULT = default() = 0
           13 Lv(u8)       zeroize -> 0,             DEFAULT = default() = 50   (Copy + Default plain data)
           14 K8 {id: u64, s: u64}  as Keep with machine-word fields (alignment 8); 15 Dz(u8): DefaultIsZeroes with
              Default = 50: zeroize -> 50, DEFAULT = default() = 50
           op 6: as op 5 with the array in a Box and zeroize() called on the box
           op 5: as op 0, with `arr.zeroize()` written in method-call syntax on a concrete array type
           element code: little-endian packing of the fields (u16 fields: a + 65536 b;
           byte arrays: b0 + 256 b1 + 65536 b2)
   observables: [N; elements ...] *)
From GA Require Import Base Codec ZeroDefault.
Local Open Scope Z_scope.

Definition zero_of (ty : Z) (x : Z) : Z :=
  if (ty =? 5) || (ty =? 8) || (ty =? 14) then x mod 65536 else if ty =? 9 then 255 else if ty =? 15 then 50
  else if ty =? 11 then (x + 1) mod 256 else 0.

Definition default_of (ty : Z) : Z :=
  if ty =? 4 then 7 + 9 * 65536
  else if (ty =? 5) || (ty =? 8) || (ty =? 14) then 3 + 5 * 65536
  else if ty =? 15 then 50
  else if ty =? 6 then 90
  else if ty =? 13 then 50
  else if ty =? 7 then 90 + 90 * 256 + 90 * 65536
  else 0.

Definition run_c19 (case : list Z) : list Z :=
  match case with
  | op :: ty :: nd :: rest =>
    let '(dz, prior) := take_list (znat nd) rest in
    let ds := map (fun z => negb (z =? 0)) dz in
    let n := Z.of_nat (val ds) in
    if (op =? 0) || (op =? 5) || (op =? 6) then
      match fill ds prior with
      | Some (t, []) =>
        match zeroize_arr (zero_of ty) ds t with
        | Ret t' => n :: leaves t'
        | _ => [-2]
        end
      | _ => [-1]
      end
    else if (op =? 1) || (op =? 2) || (op =? 4) then
      match const_default_elems ds (default_of ty) with
      | Some l => n :: l
      | None => [-3]
      end
    else if op =? 3 then
      match default_elems (val ds) (default_of ty) with
      | Some l => n :: l
      | None => [-4]
      end
    else [-5]
  | _ => [-6]
  end.

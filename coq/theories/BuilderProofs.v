(* BuilderProofs.v -- C07: collecting yields an array only for exactly N items;
   polls, drops. For every N, every script (non-fused, lying hints, panics). *)
From Coq Require Import Permutation.
From GA Require Import Base Builder.

Lemma pulled_app rs i p q : pulled rs i (p + q) = pulled rs i p ++ pulled rs (i + p) q.
Proof.
  revert i; induction p as [|p IH]; intros i; cbn [pulled Nat.add].
  - now rewrite Nat.add_0_r.
  - rewrite IH. replace (S i + p) with (i + S p) by lia. now destruct (rs i).
Qed.

Lemma pulled_one rs i : pulled rs i 1 = match rs i with Item y => [y] | _ => [] end.
Proof. cbn. now destruct (rs i). Qed.

(* what extend() did: [built] = old slots ++ the items pulled; polls are the
   consecutive indices i .. p-1; only the last poll can be a non-item *)
Lemma fill_spec n rs : forall i acc fr built p,
  fill n rs i acc = (fr, built, p) ->
  built = acc ++ pulled rs i (p - i) /\ i <= p /\
  match fr with
  | FFull => p = i + n /\ length built = length acc + n /\
             (forall j, i <= j < p -> exists y, rs j = Item y)
  | FEnded => i < p /\ p <= i + n /\ rs (p - 1) = End /\ length built < length acc + n /\
              (forall j, i <= j < p - 1 -> exists y, rs j = Item y)
  | FPanicked => i < p /\ p <= i + n /\ rs (p - 1) = PanicNow /\
                 (forall j, i <= j < p - 1 -> exists y, rs j = Item y)
  end.
Proof.
  induction n as [|n IH]; intros i acc fr built p H; cbn [fill] in H.
  - injection H as <- <- <-. rewrite Nat.sub_diag. cbn. rewrite app_nil_r.
    repeat split; try lia.
  - destruct (rs i) eqn:E.
    + apply IH in H. destruct H as (Hb & Hle & Hfr).
      assert (Hp : pulled rs i (p - i) = y :: pulled rs (S i) (p - S i)).
      { replace (p - i) with (S (p - S i)) by lia. cbn [pulled]. now rewrite E. }
      split; [rewrite Hb, Hp, <- app_assoc; reflexivity|]. split; [lia|].
      rewrite app_length in Hfr. cbn [length] in Hfr.
      destruct fr.
      * destruct Hfr as (-> & Hl & Hall). repeat split; try lia.
        intros j Hj. destruct (Nat.eq_dec j i) as [->|Hne]; [eauto|]. apply Hall; lia.
      * destruct Hfr as (H1 & H2 & H3 & H4 & Hall). repeat split; try lia; try assumption.
        intros j Hj. destruct (Nat.eq_dec j i) as [->|Hne]; [eauto|]. apply Hall; lia.
      * destruct Hfr as (H1 & H2 & H3 & Hall). repeat split; try lia; try assumption.
        intros j Hj. destruct (Nat.eq_dec j i) as [->|Hne]; [eauto|]. apply Hall; lia.
    + injection H as <- <- <-. replace (S i - i) with 1 by lia. rewrite pulled_one, E, app_nil_r.
      replace (S i - 1) with i by lia. repeat split; try lia; try assumption.
    + injection H as <- <- <-. replace (S i - i) with 1 by lia. rewrite pulled_one, E, app_nil_r.
      replace (S i - 1) with i by lia. repeat split; try lia; try assumption.
Qed.

Lemma pulled_items_nth rs : forall p i l,
  (forall j, i <= j < i + p -> exists y, rs j = Item y) ->
  l = pulled rs i p ->
  length l = p /\ forall k y, nth_error l k = Some y -> rs (i + k) = Item y.
Proof.
  induction p as [|p IH]; intros i l Hall ->; cbn [pulled].
  - split; [reflexivity|]. intros k y H. destruct k; discriminate.
  - destruct (Hall i ltac:(lia)) as [y0 Hy0]. rewrite Hy0.
    destruct (IH (S i) _ ltac:(intros j Hj; apply Hall; lia) eq_refl) as [Hl Hn].
    split; [cbn; now rewrite Hl|]. intros k y H. destruct k as [|k]; cbn in H.
    + injection H as <-. now rewrite Nat.add_0_r.
    + apply Hn in H. now replace (i + S k) with (S i + k) by lia.
Qed.

(* ---------- C07 ---------- *)

(* Ok only for exactly N items then the end; element i is the i-th item; N+1 polls; no drops *)
Theorem ok_only_exact N s a e p :
  try_from_iter N s = (Ok a, e, p) ->
  exact_source N s a /\ e = [] /\ p = S N /\ precheck_reject N s = false.
Proof.
  unfold try_from_iter. destruct (precheck_reject N s) eqn:Hpre; [discriminate|].
  destruct (fill N (resp s) 0 []) as [[fr built] q] eqn:Hf.
  pose proof (fill_spec _ _ _ _ _ _ _ Hf) as (Hb & _ & Hfr).
  destruct fr; try discriminate.
  destruct Hfr as (-> & Hl & Hall). cbn in Hb, Hl. cbn [Nat.add] in *.
  destruct (resp s N) eqn:HN; try discriminate.
  intros H. injection H as <- <- <-.
  rewrite Nat.sub_0_r in Hb.
  destruct (pulled_items_nth (resp s) N 0 built Hall Hb) as [Hlen Hnth].
  repeat split; auto.
Qed.

(* a source that yields exactly N items then ends, and whose hint does not rule N out
   (in particular every truthful hint), is accepted *)
Lemma pulled_exact rs a : forall i,
  (forall k y, nth_error a k = Some y -> rs (i + k) = Item y) ->
  pulled rs i (length a) = a.
Proof.
  induction a as [|x a IH]; intros i H; cbn [pulled length]; [reflexivity|].
  pose proof (H 0 x eq_refl) as H0. rewrite Nat.add_0_r in H0. rewrite H0. f_equal.
  apply IH. intros k y Hk. replace (S i + k) with (i + S k) by lia. now apply H.
Qed.

Lemma fill_exact rs a : forall i acc,
  (forall k y, nth_error a k = Some y -> rs (i + k) = Item y) ->
  fill (length a) rs i acc = (FFull, acc ++ a, i + length a).
Proof.
  induction a as [|x a IH]; intros i acc H; cbn [fill length].
  - now rewrite app_nil_r, Nat.add_0_r.
  - pose proof (H 0 x eq_refl) as H0. rewrite Nat.add_0_r in H0. rewrite H0.
    rewrite IH.
    + rewrite <- app_assoc. cbn. f_equal. lia.
    + intros k y Hk. replace (S i + k) with (i + S k) by lia. now apply H.
Qed.

Theorem exact_is_ok N s a :
  exact_source N s a -> precheck_reject N s = false ->
  try_from_iter N s = (Ok a, [], S N).
Proof.
  intros (Hl & Hit & Hend) Hpre. unfold try_from_iter. rewrite Hpre. subst N.
  rewrite (fill_exact (resp s) a 0 []) by exact Hit. cbn [Nat.add app]. now rewrite Hend.
Qed.

(* a truthful hint never rules out the true count *)
Definition hint_truthful (s : src) (count : nat) : Prop :=
  (hint_lo s <= Z.of_nat count)%Z /\
  match hint_hi s with Some u => (Z.of_nat count <= u)%Z | None => True end.

Lemma truthful_not_rejected N s : hint_truthful s N -> precheck_reject N s = false.
Proof.
  intros [Hlo Hhi]. unfold precheck_reject. apply orb_false_iff. split.
  - apply Z.ltb_ge. exact Hlo.
  - destruct (hint_hi s); [apply Z.ltb_ge; exact Hhi|reflexivity].
Qed.

Theorem truthful_exact_is_ok N s a :
  exact_source N s a -> hint_truthful s N -> try_from_iter N s = (Ok a, [], S N).
Proof. intros H Ht. apply exact_is_ok; [exact H|now apply truthful_not_rejected]. Qed.

(* a hint that already rules N out: LengthError without touching the source *)
Theorem hint_reject_no_poll N s : precheck_reject N s = true -> try_from_iter N s = (Err, [], 0).
Proof. intros H. unfold try_from_iter. now rewrite H. Qed.

(* polls: at most N+1; the polled indices are 0..p-1; every poll before the last one
   answered an Item -- so the source is never polled again after it returned None,
   nor after it panicked *)
Theorem polls_bound N s : let '(_, _, p) := try_from_iter N s in
  p <= S N /\ forall j, j + 1 < p -> exists y, resp s j = Item y.
Proof.
  unfold try_from_iter. destruct (precheck_reject N s); [split; [lia|intros j Hj; lia]|].
  destruct (fill N (resp s) 0 []) as [[fr built] q] eqn:Hf.
  pose proof (fill_spec _ _ _ _ _ _ _ Hf) as (Hb & _ & Hfr).
  destruct fr.
  - destruct Hfr as (-> & Hl & Hall). cbn [Nat.add] in *.
    destruct (resp s N); (split; [lia|]); intros j Hj; apply Hall; lia.
  - destruct Hfr as (H1 & H2 & H3 & H4 & Hall). split; [lia|]. intros j Hj. apply Hall; lia.
  - destruct Hfr as (H1 & H2 & H3 & Hall). split; [lia|]. intros j Hj. apply Hall; lia.
Qed.

(* every item pulled from the source is either in the returned array or dropped
   exactly once; on Ok nothing is dropped *)
Theorem pulled_accounted N s : let '(o, e, p) := try_from_iter N s in
  Permutation (pulled (resp s) 0 p)
              (releases e ++ match o with Ok a => a | _ => [] end).
Proof.
  unfold try_from_iter. destruct (precheck_reject N s); [reflexivity|].
  destruct (fill N (resp s) 0 []) as [[fr built] q] eqn:Hf.
  pose proof (fill_spec _ _ _ _ _ _ _ Hf) as (Hb & Hle & Hfr).
  cbn [app] in Hb. rewrite Nat.sub_0_r in Hb.
  assert (Hrel : forall l, releases (map EDrop l) = l).
  { intros l. unfold releases. induction l as [|x l IH]; cbn; [reflexivity|]. now rewrite IH. }
  destruct fr.
  - replace (S q) with (q + 1) by lia.
    destruct (resp s q) eqn:Hq; rewrite pulled_app, pulled_one; cbn [Nat.add]; rewrite Hq, <- Hb.
    + change (EDrop y :: map EDrop built) with (map EDrop (y :: built)). rewrite Hrel, app_nil_r.
      apply Permutation_sym, Permutation_cons_append.
    + now rewrite !app_nil_r.
    + now rewrite Hrel, !app_nil_r.
  - now rewrite Hrel, app_nil_r, <- Hb.
  - now rewrite Hrel, app_nil_r, <- Hb.
Qed.

(* Ok exactly when: hint does not reject, N items, then End (for sources that do not panic
   within the first N+1 polls the outcome is otherwise Err) *)
Theorem ok_iff N s :
  (exists a e p, try_from_iter N s = (Ok a, e, p)) <->
  (precheck_reject N s = false /\ exists a, exact_source N s a).
Proof.
  split.
  - intros (a & e & p & H). apply ok_only_exact in H. destruct H as (Hx & _ & _ & Hp). eauto.
  - intros (Hp & a & Hx). exists a, [], (S N). now apply exact_is_ok.
Qed.

Theorem not_exact_is_err N s :
  (forall j, j <= N -> resp s j <> PanicNow) ->
  ~ (precheck_reject N s = false /\ exists a, exact_source N s a) ->
  fst (fst (try_from_iter N s)) = Err.
Proof.
  intros Hnp Hne.
  destruct (try_from_iter N s) as [[o e] p] eqn:H. cbn. destruct o; [|reflexivity|].
  - exfalso. apply Hne. apply ok_only_exact in H. destruct H as (Hx & _ & _ & Hp). eauto.
  - exfalso. unfold try_from_iter in H. destruct (precheck_reject N s); [discriminate|].
    destruct (fill N (resp s) 0 []) as [[fr built] q] eqn:Hf.
    pose proof (fill_spec _ _ _ _ _ _ _ Hf) as (_ & _ & Hfr).
    destruct fr; try discriminate.
    + destruct Hfr as (-> & _). cbn [Nat.add] in H. destruct (resp s N) eqn:HN; try discriminate.
      now apply (Hnp N (le_n N)).
    + destruct Hfr as (H1 & H2 & H3 & _). apply (Hnp (q - 1)); [lia|exact H3].
Qed.

(* the builder / consumer types on their own (feature `internals`) *)
Theorem builder_drop_prefix slots p : releases (builder_drop slots p) = firstn p slots.
Proof. unfold builder_drop, releases. induction (firstn p slots) as [|x l IH]; cbn; [reflexivity|]. now rewrite IH. Qed.

Theorem consumer_drop_suffix slots p : releases (consumer_drop slots p) = skipn p slots.
Proof. unfold consumer_drop, releases. induction (skipn p slots) as [|x l IH]; cbn; [reflexivity|]. now rewrite IH. Qed.

(* non-vacuity *)
Example exact_example :
  try_from_iter 3 (mkSrc 0 None (fun i => match i with 0 => Item 7%Z | 1 => Item 8%Z | 2 => Item 9%Z | _ => End end))
  = (Ok [7; 8; 9]%Z, [], 4).
Proof. reflexivity. Qed.

Example non_fused_example :  (* a lying, non-fused source: End at poll 1, items afterwards *)
  try_from_iter 3 (mkSrc 0 (Some 9%Z) (fun i => match i with 1 => End | _ => Item (Z.of_nat i) end))
  = (Err, [EDrop 0%Z], 2).
Proof. reflexivity. Qed.

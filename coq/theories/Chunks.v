(* Chunks.v -- hub model of the chunk regrouping functions of src/lib.rs
   (chunks_from_slice(_mut), slice_from_chunks(_mut), from_chunks(_mut),
   into_chunks(_mut)): definitions only.

   Memory is element-granular (DESIGN.md section 4): the source object is a
   [list Z] of elements, a pointer is an element offset into it, and the stride
   of a *GenericArray<T,N> (and of a *[T; N]) pointee is N elements (justified
   by C01 for every element size including 0).  [usize] values are [Z]; the
   three arithmetic operations of the code carry their side conditions
   explicitly: leaving the usize range is the distinguished failure [UB]
   (debug build: overflow panic; release build: wrap-around followed by a
   from_raw_parts slice of the wrong extent), which the theorems exclude. *)
From GA Require Import Base.
Local Open Scope Z_scope.

Definition U64 : Z := 2 ^ 64.               (* usize::MAX + 1 *)
Definition ISIZE_MAX : Z := 2 ^ 63 - 1.     (* largest size of a Rust object in bytes *)

(* [Dangling]: the pointer of a `&[]` / `&mut []` literal -- not derived from
   the source object (the N = 0 branch returns two of them). *)
Inductive ptr : Type := Dangling | At (off : Z).

Definition padd (q : ptr) (k : Z) : ptr :=       (* ptr.add(k), in elements *)
  match q with At o => At (o + k) | Dangling => Dangling end.

(* &[T] / &mut [T]: element offset of the first element, number of elements *)
Record sl : Type := mkS { sptr : ptr; slen : Z }.
(* &[GenericArray<T,N>] / &[[T; N]]: element offset of the first array, number
   of arrays; array i starts N*i elements further *)
Record csl : Type := mkC { cptr : ptr; ccnt : Z }.

(* ---------- the functions, with the code's arithmetic ---------- *)

(* src/lib.rs:760-777 and 786-806 (the shared and the mutable form compute
   exactly the same pointers and lengths) *)
Definition chunks_from_slice (N : Z) (s : sl) : res (csl * sl) :=
  if N =? 0 then
    (* assert!(slice.is_empty(), ...); return (&[], &[]); *)
    if slen s =? 0 then Ret (mkC Dangling 0, mkS Dangling 0) else Panicked
  else
    let num_chunks := slen s / N in                    (* integer division *)
    let num_in_chunks := num_chunks * N in
    if U64 <=? num_in_chunks then UB else              (* `*` must stay below 2^64 *)
    if slen s <? num_in_chunks then UB else            (* `-` must not underflow *)
    let num_remainder := slen s - num_in_chunks in
    Ret (mkC (sptr s) num_chunks,                      (* from_raw_parts(ptr as *const GenericArray, num_chunks) *)
         mkS (padd (sptr s) num_in_chunks) num_remainder). (* from_raw_parts(ptr.add(num_in_chunks), num_remainder) *)

(* src/lib.rs:810-818: from_raw_parts(ptr as *const T, slice.len() * N::USIZE) *)
Definition slice_from_chunks (N : Z) (c : csl) : res sl :=
  let n := ccnt c * N in
  if U64 <=? n then UB else Ret (mkS (cptr c) n).

(* src/lib.rs:843-876: mem::transmute of the slice reference, i.e. the same
   (pointer, count) pair at the other element type; the trait bound
   Const<U>: IntoArrayLength<ArrayLength = N> forces U = N (C12), so the stride
   is the same N elements on both sides. *)
Definition from_chunks (c : csl) : csl := c.
Definition into_chunks (c : csl) : csl := c.

(* ---------- which element of the source object a view element is ---------- *)

(* element k of slice s is element x of the source object *)
Definition slice_elem (s : sl) (k x : Z) : Prop :=
  0 <= k < slen s /\ sptr s = At (x - k).

(* element k of array i of the chunk view c is element x of the source object *)
Definition chunk_elem (N : Z) (c : csl) (i k x : Z) : Prop :=
  0 <= i < ccnt c /\ 0 <= k < N /\ cptr c = At (x - i * N - k).

(* the slice is a Rust object inside a source object of M elements *)
Definition valid_slice (M : Z) (s : sl) : Prop :=
  exists p, sptr s = At p /\ 0 <= p /\ 0 <= slen s /\ p + slen s <= M /\ slen s < U64.

(* ---------- contents: reading and writing through the views ---------- *)

(* None = the view reaches outside the source object (an out-of-bounds
   reference; never a silent default) *)
Definition read (mem : list Z) (s : sl) : option (list Z) :=
  match sptr s with
  | At p =>
      if (0 <=? p) && (0 <=? slen s) && (p + slen s <=? zlen mem)
      then Some (range (Z.to_nat p) (Z.to_nat (p + slen s)) mem)
      else None
  | Dangling => if slen s =? 0 then Some [] else None
  end.

Fixpoint read_arrays (mem : list Z) (N : Z) (q : ptr) (cnt : nat) : option (list (list Z)) :=
  match cnt with
  | O => Some []
  | S cnt' =>
      match read mem (mkS q N), read_arrays mem N (padd q N) cnt' with
      | Some a, Some r => Some (a :: r)
      | _, _ => None
      end
  end.

Definition read_chunks (mem : list Z) (N : Z) (c : csl) : option (list (list Z)) :=
  if 0 <=? ccnt c then read_arrays mem N (cptr c) (Z.to_nat (ccnt c)) else None.

(* overwrite the whole view with v *)
Definition write (mem : list Z) (s : sl) (v : list Z) : option (list Z) :=
  match sptr s with
  | At p =>
      if (0 <=? p) && (zlen v =? slen s) && (p + slen s <=? zlen mem)
      then Some (firstn (Z.to_nat p) mem ++ v ++ skipn (Z.to_nat (p + slen s)) mem)
      else None
  | Dangling => if (slen s =? 0) && (zlen v =? 0) then Some mem else None
  end.

Fixpoint write_arrays (mem : list Z) (N : Z) (q : ptr) (vs : list (list Z)) : option (list Z) :=
  match vs with
  | [] => Some mem
  | a :: r =>
      match write mem (mkS q N) a with
      | Some m' => write_arrays m' N (padd q N) r
      | None => None
      end
  end.

Definition write_chunks (mem : list Z) (N : Z) (c : csl) (vs : list (list Z)) : option (list Z) :=
  if zlen vs =? ccnt c then write_arrays mem N (cptr c) vs else None.

(* ---------- seeded defects of DESIGN.md section 7 (C10, "Catches"), as mutant models ---------- *)

(* remainder length computed from N instead of num_in_chunks *)
Definition chunks_from_slice_bad_rem (N : Z) (s : sl) : res (csl * sl) :=
  if N =? 0 then if slen s =? 0 then Ret (mkC Dangling 0, mkS Dangling 0) else Panicked
  else
    let num_chunks := slen s / N in
    let num_in_chunks := num_chunks * N in
    if slen s <? N then UB else
    Ret (mkC (sptr s) num_chunks, mkS (padd (sptr s) num_in_chunks) (slen s - N)).

(* remainder pointer advanced by num_chunks instead of num_in_chunks *)
Definition chunks_from_slice_bad_add (N : Z) (s : sl) : res (csl * sl) :=
  if N =? 0 then if slen s =? 0 then Ret (mkC Dangling 0, mkS Dangling 0) else Panicked
  else
    let num_chunks := slen s / N in
    let num_in_chunks := num_chunks * N in
    Ret (mkC (sptr s) num_chunks, mkS (padd (sptr s) num_chunks) (slen s - num_in_chunks)).

(* CorrC14.v -- correspondence entry point for C14: decode a case, run the hub
   model of src/hex.rs, encode the observables exactly as harness/src/bin/c14.rs.
   Case: [upper(0/1); has_prec(0/1); prec; N; b_0 .. b_{N-1}]
   Obs : [0; c_0 .. c_k]   the bytes of the formatted string
         [1] panic, [2] undefined behaviour in the model (never printed by the harness) *)
From GA Require Import Base Codec Hex.
Local Open Scope Z_scope.

Definition run_c14 (case : list Z) : list Z :=
  match case with
  | up :: hp :: p :: n :: rest =>
    let bytes := firstn (znat n) rest in
    let prec := if hp =? 0 then None else Some p in
    match generic_hex_fallback (negb (up =? 0)) bytes prec with
    | Ret out => 0 :: out
    | Panicked => [1]
    | UB => [2]
    end
  | _ => [-1]
  end.

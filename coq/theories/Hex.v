(* Hex.v -- hub model of src/hex.rs (LowerHex / UpperHex of GenericArray<u8, N>):
   definitions only.  Bytes are Z in 0..255, the output is the list of the ASCII
   codes handed to Formatter::write_str, in order.  usize values are Z; every
   place where the code relies on "no overflow / no underflow / in bounds" is an
   explicit check with a distinguished failure:
     UB        unreachable_unchecked reached, get_unchecked out of bounds,
               from_utf8_unchecked on non-ASCII bytes, encoder called with a
               destination that is too short (unreachable_unchecked in the table
               fallback, unwrap_unchecked on Err with faster-hex)
     Panicked  checked arithmetic / slice index / table index failing. *)
From GA Require Import Base.
Local Open Scope Z_scope.

(* ------------------------------------------------------------------ spec *)

Definition byte (b : Z) : Prop := 0 <= b < 256.

(* ASCII code of the hexadecimal digit n (0..15) *)
Definition digit (upper : bool) (n : Z) : Z :=
  if n <? 10 then 48 + n else (if upper then 55 else 87) + n.

(* the two-digit form of one byte: high nibble first *)
Definition hex2 (upper : bool) (b : Z) : list Z :=
  [digit upper (b / 16); digit upper (b mod 16)].

Definition hex_string (upper : bool) (bytes : list Z) : list Z :=
  flat_map (hex2 upper) bytes.

(* {:x} / {:X} (prec = None) and {:.p$x} / {:.p$X} (prec = Some p) *)
Definition hex_spec (upper : bool) (bytes : list Z) (prec : option Z) : list Z :=
  match prec with
  | None => hex_string upper bytes
  | Some p => firstn (Z.to_nat (Z.min p (2 * zlen bytes))) (hex_string upper bytes)
  end.

Definition is_hex_digit (upper : bool) (c : Z) : Prop :=
  48 <= c <= 57 \/ (if upper then 65 <= c <= 70 else 97 <= c <= 102).

Definition ascii (c : Z) : Prop := 0 <= c < 128.
Definition asciib (c : Z) : bool := (0 <=? c) && (c <? 128).

(* ------------------------------------------------------------ the tables *)

(* b"0123456789ABCDEF" / b"0123456789abcdef" *)
Definition alphabet (upper : bool) : list Z :=
  if upper then [48; 49; 50; 51; 52; 53; 54; 55; 56; 57; 65; 66; 67; 68; 69; 70]
  else [48; 49; 50; 51; 52; 53; 54; 55; 56; 57; 97; 98; 99; 100; 101; 102].

(* alphabet[i as usize]: a bounds-checked array index *)
Definition alpha (upper : bool) (i : Z) : option Z :=
  if i <? 0 then None else nth_error (alphabet upper) (Z.to_nat i).

(* dst.chunks_exact_mut(2).zip(src).for_each(|(s, c)| { s[0] = alphabet[c >> 4];
   s[1] = alphabet[c & 0xF] }): stops when either side runs out; what is left of
   dst stays as it was *)
Fixpoint enc_loop (upper : bool) (src dst : list Z) : res (list Z) :=
  match src, dst with
  | c :: src', _ :: _ :: dst' =>
    match alpha upper (Z.shiftr c 4), alpha upper (Z.land c 15) with
    | Some h, Some l =>
      match enc_loop upper src' dst' with
      | Ret r => Ret (h :: l :: r)
      | e => e
      end
    | _, _ => Panicked
    end
  | _, _ => Ret dst
  end.

(* hex_encode_fallback::<UPPER>(src, dst) *)
Definition hex_encode_fallback (upper : bool) (src dst : list Z) : res (list Z) :=
  if zlen dst <? zlen src * 2 then UB            (* unreachable_unchecked *)
  else enc_loop upper src dst.

(* An encoder: UPPER, src, dst |-> dst afterwards.  The optional SIMD encoder of
   the faster-hex feature is such a function; it is an oracle (Section variable
   in HexProofs.v) constrained only by [enc_contract]. *)
Definition encoder : Type := bool -> list Z -> list Z -> res (list Z).

(* What the crate may assume of faster_hex::hex_encode{,_upper} (faster-hex 0.10,
   encode.rs:74-112): given a destination of at least 2|src| bytes (whose current
   content is valid UTF-8: it re-borrows the WHOLE of dst as &mut str) it returns
   Ok, has written the digits of src to the first 2|src| bytes and leaves dst a
   valid string of the same length.  Nothing is promised for any other call. *)
Definition enc_contract (enc : encoder) : Prop :=
  forall upper src dst,
    Forall byte src -> zlen src * 2 <= zlen dst -> Forall ascii dst ->
    exists r, enc upper src dst = Ret r /\ length r = length dst /\
              firstn (2 * length src) r = hex_string upper src /\ Forall ascii r.

(* hex_encode::<UPPER>(src, dst): cfg(not(feature = "faster-hex")) it is the table
   fallback, otherwise faster_hex with unwrap_unchecked.  Either way a destination
   shorter than 2|src| is undefined behaviour (debug_assert in debug builds). *)
Definition hex_encode (enc : encoder) (upper : bool) (src dst : list Z) : res (list Z) :=
  if zlen dst <? zlen src * 2 then UB else enc upper src dst.

(* --------------------------------------------------------- the formatter *)

(* f.write_str(unsafe { str::from_utf8_unchecked(buf.get_unchecked(..n)) }):
   [out] is everything written so far *)
Definition write_unchecked (out buf : list Z) (n : Z) : res (list Z) :=
  if (n <? 0) || (zlen buf <? n) then UB             (* get_unchecked(..n) *)
  else
    let piece := firstn (Z.to_nat n) buf in
    if forallb asciib piece then Ret (out ++ piece)
    else UB.                                          (* from_utf8_unchecked *)

(* slice.chunks(k): consecutive pieces of k elements, the last one shorter;
   fuel = length of the slice is always enough *)
Fixpoint chunks_fuel {A} (fuel : nat) (k : nat) (l : list A) : list (list A) :=
  match fuel with
  | O => []
  | S f =>
    match l with
    | [] => []
    | _ => firstn k l :: chunks_fuel f k (skipn k l)
    end
  end.
Definition chunks {A} (k : nat) (l : list A) : list (list A) := chunks_fuel (length l) k l.

(* the loop of the third strategy:
     for chunk in input.chunks(1024) {
         hex_encode::<UPPER>(chunk, &mut buf);
         let n = min(chunk.len() * 2, digits_left);
         f.write_str(from_utf8_unchecked(buf.get_unchecked(..n)))?;
         digits_left -= n;
     }
   The SAME buffer is reused by every iteration. *)
Fixpoint hex_chunks (enc : encoder) (upper : bool) (cs : list (list Z))
         (buf : list Z) (digits_left : Z) (out : list Z) : res (list Z) :=
  match cs with
  | [] => Ret out
  | chunk :: cs' =>
    match hex_encode enc upper chunk buf with
    | Ret buf' =>
      let n := Z.min (zlen chunk * 2) digits_left in
      match write_unchecked out buf' n with
      | Ret out' =>
        if digits_left <? n then Panicked             (* digits_left -= n *)
        else hex_chunks enc upper cs' buf' (digits_left - n) out'
      | e => e
      end
    | e => e
    end
  end.

Definition usize_max1 : Z := 2 ^ 64.

(* let max_digits = N::USIZE * 2;
   let max_digits = match f.precision() { Some(p) if p < max_digits => p, _ => max_digits }; *)
Definition max_digits_of (n : Z) (prec : option Z) : Z :=
  match prec with
  | Some p => if p <? n * 2 then p else n * 2
  | None => n * 2
  end.

(* let max_bytes = (max_digits >> 1) + (max_digits & 1); *)
Definition max_bytes_of (max_digits : Z) : Z := Z.shiftr max_digits 1 + Z.land max_digits 1.

(* generic_hex::<N, UPPER>(arr, f) with f.precision() = prec; the result is the
   concatenation of everything written to the formatter *)
Definition generic_hex (enc : encoder) (upper : bool) (arr : list Z) (prec : option Z)
  : res (list Z) :=
  let n := zlen arr in
  if usize_max1 <=? n * 2 then Panicked else            (* N::USIZE * 2 *)
  let max_digits := max_digits_of n prec in
  let max_bytes := max_bytes_of max_digits in
  if n <? max_bytes then UB else                        (* unreachable_unchecked *)
  if max_bytes <? 0 then Panicked else
  let input := firstn (Z.to_nat max_bytes) arr in       (* &arr[..max_bytes] *)
  if n <=? 1024 then
    (* GenericArray::<u8, Sum<N, N>>::default() *)
    let buf := repeat 0 (Z.to_nat (n + n)) in
    match (if n <? 16 then hex_encode_fallback upper arr buf
           else hex_encode enc upper input buf) with
    | Ret buf' => write_unchecked [] buf' max_digits
    | e => e
    end
  else
    hex_chunks enc upper (chunks (Z.to_nat 1024) input)
               (repeat 0 (Z.to_nat 2048)) max_digits [].

(* the configuration without the faster-hex feature *)
Definition generic_hex_fallback := generic_hex hex_encode_fallback.

(* GuardTie.v -- tier T2 tie: the length checks and the integer arithmetic that
   tools/ga2coq regenerates from /repo/src on every run (coq/gen/GenGuards.v), and the
   list of `const fn`s (coq/gen/GenConstFns.v), mean exactly what the hub models assume.
   Each lemma is about the GENERATED term; a change of the source changes the term and the
   lemma (hence the property theorem built on it) no longer checks. *)
From Coq Require Import String.
From GA Require Import Base Guards.
From GA Require Views Chunks SeqOps Builder Hex HeapOps ConstEval Serde.
From GAGen Require Import GenGuards GenConstFns.
Local Open Scope Z_scope.

Lemma of_nat_eqb a b : (Z.of_nat a =? Z.of_nat b) = Nat.eqb a b.
Proof.
  destruct (Nat.eqb_spec a b) as [->|H]; [apply Z.eqb_refl|]. apply Z.eqb_neq. lia.
Qed.

(* ---------------- C02: the four checked reinterpretations (src/lib.rs) ---------------- *)

Definition slice_env (L : nat) : genv := env1 "slice.len" (Z.of_nat L).

Lemma tie_from_slice N (s : Views.slice) :
  Views.from_slice N s =
  (if rejects from_slice_guard (slice_env (Views.slen s)) (Z.of_nat N) then Panicked else Ret (Views.sptr s)) /\
  fails_by_panic from_slice_guard = true.
Proof.
  split; [|reflexivity]. unfold Views.from_slice, rejects, from_slice_guard, slice_env, env1.
  cbn [g_kind g_cond ctest geval String.eqb Ascii.eqb Bool.eqb]. now rewrite of_nat_eqb.
Qed.

Lemma tie_try_from_slice N (s : Views.slice) :
  Views.try_from_slice N s =
  (if rejects try_from_slice_guard (slice_env (Views.slen s)) (Z.of_nat N)
   then Ret Views.TErr else Ret (Views.TOk (Views.sptr s))) /\
  fails_by_panic try_from_slice_guard = false.
Proof.
  split; [|reflexivity]. unfold Views.try_from_slice, rejects, try_from_slice_guard, slice_env, env1.
  cbn [g_kind g_cond ctest geval String.eqb Ascii.eqb Bool.eqb]. now rewrite of_nat_eqb.
Qed.

Lemma tie_from_mut_slice N (s : Views.slice) :
  Views.from_mut_slice N s =
  (if rejects from_mut_slice_guard (slice_env (Views.slen s)) (Z.of_nat N) then Panicked else Ret (Views.sptr s)) /\
  fails_by_panic from_mut_slice_guard = true.
Proof.
  split; [|reflexivity]. unfold Views.from_mut_slice, rejects, from_mut_slice_guard, slice_env, env1.
  cbn [g_kind g_cond ctest geval String.eqb Ascii.eqb Bool.eqb]. rewrite of_nat_eqb.
  now destruct (Nat.eqb (Views.slen s) N).
Qed.

Lemma tie_try_from_mut_slice N (s : Views.slice) :
  Views.try_from_mut_slice N s =
  (if rejects try_from_mut_slice_guard (slice_env (Views.slen s)) (Z.of_nat N)
   then Ret Views.TErr else Ret (Views.TOk (Views.sptr s))) /\
  fails_by_panic try_from_mut_slice_guard = false.
Proof.
  split; [|reflexivity].
  unfold Views.try_from_mut_slice, Views.from_mut_slice, rejects, try_from_mut_slice_guard, slice_env, env1.
  cbn [g_kind g_cond ctest geval String.eqb Ascii.eqb Bool.eqb]. rewrite of_nat_eqb.
  now destruct (Nat.eqb (Views.slen s) N).
Qed.

(* all four accept exactly L = N *)
Lemma guards_accept_iff L N :
  rejects from_slice_guard (slice_env L) (Z.of_nat N) = negb (Nat.eqb L N) /\
  rejects try_from_slice_guard (slice_env L) (Z.of_nat N) = negb (Nat.eqb L N) /\
  rejects from_mut_slice_guard (slice_env L) (Z.of_nat N) = negb (Nat.eqb L N) /\
  rejects try_from_mut_slice_guard (slice_env L) (Z.of_nat N) = negb (Nat.eqb L N).
Proof.
  unfold rejects, slice_env, env1.
  repeat split; cbn [g_kind g_cond ctest geval String.eqb Ascii.eqb Bool.eqb
                     from_slice_guard try_from_slice_guard from_mut_slice_guard try_from_mut_slice_guard];
    now rewrite of_nat_eqb.
Qed.

(* const_transmute: the size test lets exactly equal sizes through *)
Lemma tie_const_transmute a b :
  rejects const_transmute_guard (env2 "size_of_A" a "size_of_B" b) 0 = negb (a =? b) /\
  fails_by_panic const_transmute_guard = true.
Proof. split; reflexivity. Qed.

(* ---------------- C10 / C18: chunk arithmetic (src/lib.rs) ---------------- *)

Definition chunk_env (lets : list (string * gexpr)) (L N : Z) : genv :=
  glets (env1 "slice.len" L) N lets.

Lemma tie_chunks_arith L N :
  let en := chunk_env chunks_from_slice_lets L N in
  geval en N chunks_from_slice_count = L / N /\
  geval en N chunks_from_slice_rem_offset = L / N * N /\
  geval en N chunks_from_slice_rem_len = L - L / N * N /\
  ctest (env1 "slice.len" L) N chunks_from_slice_zero_cond = (N =? 0) /\
  rejects chunks_from_slice_zero_guard (env1 "slice.len" L) N = negb (L =? 0) /\
  fails_by_panic chunks_from_slice_zero_guard = true.
Proof. cbn. repeat split. Qed.

Lemma tie_chunks_mut_arith L N :
  let en := chunk_env chunks_from_slice_mut_lets L N in
  geval en N chunks_from_slice_mut_count = L / N /\
  geval en N chunks_from_slice_mut_rem_offset = L / N * N /\
  geval en N chunks_from_slice_mut_rem_len = L - L / N * N /\
  ctest (env1 "slice.len" L) N chunks_from_slice_mut_zero_cond = (N =? 0) /\
  rejects chunks_from_slice_mut_zero_guard (env1 "slice.len" L) N = negb (L =? 0) /\
  fails_by_panic chunks_from_slice_mut_zero_guard = true.
Proof. cbn. repeat split. Qed.

(* the hub function of Chunks.v computes its result from exactly these expressions *)
Lemma tie_chunks_model N (s : Chunks.sl) : 0 < N -> 0 <= Chunks.slen s < Chunks.U64 ->
  let L := Chunks.slen s in
  let en := chunk_env chunks_from_slice_lets L N in
  Chunks.chunks_from_slice N s =
  Ret (Chunks.mkC (Chunks.sptr s) (geval en N chunks_from_slice_count),
       Chunks.mkS (Chunks.padd (Chunks.sptr s) (geval en N chunks_from_slice_rem_offset))
                  (geval en N chunks_from_slice_rem_len)).
Proof.
  intros HN HL. cbn zeta. destruct (tie_chunks_arith (Chunks.slen s) N) as (-> & -> & -> & _).
  unfold Chunks.chunks_from_slice. replace (N =? 0) with false by (symmetry; apply Z.eqb_neq; lia).
  assert (H1 : Chunks.slen s / N * N <= Chunks.slen s) by (rewrite Z.mul_comm; apply Z.mul_div_le; lia).
  replace (Chunks.U64 <=? Chunks.slen s / N * N) with false by (symmetry; apply Z.leb_gt; lia).
  replace (Chunks.slen s <? Chunks.slen s / N * N) with false by (symmetry; apply Z.ltb_ge; lia).
  reflexivity.
Qed.

Lemma tie_chunks_model_zero (s : Chunks.sl) :
  Chunks.chunks_from_slice 0 s =
  (if rejects chunks_from_slice_zero_guard (env1 "slice.len" (Chunks.slen s)) 0 then Panicked
   else Ret (Chunks.mkC Chunks.Dangling 0, Chunks.mkS Chunks.Dangling 0)).
Proof.
  unfold Chunks.chunks_from_slice. cbn [Z.eqb]. destruct (tie_chunks_arith (Chunks.slen s) 0) as (_ & _ & _ & _ & -> & _).
  now destruct (Chunks.slen s =? 0).
Qed.

Lemma tie_slice_from_chunks C N :
  geval (env1 "slice.len" C) N slice_from_chunks_len = C * N /\
  geval (env1 "slice.len" C) N slice_from_chunks_mut_len = C * N.
Proof. split; reflexivity. Qed.

(* ---------------- C09: remove / swap_remove (src/sequence.rs) ---------------- *)

Lemma tie_remove_guard idx N :
  rejects remove_guard (env1 "idx" idx) N = negb (idx <? N) /\ fails_by_panic remove_guard = true /\
  rejects swap_remove_guard (env1 "idx" idx) N = negb (idx <? N) /\ fails_by_panic swap_remove_guard = true.
Proof. repeat split. Qed.

Lemma tie_remove_count idx N :
  SeqOps.remove_count N idx =
  (if (idx <=? N) && (1 <=? N - idx) then Some (geval (env1 "idx" idx) N remove_copy_count) else None).
Proof.
  unfold SeqOps.remove_count, SeqOps.zsub. cbn [geval remove_copy_count env1 String.eqb Ascii.eqb Bool.eqb].
  destruct (idx <=? N); cbn [andb]; reflexivity.
Qed.

(* ---------------- C07: the size-hint pre-checks of try_from_iter ---------------- *)

Definition precheck_of (checks : list (string * gcond)) (lo : Z) (hi : option Z) (N : Z) : bool :=
  existsb (fun c : string * gcond =>
             if String.eqb (fst c) "lo" then ctest (env1 "lo" lo) N (snd c)
             else match hi with Some h => ctest (env1 "hi" h) N (snd c) | None => false end) checks.

Lemma tie_prechecks N (s : Builder.src) :
  Builder.precheck_reject N s =
  precheck_of try_from_iter_prechecks (Builder.hint_lo s) (Builder.hint_hi s) (Z.of_nat N).
Proof.
  unfold Builder.precheck_reject, precheck_of. cbn. destruct (Builder.hint_hi s); cbn; now rewrite ?orb_false_r.
Qed.

(* ---------------- C15: heap conversions (src/impl_alloc.rs) ---------------- *)

Lemma tie_heap_guards L N :
  rejects try_from_vec_guard (env1 "v.len" L) N = negb (L =? N) /\ fails_by_panic try_from_vec_guard = false /\
  rejects try_from_boxed_slice_guard (env1 "slice.len" L) N = negb (L =? N) /\
  fails_by_panic try_from_boxed_slice_guard = false.
Proof. repeat split. Qed.

(* ---------------- C14: hex formatting constants (src/hex.rs) ---------------- *)

Lemma tie_hex_constants :
  hex_strategy_conds = [CLe GN (GInt 1024); CLt GN (GInt 16)] /\
  hex_chunk_sizes = [GInt 1024] /\ hex_buffer_sizes = [GInt 2048].
Proof. repeat split. Qed.

Lemma tie_hex_arith d n :
  geval (env1 "max_digits" d) n hex_max_bytes = Hex.max_bytes_of d /\
  geval (env1 "max_digits" d) n hex_max_digits_full = n * 2.
Proof. split; reflexivity. Qed.

(* hex_encode_fallback as it stands in the source: the alphabets, the shape of the loop (chunks of two
   destination bytes zipped with the source bytes, destination first) and the two digit indices are
   those of Hex.enc_loop; the unreachable hint is Hex.hex_encode_fallback's test *)
Lemma tie_hex_fallback :
  (forall up, List.find (fun p => Bool.eqb (fst p) up) hex_alphabets = Some (up, Hex.alphabet up)) /\
  hex_fallback_shape = (GInt 2, true, "c"%string) /\
  (forall c n, map (fun p => (geval (env1 "c" c) n (fst p), geval (env1 "c" c) n (snd p))) hex_fallback_digits
               = [(0, Z.shiftr c 4); (1, Z.land c 15)]) /\
  (forall ld ls n, ctest (env2 "dst.len" ld "src.len" ls) n hex_fallback_guard = (ld <? ls * 2)).
Proof. repeat split; try reflexivity. intros []; reflexivity. Qed.

(* ---------------- C17: the checks of visit_seq and the tuple length (src/impl_serde.rs) ---------------- *)

Lemma tie_serde_hint n (h : option Z) :
  Serde.hint_rejects n h =
  match h with Some v => ctest (env1 "hint" v) (Z.of_nat n) serde_hint_guard | None => false end.
Proof. destruct h; reflexivity. Qed.

Lemma tie_serde_full (pos n : nat) :
  Nat.eqb pos n = ctest (env1 "position" (Z.of_nat pos)) (Z.of_nat n) serde_full_test.
Proof. cbn. now rewrite of_nat_eqb. Qed.

Lemma tie_serde_probe (h : option Z) :
  serde_probe_guard = ("!="%string, 0) /\
  Serde.hint_allows_probe h = match h with Some v => negb (v =? snd serde_probe_guard) | None => true end.
Proof. split; [reflexivity|]. destruct h as [[| |]|]; reflexivity. Qed.

Lemma tie_serde_tuple_len : serde_tuple_lens = [("serialize_tuple"%string, GN); ("deserialize_tuple"%string, GN)].
Proof. reflexivity. Qed.

(* ---------------- C18: the const API ---------------- *)

Definition is_macro_name (n : string) : bool := String.prefix "arr!" n.

(* every function the model treats as const IS declared `const fn` in the source ... *)
Lemma tie_const_fns_declared :
  forallb (fun n => is_macro_name n || existsb (String.eqb n) source_const_fns)
          (map fst ConstEval.const_fns) = true.
Proof. vm_compute. reflexivity. Qed.

(* ... and every `const fn` of the source is covered by the model *)
Lemma tie_const_fns_covered :
  forallb (fun n => existsb (String.eqb n) (map fst ConstEval.const_fns)) source_const_fns = true.
Proof. vm_compute. reflexivity. Qed.

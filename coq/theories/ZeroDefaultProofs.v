(* ZeroDefaultProofs.v -- C19: zeroize and const-default reach every one of the N
   elements, for every digit list (any depth, leading zero digits allowed), every
   element type (zero : A -> A and d : A arbitrary) and every prior content. *)
From GA Require Import Base ConstDefaultDecls Builder Functional FunctionalProofs ZeroDefault.

(* ---------- memory order of one node ---------- *)

Lemma leaves_even {A} (p1 p2 : tree A) : leaves (Even p1 p2) = leaves p1 ++ leaves p2.
Proof. cbn. now rewrite app_nil_r. Qed.

Lemma leaves_odd {A} (p1 p2 : tree A) x : leaves (Odd p1 p2 x) = leaves p1 ++ leaves p2 ++ [x].
Proof. cbn. reflexivity. Qed.

(* ---------- numbers ---------- *)

Lemma val_cons b r : val (b :: r) = (if b then 1 else 0) + 2 * val r.
Proof. reflexivity. Qed.

Lemma val_pos_digits p : val (pos_digits p) = Pos.to_nat p.
Proof.
  induction p as [p IH|p IH|]; cbn [pos_digits]; rewrite ?val_cons, ?IH.
  - rewrite Pos2Nat.inj_xI. lia.
  - rewrite Pos2Nat.inj_xO. lia.
  - reflexivity.
Qed.

(* every length is denoted by its normalised digits ... *)
Lemma val_N_digits n : val (N_digits n) = N.to_nat n.
Proof. destruct n as [|p]; [reflexivity|]. cbn [N_digits N.to_nat]. apply val_pos_digits. Qed.

(* ... and by every digit list with leading (= innermost) zero digits added *)
Lemma val_leading_zeros ds k : val (ds ++ repeat false k) = val ds.
Proof.
  induction ds as [|b r IH]; cbn [app].
  - induction k as [|k IHk]; [reflexivity|]. cbn [repeat]. rewrite val_cons, IHk. reflexivity.
  - rewrite !val_cons, IH. reflexivity.
Qed.

Lemma every_length_has_digits (n : nat) : exists ds, val ds = n.
Proof. exists (N_digits (N.of_nat n)). rewrite val_N_digits. apply Nnat.Nat2N.id. Qed.

(* ---------- the shape fixes the number of slots ---------- *)

Lemma shape_count {A} : forall ds (t : tree A), has_shape ds t = true -> length (leaves t) = val ds.
Proof.
  induction ds as [|b r IH]; intros t H.
  - destruct t; try discriminate. reflexivity.
  - destruct t as [|p1 p2|p1 p2 x]; cbn [has_shape] in H; try discriminate.
    + destruct b; cbn [arraytype_of_bit] in H; try discriminate.
      apply andb_true_iff in H. destruct H as [H1 H2].
      rewrite leaves_even, app_length, (IH _ H1), (IH _ H2), val_cons. lia.
    + destruct b; cbn [arraytype_of_bit] in H; try discriminate.
      apply andb_true_iff in H. destruct H as [H1 H2].
      rewrite leaves_odd, !app_length, (IH _ H1), (IH _ H2), val_cons. cbn [length]. lia.
Qed.

(* ---------- const default ---------- *)

Lemma repeat_snoc {A} (d : A) n : repeat d n ++ [d] = d :: repeat d n.
Proof. induction n as [|n IH]; cbn; [reflexivity|]. now rewrite IH. Qed.

Lemma repeat_double_even {A} (d : A) v : repeat d v ++ repeat d v = repeat d (0 + 2 * v).
Proof. rewrite <- repeat_app. f_equal. lia. Qed.

Lemma repeat_double_odd {A} (d : A) v : repeat d v ++ repeat d v ++ [d] = repeat d (1 + 2 * v).
Proof.
  rewrite app_assoc, <- repeat_app, repeat_snoc. cbn [Nat.add repeat]. do 2 f_equal. lia.
Qed.

(* the tree the three impls build: of the right type, every leaf is d, and the
   leaves are exactly val ds many *)
Lemma const_default_tree_spec {A} (d : A) : forall ds,
  exists t, const_default_tree ds d = Some t /\ has_shape ds t = true /\
            leaves t = repeat d (val ds).
Proof.
  induction ds as [|b r IH].
  - exists Leaf0. repeat split.
  - destruct IH as (u & Hu & Hs & Hl). cbn [const_default_tree]. rewrite Hu.
    destruct b; cbn [arraytype_of_bit].
    + exists (Odd u u d). split; [reflexivity|]. split.
      * cbn [has_shape arraytype_of_bit]. now rewrite Hs.
      * rewrite leaves_odd, Hl, val_cons. apply repeat_double_odd.
    + exists (Even u u). split; [reflexivity|]. split.
      * cbn [has_shape arraytype_of_bit]. now rewrite Hs.
      * rewrite leaves_even, Hl, val_cons. apply repeat_double_even.
Qed.

Lemma const_default_arr_spec {A} (d : A) ds :
  exists t, const_default_arr ds d = Some t /\ has_shape ds t = true /\
            leaves t = repeat d (val ds).
Proof.
  destruct (const_default_tree_spec d ds) as (t & Ht & Hs & Hl).
  exists t. unfold const_default_arr. rewrite Ht. auto.
Qed.

(* main theorem: GenericArray::<T, N>::const_default() seen through the slice view *)
Theorem const_default_all_slots {A} (ds : list bool) (d : A) :
  const_default_elems ds d = Some (repeat d (val ds)).
Proof.
  unfold const_default_elems. destruct (const_default_arr_spec d ds) as (t & Ht & _ & Hl).
  rewrite Ht. cbn. now rewrite Hl.
Qed.

Lemma nth_error_repeat_all {A} (d : A) : forall n i,
  nth_error (repeat d n) i = if i <? n then Some d else None.
Proof.
  induction n as [|n IH]; intros i; [destruct i; reflexivity|].
  destruct i as [|i]; [reflexivity|]. cbn [repeat nth_error]. rewrite IH. reflexivity.
Qed.

(* slot by slot: every index below N holds d, there is no further slot *)
Theorem const_default_every_slot {A} (ds : list bool) (d : A) :
  exists l, const_default_elems ds d = Some l /\ length l = val ds /\
            forall i, nth_error l i = if i <? val ds then Some d else None.
Proof.
  exists (repeat d (val ds)). split; [apply const_default_all_slots|].
  split; [apply repeat_length|]. apply nth_error_repeat_all.
Qed.

Theorem const_default_well_shaped {A} (ds : list bool) (d : A) :
  exists t, const_default_arr ds d = Some t /\ has_shape ds t = true.
Proof. destruct (const_default_arr_spec d ds) as (t & Ht & Hs & _). eauto. Qed.

(* leading zero digits change the tree, not the elements *)
Theorem const_default_leading_zeros {A} (ds : list bool) (d : A) k :
  const_default_elems (ds ++ repeat false k) d = const_default_elems ds d.
Proof. now rewrite !const_default_all_slots, val_leading_zeros. Qed.

(* Default::default() = generate(|_| d) *)
Lemma produced_const (d : Z) : forall n i, produced (fun _ _ => d) i (repeat [] n) = repeat d n.
Proof. induction n as [|n IH]; intros i; cbn; [reflexivity|]. now rewrite IH. Qed.

Lemma default_elems_spec N d : default_elems N d = Some (repeat d N).
Proof.
  unfold default_elems, default_, generate_. rewrite zipmap_ok. cbn [fst].
  now rewrite produced_const.
Qed.

Theorem const_default_is_default (ds : list bool) (d : Z) :
  const_default_elems ds d = default_elems (val ds) d.
Proof. now rewrite const_default_all_slots, default_elems_spec. Qed.

(* ---------- zeroize ---------- *)

Lemma nth_error_mid {A} (pre : list A) x post : nth_error (pre ++ x :: post) (length pre) = Some x.
Proof. induction pre as [|y pre IH]; cbn; auto. Qed.

Lemma upd_mid {A} (pre : list A) x v post :
  upd (length pre) v (pre ++ x :: post) = pre ++ v :: post.
Proof. induction pre as [|y pre IH]; cbn; [reflexivity|]. now rewrite IH. Qed.

Lemma zeroize_loop_spec {A} (zero : A -> A) : forall post pre,
  zeroize_loop zero (length post) (length pre) (pre ++ post) = Ret (pre ++ map zero post).
Proof.
  induction post as [|x post IH]; intros pre; cbn [length zeroize_loop map]; [reflexivity|].
  rewrite nth_error_mid, upd_mid.
  replace (pre ++ zero x :: post) with ((pre ++ [zero x]) ++ post) by now rewrite <- app_assoc.
  replace (S (length pre)) with (length (pre ++ [zero x])) by (rewrite app_length; cbn; lia).
  rewrite IH. now rewrite <- app_assoc.
Qed.

(* the loop over the slice view: all cells, each replaced by its zeroized value *)
Theorem zeroize_slice_spec {A} (zero : A -> A) (a : list A) :
  zeroize_slice zero a = Ret (map zero a).
Proof. unfold zeroize_slice. exact (zeroize_loop_spec zero a []). Qed.

Theorem zeroize_slice_every_cell {A} (zero : A -> A) (a : list A) :
  exists a', zeroize_slice zero a = Ret a' /\ length a' = length a /\
             forall i, nth_error a' i = option_map zero (nth_error a i).
Proof.
  exists (map zero a). split; [apply zeroize_slice_spec|]. split; [apply map_length|].
  intros i. apply nth_error_map.
Qed.

Lemma map_const_repeat {A B} (f : A -> B) z : (forall x, f x = z) ->
  forall l, map f l = repeat z (length l).
Proof. intros H. induction l as [|x l IH]; cbn; [reflexivity|]. now rewrite H, IH. Qed.

Theorem zeroize_slice_const {A} (zero : A -> A) z (a : list A) : (forall x, zero x = z) ->
  zeroize_slice zero a = Ret (repeat z (length a)).
Proof. intros H. rewrite zeroize_slice_spec. now rewrite (map_const_repeat zero z H). Qed.

(* any contents of the right length are the view of a storage tree of that shape *)
Lemma fill_spec {A} : forall ds (l1 l2 : list A), length l1 = val ds ->
  exists t, fill ds (l1 ++ l2) = Some (t, l2) /\ has_shape ds t = true /\ leaves t = l1.
Proof.
  induction ds as [|b r IH]; intros l1 l2 Hlen.
  - destruct l1; [|discriminate]. exists Leaf0. repeat split.
  - rewrite val_cons in Hlen. set (v := val r) in *.
    assert (Hsplit : l1 = firstn v l1 ++ firstn v (skipn v l1) ++ skipn v (skipn v l1)).
    { now rewrite !firstn_skipn. }
    assert (Ha : length (firstn v l1) = v) by (rewrite firstn_length; lia).
    assert (Hb : length (firstn v (skipn v l1)) = v) by (rewrite firstn_length, skipn_length; lia).
    assert (Hc : length (skipn v (skipn v l1)) = if b then 1 else 0).
    { rewrite !skipn_length. destruct b; lia. }
    set (a := firstn v l1) in *. set (bb := firstn v (skipn v l1)) in *.
    set (c := skipn v (skipn v l1)) in *.
    destruct (IH a (bb ++ c ++ l2) Ha) as (p1 & Hf1 & Hs1 & Hl1).
    destruct (IH bb (c ++ l2) Hb) as (p2 & Hf2 & Hs2 & Hl2).
    cbn [fill]. rewrite Hsplit, <- !app_assoc, Hf1, Hf2.
    destruct b; cbn [arraytype_of_bit].
    + destruct c as [|x [|y c]]; try discriminate. cbn [app].
      exists (Odd p1 p2 x). split; [reflexivity|]. split.
      * cbn [has_shape arraytype_of_bit]. now rewrite Hs1, Hs2.
      * now rewrite leaves_odd, Hl1, Hl2.
    + destruct c; [|discriminate]. cbn [app].
      exists (Even p1 p2). split; [reflexivity|]. split.
      * cbn [has_shape arraytype_of_bit]. now rewrite Hs1, Hs2.
      * now rewrite leaves_even, Hl1, Hl2, app_nil_r.
Qed.

Theorem any_contents_have_storage {A} (ds : list bool) (l : list A) : length l = val ds ->
  exists t, fill ds l = Some (t, []) /\ has_shape ds t = true /\ leaves t = l.
Proof.
  intros H. destruct (fill_spec ds l [] H) as (t & Hf & Hs & Hl).
  rewrite app_nil_r in Hf. eauto.
Qed.

(* main theorem: GenericArray::zeroize on ANY storage of the right type *)
Theorem zeroize_arr_spec {A} (zero : A -> A) (ds : list bool) (t : tree A) :
  has_shape ds t = true ->
  exists t', zeroize_arr zero ds t = Ret t' /\ has_shape ds t' = true /\
             leaves t' = map zero (leaves t).
Proof.
  intros Hs. unfold zeroize_arr. rewrite zeroize_slice_spec.
  assert (Hlen : length (map zero (leaves t)) = val ds).
  { rewrite map_length. now apply shape_count. }
  destruct (any_contents_have_storage ds _ Hlen) as (t' & Hf & Hs' & Hl').
  exists t'. rewrite Hf. auto.
Qed.

Theorem zeroize_arr_const {A} (zero : A -> A) z (ds : list bool) (t : tree A) :
  (forall x, zero x = z) -> has_shape ds t = true ->
  exists t', zeroize_arr zero ds t = Ret t' /\ has_shape ds t' = true /\
             leaves t' = repeat z (val ds).
Proof.
  intros Hz Hs. destruct (zeroize_arr_spec zero ds t Hs) as (t' & H1 & H2 & H3).
  exists t'. split; [exact H1|]. split; [exact H2|].
  rewrite H3, (map_const_repeat zero z Hz). f_equal. now apply shape_count.
Qed.

(* zeroizing the constant default of a type whose zero differs from its default
   changes every slot (the two halves of the property do not trivialise each other) *)
Theorem zeroize_after_const_default {A} (zero : A -> A) (ds : list bool) (d : A) :
  exists t t', const_default_arr ds d = Some t /\ zeroize_arr zero ds t = Ret t' /\
               leaves t' = repeat (zero d) (val ds).
Proof.
  destruct (const_default_arr_spec d ds) as (t & Ht & Hs & Hl).
  destruct (zeroize_arr_spec zero ds t Hs) as (t' & H1 & _ & H3).
  exists t, t'. split; [exact Ht|]. split; [exact H1|].
  rewrite H3, Hl. clear. induction (val ds) as [|n IH]; cbn; [reflexivity|]. now rewrite IH.
Qed.

(* ---------- the theorems discriminate: plausible bugs are refuted ---------- *)

(* Odd impl without parent2: N = 3 gets 2 elements *)
Lemma odd_missing_parent2_refuted :
  exists ds, length (leaves (cd_tree_mut false true ds 0%Z)) <> val ds.
Proof. exists [true; true]. vm_compute. discriminate. Qed.

(* Even impl with a single parent: N = 2 gets 1 element *)
Lemma even_single_parent_refuted :
  exists ds, length (leaves (cd_tree_mut true false ds 0%Z)) <> val ds.
Proof. exists [false; true]. vm_compute. discriminate. Qed.

(* the unmutated generator of the same family is the real one *)
Lemma cd_tree_mut_tt {A} (d : A) : forall ds, const_default_tree ds d = Some (cd_tree_mut true true ds d).
Proof.
  induction ds as [|b r IH]; [reflexivity|]. cbn [const_default_tree cd_tree_mut]. rewrite IH.
  destruct b; reflexivity.
Qed.

(* a B0 digit that also writes an element: N = 2 gets 4 *)
Lemma even_extra_slot_refuted :
  exists ds, length (leaves (cd_tree_extra ds 0%Z)) <> val ds.
Proof. exists [false; true]. vm_compute. discriminate. Qed.

(* zeroize over [1..] / [..len-1]: an element keeps its old value *)
Lemma zeroize_skip_first_refuted :
  exists a, zeroize_slice_skip_first (fun _ => 0%Z) a <> Ret (map (fun _ => 0%Z) a).
Proof. exists [5; 6; 7]%Z. vm_compute. discriminate. Qed.

Lemma zeroize_short_refuted :
  exists a, zeroize_slice_short (fun _ => 0%Z) a <> Ret (map (fun _ => 0%Z) a).
Proof. exists [5; 6; 7]%Z. vm_compute. discriminate. Qed.

(* ---------- non-vacuity ---------- *)

(* U5 = UInt<UInt<UInt<UTerm, B1>, B0>, B1>: Odd (Even (Odd [] [] d) (Odd [] [] d)) ... *)
Example const_default_example :
  val [true; false; true] = 5 /\
  const_default_arr [true; false; true] 7%Z =
    Some (Odd (Even (Odd Leaf0 Leaf0 7) (Odd Leaf0 Leaf0 7))
              (Even (Odd Leaf0 Leaf0 7) (Odd Leaf0 Leaf0 7)) 7)%Z /\
  const_default_elems [true; false; true] 7%Z = Some [7; 7; 7; 7; 7]%Z.
Proof. repeat split. Qed.

(* a non-normalised 3 (leading zero digit) and prior contents in memory order *)
Example zeroize_example :
  exists t, fill [true; true; false] [10; 20; 30]%Z = Some (t, []) /\
            has_shape [true; true; false] t = true /\
            leaves t = [10; 20; 30]%Z /\
            exists t', zeroize_arr (fun x => x mod 8)%Z [true; true; false] t = Ret t' /\
                       leaves t' = [2; 4; 6]%Z.
Proof.
  eexists. split; [vm_compute; reflexivity|]. split; [reflexivity|]. split; [reflexivity|].
  eexists. split; vm_compute; reflexivity.
Qed.

Example digits_example : N_digits 1025 = [true; false; false; false; false; false; false; false; false; false; true]
                         /\ val (N_digits 1025) = 1025.
Proof. split; [reflexivity|]. rewrite val_N_digits. reflexivity. Qed.

(* MacroDecls.v -- the arms of arr!, box_arr! and box_arr_helper! (src/arr.rs) and the
   const-ness of the functions they call, transcribed from the source as plain
   data (matcher shape + transcriber term).  Hand-transcribed for now; this is the
   file the translator's T1 macro output (GenMacro.v) is to replace.  Each entry
   quotes the source line it stands for. *)
From GA Require Import Base Macros.
Local Open Scope Z_scope.

(* keyword codes of `@kw` in macro calls *)
Definition kw_unit : Z := 1.            (* @unit *)

(* src/arr.rs:25-39  macro_rules! arr *)
Definition arr_arms : list arm := [
  (* ($($x:expr),* $(,)* ) => ( $crate::GenericArray::from_array([$($x),*]) ); *)
  mkArm (MSepList MVx FSExpr)
        (Call FFromArray None (SCons (ArrayLit (SRep MVx (MV MVx) SNil)) SNil));
  (* ($x:expr; $N:ty) => ({
         const __INPUT_LENGTH: usize = <$N as $crate::typenum::Unsigned>::USIZE;
         #[inline(always)]
         const fn __do_transmute<T, N: $crate::ArrayLength>(arr: [T; __INPUT_LENGTH])
             -> $crate::GenericArray<T, N> { unsafe { $crate::const_transmute(arr) } }
         __do_transmute::<_, $N>([$x; __INPUT_LENGTH])
     }); *)
  mkArm (MSemi MVx FSExpr MVN FSTy)
        (ConstItem CInputLength (Usize (MV MVN))
          (LocalFn true (CRef CInputLength)
             (UnsafeBlk (Call FConstTransmute (Some TyParamN) (SCons Param SNil)))
             (Call FLocal (Some (MV MVN))
                (SCons (ArrayRepeat (MV MVx) (CRef CInputLength)) SNil))));
  (* ($x:expr; $n:expr) => ( $crate::GenericArray::from_array([$x; $n]) ); *)
  mkArm (MSemi MVx FSExpr MVn FSExpr)
        (Call FFromArray None (SCons (ArrayRepeat (MV MVx) (MV MVn)) SNil))
].

(* src/arr.rs:58-69  macro_rules! box_arr *)
Definition box_arr_arms : list arm := [
  (* ($($x:expr),* $(,)* ) => ({
         $crate::GenericArray::__from_vec_helper([$($crate::box_arr_helper!(@unit $x)),*],
                                                 $crate::alloc::vec![$($x),*])
     }); *)
  mkArm (MSepList MVx FSExpr)
        (Call FFromVecHelper None
           (SCons (ArrayLit (SRep MVx (MacroCall MBoxArrHelper kw_unit (SCons (MV MVx) SNil)) SNil))
           (SCons (VecLit (SRep MVx (MV MVx) SNil)) SNil)));
  (* ($x:expr; $N:ty) => ( $crate::GenericArray::<_, $N>::try_from_vec(
         $crate::alloc::vec![$x; <$N as $crate::typenum::Unsigned>::USIZE]).unwrap() ); *)
  mkArm (MSemi MVx FSExpr MVN FSTy)
        (Unwrap (Call FTryFromVec (Some (MV MVN))
                   (SCons (VecRepeat (MV MVx) (Usize (MV MVN))) SNil)));
  (* ($x:expr; $n:expr) => ({
         const __LEN: usize = $n;
         $crate::GenericArray::<_, <$crate::typenum::Const<__LEN> as $crate::IntoArrayLength>
             ::ArrayLength>::try_from_vec($crate::alloc::vec![$x; __LEN]).unwrap()
     }); *)
  mkArm (MSemi MVx FSExpr MVn FSExpr)
        (ConstItem CLen (MV MVn)
           (Unwrap (Call FTryFromVec (Some (ConstLen (CRef CLen)))
                      (SCons (VecRepeat (MV MVx) (CRef CLen)) SNil))))
].

(* src/arr.rs:93-98  macro_rules! box_arr_helper *)
Definition box_arr_helper_arms : list arm := [
  (* (@unit $e:expr) => { () }; *)
  mkArm (MAt kw_unit MVe FSExpr) UnitLit
].

(* const-ness of the signatures:
   src/lib.rs:824   pub const fn from_array<const U: usize>(value: [T; U]) -> Self
   src/lib.rs:997   pub const unsafe fn const_transmute<A, B>(a: A) -> B
   src/impl_alloc.rs:68  pub fn try_from_vec(vec: Vec<T>) -> Result<Box<GenericArray<T, N>>, LengthError>
   src/arr.rs:78    pub fn __from_vec_helper<const U: usize>(_empty: [(); U], vec: Vec<T>) -> Box<..>
   (FLocal's const-ness is carried by the LocalFn node itself) *)
Definition crate_fn_const (f : fname) : bool :=
  match f with
  | FFromArray => true
  | FConstTransmute => true
  | FTryFromVec => false
  | FFromVecHelper => false
  | FLocal => false
  end.

Definition crate_decls : decls :=
  mkDecls (fun m => match m with
                    | MArr => arr_arms
                    | MBoxArr => box_arr_arms
                    | MBoxArrHelper => box_arr_helper_arms
                    end)
          crate_fn_const.

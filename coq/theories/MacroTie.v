(* MacroTie.v -- tier T1 tie for C20: the arms of arr!, box_arr! and box_arr_helper! (matcher
   shape and transcriber term) and the const-ness of the crate functions they call, as
   tools/ga2coq regenerates them from src/arr.rs, src/lib.rs and src/impl_alloc.rs on every
   run (coq/gen/GenMacro.v), are the declarations MacroDecls.v states and every C20 theorem
   is about. *)
From GA Require Import Base Macros MacroDecls.
From GAGen Require GenMacro.

Lemma tie_arr_arms : GenMacro.gen_arr_arms = arr_arms.
Proof. reflexivity. Qed.

Lemma tie_box_arr_arms : GenMacro.gen_box_arr_arms = box_arr_arms.
Proof. reflexivity. Qed.

Lemma tie_box_arr_helper_arms : GenMacro.gen_box_arr_helper_arms = box_arr_helper_arms.
Proof. reflexivity. Qed.

Lemma tie_fn_const : forall f b, In (f, b) GenMacro.gen_fn_const -> crate_fn_const f = b.
Proof.
  intros f b H. cbn in H.
  repeat (destruct H as [H|H]; [injection H as <- <-; reflexivity|]). contradiction.
Qed.

(* the declarations the model runs on, rebuilt from the regenerated data *)
Definition gen_decls : decls :=
  mkDecls (fun m => match m with
                    | MArr => GenMacro.gen_arr_arms
                    | MBoxArr => GenMacro.gen_box_arr_arms
                    | MBoxArrHelper => GenMacro.gen_box_arr_helper_arms
                    end)
          (fun f => match find (fun p => match fst p, f with
                                        | FFromArray, FFromArray | FConstTransmute, FConstTransmute
                                        | FTryFromVec, FTryFromVec | FFromVecHelper, FFromVecHelper => true
                                        | _, _ => false end) GenMacro.gen_fn_const with
                    | Some p => snd p
                    | None => false
                    end).

Lemma tie_decls_arms : forall m, arms_of gen_decls m = arms_of crate_decls m.
Proof. intros []; reflexivity. Qed.

Lemma tie_decls_const : forall f, fn_is_const gen_decls f = fn_is_const crate_decls f.
Proof. intros []; reflexivity. Qed.

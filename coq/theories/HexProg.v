(* HexProg.v -- a small statement language for the body of generic_hex (src/hex.rs), the target of
   tools/ga2coq (coq/gen/GenHex.v), and its interpreter.  Definitions only.

   The state holds usize variables, byte slices (the array, `input`, the loop's `chunk`, and the
   stack buffers, which are written by the encoders) and everything handed to Formatter::write_str
   so far.  Every place where the code relies on "no overflow / in bounds / reachable" is an explicit
   check with the failure the Rust semantics gives it (design section 4):
     usize `*` and `+` and `-=`       Panicked on overflow / underflow (debug build; the theorems show
                                      it never happens, so the release build computes the same)
     unreachable_unchecked()          UB when reached
     &s[..e]                          Panicked when e > s.len()
     get_unchecked(..n), from_utf8_unchecked, the encoders' length requirement: as in Hex.v
   A later `let` of the same name shadows the earlier one (lookup finds the newest binding). *)
From Coq Require Import String.
From GA Require Import Base Hex.
Local Open Scope Z_scope.

Inductive hx : Type :=
| XInt (z : Z)
| XVar (x : string)
| XN                                  (* N::USIZE *)
| XMul (a b : hx)
| XAdd (a b : hx)
| XShr (a : hx) (k : Z)               (* a >> k *)
| XAnd (a : hx) (k : Z)               (* a & k *)
| XMin (a b : hx)                     (* core::cmp::min(a, b) *)
| XLen (s : string).                  (* s.len() of a slice variable *)

Inductive hc : Type :=
| CLt (a b : hx) | CLe (a b : hx) | CGt (a b : hx).

Inductive hs : Type :=
| SLet (x : string) (e : hx)
| SLetPrec (x : string) (bound : hx)
    (* let x = match f.precision() { Some(p) if p < bound => p, _ => bound }; *)
| SLetPrefix (x : string) (guard : hc) (src : string) (e : hx)
    (* let x = { if guard { unsafe { unreachable_unchecked() } }  &src[..e] }; *)
| SIf (c : hc) (t e : list hs)
| SBufDefault (x : string) (len : hx)   (* let mut x = GenericArray::<u8, L>::default();  len = L::USIZE *)
| SBufZeroed (x : string) (len : hx)    (* let mut x = [0u8; len]; *)
| SEncode (fallback : bool) (src buf : string)
    (* hex_encode_fallback::<UPPER>(src, &mut buf)  /  hex_encode::<UPPER>(src, &mut buf) *)
| SWrite (buf : string) (n : hx)
    (* f.write_str(unsafe { str::from_utf8_unchecked(buf.get_unchecked(..n)) })?; *)
| SForChunks (x src : string) (k : hx) (body : list hs)   (* for x in src.chunks(k) { body } *)
| SSubAssign (x : string) (e : hx).      (* x -= e; *)

Record hstate : Type := mkHS {
  ints : list (string * Z);
  slices : list (string * list Z);
  written : list Z
}.

Fixpoint lookup {A} (k : string) (l : list (string * A)) : option A :=
  match l with
  | [] => None
  | (k', a) :: r => if String.eqb k k' then Some a else lookup k r
  end.

Definition set_int (x : string) (v : Z) (st : hstate) : hstate :=
  mkHS ((x, v) :: ints st) (slices st) (written st).
Definition set_slice (x : string) (v : list Z) (st : hstate) : hstate :=
  mkHS (ints st) ((x, v) :: slices st) (written st).
Definition set_written (w : list Z) (st : hstate) : hstate :=
  mkHS (ints st) (slices st) w.

Definition rbind {A B} (r : res A) (k : A -> res B) : res B :=
  match r with Ret a => k a | Panicked => Panicked | UB => UB end.

(* for x in cs { body }: the loop variable is rebound on every turn, everything else is threaded *)
Fixpoint for_chunks (body : hstate -> res hstate) (x : string) (cs : list (list Z)) (st : hstate)
  : res hstate :=
  match cs with
  | [] => Ret st
  | c :: cs' => rbind (body (set_slice x c st)) (for_chunks body x cs')
  end.

Section Interp.
  Variable enc : encoder.
  Variable upper : bool.
  Variable N : Z.
  Variable prec : option Z.

  (* an unbound name is a translation error; it reads as UB so that no theorem can hold by accident *)
  Fixpoint xeval (st : hstate) (e : hx) : res Z :=
    match e with
    | XInt z => Ret z
    | XVar x => match lookup x (ints st) with Some v => Ret v | None => UB end
    | XN => Ret N
    | XMul a b =>
      rbind (xeval st a) (fun va => rbind (xeval st b) (fun vb =>
        if usize_max1 <=? va * vb then Panicked else Ret (va * vb)))
    | XAdd a b =>
      rbind (xeval st a) (fun va => rbind (xeval st b) (fun vb =>
        if usize_max1 <=? va + vb then Panicked else Ret (va + vb)))
    | XShr a k => rbind (xeval st a) (fun va => Ret (Z.shiftr va k))
    | XAnd a k => rbind (xeval st a) (fun va => Ret (Z.land va k))
    | XMin a b => rbind (xeval st a) (fun va => rbind (xeval st b) (fun vb => Ret (Z.min va vb)))
    | XLen s => match lookup s (slices st) with Some l => Ret (zlen l) | None => UB end
    end.

  Definition ctest (st : hstate) (c : hc) : res bool :=
    match c with
    | CLt a b => rbind (xeval st a) (fun va => rbind (xeval st b) (fun vb => Ret (va <? vb)))
    | CLe a b => rbind (xeval st a) (fun va => rbind (xeval st b) (fun vb => Ret (va <=? vb)))
    | CGt a b => rbind (xeval st a) (fun va => rbind (xeval st b) (fun vb => Ret (vb <? va)))
    end.

  Fixpoint run_s (s : hs) (st : hstate) {struct s} : res hstate :=
    let run_l := fix run_l (l : list hs) (st : hstate) {struct l} : res hstate :=
      match l with
      | [] => Ret st
      | s :: r => rbind (run_s s st) (run_l r)
      end in
    match s with
    | SLet x e => rbind (xeval st e) (fun v => Ret (set_int x v st))
    | SLetPrec x bound =>
      rbind (xeval st bound) (fun b =>
        Ret (set_int x (match prec with Some p => if p <? b then p else b | None => b end) st))
    | SLetPrefix x guard src e =>
      rbind (ctest st guard) (fun g =>
        if g then UB
        else rbind (xeval st e) (fun v =>
          match lookup src (slices st) with
          | Some l => if (v <? 0) || (zlen l <? v) then Panicked
                      else Ret (set_slice x (firstn (Z.to_nat v) l) st)
          | None => UB
          end))
    | SIf c t e => rbind (ctest st c) (fun b => if b then run_l t st else run_l e st)
    | SBufDefault x len | SBufZeroed x len =>
      rbind (xeval st len) (fun v => Ret (set_slice x (repeat 0 (Z.to_nat v)) st))
    | SEncode fallback src buf =>
      match lookup src (slices st), lookup buf (slices st) with
      | Some s, Some b =>
        rbind (if fallback then hex_encode_fallback upper s b else hex_encode enc upper s b)
              (fun b' => Ret (set_slice buf b' st))
      | _, _ => UB
      end
    | SWrite buf n =>
      rbind (xeval st n) (fun v =>
        match lookup buf (slices st) with
        | Some b => rbind (write_unchecked (written st) b v) (fun w => Ret (set_written w st))
        | None => UB
        end)
    | SForChunks x src k body =>
      rbind (xeval st k) (fun kv =>
        match lookup src (slices st) with
        | Some l => for_chunks (run_l body) x (chunks (Z.to_nat kv) l) st
        | None => UB
        end)
    | SSubAssign x e =>
      rbind (xeval st e) (fun v =>
        match lookup x (ints st) with
        | Some cur => if cur <? v then Panicked else Ret (set_int x (cur - v) st)
        | None => UB
        end)
    end.

  Fixpoint run_l (l : list hs) (st : hstate) : res hstate :=
    match l with
    | [] => Ret st
    | s :: r => rbind (run_s s st) (run_l r)
    end.
End Interp.

(* generic_hex::<N, UPPER>(arr, f) with f.precision() = prec: the function's parameter `arr` is the
   only binding at entry; the result is everything written to the formatter *)
Definition run_hex (body : list hs) (enc : encoder) (upper : bool) (arr : list Z) (prec : option Z)
  : res (list Z) :=
  rbind (run_l enc upper (zlen arr) prec body (mkHS [] [("arr"%string, arr)] []))
        (fun st => Ret (written st)).

(* Alloc.v -- hub model of the heap as the global allocator sees it, and of the
   std (alloc crate) operations the crate's alloc-feature code is built from.
   Definitions only (lemmas: HeapOpsProofs.v).

   * A block is an identity (nat) with the size and alignment it was requested with.
   * The allocator trace is a list of events; [valid h t h'] says that replaying t
     from the live heap h breaks no rule of the GlobalAlloc contract the property
     names (non-zero-size requests, release of a live block with the layout it was
     requested with, at most once) and leaves the live heap h'.
   * [fails k]: the k-th allocation call (alloc or realloc, counted from 0 over the
     whole run) returns null.
   * std operations are SPECIFIED oracles (what liballoc 1.95 does towards the
     allocator), written as Gallina definitions and exercised by the
     correspondence; they are not verified.  Zero-sized layouts never reach the
     allocator in std: RawVec and Box test the layout size first.
   * Layout of GenericArray<T, N> is (N * size T, align T): property C01. *)
From GA Require Import Base.
Local Open Scope Z_scope.

(* an element type, as far as the allocator is concerned *)
Record elt : Type := mkElt { esz : Z; eal : Z }.
Definition elt_ok (T : elt) : Prop := 0 <= esz T /\ 0 < eal T.

(* size of [T; n], of GenericArray<T, n> (C01) and of the buffer of a Vec of capacity n *)
Definition bytes (T : elt) (n : Z) : Z := n * esz T.

Inductive aev : Type :=
| EAlloc (b : nat) (sz al : Z)               (* GlobalAlloc::alloc(sz, al) returned block b *)
| EDealloc (b : nat) (sz al : Z)             (* GlobalAlloc::dealloc(b, (sz, al)) *)
| ERealloc (b : nat) (osz al nsz : Z) (b' : nat) (* realloc(b, (osz, al), nsz) returned b' (b is gone) *)
| EAllocFail (sz al : Z)                     (* an allocation call returned null *)
| ENullDeref.                                (* the code formed a reference into the null block *)

(* live blocks *)
Definition heap : Type := list (nat * (Z * Z)).

Fixpoint hfind (b : nat) (h : heap) : option (Z * Z) :=
  match h with
  | [] => None
  | (b', l) :: r => if Nat.eqb b b' then Some l else hfind b r
  end.

Fixpoint hdel (b : nat) (h : heap) : heap :=
  match h with
  | [] => []
  | (b', l) :: r => if Nat.eqb b b' then r else (b', l) :: hdel b r
  end.

(* the rules: every request has a non-zero size; a release names a live block and
   the size and alignment it was requested with (and removes it: at most once);
   nothing touches the null block *)
Fixpoint valid (h : heap) (t : list aev) (h' : heap) : Prop :=
  match t with
  | [] => h' = h
  | EAlloc b sz al :: r => 0 < sz /\ hfind b h = None /\ valid ((b, (sz, al)) :: h) r h'
  | EDealloc b sz al :: r => hfind b h = Some (sz, al) /\ valid (hdel b h) r h'
  | ERealloc b osz al nsz b' :: r =>
    hfind b h = Some (osz, al) /\ 0 < nsz /\ hfind b' (hdel b h) = None /\
    valid ((b', (nsz, al)) :: hdel b h) r h'
  | EAllocFail sz al :: r => 0 < sz /\ valid h r h'
  | ENullDeref :: _ => False
  end.

(* ---------------------------------------------------------------- the run state *)
Record ast : Type := mkAst {
  next : nat;            (* next fresh block identity *)
  nallocs : nat;         (* allocation calls so far (index into the failure oracle) *)
  atr : list aev;        (* allocator trace *)
  etr : list ev          (* element ownership events *)
}.

Definition init (n k : nat) : ast := mkAst n k [] [].

(* how a modelled computation ends *)
Inductive mres (A : Type) : Type :=
| MRet (a : A)
| MPanic            (* unwinding from caller-supplied code *)
| MLenPanic         (* the crate's own length panic (from_iter_length_fail, unwrap of LengthError) *)
| MAllocErr         (* alloc::handle_alloc_error: message and abort, the standard path *)
| MUB.              (* undefined behaviour: null dereference, release of a block that is not there *)
Arguments MRet {A} a.
Arguments MPanic {A}.
Arguments MLenPanic {A}.
Arguments MAllocErr {A}.
Arguments MUB {A}.

Definition M (A : Type) : Type := ast -> mres A * ast.

Definition ret {A} (a : A) : M A := fun st => (MRet a, st).
Definition stop {A} (r : mres A) : M A := fun st => (r, st).
Definition bind {A B} (m : M A) (k : A -> M B) : M B :=
  fun st =>
    match m st with
    | (MRet a, st') => k a st'
    | (MPanic, st') => (MPanic, st')
    | (MLenPanic, st') => (MLenPanic, st')
    | (MAllocErr, st') => (MAllocErr, st')
    | (MUB, st') => (MUB, st')
    end.
Notation "x <- m ;; k" := (bind m (fun x => k)) (at level 61, m at next level, right associativity).
Notation "m ;;; k" := (bind m (fun _ => k)) (at level 61, right associativity).

Definition emitA (e : aev) : M unit :=
  fun st => (MRet tt, mkAst (next st) (nallocs st) (atr st ++ [e]) (etr st)).
Definition emitE (l : list ev) : M unit :=
  fun st => (MRet tt, mkAst (next st) (nallocs st) (atr st) (etr st ++ l)).

Section Std.
Variable fails : nat -> bool.

(* GlobalAlloc::alloc as called by the crate directly (alloc::alloc::alloc): whatever the
   layout, null on failure *)
Definition raw_alloc (sz al : Z) : M (option nat) :=
  fun st =>
    if fails (nallocs st) then
      (MRet None, mkAst (next st) (S (nallocs st)) (atr st ++ [EAllocFail sz al]) (etr st))
    else
      (MRet (Some (next st)),
       mkAst (S (next st)) (S (nallocs st)) (atr st ++ [EAlloc (next st) sz al]) (etr st)).

(* how Box / RawVec obtain memory: nothing is requested for a zero-sized layout (the
   pointer is dangling: no block); a null answer goes to handle_alloc_error *)
Definition std_alloc (sz al : Z) : M (option nat) :=
  if sz =? 0 then ret None
  else p <- raw_alloc sz al ;; match p with Some b => ret (Some b) | None => stop MAllocErr end.

(* how Box / RawVec give memory back: only when the layout is not zero-sized *)
Definition std_free (blk : option nat) (sz al : Z) : M unit :=
  if sz =? 0 then ret tt
  else match blk with Some b => emitA (EDealloc b sz al) | None => stop MUB end.

(* RawVec::shrink to a non-zero size: GlobalAlloc::realloc, which may move the block *)
Definition std_realloc (blk : option nat) (osz al nsz : Z) : M (option nat) :=
  match blk with
  | None => stop MUB
  | Some b =>
    fun st =>
      if fails (nallocs st) then
        (MAllocErr, mkAst (next st) (S (nallocs st)) (atr st ++ [EAllocFail nsz al]) (etr st))
      else
        (MRet (Some (next st)),
         mkAst (S (next st)) (S (nallocs st)) (atr st ++ [ERealloc b osz al nsz (next st)]) (etr st))
  end.

(* ---------------------------------------------------------------- Vec<T>, Box<[T]> *)
(* Vec<T>: buffer block (None: dangling), capacity, elements in order.
   Box<[T]> and Box<GenericArray<T, N>>: block and elements. *)
Record hvec : Type := mkVec { vblk : option nat; vcap : Z; vel : list Z }.
Record hbox : Type := mkBox { bblk : option nat; bel : list Z }.
Definition vlen (v : hvec) : Z := zlen (vel v).
Definition blen (b : hbox) : Z := zlen (bel b).

(* Vec::with_capacity(c) *)
Definition vec_with_capacity (T : elt) (c : Z) : M hvec :=
  b <- std_alloc (bytes T c) (eal T) ;; ret (mkVec b c []).

(* dropping a Vec / a boxed slice: the elements, then the buffer *)
Definition vec_drop (T : elt) (v : hvec) : M unit :=
  emitE (map EDrop (vel v)) ;;; std_free (vblk v) (bytes T (vcap v)) (eal T).
Definition box_drop (T : elt) (b : hbox) : M unit :=
  emitE (map EDrop (bel b)) ;;; std_free (bblk b) (bytes T (blen b)) (eal T).
(* dropping a Box<GenericArray<T, N>>: the layout comes from the TYPE *)
Definition arr_drop (T : elt) (N : nat) (b : hbox) : M unit :=
  emitE (map EDrop (bel b)) ;;; std_free (bblk b) (bytes T (Z.of_nat N)) (eal T).

(* Vec::into_boxed_slice: shrink_to_fit when len < cap -- nothing for a buffer of zero
   bytes, a release when the new size is zero, a realloc otherwise *)
Definition vec_into_boxed_slice (T : elt) (v : hvec) : M hbox :=
  if (vlen v <? vcap v) && negb (bytes T (vcap v) =? 0) then
    if vlen v =? 0 then
      std_free (vblk v) (bytes T (vcap v)) (eal T) ;;; ret (mkBox None (vel v))
    else
      b <- std_realloc (vblk v) (bytes T (vcap v)) (eal T) (bytes T (vlen v)) ;;
      ret (mkBox b (vel v))
  else ret (mkBox (vblk v) (vel v)).

(* Vec::from(Box<[T]>): keeps the block, capacity = length *)
Definition vec_from_box (b : hbox) : hvec := mkVec (bblk b) (blen b) (bel b).

(* Box::new(value) for a value of n elements of T *)
Definition box_new (T : elt) (l : list Z) : M hbox :=
  b <- std_alloc (bytes T (zlen l)) (eal T) ;; ret (mkBox b l).

(* Box::<GenericArray<MaybeUninit<T>, N>>::new_uninit() *)
Definition box_new_uninit (T : elt) (N : nat) : M (option nat) :=
  std_alloc (bytes T (Z.of_nat N)) (eal T).

(* vec![a, b, c]: Vec::new() for the empty list, otherwise a boxed array turned into a Vec *)
Definition vec_lit (T : elt) (l : list Z) : M hvec :=
  match l with
  | [] => ret (mkVec None 0 [])
  | _ => b <- box_new T l ;; ret (vec_from_box b)
  end.

(* vec![x; n] = from_elem: with_capacity(n), n - 1 clones then x itself; x dropped when n = 0 *)
Definition vec_from_elem (T : elt) (x : Z) (n : nat) (cl : nat -> Z) : M hvec :=
  v <- vec_with_capacity T (Z.of_nat n) ;;
  match n with
  | O => emitE [EDrop x] ;;; ret v
  | S m => ret (mkVec (vblk v) (vcap v) (map cl (seq 0 m) ++ [x]))
  end.

End Std.

(* Corr.v -- dispatch: property number, encoded case -> encoded observables. *)
From GA Require Import Base Codec CorrC06.
Local Open Scope Z_scope.

Definition run_case (prop : Z) (case : list Z) : list Z :=
  match prop with
  | 6 => run_c06 case
  | _ => [-1]
  end.
